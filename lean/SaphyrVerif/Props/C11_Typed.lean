import SaphyrVerif.Props.C11
import SaphyrVerif.Lemmas.C11_TypedIter
import SaphyrVerif.Lemmas.C11_TypedEnds
import SaphyrVerif.Props.C05
/-!
# C11 at the level of typed values — a multi-document stream is the list of its documents, each on its own

`Props/C11.lean` shows at the PUMP level that the events of a stream of documents are the concatenation of
the per-document expansions, each from an empty anchor table.  Here the same is shown for the TYPED entry
points `from_multiple*` (`Entry.fromMultiple`) and the streaming iterator `read*` (`Entry.readIter`):

* `perDoc cfg ty evs` is the specification of ONE document on its own: the typed deserializer on a replay
  cursor over the (expansion) events `evs` of that document and nothing else.
* (1) `from_multiple_eq_map` / `from_multiple_error`: the batch entry point returns the values of the
  documents that `perDoc` reads completely, in order (null-like root scalars are skipped), and is an error as
  soon as `perDoc` of some document fails — or succeeds WITHOUT consuming the whole document
  (`from_multiple_leftover_is_error`: the left-over events are met by the loop as if a document started
  there; strictly inside a document this can only end in an error); `from_multiple_ok_iff` puts both together;
  `perDoc_clean_interp`: the values are the interpretations `Spec.interp` of the expansion trees (C05).
* (2) `iter_eq_spec_partial` / `iter_isolated_partial`: the iterator yields, document by document, what
  `perDoc` says (a failing document: exactly one error item, then the iterator resumes — through
  `skip_to_next_document` — with the next document); hence the items contributed by a document inside a
  stream are those of the one-document stream of that document; `iter_prefix_unaffected`: the items of a
  good prefix do not depend on the later documents, whatever these are.
* (3) anchors are not visible across documents at the typed level: for documents that have an expansion this
  is contained in (1) and (2), because `perDoc` only sees the expansion from the EMPTY anchor table.  A document
  that aliases an anchor defined only in an earlier document has no expansion: `from_multiple` then is an error
  for every type (`anchors_not_visible_across_docs_batch`, via `from_multiple_ok_pump_ends`: a successful batch
  run has pulled the pump to the end of the input without an error); for the iterator see
  `anchors_not_visible_across_docs_typed_partial` (the alias is the root of the document) and the
  counter-example to the statement as given (`…_counterexample`: the later documents are lost).

The key lemma (`Lemmas/C11_Typed*.lean`, `Lemmas.Frame.frA`) is a *frame* property of the typed
deserializer: run on the replay cursor over the events of one document it never touches its cursor outside
these events (the nesting-depth invariant of `Lemmas/C05_Weak*`), so it cannot tell that cursor from the live
cursor in the middle of a stream, whatever follows the document.  Results are compared as in
`Props/E2E.lean`: same value, or both fail (error payloads may differ in their locations).
-/
namespace SaphyrVerif.Props.C11
open SaphyrVerif SaphyrVerif.Scalars SaphyrVerif.Pump SaphyrVerif.Spec SaphyrVerif.De SaphyrVerif.Entry
open SaphyrVerif.Lemmas.C11T (DocRes DocOk DocsOk sameItem sameItems)

/-! ### specification -/

/-- one document with (expansion) events `evs`, on its own (see `Lemmas.C11T.perDoc`): `skipped` (null-like
root scalar), `clean v` (value from exactly the events of the document), `failed`, or `leftover v`
(success before the end of the document) -/
abbrev perDoc (cfg : Cfg) (ty : Ty) (evs : List Ev) : DocRes := Lemmas.C11T.perDoc cfg ty evs

/-- `perDoc` unfolded -/
theorem perDoc_def (cfg : Cfg) (ty : Ty) (evs : List Ev) :
    perDoc cfg ty evs =
      (let run : DocRes :=
        match deser (fuelFor 100000) cfg ty false false (.replay evs 0 none) with
        | .err _ _ => .failed
        | .ok v c =>
          match c.peek with
          | .ok none _ => .clean v
          | _ => .leftover v
      match evs.head? with
      | some (.scalar v _ _ st _ _) => if scalarIsNullish v st then .skipped else run
      | _ => run) := rfl

/-- the (expansion) events of each document, each from the EMPTY anchor table -/
def expandEach : List (LNode × Bool × Loc × Loc) → Except ExpErr (List (List Ev))
  | [] => .ok []
  | (t, _, _, _) :: ds =>
    match expand [] [] t with
    | .error e => .error e
    | .ok r =>
      match expandEach ds with
      | .error e => .error e
      | .ok rest => .ok (r.evs :: rest)

/-- `expandEach` is `expandDocs` before concatenation -/
theorem expandDocs_of_expandEach (ds : List (LNode × Bool × Loc × Loc)) (evss : List (List Ev))
    (h : expandEach ds = .ok evss) : expandDocs ds = .ok evss.flatten := by
  induction ds generalizing evss with
  | nil => simp only [expandEach, Except.ok.injEq] at h; subst h; rfl
  | cons d ds ih =>
    obtain ⟨t, ex, ls, le⟩ := d
    simp only [expandEach, expandDocs] at h ⊢
    cases h1 : expand [] [] t with
    | error e => rw [h1] at h; cases h
    | ok r =>
      rw [h1] at h
      cases h2 : expandEach ds with
      | error e => rw [h2] at h; cases h
      | ok rest =>
        rw [h2] at h
        simp only [Except.ok.injEq] at h
        subst h
        simp [ih rest h2]

/-- the values of the documents that are read completely, in order -/
def valuesOf (cfg : Cfg) (ty : Ty) (evss : List (List Ev)) : List Val :=
  evss.filterMap fun evs => match perDoc cfg ty evs with
    | .clean v => some v
    | _ => none

/-- the items of the iterator, document by document: nothing for a skipped document, the value of a document
read completely, ONE error item for a document whose deserialization fails (its payload is not specified
here: `default`) -/
def itemsOf' (cfg : Cfg) (ty : Ty) (evss : List (List Ev)) : List (Except DErr Val) :=
  Lemmas.C11T.specItems cfg ty evss

theorem valuesOf_eq (cfg : Cfg) (ty : Ty) (evss : List (List Ev)) :
    valuesOf cfg ty evss = Lemmas.C11T.docVals cfg ty evss := by
  induction evss with
  | nil => rfl
  | cons evs rest ih =>
    simp only [valuesOf, perDoc, List.filterMap_cons, Lemmas.C11T.docVals] at ih ⊢
    cases Lemmas.C11T.perDoc cfg ty evs <;> simp [ih]

/-- the hypotheses of `docs_pump_eq_concat`, per document -/
theorem docsOk_of_hyps (L : AliasLimits) (ds : List (LNode × Bool × Loc × Loc)) (evss : List (List Ev))
    (hL : Unlimited L ds) (hnf : ∀ d ∈ ds, Lemmas.C02.noFoldedIndent d.1 = true)
    (hexp : expandEach ds = .ok evss) : DocsOk L ds evss := by
  induction ds generalizing evss with
  | nil => simp only [expandEach, Except.ok.injEq] at hexp; subst hexp; trivial
  | cons d ds ih =>
    obtain ⟨t, ex, ls, le⟩ := d
    simp only [expandEach] at hexp
    cases h1 : expand [] [] t with
    | error e => rw [h1] at hexp; cases hexp
    | ok r =>
      rw [h1] at hexp
      cases h2 : expandEach ds with
      | error e => rw [h2] at hexp; cases hexp
      | ok rest =>
        rw [h2] at hexp
        simp only [Except.ok.injEq] at hexp
        subst hexp
        obtain ⟨hL1, hL2⟩ := hL
        obtain ⟨hw1, hw2⟩ := hL2 (t, ex, ls, le) (List.mem_cons_self ..)
        refine ⟨⟨hnf (t, ex, ls, le) (List.mem_cons_self ..), hL1, ⟨r, h1, rfl, hw1 r h1⟩, hw2⟩, ?_⟩
        exact ih rest ⟨hL1, fun d hd => hL2 d (List.mem_cons_of_mem _ hd)⟩
          (fun d hd => hnf d (List.mem_cons_of_mem _ hd)) h2

theorem docsStream_eq (ds : List (LNode × Bool × Loc × Loc)) : docsStream ds = Lemmas.C11.docsItems ds := by
  induction ds with
  | nil => rfl
  | cons d ds ih => obtain ⟨t, ex, ls, le⟩ := d; simp only [docsStream, Lemmas.C11.docsItems, ih]

theorem docsStream_length (ds : List (LNode × Bool × Loc × Loc)) : 2 * ds.length ≤ (docsStream ds).length := by
  induction ds with
  | nil => simp
  | cons d ds ih =>
    obtain ⟨t, ex, ls, le⟩ := d
    simp only [docsStream, List.length_append, List.length_cons, List.length_nil]
    omega

theorem docsItems_append (a b : List (LNode × Bool × Loc × Loc)) :
    Lemmas.C11.docsItems (a ++ b) = Lemmas.C11.docsItems a ++ Lemmas.C11.docsItems b := by
  induction a with
  | nil => rfl
  | cons d a ih => obtain ⟨t, ex, ls, le⟩ := d; simp [Lemmas.C11.docsItems, ih]

/-- the pump state after the stream-start marker -/
theorem start_boundary (L : AliasLimits) (l0 : Loc) (X : List RawItem) :
    ∃ q, Lemmas.C11.Boundary L q ∧ q.look = none ∧
      Cur.peek (.live (initPump L) (.ev .streamStart l0 :: X)) = Cur.peek (.live q X) := by
  have hb : Lemmas.C11.Boundary L (initPump L) := ⟨rfl, rfl, rfl, rfl, rfl, rfl, rfl, rfl, rfl⟩
  obtain ⟨hstep, hb'⟩ := Lemmas.C11.step_streamStart hb l0 X
  exact ⟨_, hb', rfl, Lemmas.C11T.peek_congr rfl rfl hstep⟩

/-! ### (1) the batch entry point -/

/-- (T) from_multiple_eq_map: for a stream of documents under the hypotheses of `docs_pump_eq_concat`
(generous per-document alias limits, no misplaced folded scalar, every document expands — from the EMPTY
anchor table) and no budget: if every document, ON ITS OWN (`perDoc`), is skipped (null-like root scalar) or
read completely, `from_multiple` returns exactly the values of the documents read completely, in order. -/
theorem from_multiple_eq_map (L : AliasLimits) (ds : List (LNode × Bool × Loc × Loc)) (l0 l1 : Loc)
    (evss : List (List Ev)) (cfg : Cfg) (ty : Ty)
    (hL : Unlimited L ds) (hnf : ∀ d ∈ ds, Lemmas.C02.noFoldedIndent d.1 = true)
    (hexp : expandEach ds = .ok evss)
    (hfine : ∀ evs ∈ evss, perDoc cfg ty evs = .skipped ∨ ∃ v, perDoc cfg ty evs = .clean v) :
    fromMultiple cfg ty (initPump L) (streamOf ds l0 l1) = .ok (valuesOf cfg ty evss) := by
  by_cases hne : ds = []
  · subst hne
    simp only [expandEach, Except.ok.injEq] at hexp
    subst hexp
    rfl
  have hok := docsOk_of_hyps L ds evss hL hnf hexp
  have hitems : streamOf ds l0 l1 = .ev .streamStart l0 :: (Lemmas.C11.docsItems ds ++ [.ev .streamEnd l1]) := by
    simp [streamOf, docsStream_eq]
  obtain ⟨q, hq, hl, hpk⟩ := start_boundary L l0 (Lemmas.C11.docsItems ds ++ [.ev .streamEnd l1])
  unfold fromMultiple
  rw [hitems, Lemmas.C11T.multiLoop_congr cfg ty hpk, valuesOf_eq]
  have hlen : ds.length + 1 ≤ (RawItem.ev .streamStart l0 :: (Lemmas.C11.docsItems ds ++ [.ev .streamEnd l1])).length + 10 := by
    have := docsStream_length ds
    rw [docsStream_eq] at this
    simp only [List.length_cons, List.length_append, List.length_nil]
    omega
  have := Lemmas.C11T.multi_docs_ok l1 cfg ty ds evss q _ [] hok hq hl (fun h => absurd h hne)
    (fun evs he => by
      rcases hfine evs he with h | ⟨v, h⟩ <;> (show (perDoc cfg ty evs).fine = true) <;> rw [h] <;> rfl) hlen
  simpa using this

/-- (T) from_multiple is an error as soon as some document, on its own, fails or is not consumed completely
(same hypotheses; whatever the other documents are). -/
theorem from_multiple_error (L : AliasLimits) (ds : List (LNode × Bool × Loc × Loc)) (l0 l1 : Loc)
    (evss : List (List Ev)) (cfg : Cfg) (ty : Ty)
    (hL : Unlimited L ds) (hnf : ∀ d ∈ ds, Lemmas.C02.noFoldedIndent d.1 = true)
    (hexp : expandEach ds = .ok evss)
    (hbad : ∃ evs ∈ evss, perDoc cfg ty evs = .failed ∨ ∃ v, perDoc cfg ty evs = .leftover v) :
    ∃ e, fromMultiple cfg ty (initPump L) (streamOf ds l0 l1) = .error e := by
  have hok := docsOk_of_hyps L ds evss hL hnf hexp
  have hitems : streamOf ds l0 l1 = .ev .streamStart l0 :: (Lemmas.C11.docsItems ds ++ [.ev .streamEnd l1]) := by
    simp [streamOf, docsStream_eq]
  obtain ⟨q, hq, hl, hpk⟩ := start_boundary L l0 (Lemmas.C11.docsItems ds ++ [.ev .streamEnd l1])
  unfold fromMultiple
  rw [hitems, Lemmas.C11T.multiLoop_congr cfg ty hpk]
  apply Lemmas.C11T.multi_docs_err l1 cfg ty ds evss q _ [] hok hq hl
  obtain ⟨evs, he, h⟩ := hbad
  refine ⟨evs, he, ?_⟩
  rcases h with h | ⟨v, h⟩ <;> (show (perDoc cfg ty evs).fine = false) <;> rw [h] <;> rfl

/-- (T) what happens when the deserialization of a document succeeds WITHOUT consuming the whole document
(a tuple target on a longer sequence, …): the left-over events are met by the loop as if a document started
there, and the result of `from_multiple` is an error — never the list with the truncated value. -/
theorem from_multiple_leftover_is_error (L : AliasLimits) (ds : List (LNode × Bool × Loc × Loc)) (l0 l1 : Loc)
    (evss : List (List Ev)) (cfg : Cfg) (ty : Ty)
    (hL : Unlimited L ds) (hnf : ∀ d ∈ ds, Lemmas.C02.noFoldedIndent d.1 = true)
    (hexp : expandEach ds = .ok evss) (evs : List Ev) (v : Val) (he : evs ∈ evss)
    (hleft : perDoc cfg ty evs = .leftover v) :
    ∃ e, fromMultiple cfg ty (initPump L) (streamOf ds l0 l1) = .error e :=
  from_multiple_error L ds l0 l1 evss cfg ty hL hnf hexp ⟨evs, he, .inr ⟨v, hleft⟩⟩

/-- (T) under the hypotheses of `from_multiple_eq_map`, `from_multiple` succeeds exactly when every document,
on its own, is skipped or read completely. -/
theorem from_multiple_ok_iff (L : AliasLimits) (ds : List (LNode × Bool × Loc × Loc)) (l0 l1 : Loc)
    (evss : List (List Ev)) (cfg : Cfg) (ty : Ty)
    (hL : Unlimited L ds) (hnf : ∀ d ∈ ds, Lemmas.C02.noFoldedIndent d.1 = true)
    (hexp : expandEach ds = .ok evss) :
    (∃ vs, fromMultiple cfg ty (initPump L) (streamOf ds l0 l1) = .ok vs) ↔
      ∀ evs ∈ evss, perDoc cfg ty evs = .skipped ∨ ∃ v, perDoc cfg ty evs = .clean v := by
  constructor
  · rintro ⟨vs, hvs⟩ evs he
    cases hp : perDoc cfg ty evs with
    | skipped => exact .inl rfl
    | clean v => exact .inr ⟨v, rfl⟩
    | failed =>
      obtain ⟨e, he'⟩ := from_multiple_error L ds l0 l1 evss cfg ty hL hnf hexp ⟨evs, he, .inl hp⟩
      rw [he'] at hvs; cases hvs
    | leftover v =>
      obtain ⟨e, he'⟩ := from_multiple_error L ds l0 l1 evss cfg ty hL hnf hexp ⟨evs, he, .inr ⟨v, hp⟩⟩
      rw [he'] at hvs; cases hvs
  · intro h
    exact ⟨_, from_multiple_eq_map L ds l0 l1 evss cfg ty hL hnf hexp h⟩

/-- a document read completely is accepted by the single-document check of `Props/C05.lean` on its events -/
theorem perDoc_clean_deserTop (cfg : Cfg) (ty : Ty) (evs : List Ev) (v : Val) (h : perDoc cfg ty evs = .clean v) :
    Props.C05.deserTop (fuelFor 100000) cfg ty evs = some v := by
  have hrun : (match deser (fuelFor 100000) cfg ty false false (.replay evs 0 none) with
      | .err _ _ => DocRes.failed
      | .ok v c => match c.peek with
        | .ok none _ => DocRes.clean v
        | _ => DocRes.leftover v) = .clean v := by
    simp only [perDoc, Lemmas.C11T.perDoc] at h
    split at h
    · split at h
      · cases h
      · exact h
    · exact h
  unfold Props.C05.deserTop
  cases hd : deser (fuelFor 100000) cfg ty false false (.replay evs 0 none) with
  | err e c => rw [hd] at hrun; cases hrun
  | ok w c =>
    rw [hd] at hrun
    simp only at hrun ⊢
    split at hrun
    · rename_i c2 hc2
      cases hrun
      simp [hc2]
    · cases hrun

/-- (T) the values `from_multiple` / the iterator return are the position-faithful interpretations
(`Spec.interp`, `Props.C05.deser_top_sound`) of the trees of the per-document expansions: a document read
completely with value `v`, whose expansion is the flattening of the tree `n` (`Props.E2E.expansion_tree`), has
`interp cfg ty n = some v` (under the hypothesis `noKemnKeys` of the C05 theorems). -/
theorem perDoc_clean_interp (cfg : Cfg) (ty : Ty) (n : ENode) (v : Val)
    (hk : Props.C05.noKemnKeys n = true) (h : perDoc cfg ty (eflatten n) = .clean v) :
    interp cfg ty n = some v :=
  Props.C05.deser_top_sound cfg ty n hk _ v (perDoc_clean_deserTop cfg ty _ v h)

/-! ### (2) the streaming iterator -/

/-- the full statement of `iter_isolated`: also for documents whose deserialization stops before the end of
the document.  NOT proved: such a document contributes several items (its left-over events are read as
further "documents" until an error item is produced and the rest is skipped — `from_multiple_leftover_is_error`
is the batch counterpart); to compare these items with those of the one-document stream one needs, besides the
frame lemma, a bound on the number of rounds of the iterator inside a document (in the model the rounds are
limited by the number of parser items + 10, while a document delivers more events than it has parser items as
soon as it contains aliases). -/
def iter_isolated_Full : Prop :=
  ∀ (L : AliasLimits) (ds : List (LNode × Bool × Loc × Loc)) (l0 l1 : Loc) (evss : List (List Ev)) (cfg : Cfg) (ty : Ty),
    Unlimited L ds → (∀ d ∈ ds, Lemmas.C02.noFoldedIndent d.1 = true) → expandEach ds = .ok evss →
    sameItems (readIter cfg ty (initPump L) (streamOf ds l0 l1))
      (ds.map fun d => readIter cfg ty (initPump L) (streamOf [d] l0 l1)).flatten

/-- (T, partial: no document is left over) the iterator yields, document by document and in order, what each
document contributes ON ITS OWN (`perDoc`): nothing for a null-like root scalar, the value of a document read
completely, exactly ONE error item for a document whose deserialization fails — after which the iterator
resumes with the next document.  Items are compared by `sameItems`: equal values; of an error item only
the fact that it is an error (the payload of the error of a failing document is produced on the live cursor:
its kind / location can depend on `last_location` / `reference_location` of the pump, which the replay cursor of
`perDoc` does not reproduce — exactly as in `Props.E2E.typed_alias_transparent`). -/
theorem iter_eq_spec_partial (L : AliasLimits) (ds : List (LNode × Bool × Loc × Loc)) (l0 l1 : Loc)
    (evss : List (List Ev)) (cfg : Cfg) (ty : Ty)
    (hL : Unlimited L ds) (hnf : ∀ d ∈ ds, Lemmas.C02.noFoldedIndent d.1 = true)
    (hexp : expandEach ds = .ok evss)
    (hnl : ∀ evs ∈ evss, ∀ v, perDoc cfg ty evs ≠ .leftover v) :
    sameItems (readIter cfg ty (initPump L) (streamOf ds l0 l1)) (itemsOf' cfg ty evss) := by
  by_cases hne : ds = []
  · subst hne
    simp only [expandEach, Except.ok.injEq] at hexp
    subst hexp
    have : readIter cfg ty (initPump L) (streamOf [] l0 l1) = [] := by rfl
    rw [this]
    exact .nil
  have hok := docsOk_of_hyps L ds evss hL hnf hexp
  have hitems : streamOf ds l0 l1 = .ev .streamStart l0 :: (Lemmas.C11.docsItems ds ++ [.ev .streamEnd l1]) := by
    simp [streamOf, docsStream_eq]
  obtain ⟨q, hq, hl, hpk⟩ := start_boundary L l0 (Lemmas.C11.docsItems ds ++ [.ev .streamEnd l1])
  unfold readIter
  rw [hitems, Lemmas.C11T.iterLoop_congr cfg ty hpk]
  have hlen : ds.length + 1 ≤ (RawItem.ev .streamStart l0 :: (Lemmas.C11.docsItems ds ++ [.ev .streamEnd l1])).length + 10 := by
    have := docsStream_length ds
    rw [docsStream_eq] at this
    simp only [List.length_cons, List.length_append, List.length_nil]
    omega
  obtain ⟨items, hi, hsame⟩ := Lemmas.C11T.iter_docs l1 cfg ty ds evss q _ [] hok hq hl (fun h => absurd h hne)
    (fun evs he => by
      have := hnl evs he
      show (perDoc cfg ty evs).isLeftover = false
      cases hp : perDoc cfg ty evs with
      | leftover v => exact absurd hp (this v)
      | _ => rfl) hlen
  rw [hi]
  simpa [itemsOf'] using hsame

/-- (T, partial: no document is left over) iter_isolated — "each on its own", including recovery after
errors: the items of a stream are the concatenation, over its documents in order, of the items of the
ONE-document streams (so for `ds = pre ++ [d] ++ post` the items contributed by `d` are those of the stream
`[d]`, whatever `pre` and `post` are); compared by `sameItems` (see `iter_eq_spec_partial`). -/
theorem iter_isolated_partial (L : AliasLimits) (ds : List (LNode × Bool × Loc × Loc)) (l0 l1 : Loc)
    (evss : List (List Ev)) (cfg : Cfg) (ty : Ty)
    (hL : Unlimited L ds) (hnf : ∀ d ∈ ds, Lemmas.C02.noFoldedIndent d.1 = true)
    (hexp : expandEach ds = .ok evss)
    (hnl : ∀ evs ∈ evss, ∀ v, perDoc cfg ty evs ≠ .leftover v) :
    sameItems (readIter cfg ty (initPump L) (streamOf ds l0 l1))
      (ds.map fun d => readIter cfg ty (initPump L) (streamOf [d] l0 l1)).flatten := by
  refine (iter_eq_spec_partial L ds l0 l1 evss cfg ty hL hnf hexp hnl).trans ?_
  -- every one-document stream yields the items of its document
  induction ds generalizing evss with
  | nil =>
    simp only [expandEach, Except.ok.injEq] at hexp
    subst hexp
    exact .nil
  | cons d ds ih =>
    obtain ⟨t, ex, ls, le⟩ := d
    simp only [expandEach] at hexp
    cases h1 : expand [] [] t with
    | error e => rw [h1] at hexp; cases hexp
    | ok r =>
      rw [h1] at hexp
      cases h2 : expandEach ds with
      | error e => rw [h2] at hexp; cases hexp
      | ok rest =>
        rw [h2] at hexp
        simp only [Except.ok.injEq] at hexp
        subst hexp
        obtain ⟨hL1, hL2⟩ := hL
        have hone := iter_eq_spec_partial L [(t, ex, ls, le)] l0 l1 [r.evs] cfg ty
          ⟨hL1, fun d hd => hL2 d (by simp only [List.mem_singleton] at hd; subst hd; exact List.mem_cons_self ..)⟩
          (fun d hd => hnf d (by simp only [List.mem_singleton] at hd; subst hd; exact List.mem_cons_self ..))
          (by simp [expandEach, h1])
          (fun evs he => hnl evs (by simp only [List.mem_singleton] at he; subst he; exact List.mem_cons_self ..))
        have hrest := ih rest ⟨hL1, fun d hd => hL2 d (List.mem_cons_of_mem _ hd)⟩
          (fun d hd => hnf d (List.mem_cons_of_mem _ hd)) h2
          (fun evs he => hnl evs (List.mem_cons_of_mem _ he))
        simp only [List.map_cons, List.flatten_cons]
        have hsplit : itemsOf' cfg ty (r.evs :: rest) = itemsOf' cfg ty [r.evs] ++ itemsOf' cfg ty rest := by
          simp [itemsOf', Lemmas.C11T.specItems]
        rw [hsplit]
        exact Lemmas.C11T.sameItems.append hone.symm hrest


/-- (T) what the documents of a good prefix contribute does not depend on what FOLLOWS them — at all: for
ANY further documents `d :: post` (arbitrary trees: they need not have an expansion, may exceed the limits, …)
the iterator first yields the items of the prefix `pre`, document by document as `perDoc` says, and only then
whatever the rest of the stream gives. -/
theorem iter_prefix_unaffected (L : AliasLimits) (pre : List (LNode × Bool × Loc × Loc))
    (d : LNode × Bool × Loc × Loc) (post : List (LNode × Bool × Loc × Loc)) (l0 l1 : Loc)
    (evssPre : List (List Ev)) (cfg : Cfg) (ty : Ty)
    (hL : Unlimited L pre) (hnf : ∀ d ∈ pre, Lemmas.C02.noFoldedIndent d.1 = true)
    (hexp : expandEach pre = .ok evssPre)
    (hnl : ∀ evs ∈ evssPre, ∀ v, perDoc cfg ty evs ≠ .leftover v) :
    ∃ items tail, readIter cfg ty (initPump L) (streamOf (pre ++ d :: post) l0 l1) = items ++ tail ∧
      sameItems items (itemsOf' cfg ty evssPre) := by
  obtain ⟨t, ex, ls, le⟩ := d
  have hok := docsOk_of_hyps L pre evssPre hL hnf hexp
  have hitems : streamOf (pre ++ (t, ex, ls, le) :: post) l0 l1 =
      .ev .streamStart l0 :: (Lemmas.C11.docsItems pre ++ .ev (.docStart ex) ls ::
        (itemsOf t ++ .ev .docEnd le :: (Lemmas.C11.docsItems post ++ [.ev .streamEnd l1]))) := by
    simp [streamOf, docsStream_eq, docsItems_append, Lemmas.C11.docsItems]
  obtain ⟨q, hq, hl, hpk⟩ := start_boundary L l0 (Lemmas.C11.docsItems pre ++ .ev (.docStart ex) ls ::
        (itemsOf t ++ .ev .docEnd le :: (Lemmas.C11.docsItems post ++ [.ev .streamEnd l1])))
  unfold readIter
  rw [hitems, Lemmas.C11T.iterLoop_congr cfg ty hpk]
  generalize hfuel : (RawItem.ev .streamStart l0 :: (Lemmas.C11.docsItems pre ++ .ev (.docStart ex) ls ::
        (itemsOf t ++ .ev .docEnd le :: (Lemmas.C11.docsItems post ++ [.ev .streamEnd l1])))).length + 10 = fuel
  have hlen : pre.length ≤ fuel := by
    have := docsStream_length pre
    rw [docsStream_eq] at this
    rw [← hfuel]
    simp only [List.length_cons, List.length_append, List.length_nil]
    omega
  obtain ⟨items, q2, hq2, hl2, hi, hsame⟩ := Lemmas.C11T.iter_docs_prefix cfg ty ex ls
    (itemsOf t ++ .ev .docEnd le :: (Lemmas.C11.docsItems post ++ [.ev .streamEnd l1]))
    pre evssPre q fuel [] hok hq hl
    (fun evs he => by
      have := hnl evs he
      show (perDoc cfg ty evs).isLeftover = false
      cases hp : perDoc cfg ty evs with
      | leftover v => exact absurd hp (this v)
      | _ => rfl) hlen
  obtain ⟨tail, htail⟩ := Lemmas.C11T.iterLoop_extends cfg ty (fuel - pre.length) q2
    (.ev (.docStart ex) ls :: (itemsOf t ++ .ev .docEnd le :: (Lemmas.C11.docsItems post ++ [.ev .streamEnd l1])))
    ([] ++ items)
  refine ⟨items, tail, ?_, by simpa [itemsOf'] using hsame⟩
  rw [hi, htail]
  simp

/-! ### (3) anchors are not visible across documents, at the level of typed values

For documents whose expansion exists the statement is contained in (1) and (2): `perDoc` is computed from the
expansion of the document from the EMPTY anchor table, so what a document contributes cannot depend on the
anchors of other documents.  A document that aliases an anchor defined only in an EARLIER document has no
expansion (`expand [] [] t = .error (.unknown _)`); at the pump level `alias_to_earlier_document_is_error`
shows that the pump fails there.  At the typed level the corollary as given is FALSE of the iterator
(`anchors_not_visible_across_docs_typed_counterexample`): when the alias is the ROOT of document `k`, the
error is met by the iterator's own `peek` (not inside `T::deserialize`), and `ReadIter::next` then sets
`finished = true` — the error item is yielded, but every LATER document is lost.  What holds
(`anchors_not_visible_across_docs_typed_partial`): the earlier documents contribute exactly what they
contribute on their own, document `k` is the error item `UnknownAnchor` at the alias — never a value built
from the stale anchor —, and the iterator is finished. -/

/-- the corollary as given: document `k` (whose expansion from the empty table fails with an unknown anchor
— the anchor may well be defined in an earlier document) is one error item, every other document's items
are unchanged -/
def anchors_not_visible_across_docs_typed_Full : Prop :=
  ∀ (L : AliasLimits) (pre post : List (LNode × Bool × Loc × Loc)) (dk : LNode × Bool × Loc × Loc) (l0 l1 aloc : Loc)
    (evssPre evssPost : List (List Ev)) (cfg : Cfg) (ty : Ty),
    Unlimited L (pre ++ dk :: post) → (∀ d ∈ pre ++ dk :: post, Lemmas.C02.noFoldedIndent d.1 = true) →
    expandEach pre = .ok evssPre → expandEach post = .ok evssPost →
    expand [] [] dk.1 = .error (.unknown aloc) →
    (∀ evs ∈ evssPre ++ evssPost, ∀ v, perDoc cfg ty evs ≠ .leftover v) →
    ∃ e, sameItems (readIter cfg ty (initPump L) (streamOf (pre ++ dk :: post) l0 l1))
      (itemsOf' cfg ty evssPre ++ [.error e] ++ itemsOf' cfg ty evssPost)

/-- (T, partial: the alias is the root of document `k`) the documents before `k` contribute what they
contribute on their own (`iter_eq_spec_partial`), document `k` is exactly the error item `UnknownAnchor`
located at the alias — whatever the earlier documents defined —, and the iterator is finished. -/
theorem anchors_not_visible_across_docs_typed_partial (L : AliasLimits) (pre post : List (LNode × Bool × Loc × Loc))
    (ex : Bool) (ls le l0 l1 : Loc) (id : Nat) (aloc : Loc) (evssPre : List (List Ev)) (cfg : Cfg) (ty : Ty)
    (hL : Unlimited L pre) (hL1 : 1 ≤ L.maxAliasExpansionsPerAnchor)
    (hnf : ∀ d ∈ pre, Lemmas.C02.noFoldedIndent d.1 = true)
    (hexp : expandEach pre = .ok evssPre)
    (hnl : ∀ evs ∈ evssPre, ∀ v, perDoc cfg ty evs ≠ .leftover v) :
    ∃ items, readIter cfg ty (initPump L) (streamOf (pre ++ (.alias id aloc, ex, ls, le) :: post) l0 l1) =
        items ++ [.error ⟨"UnknownAnchor", aloc, 0⟩] ∧
      sameItems items (itemsOf' cfg ty evssPre) := by
  have hok := docsOk_of_hyps L pre evssPre hL hnf hexp
  have hitems : streamOf (pre ++ (.alias id aloc, ex, ls, le) :: post) l0 l1 =
      .ev .streamStart l0 :: (Lemmas.C11.docsItems pre ++ .ev (.docStart ex) ls ::
        (.ev (.alias id) aloc :: (.ev .docEnd le :: (Lemmas.C11.docsItems post ++ [.ev .streamEnd l1])))) := by
    simp [streamOf, docsStream_eq, docsItems_append, Lemmas.C11.docsItems, itemsOf]
  obtain ⟨q, hq, hl, hpk⟩ := start_boundary L l0 (Lemmas.C11.docsItems pre ++ .ev (.docStart ex) ls ::
        (.ev (.alias id) aloc :: (.ev .docEnd le :: (Lemmas.C11.docsItems post ++ [.ev .streamEnd l1]))))
  unfold readIter
  rw [hitems, Lemmas.C11T.iterLoop_congr cfg ty hpk]
  generalize hfuel : (RawItem.ev .streamStart l0 :: (Lemmas.C11.docsItems pre ++ .ev (.docStart ex) ls ::
        (.ev (.alias id) aloc :: (.ev .docEnd le :: (Lemmas.C11.docsItems post ++ [.ev .streamEnd l1]))))).length + 10 = fuel
  have hlen : pre.length + 1 ≤ fuel := by
    have := docsStream_length pre
    rw [docsStream_eq] at this
    rw [← hfuel]
    simp only [List.length_cons, List.length_append, List.length_nil]
    omega
  obtain ⟨items, q2, hq2, hl2, hi, hsame⟩ := Lemmas.C11T.iter_docs_prefix cfg ty ex ls
    (.ev (.alias id) aloc :: (.ev .docEnd le :: (Lemmas.C11.docsItems post ++ [.ev .streamEnd l1])))
    pre evssPre q fuel [] hok hq hl
    (fun evs he => by
      have := hnl evs he
      show (perDoc cfg ty evs).isLeftover = false
      cases hp : perDoc cfg ty evs with
      | leftover v => exact absurd hp (this v)
      | _ => rfl) (by omega)
  refine ⟨items, ?_, by simpa [itemsOf'] using hsame⟩
  rw [hi]
  obtain ⟨m, hm⟩ : ∃ m, fuel - pre.length = m + 1 := ⟨fuel - pre.length - 1, by omega⟩
  rw [hm, Lemmas.C11T.iter_alias_root hq2 hl2 hL1 hL.1]
  simp

/-- … and `from_multiple` returns that error. -/
theorem anchors_not_visible_across_docs_batch_partial (L : AliasLimits) (pre post : List (LNode × Bool × Loc × Loc))
    (ex : Bool) (ls le l0 l1 : Loc) (id : Nat) (aloc : Loc) (evssPre : List (List Ev)) (cfg : Cfg) (ty : Ty)
    (hL : Unlimited L pre) (hL1 : 1 ≤ L.maxAliasExpansionsPerAnchor)
    (hnf : ∀ d ∈ pre, Lemmas.C02.noFoldedIndent d.1 = true)
    (hexp : expandEach pre = .ok evssPre) :
    ∃ e, fromMultiple cfg ty (initPump L) (streamOf (pre ++ (.alias id aloc, ex, ls, le) :: post) l0 l1) = .error e := by
  have hok := docsOk_of_hyps L pre evssPre hL hnf hexp
  have hitems : streamOf (pre ++ (.alias id aloc, ex, ls, le) :: post) l0 l1 =
      .ev .streamStart l0 :: (Lemmas.C11.docsItems pre ++ .ev (.docStart ex) ls ::
        (.ev (.alias id) aloc :: (.ev .docEnd le :: (Lemmas.C11.docsItems post ++ [.ev .streamEnd l1])))) := by
    simp [streamOf, docsStream_eq, docsItems_append, Lemmas.C11.docsItems, itemsOf]
  obtain ⟨q, hq, hl, hpk⟩ := start_boundary L l0 (Lemmas.C11.docsItems pre ++ .ev (.docStart ex) ls ::
        (.ev (.alias id) aloc :: (.ev .docEnd le :: (Lemmas.C11.docsItems post ++ [.ev .streamEnd l1]))))
  unfold fromMultiple
  rw [hitems, Lemmas.C11T.multiLoop_congr cfg ty hpk]
  refine Lemmas.C11T.multi_docs_prefix_err cfg ty _ ?_ pre evssPre q _ [] hok hq hl
  intro q2 fuel acc hq2 hl2
  cases fuel with
  | zero => exact ⟨_, rfl⟩
  | succ m => exact ⟨_, Lemmas.C11T.multi_alias_root hq2 hl2 hL1 hL.1 ex ls id aloc _ cfg ty m acc⟩


/-- (T) `from_multiple` can only succeed when the event source has been pulled to its end without an error:
for EVERY type, configuration, pump state (empty look-ahead slot) and parser input. -/
theorem from_multiple_ok_pump_ends (cfg : Cfg) (ty : Ty) (p : Pump) (items : List RawItem) (vs : List Val)
    (hl : p.look = none) (h : fromMultiple cfg ty p items = .ok vs) :
    ∃ es pf, Lemmas.C02.Ends p items es pf := by
  unfold fromMultiple at h
  obtain ⟨p', inp', hc, es, pf, he⟩ := Lemmas.C11T.multi_ok_ends cfg ty _ _ _ _ h ⟨p, items, rfl⟩
  cases hc
  rw [Lemmas.C11T.under_of_look_none hl] at he
  exact ⟨es, pf, he⟩

theorem expandDocs_eq_expandAll (ds : List (LNode × Bool × Loc × Loc)) : expandDocs ds = Lemmas.C11.expandAll ds := by
  induction ds with
  | nil => rfl
  | cons d ds ih =>
    obtain ⟨t, ex, ls, le⟩ := d
    simp only [expandDocs, Lemmas.C11.expandAll, ih]
    cases expand [] [] t <;> cases Lemmas.C11.expandAll ds <;> rfl

/-- (T) anchors_not_visible_across_docs for the batch entry point, in full generality: if some document of
the stream has no expansion from the EMPTY anchor table — in particular when it aliases an anchor that is
defined in an earlier document only — `from_multiple` is an error: never a list of values, for every type,
configuration and alias limits, whatever the other documents are. -/
theorem anchors_not_visible_across_docs_batch (L : AliasLimits) (ds : List (LNode × Bool × Loc × Loc)) (l0 l1 : Loc)
    (cfg : Cfg) (ty : Ty) (err : ExpErr) (hexp : expandDocs ds = .error err) :
    ∃ e, fromMultiple cfg ty (initPump L) (streamOf ds l0 l1) = .error e := by
  cases hr : fromMultiple cfg ty (initPump L) (streamOf ds l0 l1) with
  | error e => exact ⟨e, rfl⟩
  | ok vs =>
    exfalso
    obtain ⟨es, pf, hends⟩ := from_multiple_ok_pump_ends cfg ty (initPump L) _ vs rfl hr
    have hne : ds ≠ [] := by
      intro h0
      subst h0
      cases hexp
    rw [expandDocs_eq_expandAll] at hexp
    have hitems : streamOf ds l0 l1 = [.ev .streamStart l0] ++ Lemmas.C11.docsItems ds ++ [.ev .streamEnd l1] := by
      simp [streamOf, docsStream_eq]
    rw [hitems] at hends
    rcases Lemmas.C11.stream_run L l0 l1 ds hne with ⟨evs', q, he, _⟩ | ⟨es', err', q, hstops, _⟩
    · rw [hexp] at he
      cases he
    · have h1 := Lemmas.C02.pumpAll_ends hends
      have h2 := Lemmas.C02.pumpAll_stops hstops
      have := Lemmas.C02.pumpAll_det h1 h2
      simp at this

/-- a stream one of whose documents has no expansion has no `expandDocs` -/
theorem expandDocs_error_of_mem (ds : List (LNode × Bool × Loc × Loc)) (d : LNode × Bool × Loc × Loc) (hd : d ∈ ds)
    (err : ExpErr) (h : expand [] [] d.1 = .error err) : ∃ err', expandDocs ds = .error err' := by
  induction ds with
  | nil => cases hd
  | cons d0 ds ih =>
    obtain ⟨t, ex, ls, le⟩ := d0
    simp only [expandDocs]
    cases h1 : expand [] [] t with
    | error e => exact ⟨e, rfl⟩
    | ok r =>
      rcases List.mem_cons.mp hd with rfl | hd'
      · rw [h1] at h; cases h
      · obtain ⟨e', he'⟩ := ih hd'
        rw [he']
        exact ⟨e', rfl⟩

/-! ### the counter-example to the corollary as given, and non-vacuity examples -/

/-- `&1 x` -/
def cxD1 : LNode × Bool × Loc × Loc := (.scalar ['x'] .plain 1 none 11, false, 2, 3)
/-- `*1` — the anchor is defined in the previous document only -/
def cxD2 : LNode × Bool × Loc × Loc := (.alias 1 21, true, 4, 5)
/-- `y` -/
def cxD3 : LNode × Bool × Loc × Loc := (.scalar ['y'] .plain 0 none 31, true, 6, 7)

/-- the stream `&1 x` / `*1` / `y` read as strings: the second document is the error item `UnknownAnchor`
(not the stale `x`), and the THIRD document is never yielded -/
theorem cx_readIter : readIter {} .string (initPump lim) (streamOf [cxD1, cxD2, cxD3] 1 9) =
    [.ok (.str ['x']), .error ⟨"UnknownAnchor", 21, 0⟩] := by rfl

/-- without the second document both values are yielded -/
theorem cx_readIter_without : readIter {} .string (initPump lim) (streamOf [cxD1, cxD3] 1 9) =
    [.ok (.str ['x']), .ok (.str ['y'])] := by rfl

/-- (F) anchors_not_visible_across_docs_typed as given is false: "leaves every other document's item
unchanged" fails for the documents AFTER a document whose root is an alias to an earlier document's anchor —
the iterator stops there (`ReadIter::next`: `Err(e)` from `peek` ⇒ `finished = true`). -/
theorem anchors_not_visible_across_docs_typed_counterexample : ¬ anchors_not_visible_across_docs_typed_Full := by
  intro h
  have hU : Unlimited lim ([cxD1] ++ cxD2 :: [cxD3]) := by
    refine ⟨by decide, ?_⟩
    intro d hd
    simp only [List.cons_append, List.nil_append, List.mem_cons, List.mem_nil_iff, or_false] at hd
    rcases hd with rfl | rfl | rfl
    · refine ⟨fun r hr => ?_, fun id => by simp [cxD1, aliasCount]⟩
      simp only [cxD1, expand, Except.ok.injEq] at hr
      subst hr
      decide
    · refine ⟨fun r hr => by simp [cxD2, expand, lookupAnchor] at hr, fun id => ?_⟩
      simp only [cxD2, aliasCount, lim]
      split <;> omega
    · refine ⟨fun r hr => ?_, fun id => by simp [cxD3, aliasCount]⟩
      simp only [cxD3, expand, Except.ok.injEq] at hr
      subst hr
      decide
  obtain ⟨e, he⟩ := h lim [cxD1] [cxD3] cxD2 1 9 21
    [[.scalar ['x'] 0 none .plain 1 11]] [[.scalar ['y'] 0 none .plain 0 31]] {} .string hU
    (by
      intro d hd
      simp only [List.cons_append, List.nil_append, List.mem_cons, List.mem_nil_iff, or_false] at hd
      rcases hd with rfl | rfl | rfl <;> rfl)
    (by rfl) (by rfl) (by rfl)
    (by
      intro evs hevs v
      simp only [List.cons_append, List.nil_append, List.mem_cons, List.mem_nil_iff, or_false] at hevs
      rcases hevs with rfl | rfl
      · have : perDoc {} .string [.scalar ['x'] 0 none .plain 1 11] = .clean (.str ['x']) := by rfl
        rw [this]; intro hc; cases hc
      · have : perDoc {} .string [.scalar ['y'] 0 none .plain 0 31] = .clean (.str ['y']) := by rfl
        rw [this]; intro hc; cases hc)
  have hr : readIter {} .string (initPump lim) (streamOf ([cxD1] ++ cxD2 :: [cxD3]) 1 9) =
      [.ok (.str ['x']), .error ⟨"UnknownAnchor", 21, 0⟩] := cx_readIter
  rw [hr] at he
  have h1 : itemsOf' {} .string [[.scalar ['x'] 0 none .plain 1 11]] = [.ok (.str ['x'])] := by rfl
  have h3 : itemsOf' {} .string [[.scalar ['y'] 0 none .plain 0 31]] = [.ok (.str ['y'])] := by rfl
  rw [h1, h3] at he
  have := he.length
  simp at this


/-! #### (E) a stream with an anchor and an alias, a null document, a document of the wrong shape -/

theorem unlimited_nil (L : AliasLimits) (h : 1 ≤ L.maxReplayStackDepth) : Unlimited L [] :=
  ⟨h, fun d hd => by cases hd⟩

theorem unlimited_cons {L : AliasLimits} {d : LNode × Bool × Loc × Loc} {ds : List (LNode × Bool × Loc × Loc)}
    (h : Unlimited L ds) (h1 : ∀ r, expand [] [] d.1 = .ok r → r.replayed ≤ L.maxTotalReplayedEvents)
    (h2 : ∀ id, aliasCount id d.1 ≤ L.maxAliasExpansionsPerAnchor) : Unlimited L (d :: ds) := by
  refine ⟨h.1, fun d' hd => ?_⟩
  rcases List.mem_cons.mp hd with rfl | hd
  · exact ⟨h1, h2⟩
  · exact h.2 d' hd

/-- `[&1 x, *1]` -/
def exA : LNode × Bool × Loc × Loc := (docA, false, 2, 3)
/-- `~` -/
def exNull : LNode × Bool × Loc × Loc := (.scalar ['~'] .plain 0 none 41, true, 4, 5)
/-- `y` (not a sequence) -/
def exBad : LNode × Bool × Loc × Loc := (.scalar ['y'] .plain 0 none 51, true, 6, 7)
/-- `[z]` -/
def exC : LNode × Bool × Loc × Loc := (.seq 0 none 60 69 [.scalar ['z'] .plain 0 none 61], true, 8, 9)

def evsA : List Ev :=
  [.seqStart 0 0 none 10, .scalar ['x'] 0 none .plain 1 11, .scalar ['x'] 0 none .plain 1 11, .seqEnd 19]
def evsNull : List Ev := [.scalar ['~'] 0 none .plain 0 41]
def evsBad : List Ev := [.scalar ['y'] 0 none .plain 0 51]
def evsC : List Ev := [.seqStart 0 0 none 60, .scalar ['z'] 0 none .plain 0 61, .seqEnd 69]

theorem exA_expand : expand [] [] exA.1 = .ok ⟨evsA, [(1, [.scalar ['x'] 0 none .plain 1 11])], 1⟩ := by rfl
theorem exC_expand : expand [] [] exC.1 = .ok ⟨evsC, [], 0⟩ := by rfl

theorem ex_unlimited : Unlimited lim [exA, exBad, exNull, exC] := by
  refine unlimited_cons (unlimited_cons (unlimited_cons (unlimited_cons (unlimited_nil lim (by decide)) ?_ ?_) ?_ ?_) ?_ ?_) ?_ ?_
  · intro r hr; rw [exC_expand] at hr; cases hr; decide
  · intro id; simp [exC, aliasCount, aliasCountL]
  · intro r hr; simp only [exNull, expand, Except.ok.injEq] at hr; subst hr; decide
  · intro id; simp [exNull, aliasCount]
  · intro r hr; simp only [exBad, expand, Except.ok.injEq] at hr; subst hr; decide
  · intro id; simp [exBad, aliasCount]
  · intro r hr; rw [exA_expand] at hr; cases hr; decide
  · intro id
    simp only [exA, docA, aliasCount, aliasCountL, lim]
    split <;> omega

theorem ex_nofolded : ∀ d ∈ [exA, exBad, exNull, exC], Lemmas.C02.noFoldedIndent d.1 = true := by
  intro d hd
  simp only [List.mem_cons, List.mem_nil_iff, or_false] at hd
  rcases hd with rfl | rfl | rfl | rfl <;> rfl

theorem ex_expandEach : expandEach [exA, exBad, exNull, exC] = .ok [evsA, evsBad, evsNull, evsC] := by rfl

theorem ex_perDocA : perDoc {} (.seq .string) evsA = .clean (.seq [.str ['x'], .str ['x']]) := by rfl
theorem ex_perDocBad : perDoc {} (.seq .string) evsBad = .failed := by rfl
theorem ex_perDocNull : perDoc {} (.seq .string) evsNull = .skipped := by rfl
theorem ex_perDocC : perDoc {} (.seq .string) evsC = .clean (.seq [.str ['z']]) := by rfl

/-- (E) the iterator on `[&1 x, *1]` / `y` / `~` / `[z]` read as `Vec<String>`: the value with the alias
expanded, ONE error item for the scalar document, nothing for the null document, and the last value — the
iterator has resumed after the error -/
example : sameItems (readIter {} (.seq .string) (initPump lim) (streamOf [exA, exBad, exNull, exC] 1 99))
    [.ok (.seq [.str ['x'], .str ['x']]), .error default, .ok (.seq [.str ['z']])] := by
  have h := iter_eq_spec_partial lim [exA, exBad, exNull, exC] 1 99 [evsA, evsBad, evsNull, evsC] {} (.seq .string) ex_unlimited ex_nofolded
    ex_expandEach (by
      intro evs he v
      simp only [List.mem_cons, List.mem_nil_iff, or_false] at he
      rcases he with rfl | rfl | rfl | rfl
      · rw [ex_perDocA]; intro hc; cases hc
      · rw [ex_perDocBad]; intro hc; cases hc
      · rw [ex_perDocNull]; intro hc; cases hc
      · rw [ex_perDocC]; intro hc; cases hc)
  have hspec : itemsOf' {} (.seq .string) [evsA, evsBad, evsNull, evsC] =
      [.ok (.seq [.str ['x'], .str ['x']]), .error default, .ok (.seq [.str ['z']])] := by
    simp only [itemsOf', Lemmas.C11T.specItems]
    have h1 := ex_perDocA; have h2 := ex_perDocBad; have h3 := ex_perDocNull; have h4 := ex_perDocC
    simp only [perDoc] at h1 h2 h3 h4
    rw [h1, h2, h3, h4]
    rfl
  rw [hspec] at h
  exact h

/-- (E) … and these are the items of the four one-document streams -/
example : sameItems (readIter {} (.seq .string) (initPump lim) (streamOf [exA, exBad, exNull, exC] 1 99))
    ([exA, exBad, exNull, exC].map fun d => readIter {} (.seq .string) (initPump lim) (streamOf [d] 1 99)).flatten :=
  iter_isolated_partial lim [exA, exBad, exNull, exC] 1 99 [evsA, evsBad, evsNull, evsC] {} (.seq .string) ex_unlimited ex_nofolded
    ex_expandEach (by
      intro evs he v
      simp only [List.mem_cons, List.mem_nil_iff, or_false] at he
      rcases he with rfl | rfl | rfl | rfl
      · rw [ex_perDocA]; intro hc; cases hc
      · rw [ex_perDocBad]; intro hc; cases hc
      · rw [ex_perDocNull]; intro hc; cases hc
      · rw [ex_perDocC]; intro hc; cases hc)

/-- (E) the batch entry point on that stream is an error (the scalar document) … -/
example : ∃ e, fromMultiple {} (.seq .string) (initPump lim) (streamOf [exA, exBad, exNull, exC] 1 99) = .error e :=
  from_multiple_error lim [exA, exBad, exNull, exC] 1 99 [evsA, evsBad, evsNull, evsC] {} (.seq .string) ex_unlimited ex_nofolded ex_expandEach
    ⟨evsBad, by simp, .inl ex_perDocBad⟩

theorem ex_unlimited' : Unlimited lim [exA, exNull, exC] :=
  ⟨ex_unlimited.1, fun d hd => ex_unlimited.2 d (by
    simp only [List.mem_cons, List.mem_nil_iff, or_false] at hd ⊢
    rcases hd with rfl | rfl | rfl <;> simp)⟩

/-- (E) … and without it the list of the values, in order, the null document skipped -/
example : fromMultiple {} (.seq .string) (initPump lim) (streamOf [exA, exNull, exC] 1 99) =
    .ok [.seq [.str ['x'], .str ['x']], .seq [.str ['z']]] := by
  have h := from_multiple_eq_map lim [exA, exNull, exC] 1 99 [evsA, evsNull, evsC] {} (.seq .string) ex_unlimited'
    (fun d hd => ex_nofolded d (by
      simp only [List.mem_cons, List.mem_nil_iff, or_false] at hd ⊢
      rcases hd with rfl | rfl | rfl <;> simp))
    (by rfl) (by
      intro evs he
      simp only [List.mem_cons, List.mem_nil_iff, or_false] at he
      rcases he with rfl | rfl | rfl
      · exact .inr ⟨_, ex_perDocA⟩
      · exact .inl ex_perDocNull
      · exact .inr ⟨_, ex_perDocC⟩)
  rw [h]
  have h1 := ex_perDocA; have h3 := ex_perDocNull; have h4 := ex_perDocC
  simp only [perDoc] at h1 h3 h4
  simp only [valuesOf, perDoc, List.filterMap_cons, List.filterMap_nil, h1, h3, h4]

/-- (E) left over: `[&1 x, *1]` read as the 1-tuple `(String,)` stops after `x`; the batch result is an error -/
theorem ex_perDocA_tuple : perDoc {} (.tuple [.string]) evsA = .leftover (.seq [.str ['x']]) := by rfl
example : ∃ e, fromMultiple {} (.tuple [.string]) (initPump lim) (streamOf [exA, exNull, exC] 1 99) = .error e :=
  from_multiple_leftover_is_error lim [exA, exNull, exC] 1 99 [evsA, evsNull, evsC] {} (.tuple [.string]) ex_unlimited'
    (fun d hd => ex_nofolded d (by
      simp only [List.mem_cons, List.mem_nil_iff, or_false] at hd ⊢
      rcases hd with rfl | rfl | rfl <;> simp))
    (by rfl) evsA _ (by simp) ex_perDocA_tuple

/-- (E) `[&1 x, *1]` / `*1` / `[z]`: the first document's value, then `UnknownAnchor` at the alias -/
example : ∃ items, readIter {} (.seq .string) (initPump lim)
      (streamOf ([exA] ++ (.alias 1 21, true, 4, 5) :: [exC]) 1 99) = items ++ [.error ⟨"UnknownAnchor", 21, 0⟩] ∧
    sameItems items [.ok (.seq [.str ['x'], .str ['x']])] := by
  have h := anchors_not_visible_across_docs_typed_partial lim [exA] [exC] true 4 5 1 99 1 21 [evsA] {} (.seq .string)
    ⟨ex_unlimited.1, fun d hd => ex_unlimited.2 d (by simp only [List.mem_singleton] at hd; subst hd; simp)⟩
    (by decide)
    (fun d hd => ex_nofolded d (by simp only [List.mem_singleton] at hd; subst hd; simp))
    (by rfl) (by
      intro evs he v
      simp only [List.mem_singleton] at he
      subst he
      rw [ex_perDocA]; intro hc; cases hc)
  have hspec : itemsOf' {} (.seq .string) [evsA] = [.ok (.seq [.str ['x'], .str ['x']])] := by
    have h1 := ex_perDocA
    simp only [perDoc] at h1
    simp only [itemsOf', Lemmas.C11T.specItems, h1]
    rfl
  rw [hspec] at h
  exact h

/-- `[a, *1]` — the anchor is defined in the FIRST document only -/
def exNested : LNode × Bool × Loc × Loc := (.seq 0 none 20 29 [.scalar ['a'] .plain 0 none 21, .alias 1 22], true, 4, 5)

/-- (E) `[&1 x, *1]` / `[a, *1]` / `[z]`: the batch entry point is an error -/
example : ∃ e, fromMultiple {} (.seq .string) (initPump lim) (streamOf [exA, exNested, exC] 1 99) = .error e :=
  anchors_not_visible_across_docs_batch lim [exA, exNested, exC] 1 99 {} (.seq .string) (.unknown 22) (by rfl)

#print axioms from_multiple_eq_map
#print axioms from_multiple_error
#print axioms from_multiple_leftover_is_error
#print axioms from_multiple_ok_iff
#print axioms perDoc_clean_interp
#print axioms iter_eq_spec_partial
#print axioms iter_isolated_partial
#print axioms iter_prefix_unaffected
#print axioms anchors_not_visible_across_docs_typed_partial
#print axioms anchors_not_visible_across_docs_batch_partial
#print axioms from_multiple_ok_pump_ends
#print axioms anchors_not_visible_across_docs_batch
#print axioms anchors_not_visible_across_docs_typed_counterexample
#print axioms cx_readIter

end SaphyrVerif.Props.C11
