import SaphyrVerif.Spec.Interp
import SaphyrVerif.Lemmas.C05_Main
/-!
# C05 — typed deserialization is position-faithful; shape mismatches are errors

Refinement of the typed deserializer model (Model/De.lean: a cursor-based streaming deserializer with key
capture, pending/merge queues, look-ahead) to the structural interpretation of the parsed tree
(`Spec.interp`): every Rust position is filled from the YAML node at the corresponding position, and a
node is never consumed by a neighbouring position.
-/
namespace SaphyrVerif.Props.C05
open SaphyrVerif SaphyrVerif.Scalars SaphyrVerif.Pump SaphyrVerif.De SaphyrVerif.Spec

mutual
/-- types without tuples (tuples read a fixed number of elements, so on surplus elements a successful call
stops strictly inside the sequence; they are covered by `deser_top_sound`) -/
def tupleFree : Ty → Bool
  | .tuple _ => false
  | .option t | .seq t | .newtype t => tupleFree t
  | .map k v => tupleFree k && tupleFree v
  | .struct fs _ => tupleFreeF fs
  | .enum _ vs => tupleFreeV vs
  | _ => true
def tupleFreeF : List (String × Ty) → Bool
  | [] => true
  | (_, t) :: r => tupleFree t && tupleFreeF r
def tupleFreeV : List (String × VTy) → Bool
  | [] => true
  | (_, .unit) :: r => tupleFreeV r
  | (_, .newtype t) :: r => tupleFree t && tupleFreeV r
  | (_, .tuple _) :: _ => false
  | (_, .struct fs) :: r => tupleFreeF fs && tupleFreeV r
end

mutual
/-- no mapping key is a one-entry mapping whose own key is a null-like scalar: for such keys the code
deliberately delivers `None` as the key and the INNER value as the value (see the finding below) -/
def noKemnKeys : ENode → Bool
  | .scalar .. => true
  | .seq _ _ _ _ _ items => noKemnKeysL items
  | .map _ _ _ entries => noKemnKeysE entries
def noKemnKeysL : List ENode → Bool
  | [] => true
  | n :: ns => noKemnKeys n && noKemnKeysL ns
def noKemnKeysE : List (ENode × ENode) → Bool
  | [] => true
  | (k, v) :: es =>
    (match k with
     | .map _ _ _ [(.scalar sv stag _ _ _ _, _)] => !fpNullish sv stag
     | _ => true) && noKemnKeys k && noKemnKeys v && noKemnKeysE es
end

/-- the replay cursor positioned at the start of `t` inside `pre ++ eflatten t ++ rest` -/
def at_ (pre : List Ev) (t : ENode) (rest : List Ev) (ref : Option Loc) : Cur :=
  .replay (pre ++ eflatten t ++ rest) pre.length ref
/-- … and just after it -/
def after_ (pre : List Ev) (t : ENode) (rest : List Ev) (ref : Option Loc) : Cur :=
  .replay (pre ++ eflatten t ++ rest) (pre.length + (eflatten t).length) ref

open Lemmas.C05 in
mutual
theorem tupleFree_eq : ∀ ty : Ty, tupleFree ty = tfree ty
  | .tuple _ => by rw [tupleFree, tfree]
  | .option t => by rw [tupleFree, tfree]; exact tupleFree_eq t
  | .seq t => by rw [tupleFree, tfree]; exact tupleFree_eq t
  | .newtype t => by rw [tupleFree, tfree]; exact tupleFree_eq t
  | .map k v => by rw [tupleFree, tfree, tupleFree_eq k, tupleFree_eq v]
  | .struct fs _ => by rw [tupleFree, tfree]; exact tupleFreeF_eq fs
  | .enum _ vs => by rw [tupleFree, tfree]; exact tupleFreeV_eq vs
  | .bool => rfl
  | .int _ _ => rfl
  | .float _ => rfl
  | .char => rfl
  | .string => rfl
  | .unit => rfl
  | .bytes => rfl
  | .any => rfl
theorem tupleFreeF_eq : ∀ fs : List (String × Ty), tupleFreeF fs = tfreeF fs
  | [] => by rw [tupleFreeF, tfreeF]
  | (_, t) :: r => by rw [tupleFreeF, tfreeF, tupleFree_eq t, tupleFreeF_eq r]
theorem tupleFreeV_eq : ∀ vs : List (String × VTy), tupleFreeV vs = tfreeV vs
  | [] => by rw [tupleFreeV, tfreeV]
  | (_, .unit) :: r => by rw [tupleFreeV, tfreeV]; exact tupleFreeV_eq r
  | (_, .newtype t) :: r => by rw [tupleFreeV, tfreeV, tupleFree_eq t, tupleFreeV_eq r]
  | (_, .tuple _) :: _ => by rw [tupleFreeV, tfreeV]
  | (_, .struct fs) :: r => by rw [tupleFreeV, tfreeV, tupleFreeF_eq fs, tupleFreeV_eq r]
end

open Lemmas.C05 in
mutual
theorem noKemnKeys_eq : ∀ t : ENode, noKemnKeys t = kfree t
  | .scalar .. => by rw [noKemnKeys, kfree]
  | .seq _ _ _ _ _ items => by rw [noKemnKeys, kfree]; exact noKemnKeysL_eq items
  | .map _ _ _ entries => by rw [noKemnKeys, kfree]; exact noKemnKeysE_eq entries
theorem noKemnKeysL_eq : ∀ ts : List ENode, noKemnKeysL ts = kfreeL ts
  | [] => by rw [noKemnKeysL, kfreeL]
  | n :: ns => by rw [noKemnKeysL, kfreeL, noKemnKeys_eq n, noKemnKeysL_eq ns]
theorem noKemnKeysE_eq : ∀ es : List (ENode × ENode), noKemnKeysE es = kfreeE es
  | [] => by rw [noKemnKeysE, kfreeE]
  | (k, v) :: es => by
    rw [noKemnKeysE.eq_def]
    simp only []
    rw [kfreeE, noKemnKeys_eq k, noKemnKeys_eq v, noKemnKeysE_eq es]
    rfl
end

/-- (T) clean refinement for tuple-free types: on any stream that contains the events of `t` at the
cursor, with enough fuel, deserialization into `ty` succeeds exactly when the specification assigns a value,
returns exactly that value, and leaves the cursor exactly after `t` — it never touches `rest`
(no neighbouring node is consumed) and never stops inside `t`. -/
theorem deser_refines_interp (cfg : Cfg) (ty : Ty) (t : ENode) (pre rest : List Ev) (ref : Option Loc)
    (hty : tupleFree ty = true) (hk : noKemnKeys t = true) :
    ∃ n, ∀ fuel, n ≤ fuel →
      match interp cfg ty t with
      | some v => deser fuel cfg ty false false (at_ pre t rest ref) = .ok v (after_ pre t rest ref)
      | none => ∃ e c, deser fuel cfg ty false false (at_ pre t rest ref) = .err e c := by
  have hk' : Lemmas.C05.kfree t = true := by rw [← noKemnKeys_eq]; exact hk
  have hty' : Lemmas.C05.tfree ty = true := by rw [← tupleFree_eq]; exact hty
  have hdrop : (pre ++ eflatten t ++ rest).drop pre.length = eflatten t ++ rest := by
    rw [List.append_assoc, List.drop_left]
  obtain ⟨n, hn⟩ := Lemmas.C05.ref_all cfg ty t hk' (pre ++ eflatten t ++ rest) pre.length ref rest hdrop
  refine ⟨n, fun fuel hf => ?_⟩
  have := hn fuel hf
  simp only [at_, after_]
  cases hi : interp cfg ty t with
  | some v =>
    rw [hi] at this
    exact this
  | none =>
    rw [hi] at this
    rcases this with h | ⟨hd, -⟩
    · exact h
    · rw [hty'] at hd; cases hd

/-- the document-level check of the single-document entry points, on a replay cursor: the value, then the
cursor must be at the end of the events -/
def deserTop (fuel : Nat) (cfg : Cfg) (ty : Ty) (evs : List Ev) : Option Val :=
  match deser fuel cfg ty false false (.replay evs 0 none) with
  | .ok v c =>
    match c.peek with
    | .ok none _ => some v
    | _ => none
  | .err _ _ => none

/-- (T) deser_top_sound: for ALL types (tuples, enums with tuple variants, … included): if the
single-document protocol accepts the events of a tree, the value is the position-faithful one. In
particular surplus or missing tuple elements, unknown variants and kind mismatches are errors: a
deficit left by an inner call is never repaired by an enclosing call. -/
theorem deser_top_sound (cfg : Cfg) (ty : Ty) (t : ENode) (hk : noKemnKeys t = true) (fuel : Nat) (v : Val)
    (h : deserTop fuel cfg ty (eflatten t) = some v) : interp cfg ty t = some v := by
  have hk' : Lemmas.C05.kfree t = true := by rw [← noKemnKeys_eq]; exact hk
  obtain ⟨n, hn⟩ := Lemmas.C05.ref_all cfg ty t hk' (eflatten t) 0 none [] (by simp)
  -- the successful run, with more fuel
  simp only [deserTop] at h
  cases hd : deser fuel cfg ty false false (.replay (eflatten t) 0 none) with
  | err e c => rw [hd] at h; cases h
  | ok v' c =>
    rw [hd] at h
    have hbig := Lemmas.C05.deser_mono_le (Nat.le_max_left fuel n) hd
    have := hn (max fuel n) (Nat.le_max_right fuel n)
    rw [hbig] at this
    cases hi : interp cfg ty t with
    | some w =>
      rw [hi] at this
      simp only [Lemmas.C05.NodeOut] at this
      injection this with h1 h2
      subst h1 h2
      simp only [Nat.zero_add, Lemmas.C05.peek_at_end] at h
      exact h
    | none =>
      rw [hi] at this
      rcases this with ⟨e, c', he⟩ | ⟨-, w, j, he, hj1, hj2⟩
      · cases he
      · injection he with h1 h2
        subst h1 h2
        obtain ⟨ev, hev⟩ := Lemmas.C05.peek_inside (eflatten t) none (j := j) (by omega)
        simp [hev] at h

/-- (T) completeness at document level for tuple-free types -/
theorem deser_top_complete (cfg : Cfg) (ty : Ty) (t : ENode) (hty : tupleFree ty = true) (hk : noKemnKeys t = true)
    (v : Val) (h : interp cfg ty t = some v) : ∃ n, ∀ fuel, n ≤ fuel → deserTop fuel cfg ty (eflatten t) = some v := by
  obtain ⟨n, hn⟩ := deser_refines_interp cfg ty t [] [] none hty hk
  refine ⟨n, fun fuel hf => ?_⟩
  have := hn fuel hf
  rw [h] at this
  simp only [at_, after_, List.nil_append, List.append_nil, List.length_nil, Nat.zero_add] at this
  simp only [deserTop, this, Lemmas.C05.peek_at_end]

/-- (T) arity_mismatch_is_error (specification level): a tuple position accepts exactly as many nodes as it
has components -/
theorem arity_mismatch_is_error (cfg : Cfg) (ts : List Ty) (a tag : Nat) (rt : Option (List Char)) (l el : Loc)
    (items : List ENode) (h : items.length ≠ ts.length) :
    interp cfg (.tuple ts) (.seq a tag rt l el items) = none := by
  rw [interp]
  simp only [tupleNode]
  rw [Lemmas.C05.tupleFrom_length_ne _ _ (by rw [Lemmas.C05.interpFns_length]; exact h)]; rfl

/-- (T) unknown_variant_is_error -/
theorem unknown_variant_is_error (cfg : Cfg) (name : String) (vs : List (String × VTy)) (v : List Char)
    (st : Style) (a : Nat) (l : Loc) (h : ∀ p ∈ vs, p.1.toList ≠ v) :
    interp cfg (.enum name vs) (.scalar v 0 none st a l) = none := by
  rw [interp]
  simp only [enumFrom]
  have hs : simpleTaggedEnumName none 0 = none := by simp [simpleTaggedEnumName, tagOther]
  rw [hs]
  have : variantFrom cfg (variantFns cfg vs) v none false = none := by
    apply Lemmas.C05.variantFrom_unknown
    intro q hq
    obtain ⟨p, hp, e⟩ := Lemmas.C05.variantFns_fst cfg vs q hq
    rw [← e]; exact h p hp
  simp [this]

/-- (T) kind_mismatch_is_error: a scalar position never accepts a container, a sequence position never a
mapping, a mapping position never a sequence -/
theorem kind_mismatch_is_error (cfg : Cfg) (a tag : Nat) (rt : Option (List Char)) (l el : Loc)
    (items : List ENode) (es : List (ENode × ENode)) (k v t : Ty) (s : Bool) (w : Nat) :
    interp cfg .bool (.seq a tag rt l el items) = none ∧ interp cfg (.int s w) (.map a l el es) = none ∧
    interp cfg .string (.seq a tag rt l el items) = none ∧ interp cfg (.seq t) (.map a l el es) = none ∧
    interp cfg (.map k v) (.seq a tag rt l el items) = none := by
  refine ⟨?_, ?_, ?_, ?_, ?_⟩ <;> rw [interp]

/-- (F) the excluded class is a genuine deviation of model and code (known finding
C05-kemn-one-entry-null-key): for the key `{~: 1}` with value `2` the delivered entry is (None, 1): the
outer value `2` is dropped and the position of the value is filled from a node inside the key. -/
theorem kemn_key_takes_inner_value :
    deserTop 100 {} (.map (.option .string) (.int true 32))
      (eflatten (.map 0 1 9 [(.map 0 2 5 [(.scalar ['~'] 0 none .plain 0 3, .scalar ['1'] 0 none .plain 0 4)],
                              .scalar ['2'] 0 none .plain 0 6)]))
      = some (.map [(.none, .int 1)]) := by
  rfl

-- (E) non-vacuity
def sc (s : String) (l : Loc) : ENode := .scalar s.toList 0 none .plain 0 l
example : deserTop 100 {} (.tuple [.int true 32, .int true 32]) (eflatten (.seq 0 0 none 1 9 [sc "1" 2, sc "2" 3])) =
    some (.seq [.int 1, .int 2]) := by rfl
example : deserTop 100 {} (.tuple [.int true 32, .int true 32]) (eflatten (.seq 0 0 none 1 9 [sc "1" 2, sc "2" 3, sc "3" 4])) = none := by
  rfl
example : interp {} (.seq (.enum "E" [("A", .newtype (.int true 32)), ("B", .unit)])) (.seq 0 0 none 1 9 [sc "A" 2, sc "5" 3]) = none := by
  rfl
example : deserTop 100 {} (.seq (.enum "E" [("A", .newtype (.int true 32)), ("B", .unit)])) (eflatten (.seq 0 0 none 1 9 [sc "A" 2, sc "5" 3])) = none := by
  rfl

/-! ### regression examples for the findings made while proving C05

History (all three were found by the proof attempt, confirmed on the implementation, and fixed):
1. a recorded KEY and a buffered / MERGED VALUE were deserialized from their own replay buffer whose final
   cursor was dropped, so surplus tuple elements were silently discarded (`{[1,2,3]: 7}` into
   `HashMap<(i32,i32),i32>`, `{<<: {a: [1,2,3]}}` into `HashMap<String,(i32,i32)>`): fixed in code and model
   (`deserKey` / `nextValue` now require the buffer to be consumed);
2. an EMPTY `!!binary` scalar at a `Vec<T>` position is the empty vector for every `T`: the specification
   (`interp`, `.seq t` on a `!!binary` scalar) was corrected;
3. a TUPLE position on a `!!binary` scalar dropped surplus bytes (fixed in code and model,
   `byteSeqVisit`), and with exactly one byte per integer component it is accepted (specification
   `tupleNode` corrected).  -/

def kSurplus : ENode := .map 0 1 9 [(.seq 0 0 none 2 6 [sc "1" 3, sc "2" 4, sc "3" 5], sc "7" 7)]
example : deserTop 100 {} (.map (.tuple [.int true 32, .int true 32]) (.int true 32)) (eflatten kSurplus) = none := by rfl
def mvSurplus : ENode :=
  .map 0 1 19 [(sc "<<" 2, .map 0 3 9 [(sc "a" 4, .seq 0 0 none 5 8 [sc "1" 6, sc "2" 7, sc "3" 77])])]
-- (by the soundness theorem: the specification rejects the surplus element)
example : deserTop 100 {} (.map .string (.tuple [.int true 32, .int true 32])) (eflatten mvSurplus) = none := by
  cases h : deserTop 100 {} (.map .string (.tuple [.int true 32, .int true 32])) (eflatten mvSurplus) with
  | none => rfl
  | some v =>
    have := deser_top_sound {} _ mvSurplus (by rfl) 100 v h
    have hn : interp {} (.map .string (.tuple [.int true 32, .int true 32])) mvSurplus = none := by rfl
    rw [hn] at this; cases this
example : deserTop 100 {} (.struct [("a", .tuple [.int true 32, .int true 32])] false) (eflatten mvSurplus) = none := by
  cases h : deserTop 100 {} (.struct [("a", .tuple [.int true 32, .int true 32])] false) (eflatten mvSurplus) with
  | none => rfl
  | some v =>
    have := deser_top_sound {} _ mvSurplus (by rfl) 100 v h
    have hn : interp {} (.struct [("a", .tuple [.int true 32, .int true 32])] false) mvSurplus = none := by rfl
    rw [hn] at this; cases this
def emptyBinary : ENode := .scalar [] 8 none .double 0 1
example : deserTop 100 {} (.seq .string) (eflatten emptyBinary) = some (.seq []) := by rfl
example : interp {} (.seq .string) emptyBinary = some (.seq []) := by rfl
def threeBytes : ENode := .scalar "AAEC".toList 8 none .plain 0 1
example : deserTop 100 {} (.tuple [.int false 8, .int false 8]) (eflatten threeBytes) = none := by rfl
example : interp {} (.tuple [.int false 8, .int false 8]) threeBytes = none := by rfl
example : deserTop 100 {} (.tuple [.int false 8, .int false 8, .int false 8]) (eflatten threeBytes) =
    some (.seq [.int 0, .int 1, .int 2]) := by rfl
example : interp {} (.tuple [.int false 8, .int false 8, .int false 8]) threeBytes = some (.seq [.int 0, .int 1, .int 2]) := by rfl

/- Proof structure (Lemmas/C05_*.lean): `Lemmas.C05.ref_all` — for every type (tuples included) and every
admissible node, `deser` on a replay cursor at the node either returns exactly `interp` and stops exactly
after the node, or fails, or (only for types containing a tuple) stops strictly inside the node — by
induction on the nesting depth of the node and the size of the type; the map access is shown to deliver
`effEntries` (`nextKey_spec`, `nextValue_spec`, `mapEntries_spec`, `structEntries_spec`); a stop strictly
inside a node is never repaired by an enclosing call (`C05_Weak*`: no call moves the cursor below its starting
nesting depth); `deser_top_sound` for arbitrary fuel uses the fuel monotonicity of success (`C05_Mono`).
Imported statements used: `Props.C04.capture_node_exact`, `Props.C04.skip_one_node_exact`,
`Props.C03.collect_entries_spec` (through `deser_refines_interp`, `deser_top_sound`, `deser_top_complete`). -/
#print axioms deser_refines_interp
#print axioms deser_top_sound
#print axioms deser_top_complete
#print axioms arity_mismatch_is_error
#print axioms unknown_variant_is_error
#print axioms kind_mismatch_is_error
#print axioms kemn_key_takes_inner_value

end SaphyrVerif.Props.C05
