import SaphyrVerif.Spec.Interp
/-!
# C05 — typed deserialization is position-faithful; shape mismatches are errors

Refinement of the typed deserializer model (Model/De.lean: a cursor-based streaming deserializer with key
capture, pending/merge queues, look-ahead) to the structural interpretation of the parsed tree
(`Spec.interp`): every Rust position is filled from the YAML node at the corresponding position, and a
node is never consumed by a neighbouring position.
-/
namespace SaphyrVerif.Props.C05
open SaphyrVerif SaphyrVerif.Scalars SaphyrVerif.Pump SaphyrVerif.De SaphyrVerif.Spec

mutual
/-- types without tuples (tuples read a fixed number of elements, so on surplus elements a successful call
stops strictly inside the sequence; they are covered by `deser_top_sound`) -/
def tupleFree : Ty → Bool
  | .tuple _ => false
  | .option t | .seq t | .newtype t => tupleFree t
  | .map k v => tupleFree k && tupleFree v
  | .struct fs _ => tupleFreeF fs
  | .enum _ vs => tupleFreeV vs
  | _ => true
def tupleFreeF : List (String × Ty) → Bool
  | [] => true
  | (_, t) :: r => tupleFree t && tupleFreeF r
def tupleFreeV : List (String × VTy) → Bool
  | [] => true
  | (_, .unit) :: r => tupleFreeV r
  | (_, .newtype t) :: r => tupleFree t && tupleFreeV r
  | (_, .tuple _) :: _ => false
  | (_, .struct fs) :: r => tupleFreeF fs && tupleFreeV r
end

mutual
/-- no mapping key is a one-entry mapping whose own key is a null-like scalar: for such keys the code
deliberately delivers `None` as the key and the INNER value as the value (see the finding below) -/
def noKemnKeys : ENode → Bool
  | .scalar .. => true
  | .seq _ _ _ _ _ items => noKemnKeysL items
  | .map _ _ _ entries => noKemnKeysE entries
def noKemnKeysL : List ENode → Bool
  | [] => true
  | n :: ns => noKemnKeys n && noKemnKeysL ns
def noKemnKeysE : List (ENode × ENode) → Bool
  | [] => true
  | (k, v) :: es =>
    (match k with
     | .map _ _ _ [(.scalar sv stag _ _ _ _, _)] => !fpNullish sv stag
     | _ => true) && noKemnKeys k && noKemnKeys v && noKemnKeysE es
end

/-- the replay cursor positioned at the start of `t` inside `pre ++ eflatten t ++ rest` -/
def at_ (pre : List Ev) (t : ENode) (rest : List Ev) (ref : Option Loc) : Cur :=
  .replay (pre ++ eflatten t ++ rest) pre.length ref
/-- … and just after it -/
def after_ (pre : List Ev) (t : ENode) (rest : List Ev) (ref : Option Loc) : Cur :=
  .replay (pre ++ eflatten t ++ rest) (pre.length + (eflatten t).length) ref

/-- (T) clean refinement for tuple-free types: on any stream that contains the events of `t` at the
cursor, with enough fuel, deserialization into `ty` succeeds exactly when the specification assigns a value,
returns exactly that value, and leaves the cursor exactly after `t` — it never touches `rest`
(no neighbouring node is consumed) and never stops inside `t`. -/
theorem deser_refines_interp (cfg : Cfg) (ty : Ty) (t : ENode) (pre rest : List Ev) (ref : Option Loc)
    (hty : tupleFree ty = true) (hk : noKemnKeys t = true) :
    ∃ n, ∀ fuel, n ≤ fuel →
      match interp cfg ty t with
      | some v => deser fuel cfg ty false false (at_ pre t rest ref) = .ok v (after_ pre t rest ref)
      | none => ∃ e c, deser fuel cfg ty false false (at_ pre t rest ref) = .err e c := by
  sorry

/-- the document-level check of the single-document entry points, on a replay cursor: the value, then the
cursor must be at the end of the events -/
def deserTop (fuel : Nat) (cfg : Cfg) (ty : Ty) (evs : List Ev) : Option Val :=
  match deser fuel cfg ty false false (.replay evs 0 none) with
  | .ok v c =>
    match c.peek with
    | .ok none _ => some v
    | _ => none
  | .err _ _ => none

/-- (T) deser_top_sound: for ALL types (tuples, enums with tuple variants, … included): if the
single-document protocol accepts the events of a tree, the value is the position-faithful one. In
particular surplus or missing tuple elements, unknown variants and kind mismatches are errors: a
deficit left by an inner call is never repaired by an enclosing call. -/
theorem deser_top_sound (cfg : Cfg) (ty : Ty) (t : ENode) (hk : noKemnKeys t = true) (fuel : Nat) (v : Val)
    (h : deserTop fuel cfg ty (eflatten t) = some v) : interp cfg ty t = some v := by
  sorry

/-- (T) completeness at document level for tuple-free types -/
theorem deser_top_complete (cfg : Cfg) (ty : Ty) (t : ENode) (hty : tupleFree ty = true) (hk : noKemnKeys t = true)
    (v : Val) (h : interp cfg ty t = some v) : ∃ n, ∀ fuel, n ≤ fuel → deserTop fuel cfg ty (eflatten t) = some v := by
  sorry

/-- (T) arity_mismatch_is_error (specification level): a tuple position accepts exactly as many nodes as it
has components -/
theorem arity_mismatch_is_error (cfg : Cfg) (ts : List Ty) (a tag : Nat) (rt : Option (List Char)) (l el : Loc)
    (items : List ENode) (h : items.length ≠ ts.length) :
    interp cfg (.tuple ts) (.seq a tag rt l el items) = none := by
  sorry

/-- (T) unknown_variant_is_error -/
theorem unknown_variant_is_error (cfg : Cfg) (name : String) (vs : List (String × VTy)) (v : List Char)
    (st : Style) (a : Nat) (l : Loc) (h : ∀ p ∈ vs, p.1.toList ≠ v) :
    interp cfg (.enum name vs) (.scalar v 0 none st a l) = none := by
  sorry

/-- (T) kind_mismatch_is_error: a scalar position never accepts a container, a sequence position never a
mapping, a mapping position never a sequence -/
theorem kind_mismatch_is_error (cfg : Cfg) (a tag : Nat) (rt : Option (List Char)) (l el : Loc)
    (items : List ENode) (es : List (ENode × ENode)) (k v t : Ty) (s : Bool) (w : Nat) :
    interp cfg .bool (.seq a tag rt l el items) = none ∧ interp cfg (.int s w) (.map a l el es) = none ∧
    interp cfg .string (.seq a tag rt l el items) = none ∧ interp cfg (.seq t) (.map a l el es) = none ∧
    interp cfg (.map k v) (.seq a tag rt l el items) = none := by
  sorry

/-- (F) the excluded class is a genuine deviation of model and code (known finding
C05-kemn-one-entry-null-key): for the key `{~: 1}` with value `2` the delivered entry is (None, 1): the
outer value `2` is dropped and the position of the value is filled from a node inside the key. -/
theorem kemn_key_takes_inner_value :
    deserTop 100 {} (.map (.option .string) (.int true 32))
      (eflatten (.map 0 1 9 [(.map 0 2 5 [(.scalar ['~'] 0 none .plain 0 3, .scalar ['1'] 0 none .plain 0 4)],
                              .scalar ['2'] 0 none .plain 0 6)]))
      = some (.map [(.none, .int 1)]) := by
  rfl

-- (E) non-vacuity
def sc (s : String) (l : Loc) : ENode := .scalar s.toList 0 none .plain 0 l
example : deserTop 100 {} (.tuple [.int true 32, .int true 32]) (eflatten (.seq 0 0 none 1 9 [sc "1" 2, sc "2" 3])) =
    some (.seq [.int 1, .int 2]) := by rfl
example : deserTop 100 {} (.tuple [.int true 32, .int true 32]) (eflatten (.seq 0 0 none 1 9 [sc "1" 2, sc "2" 3, sc "3" 4])) = none := by
  rfl
example : interp {} (.seq (.enum "E" [("A", .newtype (.int true 32)), ("B", .unit)])) (.seq 0 0 none 1 9 [sc "A" 2, sc "5" 3]) = none := by
  rfl
example : deserTop 100 {} (.seq (.enum "E" [("A", .newtype (.int true 32)), ("B", .unit)])) (eflatten (.seq 0 0 none 1 9 [sc "A" 2, sc "5" 3])) = none := by
  rfl

end SaphyrVerif.Props.C05
