import SaphyrVerif.Spec.Interp
import SaphyrVerif.Spec.SubPos
import SaphyrVerif.Lemmas.C05_Main
import SaphyrVerif.Lemmas.C05_SubPos
/-!
# C05 — typed deserialization is position-faithful; shape mismatches are errors

Refinement of the typed deserializer model (Model/De.lean: a cursor-based streaming deserializer with key
capture, pending/merge queues, look-ahead) to the structural interpretation of the parsed tree
(`Spec.interp`): every Rust position is filled from the YAML node at the corresponding position, and a
node is never consumed by a neighbouring position.
-/
namespace SaphyrVerif.Props.C05
open SaphyrVerif SaphyrVerif.Scalars SaphyrVerif.Pump SaphyrVerif.De SaphyrVerif.Spec

mutual
/-- types without tuples (tuples read a fixed number of elements, so on surplus elements a successful call
stops strictly inside the sequence; they are covered by `deser_top_sound`, `clean_or_deficit`,
`deser_top_complete_all` and `arity_mismatch_is_error`: only the "no value ⇒ the CALL fails" clause of
`deser_refines_interp` needs this predicate) -/
def tupleFree : Ty → Bool
  | .tuple _ => false
  | .option t | .seq t | .newtype t => tupleFree t
  | .map k v => tupleFree k && tupleFree v
  | .struct fs _ => tupleFreeF fs
  | .enum _ vs => tupleFreeV vs
  | _ => true
def tupleFreeF : List (String × Ty) → Bool
  | [] => true
  | (_, t) :: r => tupleFree t && tupleFreeF r
def tupleFreeV : List (String × VTy) → Bool
  | [] => true
  | (_, .unit) :: r => tupleFreeV r
  | (_, .newtype t) :: r => tupleFree t && tupleFreeV r
  | (_, .tuple _) :: _ => false
  | (_, .struct fs) :: r => tupleFreeF fs && tupleFreeV r
end

mutual
/-- no mapping key is a one-entry mapping whose own key is a null-like scalar: for such keys the code
deliberately delivers `None` as the key and the INNER value as the value (see the finding below) -/
def noKemnKeys : ENode → Bool
  | .scalar .. => true
  | .seq _ _ _ _ _ items => noKemnKeysL items
  | .map _ _ _ entries => noKemnKeysE entries
def noKemnKeysL : List ENode → Bool
  | [] => true
  | n :: ns => noKemnKeys n && noKemnKeysL ns
def noKemnKeysE : List (ENode × ENode) → Bool
  | [] => true
  | (k, v) :: es =>
    (match k with
     | .map _ _ _ [(.scalar sv stag _ _ _ _, _)] => !fpNullish sv stag
     | _ => true) && noKemnKeys k && noKemnKeys v && noKemnKeysE es
end

/-- the replay cursor positioned at the start of `t` inside `pre ++ eflatten t ++ rest` -/
def at_ (pre : List Ev) (t : ENode) (rest : List Ev) (ref : Option Loc) : Cur :=
  .replay (pre ++ eflatten t ++ rest) pre.length ref
/-- … and just after it -/
def after_ (pre : List Ev) (t : ENode) (rest : List Ev) (ref : Option Loc) : Cur :=
  .replay (pre ++ eflatten t ++ rest) (pre.length + (eflatten t).length) ref

open Lemmas.C05 in
mutual
theorem tupleFree_eq : ∀ ty : Ty, tupleFree ty = tfree ty
  | .tuple _ => by rw [tupleFree, tfree]
  | .option t => by rw [tupleFree, tfree]; exact tupleFree_eq t
  | .seq t => by rw [tupleFree, tfree]; exact tupleFree_eq t
  | .newtype t => by rw [tupleFree, tfree]; exact tupleFree_eq t
  | .map k v => by rw [tupleFree, tfree, tupleFree_eq k, tupleFree_eq v]
  | .struct fs _ => by rw [tupleFree, tfree]; exact tupleFreeF_eq fs
  | .enum _ vs => by rw [tupleFree, tfree]; exact tupleFreeV_eq vs
  | .bool => rfl
  | .int _ _ => rfl
  | .float _ => rfl
  | .char => rfl
  | .string => rfl
  | .unit => rfl
  | .bytes => rfl
  | .any => rfl
theorem tupleFreeF_eq : ∀ fs : List (String × Ty), tupleFreeF fs = tfreeF fs
  | [] => by rw [tupleFreeF, tfreeF]
  | (_, t) :: r => by rw [tupleFreeF, tfreeF, tupleFree_eq t, tupleFreeF_eq r]
theorem tupleFreeV_eq : ∀ vs : List (String × VTy), tupleFreeV vs = tfreeV vs
  | [] => by rw [tupleFreeV, tfreeV]
  | (_, .unit) :: r => by rw [tupleFreeV, tfreeV]; exact tupleFreeV_eq r
  | (_, .newtype t) :: r => by rw [tupleFreeV, tfreeV, tupleFree_eq t, tupleFreeV_eq r]
  | (_, .tuple _) :: _ => by rw [tupleFreeV, tfreeV]
  | (_, .struct fs) :: r => by rw [tupleFreeV, tfreeV, tupleFreeF_eq fs, tupleFreeV_eq r]
end

open Lemmas.C05 in
mutual
theorem noKemnKeys_eq : ∀ t : ENode, noKemnKeys t = kfree t
  | .scalar .. => by rw [noKemnKeys, kfree]
  | .seq _ _ _ _ _ items => by rw [noKemnKeys, kfree]; exact noKemnKeysL_eq items
  | .map _ _ _ entries => by rw [noKemnKeys, kfree]; exact noKemnKeysE_eq entries
theorem noKemnKeysL_eq : ∀ ts : List ENode, noKemnKeysL ts = kfreeL ts
  | [] => by rw [noKemnKeysL, kfreeL]
  | n :: ns => by rw [noKemnKeysL, kfreeL, noKemnKeys_eq n, noKemnKeysL_eq ns]
theorem noKemnKeysE_eq : ∀ es : List (ENode × ENode), noKemnKeysE es = kfreeE es
  | [] => by rw [noKemnKeysE, kfreeE]
  | (k, v) :: es => by
    rw [noKemnKeysE.eq_def]
    simp only []
    rw [kfreeE, noKemnKeys_eq k, noKemnKeys_eq v, noKemnKeysE_eq es]
    rfl
end

/-- (T) clean refinement for tuple-free types: on any stream that contains the events of `t` at the
cursor, with enough fuel, deserialization into `ty` succeeds exactly when the specification assigns a value,
returns exactly that value, and leaves the cursor exactly after `t` — it never touches `rest`
(no neighbouring node is consumed) and never stops inside `t`. -/
theorem deser_refines_interp (cfg : Cfg) (ty : Ty) (t : ENode) (pre rest : List Ev) (ref : Option Loc)
    (hty : tupleFree ty = true) (hk : noKemnKeys t = true) :
    ∃ n, ∀ fuel, n ≤ fuel →
      match interp cfg ty t with
      | some v => deser fuel cfg ty false false (at_ pre t rest ref) = .ok v (after_ pre t rest ref)
      | none => ∃ e c, deser fuel cfg ty false false (at_ pre t rest ref) = .err e c := by
  have hk' : Lemmas.C05.kfree t = true := by rw [← noKemnKeys_eq]; exact hk
  have hty' : Lemmas.C05.tfree ty = true := by rw [← tupleFree_eq]; exact hty
  have hdrop : (pre ++ eflatten t ++ rest).drop pre.length = eflatten t ++ rest := by
    rw [List.append_assoc, List.drop_left]
  obtain ⟨n, hn⟩ := Lemmas.C05.ref_all cfg ty t hk' (pre ++ eflatten t ++ rest) pre.length ref rest hdrop
  refine ⟨n, fun fuel hf => ?_⟩
  have := hn fuel hf
  simp only [at_, after_]
  cases hi : interp cfg ty t with
  | some v =>
    rw [hi] at this
    exact this
  | none =>
    rw [hi] at this
    rcases this with h | ⟨hd, -⟩
    · exact h
    · rw [hty'] at hd; cases hd

/-- (T) clean_or_deficit — the refinement for ALL types (tuples and tuple variants included): on any stream that
contains the events of `t` at the cursor, with enough fuel,
* if the specification assigns a value, deserialization returns exactly that value and leaves the cursor exactly
  after `t` (completeness needs NO restriction on the type);
* otherwise it fails, or — possible only for a type that contains a fixed-size position — it returns with the
  cursor strictly inside `t` (a deficit: surplus elements of a tuple are left unread). It never touches `rest`. -/
theorem clean_or_deficit (cfg : Cfg) (ty : Ty) (t : ENode) (pre rest : List Ev) (ref : Option Loc)
    (hk : noKemnKeys t = true) :
    ∃ n, ∀ fuel, n ≤ fuel →
      match interp cfg ty t with
      | some v => deser fuel cfg ty false false (at_ pre t rest ref) = .ok v (after_ pre t rest ref)
      | none =>
        (∃ e c, deser fuel cfg ty false false (at_ pre t rest ref) = .err e c) ∨
        (tupleFree ty = false ∧ ∃ w j, deser fuel cfg ty false false (at_ pre t rest ref) =
            .ok w (.replay (pre ++ eflatten t ++ rest) j ref) ∧ pre.length < j ∧ j < pre.length + (eflatten t).length) := by
  have hk' : Lemmas.C05.kfree t = true := by rw [← noKemnKeys_eq]; exact hk
  have hdrop : (pre ++ eflatten t ++ rest).drop pre.length = eflatten t ++ rest := by
    rw [List.append_assoc, List.drop_left]
  obtain ⟨n, hn⟩ := Lemmas.C05.ref_all cfg ty t hk' (pre ++ eflatten t ++ rest) pre.length ref rest hdrop
  refine ⟨n, fun fuel hf => ?_⟩
  have := hn fuel hf
  simp only [at_, after_]
  cases hi : interp cfg ty t with
  | some v =>
    rw [hi] at this
    exact this
  | none =>
    rw [hi] at this
    rcases this with h | ⟨hd, h⟩
    · exact Or.inl h
    · refine Or.inr ⟨?_, h⟩
      rw [tupleFree_eq]
      cases htf : Lemmas.C05.tfree ty with
      | false => rfl
      | true => rw [htf] at hd; cases hd

/-- (T) the positive half of `clean_or_deficit` on its own: whenever the specification assigns a value, the call
returns it and stops exactly after the node — for every type. -/
theorem deser_complete_at (cfg : Cfg) (ty : Ty) (t : ENode) (pre rest : List Ev) (ref : Option Loc)
    (hk : noKemnKeys t = true) (v : Val) (h : interp cfg ty t = some v) :
    ∃ n, ∀ fuel, n ≤ fuel → deser fuel cfg ty false false (at_ pre t rest ref) = .ok v (after_ pre t rest ref) := by
  obtain ⟨n, hn⟩ := clean_or_deficit cfg ty t pre rest ref hk
  refine ⟨n, fun fuel hf => ?_⟩
  have := hn fuel hf
  rw [h] at this
  exact this

/-- the document-level check of the single-document entry points, on a replay cursor: the value, then the
cursor must be at the end of the events -/
def deserTop (fuel : Nat) (cfg : Cfg) (ty : Ty) (evs : List Ev) : Option Val :=
  match deser fuel cfg ty false false (.replay evs 0 none) with
  | .ok v c =>
    match c.peek with
    | .ok none _ => some v
    | _ => none
  | .err _ _ => none

/-- (T) deser_top_sound: for ALL types (tuples, enums with tuple variants, … included): if the
single-document protocol accepts the events of a tree, the value is the position-faithful one. In
particular surplus or missing tuple elements, unknown variants and kind mismatches are errors: a
deficit left by an inner call is never repaired by an enclosing call. -/
theorem deser_top_sound (cfg : Cfg) (ty : Ty) (t : ENode) (hk : noKemnKeys t = true) (fuel : Nat) (v : Val)
    (h : deserTop fuel cfg ty (eflatten t) = some v) : interp cfg ty t = some v := by
  have hk' : Lemmas.C05.kfree t = true := by rw [← noKemnKeys_eq]; exact hk
  obtain ⟨n, hn⟩ := Lemmas.C05.ref_all cfg ty t hk' (eflatten t) 0 none [] (by simp)
  -- the successful run, with more fuel
  simp only [deserTop] at h
  cases hd : deser fuel cfg ty false false (.replay (eflatten t) 0 none) with
  | err e c => rw [hd] at h; cases h
  | ok v' c =>
    rw [hd] at h
    have hbig := Lemmas.C05.deser_mono_le (Nat.le_max_left fuel n) hd
    have := hn (max fuel n) (Nat.le_max_right fuel n)
    rw [hbig] at this
    cases hi : interp cfg ty t with
    | some w =>
      rw [hi] at this
      simp only [Lemmas.C05.NodeOut] at this
      injection this with h1 h2
      subst h1 h2
      simp only [Nat.zero_add, Lemmas.C05.peek_at_end] at h
      exact h
    | none =>
      rw [hi] at this
      rcases this with ⟨e, c', he⟩ | ⟨-, w, j, he, hj1, hj2⟩
      · cases he
      · injection he with h1 h2
        subst h1 h2
        obtain ⟨ev, hev⟩ := Lemmas.C05.peek_inside (eflatten t) none (j := j) (by omega)
        simp [hev] at h

/-- (T) completeness at document level for tuple-free types -/
theorem deser_top_complete (cfg : Cfg) (ty : Ty) (t : ENode) (hty : tupleFree ty = true) (hk : noKemnKeys t = true)
    (v : Val) (h : interp cfg ty t = some v) : ∃ n, ∀ fuel, n ≤ fuel → deserTop fuel cfg ty (eflatten t) = some v := by
  obtain ⟨n, hn⟩ := deser_refines_interp cfg ty t [] [] none hty hk
  refine ⟨n, fun fuel hf => ?_⟩
  have := hn fuel hf
  rw [h] at this
  simp only [at_, after_, List.nil_append, List.append_nil, List.length_nil, Nat.zero_add] at this
  simp only [deserTop, this, Lemmas.C05.peek_at_end]

/-- (T) completeness at document level for ALL types (the `tupleFree` hypothesis of `deser_top_complete` is not
needed): whenever the specification assigns a value to the tree, the single-document protocol returns exactly
that value for all large enough fuel. -/
theorem deser_top_complete_all (cfg : Cfg) (ty : Ty) (t : ENode) (hk : noKemnKeys t = true)
    (v : Val) (h : interp cfg ty t = some v) : ∃ n, ∀ fuel, n ≤ fuel → deserTop fuel cfg ty (eflatten t) = some v := by
  obtain ⟨n, hn⟩ := deser_complete_at cfg ty t [] [] none hk v h
  refine ⟨n, fun fuel hf => ?_⟩
  have := hn fuel hf
  simp only [at_, after_, List.nil_append, List.append_nil, List.length_nil, Nat.zero_add] at this
  simp only [deserTop, this, Lemmas.C05.peek_at_end]

/-- (T) soundness and completeness together, for ALL types: for all large enough fuel the single-document
protocol on the events of a tree IS the specification (same value, or both reject). -/
theorem deser_top_eq_interp (cfg : Cfg) (ty : Ty) (t : ENode) (hk : noKemnKeys t = true) :
    ∃ n, ∀ fuel, n ≤ fuel → deserTop fuel cfg ty (eflatten t) = interp cfg ty t := by
  cases hi : interp cfg ty t with
  | some v => exact deser_top_complete_all cfg ty t hk v hi
  | none =>
    refine ⟨0, fun fuel _ => ?_⟩
    cases hd : deserTop fuel cfg ty (eflatten t) with
    | none => rfl
    | some w =>
      have := deser_top_sound cfg ty t hk fuel w hd
      rw [hi] at this; cases this

/-- (T) deficit_is_fatal (document level): a call that returns with the cursor before the end of the events —
in particular strictly inside the root node, the second outcome of `clean_or_deficit` — is rejected by the
single-document protocol. (That an enclosing call never repairs a deficit is `failing_position_is_error`.) -/
theorem deficit_is_fatal (fuel : Nat) (cfg : Cfg) (ty : Ty) (evs : List Ev) (w : Val) (j : Nat) (ref : Option Loc)
    (h : deser fuel cfg ty false false (.replay evs 0 none) = .ok w (.replay evs j ref)) (hj : j < evs.length) :
    deserTop fuel cfg ty evs = none := by
  obtain ⟨ev, hev⟩ := Lemmas.C05.peek_inside evs ref (j := j) hj
  simp [deserTop, h, hev]

/-- (F — characterisation of `tupleFree`) what the hypothesis `tupleFree` of `deser_refines_interp` excludes is
exactly the second outcome of `clean_or_deficit`, and it does occur: `[1, 2, 3]` at a position of type `(i32, i32)`
has no value, yet the call returns `ok` — with the cursor on the third element, strictly inside the sequence. -/
theorem tuple_surplus_stops_inside :
    interp {} (.tuple [.int true 32, .int true 32])
        (.seq 0 0 none 1 9 [.scalar ['1'] 0 none .plain 0 2, .scalar ['2'] 0 none .plain 0 3, .scalar ['3'] 0 none .plain 0 4])
      = none ∧
    deser 100 {} (.tuple [.int true 32, .int true 32]) false false
        (at_ [] (.seq 0 0 none 1 9 [.scalar ['1'] 0 none .plain 0 2, .scalar ['2'] 0 none .plain 0 3, .scalar ['3'] 0 none .plain 0 4]) [] none)
      = .ok (.seq [.int 1, .int 2])
          (.replay (eflatten (.seq 0 0 none 1 9 [.scalar ['1'] 0 none .plain 0 2, .scalar ['2'] 0 none .plain 0 3, .scalar ['3'] 0 none .plain 0 4])) 3 none) := by
  constructor <;> rfl

/-- (F) hence the conclusion of `deser_refines_interp` ("no value ⇒ the call fails") is false without `tupleFree`:
for the witness above no fuel bound makes the call fail. -/
theorem deser_refines_interp_needs_tupleFree :
    ¬ (∀ (ty : Ty) (t : ENode), noKemnKeys t = true → ∃ n, ∀ fuel, n ≤ fuel →
        match interp {} ty t with
        | some v => deser fuel {} ty false false (at_ [] t [] none) = .ok v (after_ [] t [] none)
        | none => ∃ e c, deser fuel {} ty false false (at_ [] t [] none) = .err e c) := by
  intro hall
  obtain ⟨h1, h2⟩ := tuple_surplus_stops_inside
  obtain ⟨n, hn⟩ := hall _ _ (by rfl : noKemnKeys (.seq 0 0 none 1 9 [.scalar ['1'] 0 none .plain 0 2,
    .scalar ['2'] 0 none .plain 0 3, .scalar ['3'] 0 none .plain 0 4]) = true)
  have := hn (max 100 n) (Nat.le_max_right _ _)
  rw [h1] at this
  obtain ⟨e, c, he⟩ := this
  have hbig := Lemmas.C05.deser_mono_le (Nat.le_max_left 100 n) h2
  rw [hbig] at he
  cases he

/-- (T) arity_mismatch_is_error (specification level): a tuple position accepts exactly as many nodes as it
has components -/
theorem arity_mismatch_is_error_spec (cfg : Cfg) (ts : List Ty) (a tag : Nat) (rt : Option (List Char)) (l el : Loc)
    (items : List ENode) (h : items.length ≠ ts.length) :
    interp cfg (.tuple ts) (.seq a tag rt l el items) = none := by
  rw [interp]
  simp only [tupleNode]
  rw [Lemmas.C05.tupleFrom_length_ne _ _ (by rw [Lemmas.C05.interpFns_length]; exact h)]; rfl

/-- (T) unknown_variant_is_error -/
theorem unknown_variant_is_error (cfg : Cfg) (name : String) (vs : List (String × VTy)) (v : List Char)
    (st : Style) (a : Nat) (l : Loc) (h : ∀ p ∈ vs, p.1.toList ≠ v) :
    interp cfg (.enum name vs) (.scalar v 0 none st a l) = none := by
  rw [interp]
  simp only [enumFrom]
  have hs : simpleTaggedEnumName none 0 = none := by simp [simpleTaggedEnumName, tagOther]
  rw [hs]
  have : variantFrom cfg (variantFns cfg vs) v none false = none := by
    apply Lemmas.C05.variantFrom_unknown
    intro q hq
    obtain ⟨p, hp, e⟩ := Lemmas.C05.variantFns_fst cfg vs q hq
    rw [← e]; exact h p hp
  simp [this]

/-- (T) kind_mismatch_is_error: a scalar position never accepts a container, a sequence position never a
mapping, a mapping position never a sequence -/
theorem kind_mismatch_is_error (cfg : Cfg) (a tag : Nat) (rt : Option (List Char)) (l el : Loc)
    (items : List ENode) (es : List (ENode × ENode)) (k v t : Ty) (s : Bool) (w : Nat) :
    interp cfg .bool (.seq a tag rt l el items) = none ∧ interp cfg (.int s w) (.map a l el es) = none ∧
    interp cfg .string (.seq a tag rt l el items) = none ∧ interp cfg (.seq t) (.map a l el es) = none ∧
    interp cfg (.map k v) (.seq a tag rt l el items) = none := by
  refine ⟨?_, ?_, ?_, ?_, ?_⟩ <;> rw [interp]

/-- (T) failing_position_is_error — a failure is never repaired by an enclosing call: if, while the document
`t` is read at type `ty`, some node `n'` (a sequence, or a non-empty mapping) is read at a Rust position of type
`ty'` (`Spec.SubPos`: through any nesting of `Vec`, tuple, map key / value incl. merged entries, struct field,
enum payload in map and tag notation, `Option`, newtype) and that position has no value, then the
single-document protocol rejects the document — for EVERY fuel. -/
theorem failing_position_is_error (cfg : Cfg) (ty ty' : Ty) (t n' : ENode) (hk : noKemnKeys t = true)
    (hpos : SubPos cfg ty t ty' n') (hs : solid n' = true) (hf : interp cfg ty' n' = none) (fuel : Nat) :
    deserTop fuel cfg ty (eflatten t) = none := by
  have hi := Lemmas.C05.subPos_interp_none hpos hs hf
  cases hd : deserTop fuel cfg ty (eflatten t) with
  | none => rfl
  | some w =>
    have := deser_top_sound cfg ty t hk fuel w hd
    rw [hi] at this; cases this

/-- (T) arity_mismatch_is_error (model level, top level AND nested): a sequence node with `items.length ≠ ts.length`
items (surplus or missing elements; a sequence node, so not the `!!binary` scalar form) that is read at a tuple
position of type `(ts…)` ANYWHERE in the document — at the root (`SubPos.here`) or below any nesting of container
types (`Spec.SubPos`) — makes the single-document protocol fail, for every fuel: the surplus / deficit is never
repaired by an enclosing call. -/
theorem arity_mismatch_is_error (cfg : Cfg) (ty : Ty) (t : ENode) (hk : noKemnKeys t = true)
    (ts : List Ty) (a tag : Nat) (rt : Option (List Char)) (l el : Loc) (items : List ENode)
    (hpos : SubPos cfg ty t (.tuple ts) (.seq a tag rt l el items)) (h : items.length ≠ ts.length) (fuel : Nat) :
    deserTop fuel cfg ty (eflatten t) = none :=
  failing_position_is_error cfg ty (.tuple ts) t _ hk hpos rfl
    (arity_mismatch_is_error_spec cfg ts a tag rt l el items h) fuel

/-- (T) arity_mismatch_is_error, the top-level instance spelled out: a tuple type on a sequence document of the
wrong length -/
theorem arity_mismatch_is_error_top (cfg : Cfg) (ts : List Ty) (a tag : Nat) (rt : Option (List Char)) (l el : Loc)
    (items : List ENode) (hk : noKemnKeys (.seq a tag rt l el items) = true) (h : items.length ≠ ts.length) (fuel : Nat) :
    deserTop fuel cfg (.tuple ts) (eflatten (.seq a tag rt l el items)) = none :=
  arity_mismatch_is_error cfg (.tuple ts) _ hk ts a tag rt l el items (.here _ _) h fuel

/-- (T) the same for the payload of a tuple VARIANT, in both notations `{V: [ … ]}` and `!V [ … ]` (instances of
`arity_mismatch_is_error` through `SubPos.variantMap` / `SubPos.variantTagged`, spelled out because tuple variants
are the second kind of fixed-size position) -/
theorem variant_arity_mismatch_is_error (cfg : Cfg) (name vn : String) (variants : List (String × VTy)) (ts : List Ty)
    (kv : List Char) (hv : variants.find? (fun p => p.1.toList == kv) = some (vn, .tuple ts))
    (a a' ka ktag tag : Nat) (krt rt : Option (List Char)) (kst : Style) (l el l' el' kl : Loc) (items : List ENode)
    (hk : noKemnKeysL items = true) (h : items.length ≠ ts.length) (fuel : Nat) :
    deserTop fuel cfg (.enum name variants)
        (eflatten (.map a l el [(.scalar kv ktag krt kst ka kl, .seq a' tag rt l' el' items)])) = none ∧
    (simpleTaggedEnumName rt tag = some kv →
      deserTop fuel cfg (.enum name variants) (eflatten (.seq a' tag rt l' el' items)) = none) := by
  refine ⟨?_, fun htn => ?_⟩
  · refine arity_mismatch_is_error cfg _ _ ?_ ts a' tag rt l' el' items (.variantMap hv rfl (.here _ _)) h fuel
    simp only [noKemnKeys, noKemnKeysE, hk, Bool.and_true]
  · refine arity_mismatch_is_error cfg _ _ ?_ ts a' tagNone none l' el' items (.variantTagged htn hv rfl (.here _ _)) h fuel
    simp only [noKemnKeys, hk]

/-- (F) the excluded class is a genuine deviation of model and code (known finding
C05-kemn-one-entry-null-key): for the key `{~: 1}` with value `2` the delivered entry is (None, 1): the
outer value `2` is dropped and the position of the value is filled from a node inside the key. -/
theorem kemn_key_takes_inner_value :
    deserTop 100 {} (.map (.option .string) (.int true 32))
      (eflatten (.map 0 1 9 [(.map 0 2 5 [(.scalar ['~'] 0 none .plain 0 3, .scalar ['1'] 0 none .plain 0 4)],
                              .scalar ['2'] 0 none .plain 0 6)]))
      = some (.map [(.none, .int 1)]) := by
  rfl

-- (E) non-vacuity
def sc (s : String) (l : Loc) : ENode := .scalar s.toList 0 none .plain 0 l

/-- `{ {~: [1, 2]}: [1, 2, 3] }` -/
def kemnArityDoc : ENode :=
  .map 0 1 19 [(.map 0 2 9 [(sc "~" 3, .seq 0 0 none 4 7 [sc "1" 5, sc "2" 6])],
                .seq 0 0 none 10 15 [sc "1" 11, sc "2" 12, sc "3" 13])]

/-- (F) `arity_mismatch_is_error` is FALSE without `noKemnKeys` — the excluded class (finding
C05-kemn-one-entry-null-key) also swallows an arity mismatch: in `{ {~: [1, 2]}: [1, 2, 3] }` read as
`HashMap<Option<String>, (i32, i32)>` the value of the only entry is the 3-element sequence (a sub-position of
type `(i32, i32)`, so the document has no value), but the call delivers `{None: (1, 2)}`: the value position is
filled from INSIDE the key and the outer value, with its surplus element, is dropped.  (`de.rs`, pending-entry
branch of `next_key_seed`: `value_events = events.drain(vs..ve).collect()` overwrites the captured outer value —
model and code agree; `serde_saphyr::from_str::<HashMap<Option<String>, (i32, i32)>>("{ {~: [1, 2]}: [1, 2, 3] }")`
returns `Ok({None: (1, 2)})`.) -/
theorem arity_mismatch_needs_noKemnKeys :
    noKemnKeys kemnArityDoc = false ∧
    SubPos {} (.map (.option .string) (.tuple [.int true 32, .int true 32])) kemnArityDoc
      (.tuple [.int true 32, .int true 32]) (.seq 0 0 none 10 15 [sc "1" 11, sc "2" 12, sc "3" 13]) ∧
    interp {} (.map (.option .string) (.tuple [.int true 32, .int true 32])) kemnArityDoc = none ∧
    deserTop 100 {} (.map (.option .string) (.tuple [.int true 32, .int true 32])) (eflatten kemnArityDoc) =
      some (.map [(.none, .seq [.int 1, .int 2])]) := by
  refine ⟨by rfl, ?_, by rfl, by rfl⟩
  exact .mapValue (es := [(.map 0 2 9 [(sc "~" 3, .seq 0 0 none 4 7 [sc "1" 5, sc "2" 6])],
      .seq 0 0 none 10 15 [sc "1" 11, sc "2" 12, sc "3" 13])]) (by rfl) (List.Mem.head _) (.here _ _)
example : deserTop 100 {} (.tuple [.int true 32, .int true 32]) (eflatten (.seq 0 0 none 1 9 [sc "1" 2, sc "2" 3])) =
    some (.seq [.int 1, .int 2]) := by rfl
example : deserTop 100 {} (.tuple [.int true 32, .int true 32]) (eflatten (.seq 0 0 none 1 9 [sc "1" 2, sc "2" 3, sc "3" 4])) = none := by
  rfl
example : interp {} (.seq (.enum "E" [("A", .newtype (.int true 32)), ("B", .unit)])) (.seq 0 0 none 1 9 [sc "A" 2, sc "5" 3]) = none := by
  rfl
example : deserTop 100 {} (.seq (.enum "E" [("A", .newtype (.int true 32)), ("B", .unit)])) (eflatten (.seq 0 0 none 1 9 [sc "A" 2, sc "5" 3])) = none := by
  rfl

/-! ### (E) non-vacuity of the all-types theorems: types with fixed-size positions -/

def i32 : Ty := .int true 32
/-- `Vec<(i32, i32)>` -/
def pairsTy : Ty := .seq (.tuple [i32, i32])
/-- `[[1, 2], [3, 4]]` -/
def pairsDoc : ENode :=
  .seq 0 0 none 1 9 [.seq 0 0 none 2 5 [sc "1" 3, sc "2" 4], .seq 0 0 none 6 8 [sc "3" 7, sc "4" 77]]
/-- `[[1, 2], [1, 2, 3]]` -/
def pairsBad : ENode :=
  .seq 0 0 none 1 9 [.seq 0 0 none 2 5 [sc "1" 3, sc "2" 4], .seq 0 0 none 6 8 [sc "1" 7, sc "2" 77, sc "3" 78]]
example : tupleFree pairsTy = false := by rfl
example : interp {} pairsTy pairsDoc = some (.seq [.seq [.int 1, .int 2], .seq [.int 3, .int 4]]) := by rfl
/-- completeness applies to a type that is not tuple-free … -/
example : ∃ n, ∀ fuel, n ≤ fuel →
    deserTop fuel {} pairsTy (eflatten pairsDoc) = some (.seq [.seq [.int 1, .int 2], .seq [.int 3, .int 4]]) :=
  deser_top_complete_all {} pairsTy pairsDoc (by rfl) _ (by rfl)
example : ∃ n, ∀ fuel, n ≤ fuel →
    deser fuel {} pairsTy false false (at_ [.mapStart 0 0] pairsDoc [.mapEnd 0] none) =
      .ok (.seq [.seq [.int 1, .int 2], .seq [.int 3, .int 4]]) (after_ [.mapStart 0 0] pairsDoc [.mapEnd 0] none) :=
  deser_complete_at {} pairsTy pairsDoc _ _ none (by rfl) _ (by rfl)
/-- … and so does the negative clause, one level down: the second element has a surplus item -/
example (fuel : Nat) : deserTop fuel {} pairsTy (eflatten pairsBad) = none :=
  arity_mismatch_is_error {} pairsTy pairsBad (by rfl) [i32, i32] 0 0 none 6 8 [sc "1" 7, sc "2" 77, sc "3" 78]
    (.seqItem (List.Mem.tail _ (List.Mem.head _)) (.here _ _)) (by decide) fuel
/-- inner surplus = outer shortage: `[[1, 2, 3]]` into `((i32, i32), i32)` (the seeded defect C05-1) -/
example (fuel : Nat) : deserTop fuel {} (.tuple [.tuple [i32, i32], i32])
    (eflatten (.seq 0 0 none 1 9 [.seq 0 0 none 2 8 [sc "1" 3, sc "2" 4, sc "3" 5]])) = none :=
  arity_mismatch_is_error {} _ _ (by rfl) [i32, i32] 0 0 none 2 8 [sc "1" 3, sc "2" 4, sc "3" 5]
    (.tupleItem (List.Mem.head _) (.here _ _)) (by decide) fuel
/-- a missing element, below `Option` and a newtype struct, at the root -/
example (fuel : Nat) : deserTop fuel {} (.option (.newtype (.tuple [i32, .option i32])))
    (eflatten (.seq 0 0 none 1 9 [sc "1" 3])) = none :=
  arity_mismatch_is_error {} _ _ (by rfl) [i32, .option i32] 0 0 none 1 9 [sc "1" 3]
    (.option (.newtype (.here _ _))) (by decide) fuel
/-- a surplus element in a MERGED entry read as a struct field (`{<<: {a: [1, 2, 3]}}`, defined below) -/
example (fuel : Nat) : deserTop fuel {} (.struct [("a", .tuple [i32, i32])] false)
    (eflatten (.map 0 1 19 [(sc "<<" 2, .map 0 3 9 [(sc "a" 4, .seq 0 0 none 5 8 [sc "1" 6, sc "2" 7, sc "3" 77])])])) = none :=
  arity_mismatch_is_error {} _ _ (by rfl) [i32, i32] 0 0 none 5 8 [sc "1" 6, sc "2" 7, sc "3" 77]
    (.field (es := [(sc "a" 4, .seq 0 0 none 5 8 [sc "1" 6, sc "2" 7, sc "3" 77])]) (k := sc "a" 4) (name := ['a'])
      (fname := "a") (by rfl) (List.Mem.head _) (by rfl) (by rfl) (.here _ _)) (by decide) fuel
/-- a surplus element in a map KEY and in a tuple-variant payload `{V: [1, 2, 3]}` inside a map value -/
example (fuel : Nat) : deserTop fuel {} (.map (.tuple [i32, i32]) i32)
    (eflatten (.map 0 1 9 [(.seq 0 0 none 2 6 [sc "1" 3, sc "2" 4, sc "3" 5], sc "7" 7)])) = none :=
  arity_mismatch_is_error {} _ _ (by rfl) [i32, i32] 0 0 none 2 6 [sc "1" 3, sc "2" 4, sc "3" 5]
    (.mapKey (es := [(.seq 0 0 none 2 6 [sc "1" 3, sc "2" 4, sc "3" 5], sc "7" 7)]) (by rfl) (List.Mem.head _) (.here _ _))
    (by decide) fuel
example (fuel : Nat) : deserTop fuel {} (.map .string (.enum "E" [("U", .unit), ("V", .tuple [i32, i32])]))
    (eflatten (.map 0 1 9 [(sc "k" 2, .map 0 3 8 [(sc "V" 4, .seq 0 0 none 5 7 [sc "1" 6])])])) = none :=
  arity_mismatch_is_error {} _ _ (by rfl) [i32, i32] 0 0 none 5 7 [sc "1" 6]
    (.mapValue (es := [(sc "k" 2, .map 0 3 8 [(sc "V" 4, .seq 0 0 none 5 7 [sc "1" 6])])]) (by rfl) (List.Mem.head _)
      (.variantMap (vn := "V") (vty := .tuple [i32, i32]) (by rfl) rfl (.here _ _)))
    (by decide) fuel
/-- the hypotheses of `variant_arity_mismatch_is_error` are satisfiable (tag notation `!V [1]`) -/
example (fuel : Nat) : deserTop fuel {} (.enum "E" [("U", .unit), ("V", .tuple [i32, i32])])
    (eflatten (.seq 0 tagOther (some "!V".toList) 5 7 [sc "1" 6])) = none :=
  (variant_arity_mismatch_is_error {} "E" "V" [("U", .unit), ("V", .tuple [i32, i32])] [i32, i32] ['V'] (by rfl)
    0 0 0 0 tagOther none (some "!V".toList) .plain 0 0 5 7 0 [sc "1" 6] (by rfl) (by decide) fuel).2 (by rfl)
/-- `failing_position_is_error` on a failure that is not an arity mismatch: a mapping where `Vec<i32>` is expected,
two levels down -/
example (fuel : Nat) : deserTop fuel {} (.seq (.option (.seq i32)))
    (eflatten (.seq 0 0 none 1 9 [.map 0 2 8 [(sc "a" 3, sc "1" 4)]])) = none :=
  failing_position_is_error {} _ (.seq i32) _ (.map 0 2 8 [(sc "a" 3, sc "1" 4)]) (by rfl)
    (.seqItem (List.Mem.head _) (.option (.here _ _))) rfl (by rfl) fuel
/-- `deser_top_eq_interp` on an accepted and on a rejected document -/
example : ∃ n, ∀ fuel, n ≤ fuel → deserTop fuel {} pairsTy (eflatten pairsBad) = interp {} pairsTy pairsBad :=
  deser_top_eq_interp {} pairsTy pairsBad (by rfl)
/-- `deficit_is_fatal` on the witness of `tuple_surplus_stops_inside` -/
example : deserTop 100 {} (.tuple [i32, i32]) (eflatten (.seq 0 0 none 1 9 [sc "1" 2, sc "2" 3, sc "3" 4])) = none :=
  deficit_is_fatal 100 {} _ _ (.seq [.int 1, .int 2]) 3 none (by rfl) (by decide)

/-! ### regression examples for the findings made while proving C05

History (all three were found by the proof attempt, confirmed on the implementation, and fixed):
1. a recorded KEY and a buffered / MERGED VALUE were deserialized from their own replay buffer whose final
   cursor was dropped, so surplus tuple elements were silently discarded (`{[1,2,3]: 7}` into
   `HashMap<(i32,i32),i32>`, `{<<: {a: [1,2,3]}}` into `HashMap<String,(i32,i32)>`): fixed in code and model
   (`deserKey` / `nextValue` now require the buffer to be consumed);
2. an EMPTY `!!binary` scalar at a `Vec<T>` position is the empty vector for every `T`: the specification
   (`interp`, `.seq t` on a `!!binary` scalar) was corrected;
3. a TUPLE position on a `!!binary` scalar dropped surplus bytes (fixed in code and model,
   `byteSeqVisit`), and with exactly one byte per integer component it is accepted (specification
   `tupleNode` corrected).  -/

def kSurplus : ENode := .map 0 1 9 [(.seq 0 0 none 2 6 [sc "1" 3, sc "2" 4, sc "3" 5], sc "7" 7)]
example : deserTop 100 {} (.map (.tuple [.int true 32, .int true 32]) (.int true 32)) (eflatten kSurplus) = none := by rfl
def mvSurplus : ENode :=
  .map 0 1 19 [(sc "<<" 2, .map 0 3 9 [(sc "a" 4, .seq 0 0 none 5 8 [sc "1" 6, sc "2" 7, sc "3" 77])])]
-- (by the soundness theorem: the specification rejects the surplus element)
example : deserTop 100 {} (.map .string (.tuple [.int true 32, .int true 32])) (eflatten mvSurplus) = none := by
  cases h : deserTop 100 {} (.map .string (.tuple [.int true 32, .int true 32])) (eflatten mvSurplus) with
  | none => rfl
  | some v =>
    have := deser_top_sound {} _ mvSurplus (by rfl) 100 v h
    have hn : interp {} (.map .string (.tuple [.int true 32, .int true 32])) mvSurplus = none := by rfl
    rw [hn] at this; cases this
example : deserTop 100 {} (.struct [("a", .tuple [.int true 32, .int true 32])] false) (eflatten mvSurplus) = none := by
  cases h : deserTop 100 {} (.struct [("a", .tuple [.int true 32, .int true 32])] false) (eflatten mvSurplus) with
  | none => rfl
  | some v =>
    have := deser_top_sound {} _ mvSurplus (by rfl) 100 v h
    have hn : interp {} (.struct [("a", .tuple [.int true 32, .int true 32])] false) mvSurplus = none := by rfl
    rw [hn] at this; cases this
def emptyBinary : ENode := .scalar [] 8 none .double 0 1
example : deserTop 100 {} (.seq .string) (eflatten emptyBinary) = some (.seq []) := by rfl
example : interp {} (.seq .string) emptyBinary = some (.seq []) := by rfl
def threeBytes : ENode := .scalar "AAEC".toList 8 none .plain 0 1
example : deserTop 100 {} (.tuple [.int false 8, .int false 8]) (eflatten threeBytes) = none := by rfl
example : interp {} (.tuple [.int false 8, .int false 8]) threeBytes = none := by rfl
example : deserTop 100 {} (.tuple [.int false 8, .int false 8, .int false 8]) (eflatten threeBytes) =
    some (.seq [.int 0, .int 1, .int 2]) := by rfl
example : interp {} (.tuple [.int false 8, .int false 8, .int false 8]) threeBytes = some (.seq [.int 0, .int 1, .int 2]) := by rfl

/- Proof structure (Lemmas/C05_*.lean): `Lemmas.C05.ref_all` — for every type (tuples included) and every
admissible node, `deser` on a replay cursor at the node either returns exactly `interp` and stops exactly
after the node, or fails, or (only for types containing a tuple) stops strictly inside the node — by
induction on the nesting depth of the node and the size of the type; the map access is shown to deliver
`effEntries` (`nextKey_spec`, `nextValue_spec`, `mapEntries_spec`, `structEntries_spec`); a stop strictly
inside a node is never repaired by an enclosing call (`C05_Weak*`: no call moves the cursor below its starting
nesting depth); `deser_top_sound` for arbitrary fuel uses the fuel monotonicity of success (`C05_Mono`).
Imported statements used: `Props.C04.capture_node_exact`, `Props.C04.skip_one_node_exact`,
`Props.C03.collect_entries_spec` (through `deser_refines_interp`, `deser_top_sound`, `deser_top_complete`).

The `tupleFree` hypothesis: `ref_all` already yields, for EVERY type, "value expected ⇒ exactly that value, cursor
exactly after the node"; the type restriction is needed only for the clause "no value expected ⇒ the call fails"
(`tuple_surplus_stops_inside`, `deser_refines_interp_needs_tupleFree`). Hence `clean_or_deficit`,
`deser_top_complete_all`, `deser_top_eq_interp` carry no type restriction. The negative clause
(`failing_position_is_error`, `arity_mismatch_is_error`, top level and nested) is `deser_top_sound` composed with
the specification-level fact that a failing sub-position (`Spec.SubPos`, Spec/SubPos.lean) makes every enclosing
position fail (`Lemmas.C05.subPos_interp_none`, Lemmas/C05_SubPos.lean); it needs `noKemnKeys`
(`arity_mismatch_needs_noKemnKeys`). -/
#print axioms deser_refines_interp
#print axioms deser_top_sound
#print axioms deser_top_complete
#print axioms clean_or_deficit
#print axioms deser_complete_at
#print axioms deser_top_complete_all
#print axioms deser_top_eq_interp
#print axioms deficit_is_fatal
#print axioms tuple_surplus_stops_inside
#print axioms deser_refines_interp_needs_tupleFree
#print axioms arity_mismatch_is_error_spec
#print axioms failing_position_is_error
#print axioms arity_mismatch_is_error
#print axioms arity_mismatch_is_error_top
#print axioms variant_arity_mismatch_is_error
#print axioms unknown_variant_is_error
#print axioms kind_mismatch_is_error
#print axioms kemn_key_takes_inner_value
#print axioms arity_mismatch_needs_noKemnKeys

end SaphyrVerif.Props.C05
