import SaphyrVerif.Props.C19
/-!
# C19 — former counter-examples, now regression examples

The witnesses on which the code violated the property before the repairs
* bebcb49 (`Parser::starts_ci` compares bytes instead of slicing the `str`) and
* 78f916b (`parse_yaml12_float`: with the option on, a text the plain reading accepts is returned as
  parsed — directly into the target width — unless the tag is `!degrees`)
evaluated on the model of the repaired code.  The general statements are theorems of `Props/C19.lean`
(`eval_total`, `plain_literal_unchanged`, `plain_literal_unchanged_f32`).  Every witness is replayed on the
implementation by the `robotics` harness on every check run (oracle ids `C19-panic-*`,
`C19-f32-double-rounding`, `C19-f(32|64)-*-when-on`, `C19-f64-digit-cap`: any hit is a violation again).
-/
namespace SaphyrVerif.Props.C19_Findings
open SaphyrVerif SaphyrVerif.F64 SaphyrVerif.Robotics SaphyrVerif.Props.C19

/-- (E, was F `eval_panics_on_multibyte`) `123é` (bytes 31 32 33 C3 A9): `starts_ci(".inf")` used to slice
`&self.s[0..4]` inside `é` and panic; now it is an ordinary error, as for `12é`. -/
example : evalExpr 0 (utf8 "123é".toList) = .err .trailing 0 := by decide
example : evalExpr 0 (utf8 ".abé".toList) = .err .invalidFloat 0 := by decide
example : evalExpr 0 (utf8 "12€".toList) = .err .trailing 0 := by decide
example : evalExpr 0 (utf8 "1😀".toList) = .err .trailing 0 := by decide
example : parseYaml12Float false "123é".toList 0 true = .hook .trailing := by decide

/-- (E, was F `f32_double_rounding`) `1.00000005960464477540` as `f32`: `0x3F800001` with the option off
AND on (it used to be `0x3F800000` with the option on: rounded to f64, then narrowed). -/
example :
    parseYaml12Float true "1.00000005960464477540".toList 0 false = .ok (ofBits binary32 1065353217) ∧
    parseYaml12Float true "1.00000005960464477540".toList 0 true = .ok (ofBits binary32 1065353217) := by
  decide

/-- (E) the double rounding is still what `v as f32` of the evaluator does — it is only no longer applied
to plain literals: narrowing the f64 reading gives the other neighbour. -/
example : convert binary32 (ofBits binary64 0x3FF0000010000000) = ofBits binary32 1065353216 := by decide

/-- (E, was F `infinity_word_rejected_when_on`) the spelled-out `infinity` keeps its value. -/
example :
    parseYaml12Float false "infinity".toList 0 true = .ok (.inf false) ∧
    parseYaml12Float false "-Infinity".toList 0 true = .ok (.inf true) ∧
    parseYaml12Float true "INFINITY".toList 12 true = .ok (.inf false) := by decide

example :
    parseYaml12Float false "inf".toList 0 true = .ok (.inf false) ∧
    parseYaml12Float false "-inf".toList 0 true = .ok (.inf true) ∧
    parseYaml12Float false "nan".toList 0 true = .ok .nan := by decide

/-- (E) the extension still extends: a literal with `_` separators is accepted only with the option on. -/
example :
    parseYaml12Float false "1_000".toList 0 false = .invalid ∧
    parseYaml12Float false "1_000".toList 0 true = .ok (ofNat binary64 1000) := by decide

/-- (E, was F `unicode_whitespace_rejected_when_on`) U+00A0 `1.5` is 1.5 with the option off and on. -/
example :
    parseYaml12Float false [Char.ofNat 0xA0, '1', '.', '5'] 0 false = .ok (ofBits binary64 0x3FF8000000000000) ∧
    parseYaml12Float false [Char.ofNat 0xA0, '1', '.', '5'] 0 true = .ok (ofBits binary64 0x3FF8000000000000) := by
  decide

/-- (E, out of scope of the property) under an explicit `!degrees` tag the evaluator still runs, so its
lexical rules apply there: `infinity` is an unknown identifier, `180` is converted once. -/
example :
    parseYaml12Float false "infinity".toList TAG_DEGREES true = .hook .unknownIdent ∧
    parseYaml12Float false "180".toList TAG_DEGREES true = .ok PI ∧
    parseYaml12Float false "180".toList TAG_DEGREES false = .ok (ofNat binary64 180) := by decide

end SaphyrVerif.Props.C19_Findings
