import SaphyrVerif.Props.C19
/-!
# C19 — counter-example theorems (the code violates the property on these witnesses)

Every witness is replayed on the implementation by the `robotics` harness (oracle stream) on every
check run; see `known_findings.json`.
-/
namespace SaphyrVerif.Props.C19_Findings
open SaphyrVerif SaphyrVerif.F64 SaphyrVerif.Robotics SaphyrVerif.Props.C19

/-- (F) `C19-panic-str-slice-char-boundary`: the scalar `123é` (bytes 31 32 33 C3 A9) makes
`starts_ci(".inf")` slice `&self.s[0..4]`, which ends inside `é` — a panic, not an error. -/
theorem eval_panics_on_multibyte : evalExpr 0 (utf8 "123é".toList) = .panic .strSlice := by decide

/-- (F) the totality clause at full strength is false. -/
theorem eval_total_counterexample : ¬ eval_total_Full := by
  intro h
  have := h 0 "123é".toList
  rw [eval_panics_on_multibyte] at this
  exact this

/-- (F) `C19-f32-double-rounding`: for an `f32` target the literal `1.00000005960464477540` is
`0x3F800001` without the extension (one correct rounding of the decimal) but `0x3F800000` with the
option on (rounded to f64 first, then narrowed): "ordinary float literals keep exactly the value they
have without the extension" fails for f32. -/
theorem f32_double_rounding :
    parseYaml12Float true "1.00000005960464477540".toList 0 false = .ok (ofBits binary32 1065353217) ∧
    parseYaml12Float true "1.00000005960464477540".toList 0 true = .ok (ofBits binary32 1065353216) := by
  decide

/-- Full statement of "plain literals are unchanged" for f32 — false by `f32_double_rounding`. -/
def plain_literal_unchanged_f32_Full : Prop :=
  ∀ s : List Char, ∀ v, parseYaml12Float true s 0 false = .ok v → parseYaml12Float true s 0 true = .ok v

theorem plain_literal_unchanged_f32_counterexample : ¬ plain_literal_unchanged_f32_Full := by
  intro h
  have := h "1.00000005960464477540".toList _ f32_double_rounding.1
  rw [f32_double_rounding.2] at this
  exact absurd this (by decide)

/-- (F, recorded) acceptance changes when the option is switched on:
`infinity` (accepted by `str::parse`, an unknown identifier for the evaluator) is rejected;
`inf` and `nan` keep their values; a literal with `_` separators becomes accepted. -/
theorem infinity_word_rejected_when_on :
    parseYaml12Float false "infinity".toList 0 false = .ok (.inf false) ∧
    parseYaml12Float false "infinity".toList 0 true = .hook .unknownIdent ∧
    parseYaml12Float false "-Infinity".toList 0 false = .ok (.inf true) ∧
    parseYaml12Float false "-Infinity".toList 0 true = .hook .unknownIdent := by decide

theorem inf_nan_words_unchanged :
    parseYaml12Float false "inf".toList 0 false = .ok (.inf false) ∧
    parseYaml12Float false "inf".toList 0 true = .ok (.inf false) ∧
    parseYaml12Float false "-inf".toList 0 false = .ok (.inf true) ∧
    parseYaml12Float false "-inf".toList 0 true = .ok (.inf true) ∧
    parseYaml12Float false "nan".toList 0 false = .ok .nan ∧
    parseYaml12Float false "nan".toList 0 true = .ok .nan := by decide

theorem underscore_literal_accepted_only_when_on :
    parseYaml12Float false "1_000".toList 0 false = .invalid ∧
    parseYaml12Float false "1_000".toList 0 true = .ok (ofNat binary64 1000) := by decide

/-- (F, recorded) Unicode white space around a literal is trimmed by the plain path (`str::trim`) but
not skipped by the evaluator (`is_ws` = space, tab, LF, CR): U+00A0 `1.5` is 1.5 with the option off
and an error with it on. -/
theorem unicode_whitespace_rejected_when_on :
    parseYaml12Float false [Char.ofNat 0xA0, '1', '.', '5'] 0 false = .ok (ofBits binary64 0x3FF8000000000000) ∧
    parseYaml12Float false [Char.ofNat 0xA0, '1', '.', '5'] 0 true = .hook .expectedPrimary := by decide

end SaphyrVerif.Props.C19_Findings
