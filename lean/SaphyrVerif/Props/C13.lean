import SaphyrVerif.Lemmas.C13_Emit
import SaphyrVerif.Lemmas.C13_Lines
import SaphyrVerif.Lemmas.C13_Safe
import SaphyrVerif.Lemmas.C13_Compose
import SaphyrVerif.Lemmas.C13_Block
import SaphyrVerif.Model.EmitQuote
import SaphyrVerif.Lemmas.EmitPVal
/-!
# C13 — every data-model shape round-trips as one well-formed YAML document

Model: `Model/Emitter.lean` (the `YamlSerializer` state machine, `emit` = `to_string_with_options`).
Spec: `Spec/EmitReader.lean` (`erase`: what a Serde value means as YAML data; `readDoc`: reference
reader of the emitted dialect, validated against the real parser on every emitted text of the
differential run).

Full statement: `C13_Full`.  It is still FALSE for the code (model and code agree byte for byte on
every generated case): `empty_as_braces = false` writes an empty collection as nothing (pinned by the
crate's own tests, see `empty_no_braces_counterexample`).  Proved part: `emit_roundtrip_partial` —
arbitrary nesting of

  null (unit / `None`), booleans, integers, safe strings (`[a-z][a-z0-9]*` minus the reserved words, not
  longer than `folded_wrap_chars`), `Some`, ordinary newtype structs, block sequences, tuples and
  tuple structs, block mappings / structs (known or unknown length) whose keys are safe strings or
  COMPOSITE — sequences, mappings, variants with data of the fragment, written `? key` / `: value` —
  and pairwise different as data, unit, newtype, tuple and struct variants (also without fields);
  string keys and names of variants with data of ANY length: a text longer than 1024 characters (the limit of
  an implicit key, which the reference reader enforces) is written as an explicit key `? key` / `: value`
  (fix of `long-implicit-key`; `fitsImplicit` in the layout, `long_key_roundtrip`, `long_key_any_length`)

under EVERY `indent_step ≥ 1` (since fix 995e25e the layout is right for every step), `compact_list_indent`
on or off (fixes 8740963 fb15f4e), `yaml_12` on or off (the prologue `%YAML 1.2` + `---`, then the same
layout), `quote_all` on or off (string values, unit variants and the names of variants with data in
single quotes; string keys stay plain), `tagged_enums` on or off (a unit variant is `!!Enum variant`),
`empty_as_braces = true` (any `min_fold_chars` / `folded_wrap_chars` / `prefer_block_scalars`), for every
scalar-text function that satisfies the safe-leaf contract — and, for the crate's OWN scalar-text functions
(`implFns`), with the safe strings replaced by ARBITRARY strings (`emit_roundtrip_strings_partial`: the
composition with C12 — every string as key / variant name, every string leaf that gets no block style;
plain, single- or double-quoted as the crate decides), and with ALL strings as leaves
(`emit_roundtrip_all_strings_partial`: a string leaf that `serialize_str` writes as a `|` literal or `>` folded BLOCK
SCALAR — header with indentation / chomping indicator on the line of the leaf, body lines at the column
`parent + indent_step` — in every position: value of a key, sequence item, explicit key and its value, variant
payload, root; the quoted fall-backs of fixes a252cf9 where a block scalar cannot be used; layout `blkToks` /
`blkStr`, `literal_leaf_layout`, `folded_leaf_layout`, `fallback_leaf_layout`), minus the YAML 1.1 boolean words
`yaml_12` leaves plain (`yaml12_bool_word_counterexample`).  All are instances of the general theorems over
contracts (`emit_roundtrip_contract`: `WriteContract` — what `serialize_str` writes for a string in each position;
`ReadContract` — the reference reader takes it for the string).  Note `implFns_not_safeContract`: the safe-leaf contract itself
does not hold for the crate's functions (`infinity` is quoted since fix 1fdb06b).
Outside the proved fragment: scalar keys other than strings (null / bool / number keys), the
presentation wrappers, `empty_as_braces = false`, anchors.  The defect classes this property
found in tuple structs, tuple / struct variants, composite keys, `compact_list_indent` and
`indent_step` 1 / ≥ 3 (now inside the proved fragment) are repaired (fixes f421f34 beca5d5 8740963 fb15f4e 6b2e131 995e25e): the former
counterexample theorems are regression theorems below (`*_regression`: the repaired model output and
the reader on it).
-/
namespace SaphyrVerif.Emit
open SaphyrVerif

/-- C13 at full strength, for the crate's own scalar-text functions: whenever serialization
succeeds under a valid option set (`indent_step ≥ 1`), the text is one well-formed document that
reads back as the value. -/
def C13_Full : Prop :=
  ∀ (o : Opts) (v : SVal) (t : List Char), o.indentStep ≥ 1 → emit o implFns v = .ok t → readDoc t = some (erase v)

section
variable {o : Opts} {f : ScalarFns} {P : LeafPred} {T : Toks}

/-! ## the general theorems: any class of strings whose tokens satisfy the contracts -/

/-- (T, the emitter invariant, general form) For EVERY option vector with `indent_step ≥ 1` and
`empty_as_braces`, every class `P` of strings and texts `T` for which the scalar-text functions
satisfy the write contract (a string leaf of the class is written as `T.strAt` says for the position it stands
in: one token, or the header and the body lines of a block scalar): the state machine writes exactly the prologue
and the lines of the flag-free layout function over the texts `T`. -/
theorem emit_layout_contract (ho : FragOpts o) (hw : WriteContract o f P T) (v : SVal) (hv : inFragP P v = true) :
    emit o f v = .ok (prologue o ++ renderLines (layRoot T o.indentStep o.compactListIndent v)) :=
  emit_eq_layout ho hw v hv

/-- (T, general form) … and when the texts also satisfy the read contract (the reference reader takes what
is written for a string — token or block scalar — for that string), the text reads back as exactly the value. -/
theorem emit_roundtrip_contract (ho : FragOpts o) (hw : WriteContract o f P T) (hr : ReadContract P T o.indentStep) (v : SVal)
    (hv : inFragP P v = true) : ∃ t, emit o f v = .ok t ∧ readDoc t = some (erase v) :=
  ⟨_, emit_eq_layout ho hw v hv, read_layout_pro hr o ho.indent v hv⟩

/-- (T, general form, all texts — block scalars included) one document: the lines of the text are the prologue
lines followed by the layout lines, and no layout line is a document marker; the first one is neither a
directive nor blank nor a comment (the body lines of a block scalar may be blank or start with `#` / `%`: they are
indented). -/
theorem emit_single_document_lines (ho : FragOpts o) (hw : WriteContract o f P T) (hr : ReadContract P T o.indentStep) (v : SVal)
    (hv : inFragP P v = true) :
    ∃ t, emit o f v = .ok t ∧ toLines t = prologueLines o ++ layRoot T o.indentStep o.compactListIndent v ∧
      (∀ l ∈ layRoot T o.indentStep o.compactListIndent v, isDocMarker l "---".toList = false ∧
        isDocMarker l "...".toList = false) ∧
      (∃ l rest, layRoot T o.indentStep o.compactListIndent v = l :: rest ∧ l.text.head? ≠ some '%' ∧ l.isSkippable = false) := by
  obtain ⟨hg, hfirst, _⟩ := root_lines (cp := o.compactListIndent) hr ho.indent v hv
  refine ⟨_, emit_eq_layout ho hw v hv, ?_, ?_, ?_⟩
  · unfold prologue prologueLines
    cases o.yaml12
    · simpa using toLines_render _ hg
    · simpa using toLines_prologue _ hg
  · intro l hl
    exact layLine_not_marker (hg l hl)
  · obtain ⟨l, rest, e, h1, h2⟩ := hfirst
    exact ⟨l, rest, e, h2, h1⟩

/-- (T, general form, texts that are tokens: `T.IsTok`) one document: the lines of the text are the prologue lines
followed by the layout lines, and no layout line is a document marker, a directive, blank or a comment. -/
theorem emit_single_document_contract (ho : FragOpts o) (hw : WriteContract o f P T) (hr : ReadContract P T o.indentStep)
    (ht : T.IsTok) (v : SVal) (hv : inFragP P v = true) :
    ∃ t, emit o f v = .ok t ∧ toLines t = prologueLines o ++ layRoot T o.indentStep o.compactListIndent v ∧
      ∀ l ∈ layRoot T o.indentStep o.compactListIndent v, isDocMarker l "---".toList = false ∧
        isDocMarker l "...".toList = false ∧ l.text.head? ≠ some '%' ∧ l.isSkippable = false := by
  obtain ⟨t, he, hl, _, _⟩ := emit_single_document_lines ho hw hr v hv
  refine ⟨t, he, hl, ?_⟩
  have hg : AllQ GoodLine (layRoot T o.indentStep o.compactListIndent v) :=
    layRoot_good (fun _ h => h) hr (BodyQ.ofTok ht _) o.compactListIndent v hv
  intro l hl
  have h := hg l hl
  exact ⟨(goodLine_not_marker h).1, (goodLine_not_marker h).2, goodLine_not_pct h, goodLine_notSkippable h⟩

/-! ## the safe leaf class -/

/-- (T, the emitter invariant) On the fragment the state machine — whatever the layout flags do
on the way — writes exactly the prologue (`%YAML 1.2` + `---` under `yaml_12`, nothing otherwise) and
the lines of the flag-free layout function, for every `indent_step = k ≥ 1`:
a collection after `key:` (keys at column `c`) on the following lines at column `c + k` (a sequence
under `compact_list_indent` inside a mapping: at column `c`), the first
entry of a collection after `- ` (dash at column `c`) on the dash line and all its entries at column
`c + 2`, `Variant:` after `key:` on the next line at column `c + k` and its payload under it.  The
tokens (`safeToks o`): a safe string is written as itself, under `quote_all` in single quotes where it is
a value or the name of a variant with data (keys stay plain), a unit variant under `tagged_enums` as
`!!Enum variant`. -/
theorem emit_layout_partial (ho : FragOpts o) (hf : SafeContract f) (v : SVal)
    (hv : inFrag o v = true) :
    emit o f v = .ok (prologue o ++ renderLines (layRoot (safeToks o) o.indentStep o.compactListIndent v)) :=
  emit_eq_layout ho (safe_write ho hf) v hv

/-- (T) C13 on the fragment: serialization succeeds and the text reads back as exactly the value. -/
theorem emit_roundtrip_partial (ho : FragOpts o) (hf : SafeContract f) (v : SVal)
    (hv : inFrag o v = true) : ∃ t, emit o f v = .ok t ∧ readDoc t = some (erase v) :=
  emit_roundtrip_contract ho (safe_write ho hf) (safe_read o _) v hv

/-- (T) C13 "one document": on the fragment the lines of the text are exactly the prologue lines
(`%YAML 1.2`, `---` under `yaml_12`: one directive and one document start marker, before everything
else; no prologue at all otherwise) followed by the layout lines, and no layout line is a document
marker (`---` / `...` at column 0), a directive, blank or a comment. -/
theorem emit_single_document (ho : FragOpts o) (hf : SafeContract f) (v : SVal)
    (hv : inFrag o v = true) :
    ∃ t, emit o f v = .ok t ∧ toLines t = prologueLines o ++ layRoot (safeToks o) o.indentStep o.compactListIndent v ∧
      ∀ l ∈ layRoot (safeToks o) o.indentStep o.compactListIndent v, isDocMarker l "---".toList = false ∧
        isDocMarker l "...".toList = false ∧ l.text.head? ≠ some '%' ∧ l.isSkippable = false :=
  emit_single_document_contract ho (safe_write ho hf) (safe_read o _) (Toks.ofStr_isTok _ _ _ _) v hv

/-- the statements for `quote_all = false`, `yaml_12 = false` in their original form: the layout over the
plain tokens, no line of the output at all is a document marker or a directive -/
theorem emit_layout_plain (ho : FragOpts o) (hq : o.quoteAll = false) (hy : o.yaml12 = false) (ht : o.taggedEnums = false)
    (hf : SafeContract f) (v : SVal) (hv : inFrag o v = true) :
    emit o f v = .ok (renderLines (layRoot plainToks o.indentStep o.compactListIndent v)) := by
  simpa [prologue, hy, safeToks_plain hq ht] using emit_layout_partial ho hf v hv

theorem emit_single_document_plain (ho : FragOpts o) (hq : o.quoteAll = false) (hy : o.yaml12 = false)
    (ht : o.taggedEnums = false) (hf : SafeContract f) (v : SVal) (hv : inFrag o v = true) :
    ∃ t, emit o f v = .ok t ∧ toLines t = layRoot plainToks o.indentStep o.compactListIndent v ∧
      ∀ l ∈ toLines t, isDocMarker l "---".toList = false ∧ isDocMarker l "...".toList = false ∧
        l.text.head? ≠ some '%' ∧ l.isSkippable = false := by
  obtain ⟨t, he, hl, hm⟩ := emit_single_document ho hf v hv
  rw [safeToks_plain hq ht] at hl hm
  have hl' : toLines t = layRoot plainToks o.indentStep o.compactListIndent v := by simpa [prologueLines, hy] using hl
  exact ⟨t, he, hl', fun l h => hm l (hl' ▸ h)⟩

/-! ## the composition C12 ∘ C13: arbitrary strings, the crate's own scalar-text functions -/

/-- (T) The contracts hold for the crate's own scalar-text functions (`implFns`: the transcription of
`ser_quoting.rs`, `write_quoted`, the key sink) on the class `implPred o`: EVERY string as a mapping key or
as the name of a variant with data, every string leaf for which `serialize_str` selects no block style
(every string under `quote_all`; otherwise no line break, and not longer than `folded_wrap_chars` if it
would be written plain), every unit variant (under `tagged_enums`: `!!Enum variant`, the enum name an ASCII
identifier) — written plain, single-quoted or double-quoted as the crate decides (`genToks`) — except, under
`yaml_12`, the YAML 1.1 boolean words the option leaves plain. -/
theorem impl_contracts (o : Opts) (ho : FragOpts o) :
    WriteContract o implFns (implPred o) (genToks o implFns) ∧ ReadContract (implPred o) (genToks o implFns) o.indentStep :=
  ⟨impl_write ho, impl_read o _⟩

/-- (T) the emitter invariant for arbitrary strings -/
theorem emit_layout_strings_partial (ho : FragOpts o) (v : SVal) (hv : inFragP (implPred o) v = true) :
    emit o implFns v = .ok (prologue o ++ renderLines (layRoot (genToks o implFns) o.indentStep o.compactListIndent v)) :=
  emit_layout_contract ho (impl_write ho) v hv

/-- (T) C12 ∘ C13: every value of the fragment over arbitrary strings (`implPred o`), under every option
vector with `indent_step ≥ 1` and `empty_as_braces` (`yaml_12`, `quote_all`, `compact_list_indent`,
`prefer_block_scalars`, the folding thresholds arbitrary), serializes with the crate's own scalar-text
functions to a text that reads back as exactly the value.  Excluded (visible in `implPred`): strings that
get a block style (C12's `literal_roundtrip` / `auto_folded_roundtrip`), enum names that are no ASCII identifiers under
`tagged_enums`, and under `yaml_12` the boolean words left plain (`yaml12_bool_word_counterexample`). -/
theorem emit_roundtrip_strings_partial (ho : FragOpts o) (v : SVal) (hv : inFragP (implPred o) v = true) :
    ∃ t, emit o implFns v = .ok t ∧ readDoc t = some (erase v) :=
  emit_roundtrip_contract ho (impl_write ho) (impl_read o _) v hv

/-- (T) the same in the class that is easiest to read (`lineStrPred o`): ANY string without line breaks and
not longer than `folded_wrap_chars` as a leaf or as the name of a unit variant, ANY string at all as a mapping
key or as the name of a variant with data — except the YAML 1.1 boolean words where `yaml_12` leaves them
plain, and enum names that are no ASCII identifiers under `tagged_enums`. -/
theorem emit_roundtrip_line_strings_partial (ho : FragOpts o) (v : SVal) (hv : inFragP (lineStrPred o) v = true) :
    ∃ t, emit o implFns v = .ok t ∧ readDoc t = some (erase v) :=
  emit_roundtrip_strings_partial ho v (lineStr_impl hv)

/-- (T) one document, arbitrary strings -/
theorem emit_single_document_strings_partial (ho : FragOpts o) (v : SVal) (hv : inFragP (implPred o) v = true) :
    ∃ t, emit o implFns v = .ok t ∧
      toLines t = prologueLines o ++ layRoot (genToks o implFns) o.indentStep o.compactListIndent v ∧
      ∀ l ∈ layRoot (genToks o implFns) o.indentStep o.compactListIndent v, isDocMarker l "---".toList = false ∧
        isDocMarker l "...".toList = false ∧ l.text.head? ≠ some '%' ∧ l.isSkippable = false :=
  emit_single_document_contract ho (impl_write ho) (impl_read o _) (Toks.ofStr_isTok _ _ _ _) v hv

/-! ## the composition C12 ∘ C13 with block scalars: ALL strings as leaves -/

/-- (T) The contracts hold for the crate's own scalar-text functions on the class `allStrPred o`: EVERY string as a
leaf — whatever `serialize_str` does with it in the position it stands in: plain, single- or double-quoted token,
`|` literal block (strings with line breaks) or `>` folded block (long single-line strings), with indentation
indicator and chomping indicator as the crate chooses them, the quoted fall-back where a block scalar cannot be used
(`blkToks` / `blkStr`) —, every string as a mapping key, as the name of a variant with data or of a unit variant (written
like a string leaf; under `tagged_enums`: `!!Enum variant`, the enum name an ASCII identifier); except, under `yaml_12`,
the YAML 1.1 boolean words the option leaves plain. -/
theorem all_strings_contracts (o : Opts) (ho : FragOpts o) :
    WriteContract o implFns (allStrPred o) (blkToks o implFns) ∧ ReadContract (allStrPred o) (blkToks o implFns) o.indentStep :=
  ⟨blk_write ho, blk_read o _ ho.indent⟩

/-- (T) the emitter invariant for all strings: the text is the prologue and the lines of the layout function over the
texts `blkToks` — for a string leaf written as a block scalar: the header on the line of the leaf (after `key: ` / `- ` /
`? ` / `: `, or alone at the root), then the body lines at the column `parent + indent_step` (`blkStr`, `litLeaf`,
`foldLeaf`). -/
theorem emit_layout_all_strings_partial (ho : FragOpts o) (v : SVal) (hv : inFragP (allStrPred o) v = true) :
    emit o implFns v = .ok (prologue o ++ renderLines (layRoot (blkToks o implFns) o.indentStep o.compactListIndent v)) :=
  emit_layout_contract ho (blk_write ho) v hv

/-- (T) C12 ∘ C13 with block scalars: every value of the fragment over ALL strings (`allStrPred o`), under every
option vector with `indent_step ≥ 1` and `empty_as_braces` (`yaml_12`, `quote_all`, `compact_list_indent`,
`prefer_block_scalars`, the folding thresholds arbitrary), serializes with the crate's own scalar-text functions to a
text that reads back as exactly the value — string leaves as plain / quoted tokens, literal or folded block scalars
at every nesting position (value of a mapping key, item of a block sequence, explicit key `? ` and its value `: `,
payload of a variant, root); unit variants likewise.  Excluded (visible in `allStrPred`): under `yaml_12` the boolean
words left plain (`yaml12_bool_word_counterexample`); under `tagged_enums` enum names that are no ASCII identifiers. -/
theorem emit_roundtrip_all_strings_partial (ho : FragOpts o) (v : SVal) (hv : inFragP (allStrPred o) v = true) :
    ∃ t, emit o implFns v = .ok t ∧ readDoc t = some (erase v) :=
  emit_roundtrip_contract ho (blk_write ho) (blk_read o _ ho.indent) v hv

/-- (T) one document, all strings: the lines of the text are the prologue lines followed by the layout lines; no
layout line is a document marker; the first one is neither a directive nor blank nor a comment (body lines of a
block scalar may be: they are indented) -/
theorem emit_single_document_all_strings_partial (ho : FragOpts o) (v : SVal) (hv : inFragP (allStrPred o) v = true) :
    ∃ t, emit o implFns v = .ok t ∧
      toLines t = prologueLines o ++ layRoot (blkToks o implFns) o.indentStep o.compactListIndent v ∧
      (∀ l ∈ layRoot (blkToks o implFns) o.indentStep o.compactListIndent v, isDocMarker l "---".toList = false ∧
        isDocMarker l "...".toList = false) ∧
      (∃ l rest, layRoot (blkToks o implFns) o.indentStep o.compactListIndent v = l :: rest ∧ l.text.head? ≠ some '%' ∧
        l.isSkippable = false) :=
  emit_single_document_lines ho (blk_write ho) (blk_read o _ ho.indent) v hv

/-- the fragment of `emit_roundtrip_strings_partial` (string leaves without block style) is part of this one -/
example (v : SVal) (hv : inFragP (implPred o) v = true) : inFragP (allStrPred o) v = true := implPred_all hv

/-- without `yaml_12` (or under `quote_all`) the class is: every string, everywhere -/
theorem allStrPred_every (hy : o.yaml12 = false ∨ o.quoteAll = true) (s : List Char) :
    (allStrPred o).str s = true ∧ (allStrPred o).name s = true ∧ (o.yaml12 = false → (allStrPred o).key s = true) ∧
    (∀ e, o.taggedEnums = false ∨ tagNameOk e = true → (allStrPred o).unit e s = true) := by
  refine ⟨?_, ?_, ?_, ?_⟩
  · rcases hy with hy | hy <;> simp [allStrPred, boolRisk, hy]
  · rcases hy with hy | hy <;> simp [allStrPred, implPred, boolRisk, hy]
  · intro h; simp [allStrPred, implPred, h]
  · intro e he
    rcases hy with hy | hy <;> rcases he with he | he <;> simp [allStrPred, boolRisk, hy, he]

/-- (T) what the layout says for a string leaf that is written as a LITERAL block scalar (a string with a line
break of the auto-block class, no fall-back in this position): the header `|` + indentation indicator (the column
of the body, iff the first non-empty line starts with a blank) + chomping indicator, then one body line per content
line — the content line `x` after `N = parent + indent_step` blanks (`bodyLineAt`: rendered `spaces N ++ x`), the
lines beyond the first trailing line break as empty lines -/
theorem literal_leaf_layout (f : ScalarFns) (k : Nat) (pos : StrPos) (s : List Char) (ha : autoBlock o f s = true)
    (hn : s.contains '\n' = true) (hfb : blockFallback k pos s = false) :
    blkStr o f k pos s = ('|' :: (indChars (needsInd s) (bodyCol k pos) ++ chompChars (trailNl s)),
      (litLines s).map (bodyLineAt (bodyCol k pos))) ∧
    renderLines ((litLines s).map (bodyLineAt (bodyCol k pos))) = bodyText (bodyCol k pos) (litLines s) ∧
    ∀ l ∈ (litLines s).map (bodyLineAt (bodyCol k pos)), l.indent ≥ bodyCol k pos := by
  refine ⟨by simp only [blkStr, ha, hfb, hn, if_true, Bool.false_eq_true, if_false, litLeaf, blockHdr], renderLines_body _ _, ?_⟩
  intro l hl
  simp only [List.mem_map] at hl
  obtain ⟨x, _, rfl⟩ := hl
  simp [bodyLineAt]

/-- (T) … and as a FOLDED block scalar (a single-line string of the auto-block class, for the crate's own functions:
it passed the plain-value test and is longer than `folded_wrap_chars`): the header `>-`, then the segments
`write_folded_block` cuts the string into, each at the column `N = parent + indent_step`; joined by single blanks
the segments are the string; none is empty or starts with a blank -/
theorem folded_leaf_layout (k : Nat) (pos : StrPos) (s : List Char) (ha : autoBlock o implFns s = true)
    (hn : s.contains '\n' = false) (hfb : blockFallback k pos s = false) :
    ∃ segs, blkStr o implFns k pos s = (['>', '-'], segs.map fun e => (⟨bodyCol k pos, e⟩ : Line)) ∧
      SaphyrVerif.Lemmas.C12.joinSp segs = s ∧ segs ≠ [] ∧ ∀ e ∈ segs, e ≠ [] ∧ e.head? ≠ some ' ' := by
  have hpv : implFns.isPlainValueSafe s o.yaml12 false = true := by
    unfold autoBlock at ha
    simp only [hn, Bool.false_eq_true, if_false, Bool.and_eq_true] at ha
    exact ha.2.1
  obtain ⟨hne, hhead, hc⟩ := impl_pvs_facts hpv
  have hnl : ∀ c ∈ s, c ≠ '\n' := fun c hcm => (lineChar_of_notControl (hc c hcm)).1
  obtain ⟨segs, hfl, hjoin, hsne, hsegs⟩ := foldedLine_spec s (spaces (bodyCol k pos)) o.foldedWrapCol hne hhead
  have hmem : ∀ e ∈ segs, ∀ c ∈ e, c ∈ s := fun e he c hcm => hjoin ▸ mem_joinSp segs e he c hcm
  refine ⟨segs, ?_, hjoin, hsne, hsegs⟩
  have htrim : trailNl s = 0 ∧ needsInd s = false := by
    have := foldLeaf_ok (bodyCol k pos + 1) 0 o.foldedWrapCol s (by omega) hne hhead (fun c hcm => lineChar_of_notControl (hc c hcm)) (by omega)
    obtain ⟨c, cs, rfl⟩ : ∃ c cs, s = c :: cs := by
      cases s with
      | nil => exact absurd rfl hne
      | cons c cs => exact ⟨c, cs, rfl⟩
    have hcsp : c ≠ ' ' := fun e => hhead (by simp [e])
    have hlast : (c :: cs).getLast? ≠ some '\n' := fun h => hnl _ (List.mem_of_getLast? h) rfl
    have ht : trimEndNl (c :: cs) = c :: cs := by
      unfold trimEndNl
      cases hr : (c :: cs).reverse with
      | nil => simp at hr
      | cons a as =>
        have ha' : a ≠ '\n' := by
          intro e
          apply hlast
          have : c :: cs = (a :: as).reverse := by rw [← hr, List.reverse_reverse]
          rw [this, e]; simp
        have hb : (a == '\n') = false := by simpa using ha'
        simp only [List.dropWhile_cons, hb, Bool.false_eq_true, if_false]
        rw [← hr, List.reverse_reverse]
    exact ⟨by simp [trailNl, ht], by simp [needsInd, ht, firstLineLeadingSpaces, splitNl_noNl _ hnl, List.takeWhile_cons, hcsp]⟩
  have hfb' : foldedBlock s (bodyCol k pos) 1 o.foldedWrapCol = SaphyrVerif.Lemmas.C12.joinLines (segs.map (spaces (bodyCol k pos) ++ ·)) := by
    simp only [foldedBlock, splitNl_noNl s hnl, List.flatMap_cons, List.flatMap_nil, List.append_nil, Nat.one_mul, hfl]
  simp only [blkStr, ha, hfb, hn, if_true, Bool.false_eq_true, if_false, foldLeaf, blockHdr, htrim.1, htrim.2, indChars, chompChars,
    List.nil_append, hfb']
  rw [textLines_joinLines _ segs (fun e he => (hsegs e he).2) (fun e he c hcm => hnl c (hmem e he c hcm))]

/-- (T) … and where the block style is given up (`blockFallback`: indentation indicator under a parent that is not at
column 0 or deeper than 9 columns, `- - ` under `indent_step 1`, control characters): one token, what
`write_plain_or_quoted_value` writes -/
theorem fallback_leaf_layout (f : ScalarFns) (k : Nat) (pos : StrPos) (s : List Char) (ha : autoBlock o f s = true)
    (hfb : blockFallback k pos s = true) : blkStr o f k pos s = (plainOrQuotedValue o f false s, []) := by
  simp [blkStr, ha, hfb]

/-- (F, about the ASSUMPTION of the theorems on the safe class, not about the code) the safe-leaf contract
`SafeContract` does not hold for the crate's own scalar-text functions: `infinity` is a safe string
(`[a-z][a-z0-9]*`, not a reserved word) but since fix 1fdb06b the crate quotes whatever its own float reader
accepts, `infinity` included.  The theorems over `SafeContract f` therefore say nothing about `implFns`
itself; `emit_roundtrip_strings_partial` does (there `infinity` is simply one more quoted string). -/
theorem implFns_not_safeContract : ¬ SafeContract implFns := by
  intro h
  have h1 := h.plain "infinity".toList (by decide)
  have h2 : implFns.isPlainSafe "infinity".toList = false := by decide +kernel
  rw [h2] at h1
  exact Bool.noConfusion h1

end

/-! ## regression theorems: the defect classes repaired in the code

Each theorem states what the emitter model writes for the witness of a former defect class (identical
to the implementation's output: the witnesses are part of the differential corpus) and that the
reference reader (= the real parser on these texts) reads the value back. -/

/-- `yaml_12 = true` (repaired by fix 832e31b, found by this property: the directive used to be
written without the `---` it requires and every document was rejected): the prologue is followed by
the document start marker and the document reads back.  `yaml_12` is inside the proved fragment now
(`prologue`). -/
example : emit { yaml12 := true } implFns (.int 7) = .ok "%YAML 1.2\n---\n7\n".toList ∧
    readDoc "%YAML 1.2\n---\n7\n".toList = some (.int 7) := ⟨rfl, rfl⟩

/-- (regression, fix 995e25e) `indent_step = 1`: the items of a nested sequence are aligned under its
first dash (the second item used to be indented less than the first: not YAML). -/
theorem indent_step_1_regression :
    emit { indentStep := 1 } implFns (.seq [.seq [.int 1, .int 2]]) = .ok "- - 1\n  - 2\n".toList ∧
    readDoc "- - 1\n  - 2\n".toList = some (erase (.seq [.seq [.int 1, .int 2]])) := ⟨rfl, by decide +kernel⟩

/-- (regression, fix 995e25e) `indent_step = 3`: same (`[[1, 2]]` used to read as `[["1 - 2"]]`); a
mapping under the nested sequence keeps its keys aligned too. -/
theorem indent_step_3_regression :
    emit { indentStep := 3 } implFns (.seq [.seq [.int 1, .int 2]]) = .ok "- - 1\n  - 2\n".toList ∧
    emit { indentStep := 3 } implFns (.seq [.seq [SVal.struct [("k".toList, .int 1), ("m".toList, .seq [.int 2])]]]) =
      .ok "- - k: 1\n    m:\n       - 2\n".toList ∧
    readDoc "- - k: 1\n    m:\n       - 2\n".toList =
      some (erase (.seq [.seq [SVal.struct [("k".toList, .int 1), ("m".toList, .seq [.int 2])]]])) :=
  ⟨rfl, rfl, by decide +kernel⟩

/-- (regression, fix 8740963) `compact_list_indent = true`: an empty sequence after a block sibling
stays on the line of its key (it used to land at the parent's column on a line of its own). -/
theorem compact_list_indent_regression :
    emit { compactListIndent := true } implFns
      (SVal.struct [("a".toList, .seq [.int 1]), ("b".toList, .seq [])]) = .ok "a:\n- 1\nb: []\n".toList ∧
    readDoc "a:\n- 1\nb: []\n".toList =
      some (erase (SVal.struct [("a".toList, .seq [.int 1]), ("b".toList, .seq [])])) := ⟨rfl, by decide +kernel⟩

/-- (regression, fix fb15f4e) `compact_list_indent = true`: a sequence used as a composite key keeps
its later items under the `? ` (they used to be written at the column of the `?`). -/
theorem compact_list_indent_key_regression :
    emit { compactListIndent := true } implFns (.map true [(.seq [.int 1, .int 2], .int 1)]) =
      .ok "? - 1\n  - 2\n: 1\n".toList ∧
    readDoc "? - 1\n  - 2\n: 1\n".toList = some (erase (.map true [(.seq [.int 1, .int 2], .int 1)])) :=
  ⟨rfl, by decide +kernel⟩

/-- (regression, fix beca5d5) a tuple variant in mapping-value position goes under its key (it used
to be glued to the key: `k:Tv:`). -/
theorem tuple_variant_position_regression :
    emit {} implFns (SVal.struct [("k".toList, .tupleVariant "Tv".toList [.int 1])]) = .ok "k:\n  Tv:\n    - 1\n".toList ∧
    readDoc "k:\n  Tv:\n    - 1\n".toList =
      some (erase (SVal.struct [("k".toList, .tupleVariant "Tv".toList [.int 1])])) := ⟨rfl, by decide +kernel⟩

/-- (regression, fix beca5d5) tuple / struct variants without fields are `Variant: []` / `Variant: {}`
(they used to read as null payloads). -/
theorem empty_variant_regression :
    emit {} implFns (.tupleVariant "Tv".toList []) = .ok "Tv: []\n".toList ∧
    emit {} implFns (.structVariant "Sv".toList []) = .ok "Sv: {}\n".toList ∧
    readDoc "Tv: []\n".toList = some (erase (.tupleVariant "Tv".toList [])) ∧
    readDoc "Sv: {}\n".toList = some (erase (.structVariant "Sv".toList [])) :=
  ⟨rfl, rfl, by decide +kernel, by decide +kernel⟩

/-- (regression, fix f421f34) a tuple struct without fields is `[]` (it used to emit nothing: the next
key landed on the same line). -/
theorem tuple_struct_empty_regression :
    emit {} implFns (SVal.struct [("k".toList, .tupleStruct []), ("z".toList, .int 9)]) = .ok "k: []\nz: 9\n".toList ∧
    readDoc "k: []\nz: 9\n".toList =
      some (erase (SVal.struct [("k".toList, .tupleStruct []), ("z".toList, .int 9)])) := ⟨rfl, by decide +kernel⟩

/-- (regression, fix f421f34) nested tuple structs nest (`A(B(1))` used to read as `[null, 1]`). -/
theorem tuple_struct_position_regression :
    emit {} implFns (.tupleStruct [.tupleStruct [.int 1]]) = .ok "- - 1\n".toList ∧
    readDoc "- - 1\n".toList = some (erase (.tupleStruct [.tupleStruct [.int 1]])) := ⟨rfl, by decide +kernel⟩

/-- (regression, fix 6b2e131) the block-sequence value of a composite key starts after `: ` and
continues under it (it used to continue at the wrong column and read as `["1 - 2"]`). -/
theorem complex_key_regression :
    emit {} implFns (.map true [(.seq [], .seq [.int 1, .int 2])]) = .ok "? []\n: - 1\n  - 2\n".toList ∧
    readDoc "? []\n: - 1\n  - 2\n".toList = some (erase (.map true [(.seq [], .seq [.int 1, .int 2])])) :=
  ⟨rfl, by decide +kernel⟩

/-- (regression, fix b697ff3) the name of an enum variant with data is the key of `Variant: payload`: a
name that is a YAML 1.1 boolean spelling is quoted like every other mapping key (`Y: 1` used to be
written and read back with the key `true`). -/
theorem variant_key_yaml11_bool_regression :
    emit {} implFns (.newtypeVariant "Y".toList (.int 1)) = .ok "\"Y\": 1\n".toList ∧
    readDoc "\"Y\": 1\n".toList = some (erase (.newtypeVariant "Y".toList (.int 1))) ∧
    readDoc "Y: 1\n".toList = some (.map [(.bool true, .int 1)]) ∧
    emit {} implFns (.seq [SVal.structVariantOf "No".toList [("a".toList, .int 1)], .tupleVariant "on".toList [.int 1, .int 2]]) =
      .ok "- \"No\":\n    a: 1\n- \"on\":\n    - 1\n    - 2\n".toList ∧
    readDoc "- \"No\":\n    a: 1\n- \"on\":\n    - 1\n    - 2\n".toList =
      some (erase (.seq [SVal.structVariantOf "No".toList [("a".toList, .int 1)], .tupleVariant "on".toList [.int 1, .int 2]])) :=
  ⟨rfl, by decide +kernel, by decide +kernel, rfl, by decide +kernel⟩

/-! ### keys too long for an implicit key (fix of `long-implicit-key`) -/

/-- the string of `n` characters `c` -/
def rep (c : Char) (n : Nat) : List Char := List.replicate n c

set_option maxRecDepth 100000 in
/-- (regression, fix of `long-implicit-key`) YAML limits an implicit key `key: value` to 1024 characters (the reference
reader has the rule now: `maxImplicitKey`, validated against the real parser).  A key of 1024 characters is still written
as an implicit key and reads back; a key of 1025 characters is written as an explicit key `? key` / `: value` and reads
back (it used to be written `key: value`, which no YAML parser accepts: last clause, the text the emitter used to
write is rejected by the reader as by the real parser). -/
theorem long_key_roundtrip :
    emit {} implFns (.map true [(.str (rep 'k' 1024), .int 1)]) = .ok (rep 'k' 1024 ++ ": 1\n".toList) ∧
    readDoc (rep 'k' 1024 ++ ": 1\n".toList) = some (erase (.map true [(.str (rep 'k' 1024), .int 1)])) ∧
    emit {} implFns (.map true [(.str (rep 'k' 1025), .int 1)]) = .ok (['?', ' '] ++ rep 'k' 1025 ++ "\n: 1\n".toList) ∧
    readDoc (['?', ' '] ++ rep 'k' 1025 ++ "\n: 1\n".toList) = some (erase (.map true [(.str (rep 'k' 1025), .int 1)])) ∧
    readDoc (rep 'k' 1025 ++ ": 1\n".toList) = none :=
  ⟨by rfl, by decide +kernel, by rfl, by decide +kernel, by decide +kernel⟩

set_option maxRecDepth 100000 in
/-- (regression, same fix) the limit counts the text AS WRITTEN (quotes and escapes included): a key of 1022 characters
that has to be quoted (it ends with `:`) makes a text of 1024 characters and stays implicit, one of 1023 characters is
written as an explicit key; as the first key of a mapping inside a sequence the `: ` line goes under the `?` -/
theorem long_key_quoted_regression :
    emit {} implFns (.seq [.map true [(.str (rep 'k' 1021 ++ [':']), .int 1)]]) =
      .ok ("- \"".toList ++ rep 'k' 1021 ++ ":\": 1\n".toList) ∧
    emit {} implFns (.seq [.map true [(.str (rep 'k' 1022 ++ [':']), .int 1), (.str "z".toList, .int 2)]]) =
      .ok ("- ? \"".toList ++ rep 'k' 1022 ++ ":\"\n  : 1\n  z: 2\n".toList) ∧
    readDoc ("- ? \"".toList ++ rep 'k' 1022 ++ ":\"\n  : 1\n  z: 2\n".toList) =
      some (erase (.seq [.map true [(.str (rep 'k' 1022 ++ [':']), .int 1), (.str "z".toList, .int 2)]])) :=
  ⟨by rfl, by rfl, by decide +kernel⟩

/-- the witness of `long_variant_name_regression` -/
def longVariantValue : SVal :=
  SVal.struct [("k".toList, .seq [.tupleVariant (rep 'K' 1025) [.int 1, .int 2]]), ("m".toList, .newtypeVariant (rep 'K' 1025) (.int 3))]

set_option maxRecDepth 100000 in
/-- (regression, same fix) the name of an enum variant with data is the key of `Variant: payload`: a name longer than
1024 characters is written as an explicit key too, the payload after `: ` under it — after `- ` and after `key:` -/
theorem long_variant_name_regression :
    emit {} implFns longVariantValue =
      .ok ("k:\n  - ? ".toList ++ rep 'K' 1025 ++ "\n    : - 1\n      - 2\nm:\n  ? ".toList ++ rep 'K' 1025 ++ "\n  : 3\n".toList) ∧
    readDoc ("k:\n  - ? ".toList ++ rep 'K' 1025 ++ "\n    : - 1\n      - 2\nm:\n  ? ".toList ++ rep 'K' 1025 ++ "\n  : 3\n".toList) =
      some (erase longVariantValue) :=
  ⟨by rfl, by decide +kernel⟩

/-- (T) a string key of ANY length round-trips (instance of `emit_roundtrip_all_strings_partial`: keys of every length are
inside the proved fragment, the long ones through the explicit-key layout) -/
theorem long_key_any_length (n : Nat) (c : Char) (v : SVal) (hv : inFragP (allStrPred {}) v = true) :
    ∃ t, emit {} implFns (.map true [(.str (rep c n), v)]) = .ok t ∧ readDoc t = some (.map [(.str (rep c n), erase v)]) := by
  have := emit_roundtrip_all_strings_partial (o := {}) ⟨by decide, rfl⟩ (.map true [(.str (rep c n), v)])
    (by
      have hk : (allStrPred {}).key (rep c n) = true := by simp [allStrPred, implPred]
      simp [inFragP, inFragEntriesP, keyOk, keyOf, hasDupKey, eraseEntries, hv, hk])
  simpa [erase, eraseEntries] using this

/-- … and so does the name of a variant with data, of any length -/
theorem long_variant_name_any_length (n : Nat) (c : Char) (v : SVal) (hv : inFragP (allStrPred {}) v = true) :
    ∃ t, emit {} implFns (.newtypeVariant (rep c n) v) = .ok t ∧ readDoc t = some (.map [(.str (rep c n), erase v)]) := by
  have := emit_roundtrip_all_strings_partial (o := {}) ⟨by decide, rfl⟩ (.newtypeVariant (rep c n) v)
    (by
      have hn : (allStrPred {}).name (rep c n) = true := by simp [allStrPred, implPred, boolRisk]
      simp [inFragP, hv, hn])
  simpa [erase] using this

/-- the layout function at a long key: `? key`, `: value` (the value laid out like a sequence item after its dash) -/
example : (layRoot (blkToks {} implFns) 2 false (.map true [(.str (rep 'k' 1025), .seq [.int 1, .int 2])])).map (·.indent) = [0, 0, 2] ∧
    ((layRoot (blkToks {} implFns) 2 false (.map true [(.str (rep 'k' 1025), .seq [.int 1, .int 2])])).drop 1).map (·.text) =
      [": - 1".toList, "- 2".toList] := by decide +kernel
example : fitsImplicit (rep 'k' 1024) = true ∧ fitsImplicit (rep 'k' 1025) = false := by decide +kernel
example : inFragP (allStrPred {}) longVariantValue = true := by decide +kernel

/-! ## counterexample (F): the defect class still present -/

/-- (F) `empty_as_braces = false`: an empty sequence is written as nothing and reads as null (the
text is pinned by the crate's tests/empty_map_braces.rs: the option's legacy layout). -/
theorem empty_no_braces_counterexample :
    emit { emptyAsBraces := false } implFns (SVal.struct [("k".toList, .seq [])]) = .ok "k:\n".toList ∧
    readDoc "k:\n".toList = some (.map [(.str "k".toList, .null)]) := ⟨rfl, rfl⟩

/-- (F) `yaml_12 = true` leaves the YAML 1.1 boolean words plain (the option's purpose; C12's residue
`C12-yaml12-bool-word-plain`): a string value `yes` — and, whatever `quote_all` says, a string key `on` —
reads back as a boolean.  This is the hypothesis `boolRisk` / `isBoolWord` in `implPred`. -/
theorem yaml12_bool_word_counterexample :
    emit { yaml12 := true } implFns (.str "yes".toList) = .ok "%YAML 1.2\n---\nyes\n".toList ∧
    readDoc "%YAML 1.2\n---\nyes\n".toList = some (.bool true) ∧
    emit { yaml12 := true, quoteAll := true } implFns (.map true [(.str "on".toList, .int 1)]) =
      .ok "%YAML 1.2\n---\non: 1\n".toList ∧
    readDoc "%YAML 1.2\n---\non: 1\n".toList = some (.map [(.bool true, .int 1)]) :=
  ⟨rfl, by decide +kernel, rfl, by decide +kernel⟩

/-- the composition at full strength: every string that gets no block style, under every option vector of
the fragment -/
def C13_Strings_Full : Prop :=
  ∀ (o : Opts) (s : List Char), FragOpts o → autoBlock o implFns s = false →
    ∃ t, emit o implFns (.str s) = .ok t ∧ readDoc t = some (.str s)

/-- (F) … is false through the `yaml_12` boolean words only (`emit_roundtrip_strings_partial` has everything else) -/
theorem C13_Strings_Full_false : ¬ C13_Strings_Full := by
  intro h
  obtain ⟨t, he, hr⟩ := h { yaml12 := true } "yes".toList ⟨by decide, rfl⟩ (by decide +kernel)
  rw [yaml12_bool_word_counterexample.1] at he
  cases he
  rw [yaml12_bool_word_counterexample.2.1] at hr
  exact absurd hr (by decide)

/-- every string as a leaf, at full strength: every option vector of the fragment -/
def C13_AllStrings_Full : Prop :=
  ∀ (o : Opts) (s : List Char), FragOpts o → ∃ t, emit o implFns (.str s) = .ok t ∧ readDoc t = some (.str s)

/-- (F) … is false through the `yaml_12` boolean words only (`emit_roundtrip_all_strings_partial` has everything else) -/
theorem C13_AllStrings_Full_false : ¬ C13_AllStrings_Full := by
  intro h
  obtain ⟨t, he, hr⟩ := h { yaml12 := true } "yes".toList ⟨by decide, rfl⟩
  rw [yaml12_bool_word_counterexample.1] at he
  cases he
  rw [yaml12_bool_word_counterexample.2.1] at hr
  exact absurd hr (by decide)

/-- (T) … and true without `yaml_12`: EVERY string, alone at the root (the other positions: the theorem above) -/
theorem emit_roundtrip_every_string_yaml11 {o : Opts} (ho : FragOpts o) (hy : o.yaml12 = false) (s : List Char) :
    ∃ t, emit o implFns (.str s) = .ok t ∧ readDoc t = some (.str s) := by
  have := emit_roundtrip_all_strings_partial ho (.str s) (by simp [inFragP, allStrPred, boolRisk, hy])
  simpa [erase] using this

/-- (F) the full statement does not hold for the code as it is. -/
theorem C13_Full_false : ¬ C13_Full := by
  intro h
  have h1 := h { emptyAsBraces := false } (SVal.struct [("k".toList, .seq [])]) _ (by decide) empty_no_braces_counterexample.1
  rw [empty_no_braces_counterexample.2] at h1
  exact absurd h1 (by decide)

/-! ## the hypotheses are satisfiable (non-vacuity) -/

/-- a value of the fragment that exercises every constructor and the sibling interactions -/
def sampleValue : SVal :=
  SVal.struct [
    ("name".toList, .str "demo".toList),
    ("ports".toList, .seq [.int 8080, .int (-1), .seq [.bool true, .none], .seq []]),
    ("nested".toList, .map false [(.str "a".toList, .newtypeVariant "nv".toList (.seq [SVal.struct [("x".toList, .unit), ("z".toList, .map true [])]])),
                                  (.str "b".toList, .some (.unitVariant "e".toList "va".toList))]),
    ("variants".toList, .tupleStruct [.tupleVariant "tv".toList [.int 1, .tupleStruct []], .tupleVariant "te".toList [],
                                      SVal.structVariantOf "sv".toList [("f".toList, .structVariant "se".toList [])]]),
    ("keys".toList, .map true [(.seq [.int 1, .seq []], .seq [.int 2]),
                               (SVal.struct [("x".toList, .int 1), ("z".toList, .int 2)], SVal.struct [("x".toList, .int 3)]),
                               (.newtypeVariant "nv".toList (.seq [.int 1]), .tupleVariant "tv".toList []),
                               (.str "plain".toList, .seq [.map false [(.map true [], .map true [])]])]),
    ("last".toList, .newtypeStruct (.tuple [.int 1, SVal.struct []]))]

example : inFrag {} sampleValue = true := by decide
example : inFrag { taggedEnums := true, quoteAll := true, foldedWrapCol := 5 } sampleValue = true := by decide
example : FragOpts ({} : Opts) := ⟨by decide, rfl⟩
example : FragOpts ({ yaml12 := true, indentStep := 3, compactListIndent := true } : Opts) := ⟨by decide, rfl⟩
/-- `yaml_12` at work (model output; identical to the implementation's): the prologue, then the same layout;
the safe leaf class excludes the YAML 1.1 boolean words, which `yaml_12` leaves plain (C12's residue) -/
example : emit { yaml12 := true } implFns (SVal.struct [("k".toList, .seq [.int 1, .str "yes1".toList])]) =
    .ok "%YAML 1.2\n---\nk:\n  - 1\n  - yes1\n".toList := by rfl
example : isSafeStr "yes".toList = false ∧ isSafeStr "y".toList = false ∧ isSafeStr "off".toList = false := by decide
example : FragOpts ({ quoteAll := true, yaml12 := true, indentStep := 4 } : Opts) := ⟨by decide, rfl⟩
/-- `quote_all` at work (model output; identical to the implementation's): string values, unit variants and the
names of variants with data in single quotes, string keys plain; and the reader on it -/
example : emit { quoteAll := true, yaml12 := true } implFns (SVal.struct [("k".toList, .seq [.str "ab".toList,
      .newtypeVariant "nv".toList (.str "x".toList), .unitVariant "e".toList "uv".toList]),
      ("m".toList, .map true [(.seq [.str "q".toList], .str "yes1".toList)])]) =
    .ok "%YAML 1.2\n---\nk:\n  - 'ab'\n  - 'nv': 'x'\n  - 'uv'\nm:\n  ? - 'q'\n  : 'yes1'\n".toList := by rfl
example : readDoc "%YAML 1.2\n---\nk:\n  - 'ab'\n  - 'nv': 'x'\n  - 'uv'\nm:\n  ? - 'q'\n  : 'yes1'\n".toList =
    some (erase (SVal.struct [("k".toList, .seq [.str "ab".toList,
      .newtypeVariant "nv".toList (.str "x".toList), .unitVariant "e".toList "uv".toList]),
      ("m".toList, .map true [(.seq [.str "q".toList], .str "yes1".toList)])])) := by decide +kernel
/-- a value over arbitrary strings (the hypotheses of `emit_roundtrip_strings_partial` are satisfiable):
key separators, comment signs, quotes, blanks at either end, empty strings, look-alikes of null / numbers /
booleans / sequence entries, TAB and backslash, as leaves, keys, variant names and inside composite keys -/
def stringsValue : SVal :=
  SVal.struct [("a key".toList, .seq [.str "hello: world".toList, .str "it's # not a comment".toList, .str "".toList,
      .str "- x".toList, .str "123".toList, .str "null".toList, .str "plain text".toList]),
    ("yes".toList, .newtypeVariant "On".toList (.str " lead".toList)),
    ("t\tab".toList, .map true [(.seq [.str "q\"uote".toList], .str "tr\\ail ".toList)])]

example : inFragP (implPred {}) stringsValue = true := by decide +kernel
example : inFragP (lineStrPred {}) stringsValue = true := by decide +kernel
example : inFragP (lineStrPred { yaml12 := true, quoteAll := true, taggedEnums := true, indentStep := 1 })
    (.seq [.str "yes".toList, .unitVariant "En".toList "no".toList, SVal.struct [("k e y".toList, .str "#".toList)]]) = true := by
  decide +kernel
example : inFragP (implPred { quoteAll := true, indentStep := 3 }) stringsValue = true := by decide +kernel
/-- under `quote_all` strings with line breaks are in the class too (they are double-quoted) -/
example : inFragP (implPred { quoteAll := true, yaml12 := true }) (.seq [.str "multi\nline\n".toList]) = true := by decide +kernel
set_option maxRecDepth 4000 in
/-- model output (identical to the implementation's) and the reader on it -/
example : emit {} implFns stringsValue =
    .ok "a key:\n  - \"hello: world\"\n  - \"it's # not a comment\"\n  - \"\"\n  - \"- x\"\n  - \"123\"\n  - \"null\"\n  - plain text\n\"yes\":\n  \"On\": \" lead\"\n\"t\\tab\":\n  ? - q\"uote\n  : \"tr\\\\ail \"\n".toList := by rfl
set_option maxRecDepth 4000 in
example : readDoc "a key:\n  - \"hello: world\"\n  - \"it's # not a comment\"\n  - \"\"\n  - \"- x\"\n  - \"123\"\n  - \"null\"\n  - plain text\n\"yes\":\n  \"On\": \" lead\"\n\"t\\tab\":\n  ? - q\"uote\n  : \"tr\\\\ail \"\n".toList =
    some (erase stringsValue) := by decide +kernel
/-! ### block scalars as leaves (`emit_roundtrip_all_strings_partial`) -/

/-- a value whose string leaves get every treatment `serialize_str` has, in every kind of position: literal blocks
(clip / keep / strip chomping, indentation indicator under a parent at column 0), a folded block, the quoted
fall-backs (indicator under a nested parent, control characters), a quoted and a plain token; as values of keys, as
sequence items, in a nested sequence, as the payload of a variant, inside an explicit key and as its value; body
lines that look like a comment / a document marker -/
def blockValue : SVal :=
  SVal.struct [
    ("text".toList, .str "line one\nline two\n".toList),
    ("items".toList, .seq [.str "a\n  b\n\n".toList, .str "word word  word   word ".toList, .seq [.str "x\ny".toList, .int 1]]),
    ("lead".toList, .str " indented first\nthen not".toList),
    ("nested".toList, SVal.struct [("lead".toList, .str " x\ny".toList), ("v".toList, .newtypeVariant "Nv".toList (.str "p\nq\n\n\n".toList))]),
    ("keys".toList, .map true [(.seq [.str "k\nk".toList], .str "# not a comment\n--- not a marker\n".toList)]),
    ("ctl".toList, .str "a\rb\nc".toList),
    ("plain".toList, .str "yes".toList)]

example : inFragP (allStrPred { foldedWrapCol := 10 }) blockValue = true := by decide +kernel
example : inFragP (allStrPred { foldedWrapCol := 10, indentStep := 1, compactListIndent := true, yaml12 := true, quoteAll := true })
    (.seq [.str " a\nb".toList, .seq [.str "a\nb".toList], blockValue]) = true := by decide +kernel
example : inFragP (implPred { foldedWrapCol := 10 }) blockValue = false := by decide +kernel
set_option maxRecDepth 8000 in
/-- model output (identical to the implementation's) -/
example : emit { foldedWrapCol := 10 } implFns blockValue =
    .ok "text: |\n  line one\n  line two\nitems:\n  - |+\n    a\n      b\n    \n  - >-\n    word\n    word  word  \n    word \n  - - |-\n      x\n      y\n    - 1\nlead: |2-\n   indented first\n  then not\nnested:\n  lead: \" x\\ny\"\n  v:\n    Nv: |+\n      p\n      q\n      \n      \nkeys:\n  ? - |-\n      k\n      k\n  : |\n    # not a comment\n    --- not a marker\nctl: \"a\\rb\\nc\"\nplain: \"yes\"\n".toList := by rfl
set_option maxRecDepth 8000 in
/-- … and the reader on it -/
example : readDoc "text: |\n  line one\n  line two\nitems:\n  - |+\n    a\n      b\n    \n  - >-\n    word\n    word  word  \n    word \n  - - |-\n      x\n      y\n    - 1\nlead: |2-\n   indented first\n  then not\nnested:\n  lead: \" x\\ny\"\n  v:\n    Nv: |+\n      p\n      q\n      \n      \nkeys:\n  ? - |-\n      k\n      k\n  : |\n    # not a comment\n    --- not a marker\nctl: \"a\\rb\\nc\"\nplain: \"yes\"\n".toList =
    some (erase blockValue) := by decide +kernel
/-- other steps: `indent_step 1` (no block scalar after `- - `: quoted; the body one column under a root dash), 4, 11
(the indentation indicator would exceed 9: quoted) -/
example : emit { foldedWrapCol := 2, indentStep := 1 } implFns (.seq [.str " a\nb".toList, .seq [.str "a\nb".toList], .str "a\nb".toList]) =
    .ok "- |1-\n  a\n b\n- - \"a\\nb\"\n- |-\n a\n b\n".toList := by rfl
example : readDoc "- |1-\n  a\n b\n- - \"a\\nb\"\n- |-\n a\n b\n".toList =
    some (erase (.seq [.str " a\nb".toList, .seq [.str "a\nb".toList], .str "a\nb".toList])) := by decide +kernel
example : emit { foldedWrapCol := 10, indentStep := 4 } implFns (.newtypeVariant "V".toList (.str "aaaa bbbb cccc dddd".toList)) =
    .ok "V: >-\n    aaaa bbbb\n    cccc dddd\n".toList := by rfl
example : emit { foldedWrapCol := 2, indentStep := 11 } implFns (SVal.struct [("k".toList, .str " a\nb".toList), ("j".toList, .str "a\nb".toList)]) =
    .ok "k: \" a\\nb\"\nj: |-\n           a\n           b\n".toList := by rfl
/-- unit variants are written like string leaves (block scalars included); under `tagged_enums` as `!!Enum variant` -/
example : inFragP (allStrPred { foldedWrapCol := 2 }) (.seq [.unitVariant "E".toList "a\nb".toList,
    SVal.struct [("k".toList, .unitVariant "E".toList "aa bb  c".toList)]]) = true := by decide +kernel
example : emit { foldedWrapCol := 2 } implFns (.seq [.unitVariant "E".toList "a\nb".toList,
      SVal.struct [("k".toList, .unitVariant "E".toList "aa bb  c".toList)]]) =
    .ok "- |-\n  a\n  b\n- k: >-\n    aa bb  c\n".toList := by rfl
example : readDoc "- |-\n  a\n  b\n- k: >-\n    aa bb  c\n".toList =
    some (erase (.seq [.unitVariant "E".toList "a\nb".toList, SVal.struct [("k".toList, .unitVariant "E".toList "aa bb  c".toList)]])) := by
  decide +kernel
example : emit { foldedWrapCol := 2, taggedEnums := true } implFns (.seq [.unitVariant "E".toList "a\nb".toList,
      SVal.struct [("k".toList, .unitVariant "E".toList "aa bb  c".toList)]]) =
    .ok "- !!E \"a\\nb\"\n- k: !!E aa bb  c\n".toList := by rfl
/-- the layout function at a block leaf: header on the line of the key, the body lines at column `0 + indent_step`,
the leading blanks of a content line counted as indentation -/
example : layRoot (blkToks { foldedWrapCol := 2 } implFns) 2 false (SVal.struct [("k".toList, .str " a\n\nb\n\n".toList)]) =
    [⟨0, "k: |2+".toList⟩, ⟨3, "a".toList⟩, ⟨2, []⟩, ⟨2, "b".toList⟩, ⟨2, []⟩] := by decide +kernel
/-- the hypotheses of the layout theorems for a single leaf are satisfiable -/
example : autoBlock { foldedWrapCol := 2 } implFns " a\n\nb\n\n".toList = true ∧ blockFallback 2 (.val 0) " a\n\nb\n\n".toList = false ∧
    blockFallback 2 (.val 2) " a\n\nb\n\n".toList = true ∧ blockFallback 1 (.item 2) "a\nb".toList = true ∧
    autoBlock { foldedWrapCol := 4 } implFns "aa bb  cc ".toList = true ∧ blockFallback 2 .root "aa bb  cc ".toList = false := by
  decide +kernel
/-- `tagged_enums` at work (model output; identical to the implementation's): a unit variant is `!!Enum variant`
with the variant name written by the value rule (here quoted by `quote_all` / because it is a YAML 1.1 boolean
word), and the reader on it -/
example : emit { taggedEnums := true, quoteAll := true } implFns (SVal.struct [("k".toList, .seq [.unitVariant "En".toList "uv".toList]),
      ("m".toList, .unitVariant "En".toList "y".toList)]) = .ok "k:\n  - !!En 'uv'\nm: !!En 'y'\n".toList := by rfl
example : emit { taggedEnums := true } implFns (.seq [.unitVariant "Axis".toList "x".toList, .unitVariant "Axis".toList "Y".toList]) =
    .ok "- !!Axis x\n- !!Axis \"Y\"\n".toList := by rfl
example : readDoc "k:\n  - !!En 'uv'\nm: !!En 'y'\n".toList =
    some (erase (SVal.struct [("k".toList, .seq [.unitVariant "En".toList "uv".toList]),
      ("m".toList, .unitVariant "En".toList "y".toList)])) := by decide +kernel
example : inFragP (implPred { taggedEnums := true }) (.seq [.unitVariant "Axis".toList "x".toList, .unitVariant "Axis".toList "Y".toList,
    .newtypeVariant "Nv".toList (.unitVariant "My Enum".toList "a b".toList)]) = false := by decide +kernel
example : inFragP (implPred { taggedEnums := true }) (.seq [.unitVariant "Axis".toList "x".toList, .unitVariant "Axis".toList "Y".toList,
    .newtypeVariant "Nv".toList (.unitVariant "MyEnum".toList "a b".toList)]) = true := by decide +kernel
/-- the token functions of the safe class under `quote_all` -/
example : (safeToks { quoteAll := true }).str "ab".toList = "'ab'".toList ∧ (safeToks { quoteAll := true }).key "ab".toList = "ab".toList ∧
    (safeToks {}).str "ab".toList = "ab".toList := by decide
example : FragOpts ({ indentStep := 1, minFoldChars := 0, foldedWrapCol := 5, preferBlockScalars := false } : Opts) :=
  ⟨by decide, rfl⟩
/-- composite keys at work (model output; identical to the implementation's), default step and step 4 -/
example : emit {} implFns (.map true [(.seq [.int 1, .seq []], .seq [.int 2]),
      (SVal.struct [("x".toList, .int 1), ("z".toList, .int 2)], SVal.struct [("x".toList, .int 3)]),
      (.newtypeVariant "nv".toList (.seq [.int 1]), .tupleVariant "tv".toList [])]) =
    .ok "? - 1\n  - []\n: - 2\n? x: 1\n  z: 2\n: x: 3\n? nv:\n    - 1\n: tv: []\n".toList := by rfl
example : emit { indentStep := 4 } implFns (.seq [.map true [(.seq [.int 1, .seq []], .seq [.int 2]),
      (SVal.struct [("x".toList, .int 1), ("z".toList, .int 2)], SVal.struct [("x".toList, .int 3)])]]) =
    .ok "- ? - 1\n    - []\n  : - 2\n  ? x: 1\n    z: 2\n  : x: 3\n".toList := by rfl
example : FragOpts ({ indentStep := 3, compactListIndent := true } : Opts) := ⟨by decide, rfl⟩
/-- `compact_list_indent` at work (model output; identical to the implementation's) -/
example : emit { compactListIndent := true } implFns (SVal.struct [("a".toList, .seq [.int 1, SVal.struct [("b".toList, .seq [.int 2])]]),
      ("c".toList, .seq []), ("d".toList, .tupleVariant "tv".toList [.int 3])]) =
    .ok "a:\n- 1\n- b:\n  - 2\nc: []\nd:\n  tv:\n  - 3\n".toList := by rfl
example : FragOpts ({ indentStep := 7 } : Opts) := ⟨by decide, rfl⟩
/-- the theorem at work for `indent_step = 3` and `1` (model output; identical to the implementation's) -/
example : emit { indentStep := 3 } implFns (SVal.struct [("k".toList, .seq [.int 1, .seq [.none, SVal.struct [("a".toList, .int 1), ("b".toList, .tupleVariant "tv".toList [.int 2])]]])]) =
    .ok "k:\n   - 1\n   - - null\n     - a: 1\n       b:\n          tv:\n             - 2\n".toList := by rfl
example : emit { indentStep := 1 } implFns (SVal.struct [("k".toList, .seq [.int 1, .seq [.none, SVal.struct [("a".toList, .int 1), ("b".toList, .tupleVariant "tv".toList [.int 2])]]])]) =
    .ok "k:\n - 1\n - - null\n   - a: 1\n     b:\n      tv:\n       - 2\n".toList := by rfl
/-- the safe-leaf contract is satisfiable: the crate's functions, made to accept the whole safe class (they
accept all of it except `infinity`, see `implFns_not_safeContract`) -/
def safeFns : ScalarFns :=
  { implFns with
    isPlainSafe := fun s => isSafeStr s || implFns.isPlainSafe s
    isPlainValueSafe := fun s y fl => isSafeStr s || implFns.isPlainValueSafe s y fl
    isUnsafePlainShape := fun s => !isSafeStr s && implFns.isUnsafePlainShape s }
example : SafeContract safeFns :=
  ⟨fun s h => by simp [safeFns, h], fun s y fl h => by simp [safeFns, h], fun s h => by simp [safeFns, h]⟩
/-- the contracts of the general theorems are satisfiable (by the crate's own functions, `impl_contracts`; by
any functions with the safe-leaf contract, `safe_write` / `safe_read`) on non-trivial values -/
example : ∃ (P : LeafPred) (T : Toks), WriteContract { quoteAll := true } implFns P T ∧ ReadContract P T 2 ∧
    inFragP P stringsValue = true :=
  ⟨_, _, (impl_contracts _ ⟨by decide, rfl⟩).1, (impl_contracts { quoteAll := true } ⟨by decide, rfl⟩).2, by decide +kernel⟩
example : WriteContract { taggedEnums := true } safeFns (safePred { taggedEnums := true }) (safeToks { taggedEnums := true }) ∧
    ReadContract (safePred { taggedEnums := true }) (safeToks { taggedEnums := true }) 2 ∧
    inFragP (safePred { taggedEnums := true }) sampleValue = true :=
  ⟨safe_write ⟨by decide, rfl⟩ ⟨fun s h => by simp [safeFns, h], fun s y fl h => by simp [safeFns, h], fun s h => by simp [safeFns, h]⟩,
   safe_read _ _, by decide⟩
/-- the crate's scalar functions on sample safe strings -/
example : implFns.isPlainSafe "demo".toList = true ∧ implFns.isPlainValueSafe "demo".toList false true = true ∧
    implFns.isPlainValueSafe "x1".toList true false = true := by decide
/-- the model output for a small member of the fragment, and the reader on it -/
example : emit {} implFns (SVal.struct [("k".toList, .seq [.int 1, .seq [.none]])]) = .ok "k:\n  - 1\n  - - null\n".toList := by rfl
example : readDoc "k:\n  - 1\n  - - null\n".toList = some (erase (SVal.struct [("k".toList, .seq [.int 1, .seq [.none]])])) := by rfl

end SaphyrVerif.Emit
