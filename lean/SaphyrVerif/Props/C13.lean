import SaphyrVerif.Lemmas.C13_Emit
import SaphyrVerif.Lemmas.C13_Lines
import SaphyrVerif.Model.EmitQuote
import SaphyrVerif.Lemmas.EmitPVal
/-!
# C13 — every data-model shape round-trips as one well-formed YAML document

Model: `Model/Emitter.lean` (the `YamlSerializer` state machine, `emit` = `to_string_with_options`).
Spec: `Spec/EmitReader.lean` (`erase`: what a Serde value means as YAML data; `readDoc`: reference
reader of the emitted dialect, validated against the real parser on every emitted text of the
differential run).

Full statement: `C13_Full`.  It is still FALSE for the code (model and code agree byte for byte on
every generated case): `empty_as_braces = false` writes an empty collection as nothing (pinned by the
crate's own tests, see `empty_no_braces_counterexample`).  Proved part: `emit_roundtrip_partial` —
arbitrary nesting of

  null (unit / `None`), booleans, integers, safe strings (`[a-z][a-z0-9]*` minus the reserved words, not
  longer than `folded_wrap_chars`), `Some`, ordinary newtype structs, block sequences, tuples and
  tuple structs, block mappings / structs (known or unknown length) whose keys are safe strings or
  COMPOSITE — sequences, mappings, variants with data of the fragment, written `? key` / `: value` —
  and pairwise different as data, unit, newtype, tuple and struct variants (also without fields)

under EVERY `indent_step ≥ 1` (since fix 995e25e the layout is right for every step), `compact_list_indent`
on or off (fixes 8740963 fb15f4e), `empty_as_braces = true`, `quote_all = false`, `yaml_12 = false`,
`tagged_enums = false` (any `min_fold_chars` / `folded_wrap_chars` / `prefer_block_scalars`), for every
scalar-text function that satisfies the safe-leaf contract.
Outside the proved fragment: scalar keys other than safe strings (null / bool / number keys), the
presentation wrappers, strings outside the safe class (C12), the other option values, anchors.  The defect classes this property
found in tuple structs, tuple / struct variants, composite keys, `compact_list_indent` and
`indent_step` 1 / ≥ 3 (now inside the proved fragment) are repaired (fixes f421f34 beca5d5 8740963 fb15f4e 6b2e131 995e25e): the former
counterexample theorems are regression theorems below (`*_regression`: the repaired model output and
the reader on it).
-/
namespace SaphyrVerif.Emit
open SaphyrVerif

/-- C13 at full strength, for the crate's own scalar-text functions: whenever serialization
succeeds under a valid option set (`indent_step ≥ 1`), the text is one well-formed document that
reads back as the value. -/
def C13_Full : Prop :=
  ∀ (o : Opts) (v : SVal) (t : List Char), o.indentStep ≥ 1 → emit o implFns v = .ok t → readDoc t = some (erase v)

section
variable {o : Opts} {f : ScalarFns}

/-- (T, the emitter invariant) On the fragment the state machine — whatever the layout flags do
on the way — writes exactly the lines of the flag-free layout function, for every `indent_step = k ≥ 1`:
a collection after `key:` (keys at column `c`) on the following lines at column `c + k` (a sequence
under `compact_list_indent` inside a mapping: at column `c`), the first
entry of a collection after `- ` (dash at column `c`) on the dash line and all its entries at column
`c + 2`, `Variant:` after `key:` on the next line at column `c + k` and its payload under it. -/
theorem emit_layout_partial (ho : FragOpts o) (hf : SafeContract f) (v : SVal)
    (hv : inFrag o.foldedWrapCol v = true) : emit o f v = .ok (renderLines (layRoot o.indentStep o.compactListIndent v)) :=
  emit_eq_layout ho hf v hv

/-- (T) C13 on the fragment: serialization succeeds and the text reads back as exactly the value. -/
theorem emit_roundtrip_partial (ho : FragOpts o) (hf : SafeContract f) (v : SVal)
    (hv : inFrag o.foldedWrapCol v = true) : ∃ t, emit o f v = .ok t ∧ readDoc t = some (erase v) :=
  ⟨_, emit_eq_layout ho hf v hv, read_layout ho.indent v hv⟩

/-- (T) C13 "one document": on the fragment no line of the output is a document marker (`---` / `...`
at column 0) or a directive (no prologue at all, since `yaml_12 = false`), no line is blank or a
comment, and the lines of the text are exactly the layout lines. -/
theorem emit_single_document (ho : FragOpts o) (hf : SafeContract f) (v : SVal)
    (hv : inFrag o.foldedWrapCol v = true) :
    ∃ t, emit o f v = .ok t ∧ toLines t = layRoot o.indentStep o.compactListIndent v ∧
      ∀ l ∈ toLines t, isDocMarker l "---".toList = false ∧ isDocMarker l "...".toList = false ∧
        l.text.head? ≠ some '%' ∧ l.isSkippable = false := by
  have hg := (root_lines (cp := o.compactListIndent) ho.indent v hv).1
  refine ⟨_, emit_eq_layout ho hf v hv, toLines_render _ hg, ?_⟩
  intro l hl
  rw [toLines_render _ hg] at hl
  have h := hg l hl
  exact ⟨(goodLine_not_marker h).1, (goodLine_not_marker h).2,
    goodLine_head_ne h '%' (by decide) (by decide) (by decide) (by decide) (by decide) (by decide), goodLine_notSkippable h⟩

end

/-! ## regression theorems: the defect classes repaired in the code

Each theorem states what the emitter model writes for the witness of a former defect class (identical
to the implementation's output: the witnesses are part of the differential corpus) and that the
reference reader (= the real parser on these texts) reads the value back. -/

/-- `yaml_12 = true` (repaired by fix 832e31b, found by this property: the directive used to be
written without the `---` it requires and every document was rejected): the prologue is followed by
the document start marker and the document reads back.  `yaml_12` is still outside the proved fragment. -/
example : emit { yaml12 := true } implFns (.int 7) = .ok "%YAML 1.2\n---\n7\n".toList ∧
    readDoc "%YAML 1.2\n---\n7\n".toList = some (.int 7) := ⟨rfl, rfl⟩

/-- (regression, fix 995e25e) `indent_step = 1`: the items of a nested sequence are aligned under its
first dash (the second item used to be indented less than the first: not YAML). -/
theorem indent_step_1_regression :
    emit { indentStep := 1 } implFns (.seq [.seq [.int 1, .int 2]]) = .ok "- - 1\n  - 2\n".toList ∧
    readDoc "- - 1\n  - 2\n".toList = some (erase (.seq [.seq [.int 1, .int 2]])) := ⟨rfl, by decide +kernel⟩

/-- (regression, fix 995e25e) `indent_step = 3`: same (`[[1, 2]]` used to read as `[["1 - 2"]]`); a
mapping under the nested sequence keeps its keys aligned too. -/
theorem indent_step_3_regression :
    emit { indentStep := 3 } implFns (.seq [.seq [.int 1, .int 2]]) = .ok "- - 1\n  - 2\n".toList ∧
    emit { indentStep := 3 } implFns (.seq [.seq [SVal.struct [("k".toList, .int 1), ("m".toList, .seq [.int 2])]]]) =
      .ok "- - k: 1\n    m:\n       - 2\n".toList ∧
    readDoc "- - k: 1\n    m:\n       - 2\n".toList =
      some (erase (.seq [.seq [SVal.struct [("k".toList, .int 1), ("m".toList, .seq [.int 2])]]])) :=
  ⟨rfl, rfl, by decide +kernel⟩

/-- (regression, fix 8740963) `compact_list_indent = true`: an empty sequence after a block sibling
stays on the line of its key (it used to land at the parent's column on a line of its own). -/
theorem compact_list_indent_regression :
    emit { compactListIndent := true } implFns
      (SVal.struct [("a".toList, .seq [.int 1]), ("b".toList, .seq [])]) = .ok "a:\n- 1\nb: []\n".toList ∧
    readDoc "a:\n- 1\nb: []\n".toList =
      some (erase (SVal.struct [("a".toList, .seq [.int 1]), ("b".toList, .seq [])])) := ⟨rfl, by decide +kernel⟩

/-- (regression, fix fb15f4e) `compact_list_indent = true`: a sequence used as a composite key keeps
its later items under the `? ` (they used to be written at the column of the `?`). -/
theorem compact_list_indent_key_regression :
    emit { compactListIndent := true } implFns (.map true [(.seq [.int 1, .int 2], .int 1)]) =
      .ok "? - 1\n  - 2\n: 1\n".toList ∧
    readDoc "? - 1\n  - 2\n: 1\n".toList = some (erase (.map true [(.seq [.int 1, .int 2], .int 1)])) :=
  ⟨rfl, by decide +kernel⟩

/-- (regression, fix beca5d5) a tuple variant in mapping-value position goes under its key (it used
to be glued to the key: `k:Tv:`). -/
theorem tuple_variant_position_regression :
    emit {} implFns (SVal.struct [("k".toList, .tupleVariant "Tv".toList [.int 1])]) = .ok "k:\n  Tv:\n    - 1\n".toList ∧
    readDoc "k:\n  Tv:\n    - 1\n".toList =
      some (erase (SVal.struct [("k".toList, .tupleVariant "Tv".toList [.int 1])])) := ⟨rfl, by decide +kernel⟩

/-- (regression, fix beca5d5) tuple / struct variants without fields are `Variant: []` / `Variant: {}`
(they used to read as null payloads). -/
theorem empty_variant_regression :
    emit {} implFns (.tupleVariant "Tv".toList []) = .ok "Tv: []\n".toList ∧
    emit {} implFns (.structVariant "Sv".toList []) = .ok "Sv: {}\n".toList ∧
    readDoc "Tv: []\n".toList = some (erase (.tupleVariant "Tv".toList [])) ∧
    readDoc "Sv: {}\n".toList = some (erase (.structVariant "Sv".toList [])) :=
  ⟨rfl, rfl, by decide +kernel, by decide +kernel⟩

/-- (regression, fix f421f34) a tuple struct without fields is `[]` (it used to emit nothing: the next
key landed on the same line). -/
theorem tuple_struct_empty_regression :
    emit {} implFns (SVal.struct [("k".toList, .tupleStruct []), ("z".toList, .int 9)]) = .ok "k: []\nz: 9\n".toList ∧
    readDoc "k: []\nz: 9\n".toList =
      some (erase (SVal.struct [("k".toList, .tupleStruct []), ("z".toList, .int 9)])) := ⟨rfl, by decide +kernel⟩

/-- (regression, fix f421f34) nested tuple structs nest (`A(B(1))` used to read as `[null, 1]`). -/
theorem tuple_struct_position_regression :
    emit {} implFns (.tupleStruct [.tupleStruct [.int 1]]) = .ok "- - 1\n".toList ∧
    readDoc "- - 1\n".toList = some (erase (.tupleStruct [.tupleStruct [.int 1]])) := ⟨rfl, by decide +kernel⟩

/-- (regression, fix 6b2e131) the block-sequence value of a composite key starts after `: ` and
continues under it (it used to continue at the wrong column and read as `["1 - 2"]`). -/
theorem complex_key_regression :
    emit {} implFns (.map true [(.seq [], .seq [.int 1, .int 2])]) = .ok "? []\n: - 1\n  - 2\n".toList ∧
    readDoc "? []\n: - 1\n  - 2\n".toList = some (erase (.map true [(.seq [], .seq [.int 1, .int 2])])) :=
  ⟨rfl, by decide +kernel⟩

/-- (regression, fix b697ff3) the name of an enum variant with data is the key of `Variant: payload`: a
name that is a YAML 1.1 boolean spelling is quoted like every other mapping key (`Y: 1` used to be
written and read back with the key `true`). -/
theorem variant_key_yaml11_bool_regression :
    emit {} implFns (.newtypeVariant "Y".toList (.int 1)) = .ok "\"Y\": 1\n".toList ∧
    readDoc "\"Y\": 1\n".toList = some (erase (.newtypeVariant "Y".toList (.int 1))) ∧
    readDoc "Y: 1\n".toList = some (.map [(.bool true, .int 1)]) ∧
    emit {} implFns (.seq [SVal.structVariantOf "No".toList [("a".toList, .int 1)], .tupleVariant "on".toList [.int 1, .int 2]]) =
      .ok "- \"No\":\n    a: 1\n- \"on\":\n    - 1\n    - 2\n".toList ∧
    readDoc "- \"No\":\n    a: 1\n- \"on\":\n    - 1\n    - 2\n".toList =
      some (erase (.seq [SVal.structVariantOf "No".toList [("a".toList, .int 1)], .tupleVariant "on".toList [.int 1, .int 2]])) :=
  ⟨rfl, by decide +kernel, by decide +kernel, rfl, by decide +kernel⟩

/-! ## counterexample (F): the defect class still present -/

/-- (F) `empty_as_braces = false`: an empty sequence is written as nothing and reads as null (the
text is pinned by the crate's tests/empty_map_braces.rs: the option's legacy layout). -/
theorem empty_no_braces_counterexample :
    emit { emptyAsBraces := false } implFns (SVal.struct [("k".toList, .seq [])]) = .ok "k:\n".toList ∧
    readDoc "k:\n".toList = some (.map [(.str "k".toList, .null)]) := ⟨rfl, rfl⟩

/-- (F) the full statement does not hold for the code as it is. -/
theorem C13_Full_false : ¬ C13_Full := by
  intro h
  have h1 := h { emptyAsBraces := false } (SVal.struct [("k".toList, .seq [])]) _ (by decide) empty_no_braces_counterexample.1
  rw [empty_no_braces_counterexample.2] at h1
  exact absurd h1 (by decide)

/-! ## the hypotheses are satisfiable (non-vacuity) -/

/-- a value of the fragment that exercises every constructor and the sibling interactions -/
def sampleValue : SVal :=
  SVal.struct [
    ("name".toList, .str "demo".toList),
    ("ports".toList, .seq [.int 8080, .int (-1), .seq [.bool true, .none], .seq []]),
    ("nested".toList, .map false [(.str "a".toList, .newtypeVariant "nv".toList (.seq [SVal.struct [("x".toList, .unit), ("z".toList, .map true [])]])),
                                  (.str "b".toList, .some (.unitVariant "e".toList "va".toList))]),
    ("variants".toList, .tupleStruct [.tupleVariant "tv".toList [.int 1, .tupleStruct []], .tupleVariant "te".toList [],
                                      SVal.structVariantOf "sv".toList [("f".toList, .structVariant "se".toList [])]]),
    ("keys".toList, .map true [(.seq [.int 1, .seq []], .seq [.int 2]),
                               (SVal.struct [("x".toList, .int 1), ("z".toList, .int 2)], SVal.struct [("x".toList, .int 3)]),
                               (.newtypeVariant "nv".toList (.seq [.int 1]), .tupleVariant "tv".toList []),
                               (.str "plain".toList, .seq [.map false [(.map true [], .map true [])]])]),
    ("last".toList, .newtypeStruct (.tuple [.int 1, SVal.struct []]))]

example : inFrag 80 sampleValue = true := by decide
example : FragOpts ({} : Opts) := ⟨by decide, rfl, rfl, rfl, rfl⟩
example : FragOpts ({ indentStep := 1, minFoldChars := 0, foldedWrapCol := 5, preferBlockScalars := false } : Opts) :=
  ⟨by decide, rfl, rfl, rfl, rfl⟩
/-- composite keys at work (model output; identical to the implementation's), default step and step 4 -/
example : emit {} implFns (.map true [(.seq [.int 1, .seq []], .seq [.int 2]),
      (SVal.struct [("x".toList, .int 1), ("z".toList, .int 2)], SVal.struct [("x".toList, .int 3)]),
      (.newtypeVariant "nv".toList (.seq [.int 1]), .tupleVariant "tv".toList [])]) =
    .ok "? - 1\n  - []\n: - 2\n? x: 1\n  z: 2\n: x: 3\n? nv:\n    - 1\n: tv: []\n".toList := by rfl
example : emit { indentStep := 4 } implFns (.seq [.map true [(.seq [.int 1, .seq []], .seq [.int 2]),
      (SVal.struct [("x".toList, .int 1), ("z".toList, .int 2)], SVal.struct [("x".toList, .int 3)])]]) =
    .ok "- ? - 1\n    - []\n  : - 2\n  ? x: 1\n    z: 2\n  : x: 3\n".toList := by rfl
example : FragOpts ({ indentStep := 3, compactListIndent := true } : Opts) := ⟨by decide, rfl, rfl, rfl, rfl⟩
/-- `compact_list_indent` at work (model output; identical to the implementation's) -/
example : emit { compactListIndent := true } implFns (SVal.struct [("a".toList, .seq [.int 1, SVal.struct [("b".toList, .seq [.int 2])]]),
      ("c".toList, .seq []), ("d".toList, .tupleVariant "tv".toList [.int 3])]) =
    .ok "a:\n- 1\n- b:\n  - 2\nc: []\nd:\n  tv:\n  - 3\n".toList := by rfl
example : FragOpts ({ indentStep := 7 } : Opts) := ⟨by decide, rfl, rfl, rfl, rfl⟩
/-- the theorem at work for `indent_step = 3` and `1` (model output; identical to the implementation's) -/
example : emit { indentStep := 3 } implFns (SVal.struct [("k".toList, .seq [.int 1, .seq [.none, SVal.struct [("a".toList, .int 1), ("b".toList, .tupleVariant "tv".toList [.int 2])]]])]) =
    .ok "k:\n   - 1\n   - - null\n     - a: 1\n       b:\n          tv:\n             - 2\n".toList := by rfl
example : emit { indentStep := 1 } implFns (SVal.struct [("k".toList, .seq [.int 1, .seq [.none, SVal.struct [("a".toList, .int 1), ("b".toList, .tupleVariant "tv".toList [.int 2])]]])]) =
    .ok "k:\n - 1\n - - null\n   - a: 1\n     b:\n      tv:\n       - 2\n".toList := by rfl
/-- the crate's scalar functions on sample safe strings (the contract itself is C12's) -/
example : implFns.isPlainSafe "demo".toList = true ∧ implFns.isPlainValueSafe "demo".toList false true = true ∧
    implFns.isPlainValueSafe "x1".toList true false = true := by decide
/-- the model output for a small member of the fragment, and the reader on it -/
example : emit {} implFns (SVal.struct [("k".toList, .seq [.int 1, .seq [.none]])]) = .ok "k:\n  - 1\n  - - null\n".toList := by rfl
example : readDoc "k:\n  - 1\n  - - null\n".toList = some (erase (SVal.struct [("k".toList, .seq [.int 1, .seq [.none]])])) := by rfl

end SaphyrVerif.Emit
