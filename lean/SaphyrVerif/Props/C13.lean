import SaphyrVerif.Lemmas.C13_Emit
import SaphyrVerif.Lemmas.C13_Lines
import SaphyrVerif.Model.EmitQuote
/-!
# C13 — every data-model shape round-trips as one well-formed YAML document

Model: `Model/Emitter.lean` (the `YamlSerializer` state machine, `emit` = `to_string_with_options`).
Spec: `Spec/EmitReader.lean` (`erase`: what a Serde value means as YAML data; `readDoc`: reference
reader of the emitted dialect, validated against the real parser on every emitted text of the
differential run).

Full statement: `C13_Full`.  It is FALSE for the code as it is (model and code agree byte for byte on
every generated case): the (F) theorems below give one witness per defect class found.  Proved part:
`emit_roundtrip_partial` — arbitrary nesting of

  null (unit / `None`), booleans, integers, safe strings (`[a-z][a-z0-9]*` minus the reserved words, not
  longer than `folded_wrap_chars`), `Some`, ordinary newtype structs, block sequences and tuples,
  block mappings / structs with distinct safe string keys (known or unknown length), unit variants,
  newtype variants

under `indent_step = 2`, `empty_as_braces = true`, `compact_list_indent = false`, `quote_all = false`,
`yaml_12 = false`, `tagged_enums = false` (any `min_fold_chars` / `folded_wrap_chars` /
`prefer_block_scalars`), for every scalar-text function that satisfies the safe-leaf contract.
Outside the proved fragment: tuple structs, tuple / struct variants, non-string and composite keys,
the presentation wrappers, strings outside the safe class (C12), the other option values (each has a
counterexample below, except `yaml_12` whose defect — no `---` after the directive — was repaired by
fix 832e31b), anchors.
-/
namespace SaphyrVerif.Emit
open SaphyrVerif

/-- C13 at full strength, for the crate's own scalar-text functions: whenever serialization
succeeds under a valid option set (`indent_step ≥ 1`), the text is one well-formed document that
reads back as the value. -/
def C13_Full : Prop :=
  ∀ (o : Opts) (v : SVal) (t : List Char), o.indentStep ≥ 1 → emit o implFns v = .ok t → readDoc t = some (erase v)

section
variable {o : Opts} {f : ScalarFns}

/-- (T, the emitter invariant) On the fragment the state machine — whatever the layout flags do
on the way — writes exactly the lines of the flag-free layout function: dashes of a sequence at depth
`d` at column `2d`, keys of a mapping at depth `m` at column `2m`, a collection after `key:` one
level deeper on the following lines, the first entry of a collection after `- ` on the dash line. -/
theorem emit_layout_partial (ho : FragOpts o) (hf : SafeContract f) (v : SVal)
    (hv : inFrag o.foldedWrapCol v = true) : emit o f v = .ok (renderLines (layRoot v)) :=
  emit_eq_layout ho hf v hv

/-- (T) C13 on the fragment: serialization succeeds and the text reads back as exactly the value. -/
theorem emit_roundtrip_partial (ho : FragOpts o) (hf : SafeContract f) (v : SVal)
    (hv : inFrag o.foldedWrapCol v = true) : ∃ t, emit o f v = .ok t ∧ readDoc t = some (erase v) :=
  ⟨_, emit_eq_layout ho hf v hv, read_layout v hv⟩

/-- (T) C13 "one document": on the fragment no line of the output is a document marker (`---` / `...`
at column 0) or a directive (no prologue at all, since `yaml_12 = false`), no line is blank or a
comment, and the lines of the text are exactly the layout lines. -/
theorem emit_single_document (ho : FragOpts o) (hf : SafeContract f) (v : SVal)
    (hv : inFrag o.foldedWrapCol v = true) :
    ∃ t, emit o f v = .ok t ∧ toLines t = layRoot v ∧
      ∀ l ∈ toLines t, isDocMarker l "---".toList = false ∧ isDocMarker l "...".toList = false ∧
        l.text.head? ≠ some '%' ∧ l.isSkippable = false := by
  have hg := (root_lines v hv).1
  refine ⟨_, emit_eq_layout ho hf v hv, toLines_render _ hg, ?_⟩
  intro l hl
  rw [toLines_render _ hg] at hl
  have h := hg l hl
  exact ⟨(goodLine_not_marker h).1, (goodLine_not_marker h).2,
    goodLine_head_ne h '%' (by decide) (by decide) (by decide) (by decide), goodLine_notSkippable h⟩

end

/-! ## counterexamples (F): the code violates C13 outside the fragment

Each theorem states what the emitter model writes (identical to the implementation's output: the
witnesses are part of the differential corpus) and what the reference reader (= the real parser on
these texts) makes of it. -/

/-- `yaml_12 = true` (repaired by fix 832e31b, found by this property: the directive used to be
written without the `---` it requires and every document was rejected): the prologue is followed by
the document start marker and the document reads back.  `yaml_12` is still outside the proved fragment. -/
example : emit { yaml12 := true } implFns (.int 7) = .ok "%YAML 1.2\n---\n7\n".toList ∧
    readDoc "%YAML 1.2\n---\n7\n".toList = some (.int 7) := ⟨rfl, rfl⟩

/-- (F) `indent_step = 1`: the second item of a nested sequence is indented less than the first. -/
theorem indent_step_1_counterexample :
    emit { indentStep := 1 } implFns (.seq [.seq [.int 1, .int 2]]) = .ok "- - 1\n - 2\n".toList ∧
    readDoc "- - 1\n - 2\n".toList = none := ⟨rfl, rfl⟩

/-- (F) `indent_step = 3`: a sequence inside a sequence item continues at column 3 while its first
dash is at column 2: `[[1, 2]]` reads as `[["1 - 2"]]`. -/
theorem indent_step_3_counterexample :
    emit { indentStep := 3 } implFns (.seq [.seq [.int 1, .int 2]]) = .ok "- - 1\n   - 2\n".toList ∧
    readDoc "- - 1\n   - 2\n".toList = some (.seq [.seq [.str "1 - 2".toList]]) := ⟨rfl, rfl⟩

/-- (F) `empty_as_braces = false`: an empty sequence is written as nothing and reads as null. -/
theorem empty_no_braces_counterexample :
    emit { emptyAsBraces := false } implFns (SVal.struct [("k".toList, .seq [])]) = .ok "k:\n".toList ∧
    readDoc "k:\n".toList = some (.map [(.str "k".toList, .null)]) := ⟨rfl, rfl⟩

/-- (F) `compact_list_indent = true`: an empty sequence after a block sibling lands at the parent's
column on its own line. -/
theorem compact_list_indent_counterexample :
    emit { compactListIndent := true } implFns
      (SVal.struct [("a".toList, .seq [.int 1]), ("b".toList, .seq [])]) = .ok "a:\n- 1\nb:\n[]\n".toList ∧
    readDoc "a:\n- 1\nb:\n[]\n".toList = none := ⟨rfl, rfl⟩

/-- (F) default options: a tuple variant in mapping-value position is glued to the key. -/
theorem tuple_variant_position_counterexample :
    emit {} implFns (SVal.struct [("k".toList, .tupleVariant "Tv".toList [.int 1])]) = .ok "k:Tv:\n  -  1\n".toList ∧
    readDoc "k:Tv:\n  -  1\n".toList = some (.map [(.str "k:Tv".toList, .seq [.int 1])]) := ⟨rfl, rfl⟩

/-- (F) default options: tuple / struct variants without fields read as null payloads. -/
theorem empty_variant_counterexample :
    emit {} implFns (.tupleVariant "Tv".toList []) = .ok "Tv:\n".toList ∧
    emit {} implFns (.structVariant "Sv".toList []) = .ok "Sv:\n".toList ∧
    readDoc "Tv:\n".toList = some (.map [(.str "Tv".toList, .null)]) := ⟨rfl, rfl, rfl⟩

/-- (F) default options: a tuple struct without fields emits nothing: the next key lands on the
same line. -/
theorem tuple_struct_empty_counterexample :
    emit {} implFns (SVal.struct [("k".toList, .tupleStruct []), ("z".toList, .int 9)]) = .ok "k: z: 9\n".toList ∧
    readDoc "k: z: 9\n".toList = none := ⟨rfl, rfl⟩

/-- (F) default options: nested tuple structs are flattened (`A(B(1))` reads as `[null, 1]`). -/
theorem tuple_struct_position_counterexample :
    emit {} implFns (.tupleStruct [.tupleStruct [.int 1]]) = .ok "  - \n  - 1\n".toList ∧
    readDoc "  - \n  - 1\n".toList = some (.seq [.null, .int 1]) := ⟨rfl, rfl⟩

/-- (F) default options: the block-sequence value of a composite key continues at the wrong column. -/
theorem complex_key_counterexample :
    emit {} implFns (.map true [(.seq [], .seq [.int 1, .int 2])]) = .ok "? []\n:\n- 1\n  - 2\n".toList ∧
    readDoc "? []\n:\n- 1\n  - 2\n".toList = some (.map [(.seq [], .seq [.str "1 - 2".toList])]) := ⟨rfl, rfl⟩

/-- (F) the full statement does not hold for the code as it is. -/
theorem C13_Full_false : ¬ C13_Full := by
  intro h
  have h1 := h { indentStep := 1 } (.seq [.seq [.int 1, .int 2]]) _ (by decide) indent_step_1_counterexample.1
  rw [indent_step_1_counterexample.2] at h1
  exact absurd h1 (by simp)

/-! ## the hypotheses are satisfiable (non-vacuity) -/

/-- a value of the fragment that exercises every constructor and the sibling interactions -/
def sampleValue : SVal :=
  SVal.struct [
    ("name".toList, .str "demo".toList),
    ("ports".toList, .seq [.int 8080, .int (-1), .seq [.bool true, .none], .seq []]),
    ("nested".toList, .map false [(.str "a".toList, .newtypeVariant "nv".toList (.seq [SVal.struct [("x".toList, .unit), ("z".toList, .map true [])]])),
                                  (.str "b".toList, .some (.unitVariant "e".toList "va".toList))]),
    ("last".toList, .newtypeStruct (.tuple [.int 1, SVal.struct []]))]

example : inFrag 80 sampleValue = true := by decide
example : FragOpts ({} : Opts) := ⟨rfl, rfl, rfl, rfl, rfl, rfl⟩
example : FragOpts ({ minFoldChars := 0, foldedWrapCol := 5, preferBlockScalars := false } : Opts) := ⟨rfl, rfl, rfl, rfl, rfl, rfl⟩
/-- the crate's scalar functions on sample safe strings (the contract itself is C12's) -/
example : implFns.isPlainSafe "demo".toList = true ∧ implFns.isPlainValueSafe "demo".toList false true = true ∧
    implFns.isPlainValueSafe "x1".toList true false = true := by decide
/-- the model output for a small member of the fragment, and the reader on it -/
example : emit {} implFns (SVal.struct [("k".toList, .seq [.int 1, .seq [.none]])]) = .ok "k:\n  - 1\n  - - null\n".toList := by rfl
example : readDoc "k:\n  - 1\n  - - null\n".toList = some (erase (SVal.struct [("k".toList, .seq [.int 1, .seq [.none]])])) := by rfl

end SaphyrVerif.Emit
