import SaphyrVerif.Props.C02
import SaphyrVerif.Props.C07
import SaphyrVerif.Props.C07_Tables
import SaphyrVerif.Model.De
import SaphyrVerif.Lemmas.C01
/-!
# C01 — deserialization is total: no panic, abort or hang (the part a model can carry)

Every modelled loop is a structurally recursive Lean function, so the Lean termination checker has
already proved that each call of the pump (`next_impl`: inject loop + parser loop), of the recovery
path and of the typed deserializer terminates for every finite parser stream.  This file adds the
explicit progress / coherence / bound statements the `unwrap`, `unreachable!` and indexing sites of the
Rust code rely on.  Stack bytes per frame, the external scanner and the renderers are run-time
observations of the sweep (`harness/src/total.rs`).
-/
namespace SaphyrVerif.Props.C01
open SaphyrVerif SaphyrVerif.Scalars SaphyrVerif.Pump SaphyrVerif.Budget SaphyrVerif.Spec
open SaphyrVerif.Lemmas.C01

/-- (T, as given) pump_progress: a `next_impl` call never invents input — what remains is a suffix of what
it was given — and when it delivers an event it either consumed at least one parser item or advanced a
replay frame.
FALSE as stated: at the end of the parser stream, with no replay frame and `produced_any_in_doc == false`,
`next_impl` delivers the *synthesized null* event (`live_events.rs`, "if !self.produced_any_in_doc") having
consumed nothing.  Kept as a `Prop`; see the counterexample and the corrected version (one more disjunct,
which can fire at most once because it sets `produced_any`, see `pump_produced_any_monotone`). -/
def pump_progress_Full : Prop :=
  ∀ (p : Pump) (inp : List RawItem),
    ∃ consumed, inp = consumed ++ (nextImpl p inp).2.2 ∧
      (consumed = [] → (nextImpl p inp).1 = .eof ∨ (∃ e, (nextImpl p inp).1 = .error e) ∨
        (∃ fr rest, p.inject = fr :: rest))

/-- The counterexample: a fresh pump (`produced_any = false`, no replay frame) on the empty parser stream
delivers an event — the synthesized null scalar — and nothing was there to consume. -/
theorem pump_progress_counterexample :
    let p : Pump := { limits := ⟨0, 0, 0⟩ }
    p.inject = [] ∧
    nextImpl p [] =
      (.event (.scalar [] 4 none .plain 0 0), { p with producedAny := true, synthesizedNull := true }, []) :=
  ⟨rfl, rfl⟩

theorem pump_progress_Full_false : ¬ pump_progress_Full := by
  intro h
  obtain ⟨c, h1, h2⟩ := h { limits := ⟨0, 0, 0⟩ } []
  have hc : c = [] := by
    cases c with
    | nil => rfl
    | cons a t => cases h1
  rw [pump_progress_counterexample.2] at h2
  rcases h2 hc with h | ⟨e, h⟩ | ⟨fr, rest, h⟩ <;> cases h

/-- (T) pump_progress, corrected (CHANGE: fourth disjunct added): a `next_impl` call never invents input —
what remains is a suffix of what it was given — and when it consumed nothing, then it reports end of stream
or an error, or a replay frame was open, or the parser stream is exhausted, nothing had been produced in
the document and the step is the one synthesized null event, after which `produced_any` is set (so the
next call at the end of the stream answers `eof`).  Hence `ReadIter::next`, `pumpAll`,
`skip_to_next_document` cannot spin on a finite stream. -/
theorem pump_progress_partial (p : Pump) (inp : List RawItem) :
    ∃ consumed, inp = consumed ++ (nextImpl p inp).2.2 ∧
      (consumed = [] → (nextImpl p inp).1 = .eof ∨ (∃ e, (nextImpl p inp).1 = .error e) ∨
        (∃ fr rest, p.inject = fr :: rest) ∨
        (inp = [] ∧ p.producedAny = false ∧
          (nextImpl p inp).1 = .event (.scalar [] 4 none .plain 0 p.lastLoc) ∧
          (nextImpl p inp).2.1.producedAny = true ∧ (nextImpl p inp).2.1.synthesizedNull = true)) := by
  obtain ⟨c, h1, h2⟩ := nextImpl_progress p inp
  refine ⟨c, h1, fun hc => ?_⟩
  rcases h2 hc with ⟨s, p', hs⟩ | ⟨rfl, p', hs, hn⟩
  · exact .inr (.inr (.inl (serveInject_some_inject p s p' hs)))
  · have hp := serveInject_none p p.inject p' hs
    subst hp
    rw [hn, parserLoop_nil]
    cases hpa : p.producedAny
    · exact .inr (.inr (.inr ⟨rfl, rfl, by simp, by simp, by simp⟩))
    · exact .inl (by simp)

/-- (T) the original statement holds whenever something was already produced in the document or the parser
stream is not exhausted -/
theorem pump_progress_of_produced (p : Pump) (inp : List RawItem) (hp : p.producedAny = true ∨ inp ≠ []) :
    ∃ consumed, inp = consumed ++ (nextImpl p inp).2.2 ∧
      (consumed = [] → (nextImpl p inp).1 = .eof ∨ (∃ e, (nextImpl p inp).1 = .error e) ∨
        (∃ fr rest, p.inject = fr :: rest)) := by
  obtain ⟨c, h1, h2⟩ := pump_progress_partial p inp
  refine ⟨c, h1, fun hc => ?_⟩
  rcases h2 hc with h | h | h | ⟨h3, h4, -⟩
  · exact .inl h
  · exact .inr (.inl h)
  · exact .inr (.inr h)
  · rcases hp with hp | hp
    · rw [hp] at h4; cases h4
    · exact absurd h3 hp

/-- (T) `produced_any_in_doc` is never cleared by `next_impl` and is set by every delivered event: the extra
disjunct of `pump_progress_partial` fires at most once between two `skip_to_next_document` calls. -/
theorem pump_produced_any_monotone (p : Pump) (inp : List RawItem) :
    (p.producedAny = true → (nextImpl p inp).2.1.producedAny = true) ∧
    (∀ e, (nextImpl p inp).1 = .event e → (nextImpl p inp).2.1.producedAny = true) :=
  nextImpl_producedAny p inp

/-- (T) skip_to_next_doc_total: the recovery path consumes a prefix of the input -/
theorem skip_progress (p : Pump) (inp : List RawItem) :
    ∃ consumed, inp = consumed ++ (skipToNextDocument p inp).2.2 := by
  obtain ⟨c, h, -⟩ := skipLoop_progress { p with look := none, inject := [], recStack := [] } inp
  exact ⟨c, h⟩

/-- (T) events_peek_next_coherent (re-export of the C02 theorem): after `peek` returned an event, `next`
returns that same event — the `self.ev.next()?.unwrap()` sites of `deserialize_enum` and the
`unreachable!()` arms after a successful `peek` cannot fire. -/
theorem peek_then_next (p : Pump) (inp : List RawItem) (e : Ev) (p1 : Pump) (in1 : List RawItem)
    (h : peek p inp = (.event e, p1, in1)) : ∃ p2, next p1 in1 = (.event e, p2, in1) ∧ p2.look = none :=
  C02.peek_next_coherent p inp e p1 in1 h

/-- (T) capture_scalar_singleton: a captured scalar key node holds exactly one scalar event (so
`KeyNode::fingerprint`'s `unreachable!()` cannot fire) -/
theorem capture_scalar_singleton (fuel : Nat) (c c' : De.Cur) (k : De.KeyNode) (v : List Char) (tag : Nat)
    (h : De.capture fuel c = .ok k c') (hfp : k.fp = .scalar v tag) :
    ∃ rt st a l, k.events = [.scalar v tag rt st a l] :=
  capture_scalar fuel c c' k v tag h hfp

/-- (T) radix_slice_safe: the legacy-octal branch of `radix_and_digits` slices `&rest[2..]` only when `rest`
starts with the two ASCII characters `00`, so byte index 2 is in range and on a character boundary -/
theorem radix_slice_safe (rest : List Char) (r : Nat) (ds : List Char)
    (h : radixAndDigits true rest = (r, ds)) (h8 : r = 8)
    (hx : ∀ t, rest ≠ '0' :: 'o' :: t ∧ rest ≠ '0' :: 'O' :: t) :
    ∃ t, rest = '0' :: '0' :: t := by
  rcases radix_eight rest r ds h h8 with ⟨t, ht⟩ | ⟨t, ht⟩ | h0
  · exact absurd ht (hx t).1
  · exact absurd ht (hx t).2
  · exact h0

/-- (T) depth_bounded_by_budget: if the enforcer accepted a stream, the nesting depth it reached is within
`max_depth`; with the default budget regenerated from the source this is ≤ 2000 — the figure the 8 MiB
stack probe of the sweep exercises (depths 1999/2000/2001). -/
theorem depth_bounded_by_budget (lim : Limits) (ds : List Node) (e : Enf)
    (hlen : (flattenStream ds).length < 2 ^ 64) (h : run lim false (flattenStream ds) = .ok e) :
    (usage ds).maxDepth ≤ lim.maxDepth := by
  have hw := (C07.accepts_iff lim ds hlen).mp ⟨e, h⟩
  simp only [within, Bool.and_eq_true, decide_eq_true_eq] at hw
  exact hw.1.1.1.1.2

theorem default_budget_depth_bound (ds : List Node) (e : Enf)
    (hlen : (flattenStream ds).length < 2 ^ 64)
    (h : run C07_Tables.defaultLimits false (flattenStream ds) = .ok e) : (usage ds).maxDepth ≤ 2000 :=
  Nat.le_trans (depth_bounded_by_budget _ ds e hlen h) C07_Tables.default_depth_le_2000

/-- (T) ratio_mul_no_overflow: the alias/anchor ratio product is computed saturating — it never exceeds
`usize::MAX` (debug builds used to panic here, finding C07-ratio-overflow) -/
theorem ratio_mul_no_overflow (a b : Nat) : satMul a b ≤ USIZE_MAX := by
  unfold satMul
  split <;> omega

end SaphyrVerif.Props.C01

#print axioms SaphyrVerif.Props.C01.pump_progress_counterexample
#print axioms SaphyrVerif.Props.C01.pump_progress_Full_false
#print axioms SaphyrVerif.Props.C01.pump_progress_partial
#print axioms SaphyrVerif.Props.C01.pump_progress_of_produced
#print axioms SaphyrVerif.Props.C01.pump_produced_any_monotone
#print axioms SaphyrVerif.Props.C01.skip_progress
#print axioms SaphyrVerif.Props.C01.peek_then_next
#print axioms SaphyrVerif.Props.C01.capture_scalar_singleton
#print axioms SaphyrVerif.Props.C01.radix_slice_safe
#print axioms SaphyrVerif.Props.C01.depth_bounded_by_budget
#print axioms SaphyrVerif.Props.C01.default_budget_depth_bound
#print axioms SaphyrVerif.Props.C01.ratio_mul_no_overflow
