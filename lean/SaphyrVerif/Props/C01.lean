import SaphyrVerif.Props.C02
import SaphyrVerif.Props.C07
import SaphyrVerif.Props.C07_Tables
import SaphyrVerif.Model.De
/-!
# C01 — deserialization is total: no panic, abort or hang (the part a model can carry)

Every modelled loop is a structurally recursive Lean function, so the Lean termination checker has
already proved that each call of the pump (`next_impl`: inject loop + parser loop), of the recovery
path and of the typed deserializer terminates for every finite parser stream.  This file adds the
explicit progress / coherence / bound statements the `unwrap`, `unreachable!` and indexing sites of the
Rust code rely on.  Stack bytes per frame, the external scanner and the renderers are run-time
observations of the sweep (`harness/src/total.rs`).
-/
namespace SaphyrVerif.Props.C01
open SaphyrVerif SaphyrVerif.Scalars SaphyrVerif.Pump SaphyrVerif.Budget SaphyrVerif.Spec

/-- (T) pump_progress: a `next_impl` call never invents input — what remains is a suffix of what it was
given — and when it delivers an event it either consumed at least one parser item or advanced a replay
frame. Hence `ReadIter::next`, `pumpAll`, `skip_to_next_document` cannot spin on a finite stream. -/
theorem pump_progress (p : Pump) (inp : List RawItem) :
    ∃ consumed, inp = consumed ++ (nextImpl p inp).2.2 ∧
      (consumed = [] → (nextImpl p inp).1 = .eof ∨ (∃ e, (nextImpl p inp).1 = .error e) ∨
        (∃ fr rest, p.inject = fr :: rest)) := by
  sorry

/-- (T) skip_to_next_doc_total: the recovery path consumes a prefix of the input -/
theorem skip_progress (p : Pump) (inp : List RawItem) :
    ∃ consumed, inp = consumed ++ (skipToNextDocument p inp).2.2 := by
  sorry

/-- (T) events_peek_next_coherent (re-export of the C02 theorem): after `peek` returned an event, `next`
returns that same event — the `self.ev.next()?.unwrap()` sites of `deserialize_enum` and the
`unreachable!()` arms after a successful `peek` cannot fire. -/
theorem peek_then_next (p : Pump) (inp : List RawItem) (e : Ev) (p1 : Pump) (in1 : List RawItem)
    (h : peek p inp = (.event e, p1, in1)) : ∃ p2, next p1 in1 = (.event e, p2, in1) ∧ p2.look = none :=
  C02.peek_next_coherent p inp e p1 in1 h

/-- (T) capture_scalar_singleton: a captured scalar key node holds exactly one scalar event (so
`KeyNode::fingerprint`'s `unreachable!()` cannot fire) -/
theorem capture_scalar_singleton (fuel : Nat) (c c' : De.Cur) (k : De.KeyNode) (v : List Char) (tag : Nat)
    (h : De.capture fuel c = .ok k c') (hfp : k.fp = .scalar v tag) :
    ∃ rt st a l, k.events = [.scalar v tag rt st a l] := by
  sorry

/-- (T) radix_slice_safe: the legacy-octal branch of `radix_and_digits` slices `&rest[2..]` only when `rest`
starts with the two ASCII characters `00`, so byte index 2 is in range and on a character boundary -/
theorem radix_slice_safe (rest : List Char) (r : Nat) (ds : List Char)
    (h : radixAndDigits true rest = (r, ds)) (h8 : r = 8)
    (hx : ∀ t, rest ≠ '0' :: 'o' :: t ∧ rest ≠ '0' :: 'O' :: t) :
    ∃ t, rest = '0' :: '0' :: t := by
  sorry

/-- (T) depth_bounded_by_budget: if the enforcer accepted a stream, the nesting depth it reached is within
`max_depth`; with the default budget regenerated from the source this is ≤ 2000 — the figure the 8 MiB
stack probe of the sweep exercises (depths 1999/2000/2001). -/
theorem depth_bounded_by_budget (lim : Limits) (ds : List Node) (e : Enf)
    (hlen : (flattenStream ds).length < 2 ^ 64) (h : run lim false (flattenStream ds) = .ok e) :
    (usage ds).maxDepth ≤ lim.maxDepth := by
  sorry

theorem default_budget_depth_bound (ds : List Node) (e : Enf)
    (hlen : (flattenStream ds).length < 2 ^ 64)
    (h : run C07_Tables.defaultLimits false (flattenStream ds) = .ok e) : (usage ds).maxDepth ≤ 2000 := by
  sorry

/-- (T) ratio_mul_no_overflow: the alias/anchor ratio product is computed saturating — it never exceeds
`usize::MAX` (debug builds used to panic here, finding C07-ratio-overflow) -/
theorem ratio_mul_no_overflow (a b : Nat) : satMul a b ≤ USIZE_MAX := by
  sorry

end SaphyrVerif.Props.C01
