import SaphyrVerif.Props.C13
import SaphyrVerif.Lemmas.EmitPVal
import SaphyrVerif.Lemmas.C20_FlowRead
import SaphyrVerif.Lemmas.C20_Lit
/-!
# C20 — presentation wrappers and serializer options change layout only, never data

Same model (`Model/Emitter.lean`) and reader (`Spec/EmitReader.lean`) as C13.  The full statement
`C20_Full` is still FALSE for the code: `FoldStr` turns single line breaks into blanks (text pinned by
the crate's own tests, `foldstr_alters_data`), `SpaceAfter` around a `|+` literal adds a line break to
the string (documented caveat, `space_after_block_string_counterexample`).  Proved parts:

* comments (FULL for the wrapper's own duty): what `Commented` stages contains no YAML line break
  (LF, CR, NEL, LS, PS), no NUL, no other control character but TAB, and has the length of the
  comment (`comment_single_line`); the former defects are regression theorems
  (`comment_cr_regression`, `comment_nul_regression`: fix 8388868); comments are suppressed in flow
  context and dropped by block sequences
* `SpaceAfter`: exactly one extra line break after the value, nothing else
* options: on the C13 fragment the emitted text does not depend on `min_fold_chars`,
  `folded_wrap_chars` (beyond the string-length bound), `prefer_block_scalars`, nor on the scalar-text
  functions, and for EVERY `indent_step ≥ 1`, both settings of `compact_list_indent`, of `yaml_12` (the
  prologue), of `quote_all` and of `tagged_enums` (the scalar tokens) it reads back as the value: the data
  never depends on these options (`options_layout_only_partial`)
* flow wrappers: `FlowSeq` / `FlowMap` around a sequence / mapping of the flow fragment (leaves, `Some`,
  newtype structs, nested sequences / tuples / tuple structs / mappings with distinct safe string keys,
  and — since fix 1fd2d48 — enum variants with data, written `{Variant: payload}`) write one line of
  flow text (after the `yaml_12` prologue, if any; `quote_all` / `tagged_enums` off: `PlainOpts`) that reads
  back as the same tree (`flow_wrapper_roundtrip_partial`), hence as the same tree
  as the unwrapped value where that is in the C13 fragment too (`flow_wrapper_same_tree_partial`)
* `tagged_enums` and variant names: the name of a unit variant is written by the VALUE rule in value
  positions (bare or after the tag `!!Enum `) and by the KEY rule in key positions; a safe name is
  written as itself by every rule and `!!Enum name`, `name`, `name:` read back as the string `name`
  (`unit_variant_name_roundtrip`); a name that is a YAML 1.1 boolean spelling is quoted in every one of
  these positions (`unit_variant_yaml11_bool_name_regression`: seed C20/3, fix b697ff3)
* explicit literal strings: `LitStr(s)` at the root round-trips exactly when `s` has no control
  character but LF / TAB, some content, and needs no indentation indicator
  (`explicit_literal_roundtrip_partial`); with CR / NUL / other controls, inside flow collections and for
  two or more line breaks only the repaired code falls back to a quoted scalar / writes every empty
  line (`litstr_cr_regression`, `litstr_nul_regression`, `block_string_in_flow_regression`,
  `litstr_only_newlines_regression`: fixes 5c1f2f6 54858b9 4b402ce)
-/
namespace SaphyrVerif.Emit
open SaphyrVerif

/-- the value without presentation wrappers (`LitStr` / `FoldStr` become plain strings) -/
def stripWrappers : SVal → SVal
  | .flowSeq v => stripWrappers v
  | .flowMap v => stripWrappers v
  | .commented v _ => stripWrappers v
  | .spaceAfter v => stripWrappers v
  | .litStr s => .str s
  | .foldStr s => .str s
  | .some v => .some (stripWrappers v)
  | .newtypeStruct v => .newtypeStruct (stripWrappers v)
  | .newtypeVariant n v => .newtypeVariant n (stripWrappers v)
  | v => v

/-- C20 at full strength (untyped form): whenever the wrapped value serializes under a valid
option vector, it reads back as the same data as the value itself under default options. -/
def C20_Full : Prop :=
  ∀ (o : Opts) (v : SVal) (t : List Char), o.indentStep ≥ 1 → emit o implFns v = .ok t →
    readDoc t = some (erase v)

section
variable {o : Opts} {f : ScalarFns}

/-! ## comments -/

/-- YAML line breaks (1.1 and 1.2), NUL and the other control characters except TAB -/
def isBreakOrControl (c : Char) : Bool :=
  c == '\n' || c == '\r' || c.toNat == 0x85 || c.toNat == 0x2028 || c.toNat == 0x2029 || c.toNat == 0 ||
  (isControl c && c != '\t')

/-- (T, full for the wrapper's duty) what `Commented` stages is one line: no character of it is a
line break of any YAML version, a NUL or another control character (TAB excepted), and only such
characters were replaced (the length is kept, every other character is unchanged). -/
theorem comment_single_line (c : List Char) :
    (∀ x ∈ sanitizeComment c, isBreakOrControl x = false) ∧ (sanitizeComment c).length = c.length ∧
    (∀ i (h : i < c.length), isBreakOrControl c[i] = false →
      (sanitizeComment c)[i]'(by simpa [sanitizeComment] using h) = c[i]) := by
  refine ⟨?_, by simp [sanitizeComment], ?_⟩
  · intro x hx
    simp only [sanitizeComment, List.mem_map] at hx
    obtain ⟨y, _, rfl⟩ := hx
    by_cases hy : ((isControl y && y != '\t') || y.toNat == 0x2028 || y.toNat == 0x2029) = true
    · rw [if_pos hy]; decide
    · rw [if_neg hy]
      simp only [Bool.or_eq_true, not_or, Bool.not_eq_true] at hy
      obtain ⟨⟨h1, h2⟩, h3⟩ := hy
      have hn : ∀ k : Nat, k ≤ 0x1F ∨ (0x7F ≤ k ∧ k ≤ 0x9F) → y.toNat = k → y ≠ '\t' → False := by
        intro k hk he hne
        have : isControl y = true := by simp [isControl, he]; omega
        simp [this, hne] at h1
      have hnl : y ≠ '\n' := fun e => hn 10 (by omega) (by rw [e]; rfl) (by rw [e]; decide)
      have hcr : y ≠ '\r' := fun e => hn 13 (by omega) (by rw [e]; rfl) (by rw [e]; decide)
      have h85 : y.toNat ≠ 0x85 := fun e => hn 0x85 (by omega) e (by rintro rfl; simp at e)
      have h0 : y.toNat ≠ 0 := fun e => hn 0 (by omega) e (by rintro rfl; simp at e)
      simp [isBreakOrControl, hnl, hcr, h85, h0, h1, h2, h3]
  · intro i h hb
    simp only [sanitizeComment, List.getElem_map]
    have : ((isControl c[i] && c[i] != '\t') || c[i].toNat == 0x2028 || c[i].toNat == 0x2029) = false := by
      simp only [isBreakOrControl, Bool.or_eq_false_iff] at hb
      obtain ⟨⟨⟨⟨⟨⟨_, _⟩, _⟩, h28⟩, h29⟩, _⟩, hc⟩ := hb
      simp only [beq_eq_false_iff_ne, ne_eq] at h28 h29
      simp [h28, h29, hc]
    simp [this]

/-- (T) in particular no line feed (the part proved before the repair) -/
theorem comment_single_line_partial (c : List Char) : '\n' ∉ sanitizeComment c := by
  intro h
  have := (comment_single_line c).1 _ h
  exact absurd this (by decide)

/-- … and is exactly what the wrapper stages in block context: the comment text with line feeds
replaced (nothing else), cleared again after the value. -/
theorem commented_stages_sanitized (v : SVal) (c : List Char) (s : St) (hs : s.inFlow = 0) (hc : c ≠ []) :
    ser o f (.commented v c) s =
      (match ser o f v { s with pendingInlineComment := some (sanitizeComment c) } with
       | .error e => .error e
       | .ok s' => .ok { s' with pendingInlineComment := none }) := by
  have hce : c.isEmpty = false := by cases c <;> simp_all
  rw [ser]
  simp only [hs, hce, beq_self_eq_true, if_true, Bool.not_false]
  rfl

/-- (T) a staged comment goes after the scalar token on the same line: ` # ` + text + line feed,
and is consumed. -/
theorem comment_follows_scalar (tok c : List Char) (s : St) (hs : s.inFlow = 0)
    (hc : s.pendingInlineComment = some c) (hals : s.atLineStart = false) :
    (serToken o tok s).out = (writeSpaceIfPending s).out ++ tok ++ " # ".toList ++ c ++ ['\n'] ∧
    (serToken o tok s).pendingInlineComment = none := by
  constructor
  · by_cases hp : s.pendingSpaceAfterColon = true <;>
      simp [serToken, writeSpaceIfPending, indentIfLineStart, writeEndOfScalar, newline, St.write, hs, hc, hals, hp]
  · by_cases hp : s.pendingSpaceAfterColon = true <;>
      simp [serToken, writeSpaceIfPending, indentIfLineStart, writeEndOfScalar, newline, St.write, hs, hc, hals, hp]

/-- (regression, fix 8388868) a CR in a comment is replaced like LF: `S { xn: Commented(1,
"c\rinjected: 2") }` reads back as itself (the CR used to start a new line: a second key `injected`). -/
theorem comment_cr_regression :
    emit {} implFns (SVal.struct [("xn".toList, .commented (.int 1) "c\rinjected: 2".toList)]) =
      .ok "xn: 1 # c injected: 2\n".toList ∧
    readDoc "xn: 1 # c injected: 2\n".toList =
      some (erase (SVal.struct [("xn".toList, .commented (.int 1) "c\rinjected: 2".toList)])) :=
  ⟨rfl, by decide +kernel⟩

/-- (regression, fix 8388868) a NUL character in a comment is replaced by a blank (it used to end the
input for the scanner: `(Commented(true, "\0"), 45)` read back as `[true]`). -/
theorem comment_nul_regression :
    emit {} implFns (.tuple [.commented (.bool true) [Char.ofNat 0], .int 45]) = .ok "- true #  \n- 45\n".toList ∧
    readDoc "- true #  \n- 45\n".toList = some (erase (.tuple [.commented (.bool true) [Char.ofNat 0], .int 45])) :=
  ⟨rfl, by decide +kernel⟩

/-- (T) comments are suppressed in flow context: the wrapper is transparent there. -/
theorem comment_suppressed_in_flow (v : SVal) (c : List Char) (s : St) (hs : s.inFlow > 0) :
    ser o f (.commented v c) s = ser o f v s := by
  have : (s.inFlow == 0) = false := by simp; omega
  rw [ser]; simp [this]

/-- (T) a block sequence drops a staged comment (it is never written inside the sequence). -/
theorem comment_dropped_for_block_seq (s : St) (hs : s.inFlow = 0) (hf : s.pendingFlow ≠ some .anySeq) :
    (serializeSeq o s).1.flow = false ∧ (serializeSeq o s).2.pendingInlineComment = none := by
  have h1 : (s.pendingFlow == some PendingFlow.anySeq) = false := by simpa using hf
  constructor <;>
    (cases ha : s.atLineStart <;> cases hd : s.afterDashDepth <;> cases hp : s.pendingSpaceAfterColon <;>
      cases hl : s.lastValueWasBlock <;>
      simp [serializeSeq, takeFlow, hs, h1, ha, hd, hp, hl, shiftForInlineNode])

/-! ## SpaceAfter -/

/-- (T) `SpaceAfter` in block context = the value, then exactly one more line break
(`at_line_start` set); in flow context = the value. -/
theorem space_after_blank_line_only (v : SVal) (s s' : St) (h : ser o f v s = .ok s') :
    ser o f (.spaceAfter v) s = .ok (if s'.inFlow == 0 then newline s' else s') ∧
    (newline s').out = s'.out ++ ['\n'] := by
  constructor
  · rw [ser, h]
  · rfl

/-! ## flow wrappers -/

/-- (T) `FlowSeq(seq)` / `FlowMap(map)` at the root, contents in the flow fragment: serialization
succeeds, the output is the one-line flow text, and it reads back as exactly the value. -/
theorem flow_wrapper_roundtrip_partial (ho : PlainOpts o) (hf : SafeContract f) :
    (∀ xs, inFlowFragList xs = true →
      emit o f (.flowSeq (.seq xs)) = .ok (prologue o ++ flowTxt (.seq xs) ++ ['\n']) ∧
      readDoc (prologue o ++ flowTxt (.seq xs) ++ ['\n']) = some (erase (.flowSeq (.seq xs)))) ∧
    (∀ known es, inFlowFragEntries es = true → (keysOf es).Nodup →
      emit o f (.flowMap (.map known es)) = .ok (prologue o ++ flowTxt (.map known es) ++ ['\n']) ∧
      readDoc (prologue o ++ flowTxt (.map known es) ++ ['\n']) = some (erase (.flowMap (.map known es)))) := by
  refine ⟨fun xs hv => ⟨emit_flowSeq ho hf xs hv, ?_⟩, fun known es hv hn => ⟨emit_flowMap ho hf known es hv, ?_⟩⟩
  · have := read_flow_doc_pro o (.seq xs) (by simpa [inFlowFrag] using hv) ⟨_, Or.inl rfl⟩
    simpa [erase] using this
  · have := read_flow_doc_pro o (.map known es) (by simp [inFlowFrag, hv, hn]) ⟨_, Or.inr rfl⟩
    simpa [erase] using this

/-- (T) the flow wrapper does not change the tree: for a sequence in both fragments, the wrapped and
the bare value serialize to texts that read back as the same tree. -/
theorem flow_wrapper_same_tree_partial (ho : PlainOpts o) (hf : SafeContract f) (xs : List SVal)
    (h1 : inFlowFragList xs = true) (h2 : inFrag o (.seq xs) = true) :
    ∃ t1 t2, emit o f (.flowSeq (.seq xs)) = .ok t1 ∧ emit o f (.seq xs) = .ok t2 ∧ readDoc t1 = readDoc t2 := by
  obtain ⟨t2, he2, hr2⟩ := emit_roundtrip_partial ho.toFragOpts hf (.seq xs) h2
  have h := (flow_wrapper_roundtrip_partial ho hf).1 xs h1
  exact ⟨_, t2, h.1, he2, by rw [h.2, hr2]; simp [erase]⟩

/-! ## explicit literal strings -/

/-- (T) `LitStr(s)` at the root round-trips exactly — the chomping indicator is chosen from the
number of trailing line feeds (`|-`, `|`, `|+`), every content line is indented by two blanks, one
empty line is added per trailing line feed beyond the first — provided `s` contains no control
character but LF / TAB, has some content before its trailing line feeds, and its first non-empty line
does not start with a blank (no indentation indicator).  Outside: controls (quoted fallback:
`litstr_cr_regression`), an indicator below a nested parent (quoted fallback, fix a252cf9), line breaks
only (`litstr_only_newlines_regression`; a single one is still altered: oracle class
`block-scalar-only-newlines`, text pinned by the crate's tests). -/
theorem explicit_literal_roundtrip_partial (hy : o.yaml12 = false) (hi : o.indentStep = 2) (s : List Char) (hs : LitOk s) :
    emit o f (.litStr s) = .ok (litText s) ∧ readDoc (litText s) = some (erase (.litStr s)) :=
  ⟨emit_litStr hy hi s hs, by simpa [erase] using read_litText s hs⟩

/-! ## options -/

/-- (T) on the C13 fragment neither `min_fold_chars`, `folded_wrap_chars` (above the length of the
strings), `prefer_block_scalars` nor the choice of scalar-text functions changes a single byte of the
output; `indent_step` (any value ≥ 1) and `compact_list_indent` change the indentation only, `yaml_12`
adds the prologue only, `quote_all` and `tagged_enums` change the scalar tokens only: under two option
vectors of the fragment, whatever their steps, list styles, `yaml_12`, `quote_all` and `tagged_enums`, both
texts read back as the value. -/
theorem options_layout_only_partial {o1 o2 : Opts} {f1 f2 : ScalarFns} (h1 : FragOpts o1) (h2 : FragOpts o2)
    (hf1 : SafeContract f1) (hf2 : SafeContract f2) (v : SVal)
    (hv1 : inFrag o1 v = true) (hv2 : inFrag o2 v = true) :
    (o1.indentStep = o2.indentStep → o1.compactListIndent = o2.compactListIndent → o1.yaml12 = o2.yaml12 →
      o1.quoteAll = o2.quoteAll → o1.taggedEnums = o2.taggedEnums → emit o1 f1 v = emit o2 f2 v) ∧
    (∃ t1 t2, emit o1 f1 v = .ok t1 ∧ emit o2 f2 v = .ok t2 ∧ readDoc t1 = some (erase v) ∧ readDoc t2 = some (erase v)) := by
  obtain ⟨t1, he1, hr1⟩ := emit_roundtrip_partial h1 hf1 v hv1
  obtain ⟨t2, he2, hr2⟩ := emit_roundtrip_partial h2 hf2 v hv2
  refine ⟨fun hk hcp hy hq ht => ?_, t1, t2, he1, he2, hr1, hr2⟩
  rw [emit_layout_partial h1 hf1 v hv1, emit_layout_partial h2 hf2 v hv2, hk, hcp, prologue, prologue, hy,
    safeToks, safeToks, hq, ht]

end

/-! ## explicit block strings and flow wrappers: regression theorems -/

/-- (regression, fix 5c1f2f6) `LitStr("a\rb")` is written as a quoted scalar (the CR used to be written
raw into the literal block, where it is a line break: the document was rejected). -/
theorem litstr_cr_regression :
    emit {} implFns (.litStr "a\rb".toList) = .ok "\"a\\rb\"\n".toList ∧
    readDoc "\"a\\rb\"\n".toList = some (erase (.litStr "a\rb".toList)) := ⟨rfl, by decide +kernel⟩

/-- (regression, fix 5c1f2f6) same for NUL (it used to cut the document). -/
theorem litstr_nul_regression :
    emit {} implFns (.litStr ['a', Char.ofNat 0, 'b']) = .ok "\"a\\0b\"\n".toList ∧
    readDoc "\"a\\0b\"\n".toList = some (erase (.litStr ['a', Char.ofNat 0, 'b'])) := ⟨rfl, by decide +kernel⟩

/-- (regression, fix 4b402ce) `LitStr("\n\n")`: one empty line per line break under `|+` (a single
empty line used to be written: the string read back as `"\n"`). -/
theorem litstr_only_newlines_regression :
    emit {} implFns (.litStr "\n\n".toList) = .ok "|+\n  \n  \n".toList ∧
    readDoc "|+\n  \n  \n".toList = some (erase (.litStr "\n\n".toList)) := ⟨rfl, by decide +kernel⟩

/-- (regression, fix 54858b9) `FlowSeq(vec![LitStr("l")])`: an ordinary flow scalar (the block scalar
header and body used to be written inside the brackets). -/
theorem block_string_in_flow_regression :
    emit {} implFns (.flowSeq (.seq [.litStr "l".toList])) = .ok "[l]\n".toList ∧
    readDoc "[l]\n".toList = some (erase (.flowSeq (.seq [.litStr "l".toList]))) := ⟨rfl, by decide +kernel⟩

/-- (regression, fix 1fd2d48) enum variants with data inside flow collections get braces of their own
(`{k: Nv: 1}` used to be written: not YAML). -/
theorem variant_in_flow_regression :
    emit {} implFns (.flowMap (SVal.struct [("k".toList, .newtypeVariant "Nv".toList (.int 1))])) = .ok "{k: {Nv: 1}}\n".toList ∧
    readDoc "{k: {Nv: 1}}\n".toList =
      some (erase (.flowMap (SVal.struct [("k".toList, .newtypeVariant "Nv".toList (.int 1))]))) ∧
    emit {} implFns (.flowSeq (.seq [.tupleVariant "Tv".toList [.int 1, .int 2],
      SVal.structVariantOf "Sv".toList [("a".toList, .tupleStruct [])]])) = .ok "[{Tv: [1, 2]}, {Sv: {a: []}}]\n".toList :=
  ⟨rfl, by decide +kernel, rfl⟩

/-- (regression, fix a561293) a long unit variant name in mapping-value position, folded
automatically, has its body indented under its key (it used to be indented from depth 0). -/
theorem unit_variant_auto_folded_regression :
    emit { foldedWrapCol := 10 } implFns
      (.seq [SVal.struct [("k".toList, .unitVariant "E".toList "lorem ipsum dolor".toList)]]) =
      .ok "- k: >-\n    lorem\n    ipsum dolor\n".toList ∧
    readDoc "- k: >-\n    lorem\n    ipsum dolor\n".toList =
      some (erase (.seq [SVal.struct [("k".toList, .unitVariant "E".toList "lorem ipsum dolor".toList)]])) :=
  ⟨rfl, by decide +kernel⟩

/-- (regression, fixes f421f34 beca5d5) a literal block string as a field of a tuple struct / tuple
variant is indented under its dash (the body used to be indented from depth 0). -/
theorem block_scalar_after_tuple_dash_regression :
    emit {} implFns (SVal.struct [("k".toList, .tupleStruct [.litStr "a\nb".toList, .int 1])]) =
      .ok "k:\n  - |-\n    a\n    b\n  - 1\n".toList ∧
    readDoc "k:\n  - |-\n    a\n    b\n  - 1\n".toList =
      some (erase (SVal.struct [("k".toList, .tupleStruct [.litStr "a\nb".toList, .int 1])])) :=
  ⟨rfl, by decide +kernel⟩

/-! ## names of unit variants: value rule, key rule, `tagged_enums` -/

/-- the tag token `!!Enum ` (an enum name has no blank) is skipped by the reader -/
theorem dropWhile_tag : ∀ (e : List Char) (n : List Char), (∀ c ∈ e, c ≠ ' ') →
    (e ++ ' ' :: n).dropWhile (· != ' ') = ' ' :: n
  | [], n, _ => by simp
  | c :: e, n, h => by
    have hc : (c != ' ') = true := by simpa using h c (by simp)
    simp only [List.cons_append, List.dropWhile_cons, hc, if_true]
    exact dropWhile_tag e n (fun x hx => h x (by simp [hx]))

theorem skipTag_tagged {e n : List Char} (he : ∀ c ∈ e, c ≠ ' ') (hn : PlainTok n) :
    skipTag ('!' :: '!' :: e ++ ' ' :: n) = n := by
  obtain ⟨c, cs, rfl, hc⟩ := hn.head
  have h1 : ('!' :: '!' :: e ++ ' ' :: c :: cs).dropWhile (· != ' ') = ' ' :: c :: cs := by
    have := dropWhile_tag ('!' :: '!' :: e) (c :: cs) (fun x hx => by
      simp only [List.mem_cons] at hx
      rcases hx with rfl | rfl | hx
      · decide
      · decide
      · exact he x hx)
    simpa using this
  have hcs : c ≠ ' ' := isTokChar_ne hc ' ' (by decide)
  unfold skipTag
  simp only [h1]
  simp [dropSpaces, hcs]


/-- a line `!!Enum tok` reads as the plain token `tok` (the tag is ignored by an untyped target) -/
theorem blockNode_tagged (fuel m : Nat) (seqAt : Option Nat) (inl : Bool) (i : Nat) {e t : List Char}
    (rest : List Line) (he : ∀ c ∈ e, c ≠ ' ') (ht : PlainTok t) (hi : m ≤ i) (hd : DedLt m rest) :
    blockNode (fuel + 1) m seqAt inl (⟨i, '!' :: '!' :: e ++ ' ' :: t⟩ :: rest) = some (resolvePlain t, rest) := by
  obtain ⟨c, cs, e', hc⟩ := ht.head
  have hns : (⟨i, '!' :: '!' :: e ++ ' ' :: t⟩ : Line).isSkippable = false := notSkippable_of_head (by decide)
  have hcl : classify ('!' :: '!' :: e ++ ' ' :: t) = .other := by simp [classify]
  have hlt : ¬ (i < m) := by omega
  have hsk := skipTag_tagged he ht
  have hne : ∀ x : Char, isTokChar x = false → (c == x) = false := fun x hx => by
    simp only [beq_eq_false_iff_ne]; exact isTokChar_ne hc x hx
  rw [blockNode, skipBlank_cons rest hns]
  simp only [hcl, hlt, decide_false, Bool.false_and, Bool.false_eq_true, if_false, hsk]
  rw [e']
  simp only [hne '[' (by decide), hne '{' (by decide), hne '|' (by decide), hne '>' (by decide), hne '&' (by decide),
    hne '*' (by decide), hne '%' (by decide), hne '@' (by decide), hne '`' (by decide), hne '"' (by decide),
    hne '\'' (by decide), hne '#' (by decide), Bool.or_self, Bool.false_eq_true, if_false]
  rw [← e', implicitKey_plainTok ht, plainFirstLine_plainTok ht]
  simp only [Bool.false_eq_true, if_false, plainContinuation_ded hd]


section
variable {o : Opts} {f : ScalarFns}

/-- (T) the NAME of a unit variant is data (an untyped target reads the string of the name): it is written
by the VALUE rule in value positions — bare, or after the tag `!!Enum ` of `tagged_enums` — and by the
KEY rule in key positions (`KeyScalarSink` for a unit variant used as a mapping key,
`write_plain_or_quoted` for the key of `Variant: payload`); for a safe name every rule writes the name
itself, whatever `yaml_12` / `tagged_enums` / block or flow context, and the reader takes `!!Enum name`,
`name` and `name:` for the string `name`.  Without `tagged_enums` a unit variant is written exactly like
the string of its name (any name). -/
theorem unit_variant_name_roundtrip (hq : o.quoteAll = false) (hf : SafeContract f) {n : List Char}
    (hn : isSafeStr n = true) :
    (∀ fl, plainOrQuotedValue o f fl n = n) ∧
    (∀ e s, o.taggedEnums = true → ser o f (.unitVariant e n) s =
      .ok (writeEndOfScalar ((indentIfLineStart o (writeSpaceIfPending s)).write ("!!".toList ++ e ++ ' ' :: n)))) ∧
    (∀ e m s, o.taggedEnums = false → ser o f (.unitVariant e m) s = ser o f (.str m) s) ∧
    (∀ e, keyText o f (.unitVariant e n) = some n) ∧ plainOrQuoted o f n = n ∧
    (∀ e fuel m sa inl i rest, (∀ c ∈ e, c ≠ ' ') → m ≤ i → DedLt m rest →
      blockNode (fuel + 1) m sa inl (⟨i, '!' :: '!' :: e ++ ' ' :: n⟩ :: rest) = some (.str n, rest)) ∧
    (∀ fuel m sa inl i rest, m ≤ i → DedLt m rest →
      blockNode (fuel + 1) m sa inl (⟨i, n⟩ :: rest) = some (.str n, rest)) ∧
    (∀ after, colonEndsKey after = true → implicitKey (n ++ ':' :: after) = some (.str n, after)) := by
  have hval : ∀ fl, plainOrQuotedValue o f fl n = n := fun fl => by
    simp [plainOrQuotedValue, hq, hf.value n o.yaml12 fl hn, hf.shape n hn]
  have hkey : plainOrQuoted o f n = n := by
    simp [plainOrQuoted, hq, hf.plain n hn, hf.value n o.yaml12 true hn, hf.shape n hn]
  refine ⟨hval, ?_, ?_, ?_, hkey, ?_, ?_, fun after ha => implicitKey_key hn after ha⟩
  · intro e s ht
    simp [ser, ht, serTaggedScalar, hval]
  · intro e m s ht
    simp [ser, ht]
  · intro e
    simp [keyText, keyStrText, hf.plain n hn, hf.value n o.yaml12 true hn, hf.shape n hn]
  · intro e fuel m sa inl i rest he hi hd
    rw [blockNode_tagged fuel m sa inl i rest he (safe_plainTok hn) hi hd, resolvePlain_safe hn]
  · intro fuel m sa inl i rest hi hd
    rw [blockNode_plain fuel m sa inl i rest (safe_plainTok hn) hi hd, resolvePlain_safe hn]

end

/-- (regression, seed C20/3 and fix b697ff3) a variant named like a YAML 1.1 boolean: after the tag of
`tagged_enums` the VALUE rule quotes it (the key rule of the time did not know these spellings: `!!Axis Y`
reads as `true`), in key position the KEY rule quotes it, both for a unit variant used as a mapping key
and — since fix b697ff3 — for the key of `Variant: payload` (`Y: 1` used to be written and read back with
the key `true`); all of them read back as the string "Y". -/
theorem unit_variant_yaml11_bool_name_regression :
    emit { taggedEnums := true } implFns (.seq [.unitVariant "Axis".toList "x".toList, .unitVariant "Axis".toList "Y".toList]) =
      .ok "- !!Axis x\n- !!Axis \"Y\"\n".toList ∧
    readDoc "- !!Axis x\n- !!Axis \"Y\"\n".toList = some (.seq [.str "x".toList, .str "Y".toList]) ∧
    readDoc "- !!Axis x\n- !!Axis Y\n".toList = some (.seq [.str "x".toList, .bool true]) ∧
    emit { taggedEnums := true } implFns (.flowSeq (.seq [.unitVariant "Axis".toList "Off".toList])) = .ok "[!!Axis \"Off\"]\n".toList ∧
    readDoc "[!!Axis \"Off\"]\n".toList = some (.seq [.str "Off".toList]) ∧
    emit {} implFns (.map true [(.unitVariant "Axis".toList "Y".toList, .int 1)]) = .ok "\"Y\": 1\n".toList ∧
    emit {} implFns (.newtypeVariant "Y".toList (.int 1)) = .ok "\"Y\": 1\n".toList ∧
    readDoc "\"Y\": 1\n".toList = some (.map [(.str "Y".toList, .int 1)]) ∧
    readDoc "Y: 1\n".toList = some (.map [(.bool true, .int 1)]) :=
  ⟨rfl, by decide +kernel, by decide +kernel, rfl, by decide +kernel, rfl, rfl, by decide +kernel, by decide +kernel⟩


/-! ## counterexamples (F): the defect classes still present -/

/-- (F) `FoldStr("a\nb")`: every source line becomes one folded line, so the single line break
reads back as a blank — different data even modulo trailing line breaks (the text is pinned by the
crate's tests/test_block_str.rs and the unit test of wrapping.rs). -/
theorem foldstr_alters_data :
    emit {} implFns (.foldStr "a\nb".toList) = .ok ">\n  a\n  b\n".toList ∧
    readDoc ">\n  a\n  b\n".toList = some (.str "a b\n".toList) ∧
    trimEndNl "a b\n".toList ≠ trimEndNl "a\nb".toList := ⟨rfl, by decide +kernel, by decide⟩

/-- (F) `SpaceAfter` around a literal string that ends in two line breaks (keep chomping): the
blank line becomes part of the string (documented caveat of the wrapper). -/
theorem space_after_block_string_counterexample :
    emit {} implFns (.spaceAfter (.litStr "l\n\n".toList)) = .ok "|+\n  l\n  \n\n".toList ∧
    readDoc "|+\n  l\n  \n\n".toList = some (.str "l\n\n\n".toList) := ⟨rfl, by decide +kernel⟩

/-- the indentation indicator (repaired by fix a252cf9; found as oracle class
`block-scalar-indent-indicator`: the indicator was the absolute body column although YAML counts it
from the parent node, `[{a: LitStr(" ")}]` was written `- a: |4-` and read back as the empty string):
below a nested parent a block string that needs an indicator is now quoted. -/
example : emit {} implFns (.seq [SVal.struct [("a".toList, .litStr " ".toList)]]) = .ok "- a: \" \"\n".toList := rfl

/-- (F) the full statement does not hold for the code as it is. -/
theorem C20_Full_false : ¬ C20_Full := by
  intro h
  have h1 := h {} _ _ (by decide) foldstr_alters_data.1
  rw [foldstr_alters_data.2.1] at h1
  exact absurd h1 (by decide)

/-! ## examples: the wrappers on the happy path (model output + reader) -/

/-- the documented example: flow sequence, literal string, comment, blank line -/
example :
    emit {} implFns (SVal.struct [("ports".toList, .flowSeq (.seq [.int 8080, .int 8081])),
      ("note".toList, .litStr "line 1\nline 2".toList), ("num".toList, .commented (.spaceAfter (.int 5)) "five".toList),
      ("z".toList, .int 1)]) =
      .ok "ports: [8080, 8081]\nnote: |-\n  line 1\n  line 2\nnum: 5 # five\n\nz: 1\n".toList := rfl
example :
    readDoc "ports: [8080, 8081]\nnote: |-\n  line 1\n  line 2\nnum: 5 # five\n\nz: 1\n".toList =
      some (.map [(.str "ports".toList, .seq [.int 8080, .int 8081]), (.str "note".toList, .str "line 1\nline 2".toList),
                  (.str "num".toList, .int 5), (.str "z".toList, .int 1)]) := by decide +kernel
/-- the literal-string hypotheses are satisfiable: content with `#`, `:`, quotes, inner blank lines, trailing line feeds -/
example : LitOk "line 1\n\n  - indented # not a comment\nkey: 'v'\n\n".toList :=
  ⟨by decide, by decide, by decide⟩
/-- the flow fragment is inhabited -/
example : inFlowFragList [.int 1, .seq [.str "a".toList, .none], SVal.struct [("k".toList, .bool true), ("m".toList, .seq [])],
    .newtypeVariant "nv".toList (.tupleVariant "tv".toList [.int 1, .tupleStruct []]), .structVariant "sv".toList []] = true := by decide
example : emit {} implFns (.flowSeq (.seq [.int 1, .seq [.str "a".toList, .none], SVal.struct [("k".toList, .bool true), ("m".toList, .seq [])]])) =
    .ok "[1, [a, null], {k: true, m: []}]\n".toList := rfl
/-- comments are suppressed inside flow collections -/
example : emit {} implFns (.flowSeq (.seq [.commented (.int 1) "note".toList, .int 2])) = .ok "[1, 2]\n".toList := rfl
/-- a comment staged before a block mapping is attached to its first scalar (data unchanged) -/
example : emit {} implFns (.commented (SVal.struct [("a".toList, .int 1), ("b".toList, .int 2)]) "c".toList) =
    .ok "a: 1 # c\nb: 2\n".toList := rfl
/-- the line feed of a comment is sanitised -/
example : emit {} implFns (SVal.struct [("xn".toList, .commented (.int 1) "c\ninjected: 2".toList)]) =
    .ok "xn: 1 # c injected: 2\n".toList := rfl

end SaphyrVerif.Emit
