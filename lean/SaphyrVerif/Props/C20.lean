import SaphyrVerif.Props.C13
import SaphyrVerif.Lemmas.EmitPVal
import SaphyrVerif.Lemmas.C20_FlowRead
import SaphyrVerif.Lemmas.C20_Lit
/-!
# C20 — presentation wrappers and serializer options change layout only, never data

Same model (`Model/Emitter.lean`) and reader (`Spec/EmitReader.lean`) as C13.  The full statement
`C20_Full` is FALSE for the code as it is; the (F) theorems give the witnesses (each is also a stable
oracle class of the implementation-only round-trip check).  Proved parts:

* comments: what is staged contains no line feed (`comment_single_line_partial`) — the property
  really needed (no YAML line break at all) fails for CR: `comment_cr_injects_key`; a NUL in a
  comment truncates the document: `comment_nul_truncates_document`; comments are suppressed in flow
  context and dropped by block sequences
* `SpaceAfter`: exactly one extra line break after the value, nothing else
* options: on the C13 fragment the emitted text does not depend on `min_fold_chars`,
  `folded_wrap_chars` (beyond the string-length bound), `prefer_block_scalars`, nor on the scalar-text
  functions; hence the reader result does not depend on them (`options_layout_only_partial`)
* flow wrappers: `FlowSeq` / `FlowMap` around a sequence / mapping of the flow fragment (leaves, `Some`,
  newtype structs, nested sequences / tuples / mappings with distinct safe string keys) write one line of
  flow text that reads back as the same tree (`flow_wrapper_roundtrip_partial`), hence as the same tree
  as the unwrapped value where that is in the C13 fragment too (`flow_wrapper_same_tree_partial`)
* explicit literal strings: `LitStr(s)` at the root round-trips exactly when `s` has no CR / NUL, some
  content, and needs no indentation indicator (`explicit_literal_roundtrip_partial`)
* explicit block strings: `LitStr` with CR breaks the document (`litstr_cr_breaks_document`),
  `FoldStr` turns single line breaks into blanks (`foldstr_alters_data`), block strings inside flow
  wrappers are written inside the brackets (`block_string_in_flow_counterexample`)
-/
namespace SaphyrVerif.Emit
open SaphyrVerif

/-- the value without presentation wrappers (`LitStr` / `FoldStr` become plain strings) -/
def stripWrappers : SVal → SVal
  | .flowSeq v => stripWrappers v
  | .flowMap v => stripWrappers v
  | .commented v _ => stripWrappers v
  | .spaceAfter v => stripWrappers v
  | .litStr s => .str s
  | .foldStr s => .str s
  | .some v => .some (stripWrappers v)
  | .newtypeStruct v => .newtypeStruct (stripWrappers v)
  | .newtypeVariant n v => .newtypeVariant n (stripWrappers v)
  | v => v

/-- C20 at full strength (untyped form): whenever the wrapped value serializes under a valid
option vector, it reads back as the same data as the value itself under default options. -/
def C20_Full : Prop :=
  ∀ (o : Opts) (v : SVal) (t : List Char), o.indentStep ≥ 1 → emit o implFns v = .ok t →
    readDoc t = some (erase v)

section
variable {o : Opts} {f : ScalarFns}

/-! ## comments -/

/-- (T) what `Commented` stages contains no line feed … -/
theorem comment_single_line_partial (c : List Char) : '\n' ∉ sanitizeComment c := by
  intro h
  simp only [sanitizeComment, List.mem_map] at h
  obtain ⟨x, _, hx⟩ := h
  split at hx
  · exact absurd hx (by decide)
  · rename_i hne; exact hne (by simp [hx])

/-- … and is exactly what the wrapper stages in block context: the comment text with line feeds
replaced (nothing else), cleared again after the value. -/
theorem commented_stages_sanitized (v : SVal) (c : List Char) (s : St) (hs : s.inFlow = 0) (hc : c ≠ []) :
    ser o f (.commented v c) s =
      (match ser o f v { s with pendingInlineComment := some (sanitizeComment c) } with
       | .error e => .error e
       | .ok s' => .ok { s' with pendingInlineComment := none }) := by
  have hce : c.isEmpty = false := by cases c <;> simp_all
  rw [ser]
  simp only [hs, hce, beq_self_eq_true, if_true, Bool.not_false]
  rfl

/-- (T) a staged comment goes after the scalar token on the same line: ` # ` + text + line feed,
and is consumed. -/
theorem comment_follows_scalar (tok c : List Char) (s : St) (hs : s.inFlow = 0)
    (hc : s.pendingInlineComment = some c) (hals : s.atLineStart = false) :
    (serToken o tok s).out = (writeSpaceIfPending s).out ++ tok ++ " # ".toList ++ c ++ ['\n'] ∧
    (serToken o tok s).pendingInlineComment = none := by
  constructor
  · by_cases hp : s.pendingSpaceAfterColon = true <;>
      simp [serToken, writeSpaceIfPending, indentIfLineStart, writeEndOfScalar, newline, St.write, hs, hc, hals, hp]
  · by_cases hp : s.pendingSpaceAfterColon = true <;>
      simp [serToken, writeSpaceIfPending, indentIfLineStart, writeEndOfScalar, newline, St.write, hs, hc, hals, hp]

/-- (F) the property actually needed — the staged comment contains no YAML line break — is false:
a CR survives sanitising … -/
theorem comment_cr_survives : '\r' ∈ sanitizeComment "c\rinjected: 2".toList := by decide

/-- (F) … and injects a key: `S { xn: Commented(1, "c\rinjected: 2") }` reads back with a second
key `injected`. -/
theorem comment_cr_injects_key :
    emit {} implFns (SVal.struct [("xn".toList, .commented (.int 1) "c\rinjected: 2".toList)]) =
      .ok "xn: 1 # c\rinjected: 2\n".toList ∧
    readDoc "xn: 1 # c\rinjected: 2\n".toList =
      some (.map [(.str "xn".toList, .int 1), (.str "injected".toList, .int 2)]) ∧
    erase (SVal.struct [("xn".toList, .commented (.int 1) "c\rinjected: 2".toList)]) = .map [(.str "xn".toList, .int 1)] :=
  ⟨rfl, by decide +kernel, rfl⟩

/-- (F) a NUL character in a comment ends the input for the scanner: everything after the comment
is silently dropped (`(Commented(true, "\0"), 45)` reads back as `[true]`). -/
theorem comment_nul_truncates_document :
    emit {} implFns (.tuple [.commented (.bool true) [Char.ofNat 0], .int 45]) =
      .ok ("- true # ".toList ++ [Char.ofNat 0] ++ "\n- 45\n".toList) ∧
    readDoc ("- true # ".toList ++ [Char.ofNat 0] ++ "\n- 45\n".toList) = some (.seq [.bool true]) :=
  ⟨rfl, by decide +kernel⟩

/-- (T) comments are suppressed in flow context: the wrapper is transparent there. -/
theorem comment_suppressed_in_flow (v : SVal) (c : List Char) (s : St) (hs : s.inFlow > 0) :
    ser o f (.commented v c) s = ser o f v s := by
  have : (s.inFlow == 0) = false := by simp; omega
  rw [ser]; simp [this]

/-- (T) a block sequence drops a staged comment (it is never written inside the sequence). -/
theorem comment_dropped_for_block_seq (s : St) (hs : s.inFlow = 0) (hf : s.pendingFlow ≠ some .anySeq) :
    (serializeSeq o s).1.flow = false ∧ (serializeSeq o s).2.pendingInlineComment = none := by
  have h1 : (s.pendingFlow == some PendingFlow.anySeq) = false := by simpa using hf
  constructor <;> simp [serializeSeq, takeFlow, hs, h1]

/-! ## SpaceAfter -/

/-- (T) `SpaceAfter` in block context = the value, then exactly one more line break
(`at_line_start` set); in flow context = the value. -/
theorem space_after_blank_line_only (v : SVal) (s s' : St) (h : ser o f v s = .ok s') :
    ser o f (.spaceAfter v) s = .ok (if s'.inFlow == 0 then newline s' else s') ∧
    (newline s').out = s'.out ++ ['\n'] := by
  constructor
  · rw [ser, h]
  · rfl

/-! ## flow wrappers -/

/-- (T) `FlowSeq(seq)` / `FlowMap(map)` at the root, contents in the flow fragment: serialization
succeeds, the output is the one-line flow text, and it reads back as exactly the value. -/
theorem flow_wrapper_roundtrip_partial (ho : FragOpts o) (hf : SafeContract f) :
    (∀ xs, inFlowFragList xs = true →
      emit o f (.flowSeq (.seq xs)) = .ok (flowTxt (.seq xs) ++ ['\n']) ∧
      readDoc (flowTxt (.seq xs) ++ ['\n']) = some (erase (.flowSeq (.seq xs)))) ∧
    (∀ known es, inFlowFragEntries es = true → (keysOf es).Nodup →
      emit o f (.flowMap (.map known es)) = .ok (flowTxt (.map known es) ++ ['\n']) ∧
      readDoc (flowTxt (.map known es) ++ ['\n']) = some (erase (.flowMap (.map known es)))) := by
  refine ⟨fun xs hv => ⟨emit_flowSeq ho hf xs hv, ?_⟩, fun known es hv hn => ⟨emit_flowMap ho hf known es hv, ?_⟩⟩
  · have := read_flow_doc (.seq xs) (by simpa [inFlowFrag] using hv) ⟨_, Or.inl rfl⟩
    simpa [erase] using this
  · have := read_flow_doc (.map known es) (by simp [inFlowFrag, hv, hn]) ⟨_, Or.inr rfl⟩
    simpa [erase] using this

/-- (T) the flow wrapper does not change the tree: for a sequence in both fragments, the wrapped and
the bare value serialize to texts that read back as the same tree. -/
theorem flow_wrapper_same_tree_partial (ho : FragOpts o) (hf : SafeContract f) (xs : List SVal)
    (h1 : inFlowFragList xs = true) (h2 : inFrag o.foldedWrapCol (.seq xs) = true) :
    ∃ t1 t2, emit o f (.flowSeq (.seq xs)) = .ok t1 ∧ emit o f (.seq xs) = .ok t2 ∧ readDoc t1 = readDoc t2 := by
  obtain ⟨t2, he2, hr2⟩ := emit_roundtrip_partial ho hf (.seq xs) h2
  have h := (flow_wrapper_roundtrip_partial ho hf).1 xs h1
  exact ⟨_, t2, h.1, he2, by rw [h.2, hr2]; simp [erase]⟩

/-! ## explicit literal strings -/

/-- (T) `LitStr(s)` at the root round-trips exactly — the chomping indicator is chosen from the
number of trailing line feeds (`|-`, `|`, `|+`), every content line is indented by two blanks, one
empty line is added per trailing line feed beyond the first — provided `s` contains no CR / NUL, has
some content before its trailing line feeds, and its first non-empty line does not start with a blank
(no indentation indicator).  Each excluded class is a defect: `litstr_cr_breaks_document`,
`block_scalar_indent_indicator_counterexample`, oracle class `block-scalar-only-newlines`. -/
theorem explicit_literal_roundtrip_partial (ho : FragOpts o) (s : List Char) (hs : LitOk s) :
    emit o f (.litStr s) = .ok (litText s) ∧ readDoc (litText s) = some (erase (.litStr s)) :=
  ⟨emit_litStr ho s hs, by simpa [erase] using read_litText s hs⟩

/-! ## options -/

/-- (T) on the C13 fragment neither the remaining free options (`min_fold_chars`,
`folded_wrap_chars` above the length of the strings, `prefer_block_scalars`) nor the choice of
scalar-text functions changes a single byte of the output — hence not the data. -/
theorem options_layout_only_partial {o1 o2 : Opts} {f1 f2 : ScalarFns} (h1 : FragOpts o1) (h2 : FragOpts o2)
    (hf1 : SafeContract f1) (hf2 : SafeContract f2) (v : SVal)
    (hv1 : inFrag o1.foldedWrapCol v = true) (hv2 : inFrag o2.foldedWrapCol v = true) :
    emit o1 f1 v = emit o2 f2 v ∧ ∃ t, emit o1 f1 v = .ok t ∧ readDoc t = some (erase v) := by
  refine ⟨?_, emit_roundtrip_partial h1 hf1 v hv1⟩
  rw [emit_layout_partial h1 hf1 v hv1, emit_layout_partial h2 hf2 v hv2]

end

/-! ## explicit block strings and flow wrappers: counterexamples -/

/-- (F) `LitStr("a\rb")`: the CR is written raw into the literal block; it is a line break, the text
after it is not indented: the document is rejected. -/
theorem litstr_cr_breaks_document :
    emit {} implFns (.litStr "a\rb".toList) = .ok "|-\n  a\rb\n".toList ∧
    readDoc "|-\n  a\rb\n".toList = none := ⟨rfl, by decide +kernel⟩

/-- (F) `FoldStr("a\nb")`: every source line becomes one folded line, so the single line break
reads back as a blank — different data even modulo trailing line breaks. -/
theorem foldstr_alters_data :
    emit {} implFns (.foldStr "a\nb".toList) = .ok ">\n  a\n  b\n".toList ∧
    readDoc ">\n  a\n  b\n".toList = some (.str "a b\n".toList) ∧
    trimEndNl "a b\n".toList ≠ trimEndNl "a\nb".toList := ⟨rfl, by decide +kernel, by decide⟩

/-- (F) `FlowSeq(vec![LitStr("l")])`: the block scalar is written inside the brackets. -/
theorem block_string_in_flow_counterexample :
    emit {} implFns (.flowSeq (.seq [.litStr "l".toList])) = .ok "[|-\n  l\n]\n".toList := rfl

/-- (F) `SpaceAfter` around a literal string that ends in two line breaks (keep chomping): the
blank line becomes part of the string. -/
theorem space_after_block_string_counterexample :
    emit {} implFns (.spaceAfter (.litStr "l\n\n".toList)) = .ok "|+\n  l\n  \n\n".toList ∧
    readDoc "|+\n  l\n  \n\n".toList = some (.str "l\n\n\n".toList) := ⟨rfl, by decide +kernel⟩

/-- the indentation indicator (repaired by fix a252cf9; found as oracle class
`block-scalar-indent-indicator`: the indicator was the absolute body column although YAML counts it
from the parent node, `[{a: LitStr(" ")}]` was written `- a: |4-` and read back as the empty string):
below a nested parent a block string that needs an indicator is now quoted. -/
example : emit {} implFns (.seq [SVal.struct [("a".toList, .litStr " ".toList)]]) = .ok "- a: \" \"\n".toList := rfl

/-- (F) the full statement does not hold for the code as it is. -/
theorem C20_Full_false : ¬ C20_Full := by
  intro h
  have h1 := h {} _ _ (by decide) litstr_cr_breaks_document.1
  rw [litstr_cr_breaks_document.2] at h1
  exact absurd h1 (by simp)

/-! ## examples: the wrappers on the happy path (model output + reader) -/

/-- the documented example: flow sequence, literal string, comment, blank line -/
example :
    emit {} implFns (SVal.struct [("ports".toList, .flowSeq (.seq [.int 8080, .int 8081])),
      ("note".toList, .litStr "line 1\nline 2".toList), ("num".toList, .commented (.spaceAfter (.int 5)) "five".toList),
      ("z".toList, .int 1)]) =
      .ok "ports: [8080, 8081]\nnote: |-\n  line 1\n  line 2\nnum: 5 # five\n\nz: 1\n".toList := rfl
example :
    readDoc "ports: [8080, 8081]\nnote: |-\n  line 1\n  line 2\nnum: 5 # five\n\nz: 1\n".toList =
      some (.map [(.str "ports".toList, .seq [.int 8080, .int 8081]), (.str "note".toList, .str "line 1\nline 2".toList),
                  (.str "num".toList, .int 5), (.str "z".toList, .int 1)]) := by decide +kernel
/-- the literal-string hypotheses are satisfiable: content with `#`, `:`, quotes, inner blank lines, trailing line feeds -/
example : LitOk "line 1\n\n  - indented # not a comment\nkey: 'v'\n\n".toList :=
  ⟨by decide, by decide, by decide⟩
/-- the flow fragment is inhabited -/
example : inFlowFragList [.int 1, .seq [.str "a".toList, .none], SVal.struct [("k".toList, .bool true), ("m".toList, .seq [])]] = true := by decide
example : emit {} implFns (.flowSeq (.seq [.int 1, .seq [.str "a".toList, .none], SVal.struct [("k".toList, .bool true), ("m".toList, .seq [])]])) =
    .ok "[1, [a, null], {k: true, m: []}]\n".toList := rfl
/-- comments are suppressed inside flow collections -/
example : emit {} implFns (.flowSeq (.seq [.commented (.int 1) "note".toList, .int 2])) = .ok "[1, 2]\n".toList := rfl
/-- a comment staged before a block mapping is attached to its first scalar (data unchanged) -/
example : emit {} implFns (.commented (SVal.struct [("a".toList, .int 1), ("b".toList, .int 2)]) "c".toList) =
    .ok "a: 1 # c\nb: 2\n".toList := rfl
/-- the line feed of a comment is sanitised -/
example : emit {} implFns (SVal.struct [("xn".toList, .commented (.int 1) "c\ninjected: 2".toList)]) =
    .ok "xn: 1 # c injected: 2\n".toList := rfl

end SaphyrVerif.Emit
