import SaphyrVerif.Lemmas.C16
import SaphyrVerif.Lemmas.C16Merge
import SaphyrVerif.Lemmas.C16Norm
import SaphyrVerif.Lemmas.C16Static
/-!
# C16 — reported locations are consistent with the input and name the right node

Part A: the conversions of parser marks into `Location`s (`location_from_span`, `from_scan_error`) applied
to marks that are positions of the text (`MarkAt`): the four coordinates denote one position, byte
information is absent rather than wrong.  That the scanner's marks ARE positions of the text is its
contract; it is re-derived from the text on every run (op `locs pos`, and the oracle), where it fails in
the classes recorded as findings (end-of-stream mark, directive lines with non-ASCII characters).

Part B: attribution.  `spannedLocs` is what `deserialize_yaml_spanned` captures; the theorems say which
locations it yields on the pump / replay cursors of `Model/Pump.lean`, `Model/De.lean`, and that the
locations attached to a type error at a scalar leaf are the ones a span-carrying value at that leaf gets.
-/
namespace SaphyrVerif.Props.C16
open SaphyrVerif SaphyrVerif.Scalars SaphyrVerif.Pump SaphyrVerif.De SaphyrVerif.Locs
open SaphyrVerif.Lemmas.C16

/-! ## Part A -/

/-- the mark is the scanner's position in front of character `m.index` of `text`, with byte offset -/
def MarkAt (text : List Char) (m : Mark) : Prop :=
  m.index ≤ text.length ∧ m = (posOf text m.index).toMark

theorem MarkAt.fields {text : List Char} {m : Mark} (h : MarkAt text m) :
    m.line = (posOf text m.index).line ∧ m.col = (posOf text m.index).col ∧
    m.byte = some (utf8Len (text.take m.index)) := by
  obtain ⟨_, h2⟩ := h
  have hl := congrArg Mark.line h2
  have hc := congrArg Mark.col h2
  have hb := congrArg Mark.byte h2
  simp only [Pos.toMark] at hl hc hb
  rw [posOf_byte] at hb
  exact ⟨hl, hc, hb⟩

theorem asU32_of_lt {n : Nat} (h : n < 4294967296) : asU32 n = n := Nat.mod_eq_of_lt h

/-- (T) line / column ↔ character offset: for an input of fewer than 2^32 − 1 characters the conversion is
exact: the character offset and length are those of the span, and line / column are the ones of that
character offset (1-based column). -/
theorem location_chars_consistent (text : List Char) (s e : Mark) (hs : MarkAt text s) (he : MarkAt text e)
    (hse : s.index ≤ e.index) (hsz : text.length + 1 < 4294967296) :
    ∃ L, locationFromSpan s e = .ok L ∧
      L.span.offset = s.index ∧ L.span.offset + L.span.len = e.index ∧ L.span.offset + L.span.len ≤ text.length ∧
      L.line = (posOf text L.span.offset).line ∧ L.column = (posOf text L.span.offset).col + 1 := by
  obtain ⟨hl, hc, _⟩ := hs.fields
  have hb := posOf_bounds text s.index
  have hsi := hs.1
  have hei := he.1
  have hcol : ¬ (s.col + 1 > Budget.USIZE_MAX) := by
    have : Budget.USIZE_MAX = 18446744073709551615 := by decide
    rw [this]; omega
  have hidx : ¬ (e.index < s.index) := by omega
  refine ⟨_, by simp only [locationFromSpan, hcol, hidx, if_false]; rfl, ?_⟩
  simp only
  rw [asU32_of_lt (by omega : s.index < 4294967296), asU32_of_lt (by omega : e.index - s.index < 4294967296),
    asU32_of_lt (by omega : s.line < 4294967296), asU32_of_lt (by omega : s.col + 1 < 4294967296)]
  refine ⟨rfl, by omega, by omega, hl, by omega⟩

/-- (T) character offset ↔ byte offset, for inputs of ANY size: the byte information of the produced
location is either exactly the UTF-8 prefix length of the start and the UTF-8 length of the span, or it
is absent (`(0, 0)`), and it is absent only when one of the two does not fit `u32` — or when both are 0,
which is the encoding of "absent" itself. -/
theorem location_bytes_absent_or_exact (text : List Char) (s e : Mark) (hs : MarkAt text s) (he : MarkAt text e)
    (hse : s.index ≤ e.index) (L : Location) (h : locationFromSpan s e = .ok L) :
    let bo := utf8Len (text.take s.index)
    let bl := utf8Len ((text.drop s.index).take (e.index - s.index))
    (L.span.byteInfo = (bo, bl) ∧ bo ≤ U32_MAX ∧ bl ≤ U32_MAX) ∨
    (L.span.byteInfo = (0, 0) ∧ (bo > U32_MAX ∨ bl > U32_MAX)) := by
  obtain ⟨_, _, hsb⟩ := hs.fields
  obtain ⟨_, _, heb⟩ := he.fields
  simp only [locationFromSpan, hsb, heb] at h
  split at h
  · cases h
  · split at h
    · cases h
    · simp only [Res.ok.injEq] at h
      subst h
      simp only
      rw [utf8Len_span text s.index e.index hse]
      split
      · rename_i hbig
        right
        simp only [Bool.or_eq_true, decide_eq_true_eq] at hbig
        exact ⟨rfl, hbig⟩
      · rename_i hsmall
        left
        simp only [Bool.or_eq_true, decide_eq_true_eq, not_or, Nat.not_lt] at hsmall
        exact ⟨rfl, hsmall.1, hsmall.2⟩

/-- (T) location_fields_consistent: given marks that are positions of the text, the four coordinates of
the produced `Location` denote ONE position of the text:
* its character offset is the span's start, its length the span's length, both inside the text;
* line and column are the line and (1-based) column of that character offset, and no other character
  offset of the text has that line / column pair;
* a reported byte offset is the UTF-8 length of the text before that character offset, a reported byte
  length is the UTF-8 length of the span; no other character offset has that byte offset;
* byte information is absent rather than wrong when it does not fit `u32`.
(`hsz`: fewer than 2^32 − 1 characters, for the `as u32` casts of line, column, character offset and
length; the byte part needs no size assumption — see `char_offset_wraps_counterexample`.) -/
theorem location_fields_consistent (text : List Char) (s e : Mark) (hs : MarkAt text s) (he : MarkAt text e)
    (hse : s.index ≤ e.index) (hsz : text.length + 1 < 4294967296) :
    ∃ L, locationFromSpan s e = .ok L ∧
      -- one position: the character offset …
      L.span.offset ≤ text.length ∧ L.span.offset + L.span.len ≤ text.length ∧
      -- … its line and column, which no other character offset has …
      L.line = (posOf text L.span.offset).line ∧ L.column = (posOf text L.span.offset).col + 1 ∧
      (∀ j, j ≤ text.length → (posOf text j).line = L.line → (posOf text j).col + 1 = L.column → j = L.span.offset) ∧
      -- … and its byte offset and length, exact when present
      (∀ b, L.span.byteOffset = some b → b = utf8Len (text.take L.span.offset) ∧
        ∀ j, j ≤ text.length → utf8Len (text.take j) = b → j = L.span.offset) ∧
      (∀ n, L.span.byteLen = some n → n = utf8Len ((text.drop L.span.offset).take L.span.len)) ∧
      -- absent only when out of range (or for the empty span at byte 0, whose encoding is "absent")
      (L.span.byteOffset = none →
        utf8Len (text.take L.span.offset) > U32_MAX ∨ utf8Len ((text.drop L.span.offset).take L.span.len) > U32_MAX ∨
        (utf8Len (text.take L.span.offset) = 0 ∧ utf8Len ((text.drop L.span.offset).take L.span.len) = 0)) := by
  obtain ⟨L, hL, ho, hlen, hin, hline, hcol⟩ := location_chars_consistent text s e hs he hse hsz
  have hbytes := location_bytes_absent_or_exact text s e hs he hse L hL
  have hlen' : e.index - L.span.offset = L.span.len := by omega
  simp only at hbytes
  rw [← ho] at hbytes
  rw [hlen'] at hbytes
  have hoff : L.span.offset ≤ text.length := by omega
  refine ⟨L, hL, hoff, hin, hline, hcol, ?_, ?_, ?_, ?_⟩
  · intro j hj h1 h2
    exact posOf_lineCol_injective text j L.span.offset hj hoff (by omega) (by omega)
  · intro b hb
    have hbv : b = utf8Len (text.take L.span.offset) := by
      unfold Span.byteOffset at hb
      rcases hbytes with ⟨hi, _, _⟩ | ⟨hi, _⟩
      · rw [hi] at hb; split at hb <;> simp_all
      · rw [hi] at hb; simp at hb
    refine ⟨hbv, ?_⟩
    intro j hj hjb
    rcases Nat.lt_trichotomy j L.span.offset with h | h | h
    · have := byte_strict_mono text j L.span.offset h hoff; omega
    · exact h
    · have := byte_strict_mono text L.span.offset j h hj; omega
  · intro n hn
    unfold Span.byteLen at hn
    rcases hbytes with ⟨hi, _, _⟩ | ⟨hi, _⟩
    · rw [hi] at hn; split at hn <;> simp_all
    · rw [hi] at hn; simp at hn
  · intro hnone
    unfold Span.byteOffset at hnone
    rcases hbytes with ⟨hi, _, _⟩ | ⟨hi, hbig⟩
    · rw [hi] at hnone
      split at hnone
      · rename_i h0
        simp only [beq_iff_eq, Prod.mk.injEq] at h0
        exact Or.inr (Or.inr h0)
      · cases hnone
    · rcases hbig with h | h
      · exact Or.inl h
      · exact Or.inr (Or.inl h)

/-- (T) the location of a scan error: line / column / character offset of the error mark (no byte
information, nominal length 1) -/
theorem scan_error_location_consistent (text : List Char) (m : Mark) (hm : MarkAt text m)
    (hsz : text.length + 1 < 4294967296) :
    ∃ L, fromScanError m = .ok L ∧ L.span.offset = m.index ∧ L.span.offset ≤ text.length ∧
      L.line = (posOf text L.span.offset).line ∧ L.column = (posOf text L.span.offset).col + 1 ∧
      L.span.byteOffset = none ∧ L.span.byteLen = none := by
  obtain ⟨hl, hc, _⟩ := hm.fields
  have hb := posOf_bounds text m.index
  have hmi := hm.1
  have hcol : ¬ (m.col + 1 > Budget.USIZE_MAX) := by
    have : Budget.USIZE_MAX = 18446744073709551615 := by decide
    rw [this]; omega
  refine ⟨_, by simp only [fromScanError, hcol, if_false]; rfl, ?_⟩
  simp only
  rw [asU32_of_lt (by omega : m.index < 4294967296), asU32_of_lt (by omega : m.line < 4294967296),
    asU32_of_lt (by omega : m.col + 1 < 4294967296)]
  exact ⟨rfl, hmi, hl, by omega, rfl, rfl⟩

/-- (T) locations_within_input: every location built from marks of the text lies inside the text — the
whole span for `location_from_span` (characters, and bytes when present), the position for a scan error. -/
theorem locations_within_input (text : List Char) (s e : Mark) (hs : MarkAt text s) (he : MarkAt text e)
    (hse : s.index ≤ e.index) (hsz : text.length + 1 < 4294967296) :
    (∃ L, locationFromSpan s e = .ok L ∧ L.span.offset + L.span.len ≤ text.length ∧
      ∀ b n, L.span.byteOffset = some b → L.span.byteLen = some n → b + n ≤ utf8Len text) ∧
    (∃ L, fromScanError s = .ok L ∧ L.span.offset ≤ text.length) := by
  obtain ⟨L, hL, _, hin, _, _, _, hb, hn, _⟩ := location_fields_consistent text s e hs he hse hsz
  obtain ⟨L2, hL2, _, hin2, _⟩ := scan_error_location_consistent text s hs hsz
  refine ⟨⟨L, hL, hin, ?_⟩, ⟨L2, hL2, hin2⟩⟩
  intro b n hb' hn'
  obtain ⟨rfl, _⟩ := hb b hb'
  have := hn n hn'
  subst this
  have h1 := utf8Len_span text L.span.offset (L.span.offset + L.span.len) (by omega)
  have h2 := utf8Len_take_le text L.span.offset (L.span.offset + L.span.len) (by omega)
  have h3 := utf8Len_take_le text (L.span.offset + L.span.len) text.length hin
  simp only [Nat.add_sub_cancel_left, List.take_length] at h1 h3
  omega

/-- (T) the scanner's walk is the counting specification (Spec/Locs.lean): the line of an offset is one more
than the number of line ends (LF, or CR not followed by LF) before it, the column is the distance to the
character after the last of them, the byte offset is the UTF-8 length of the prefix. -/
theorem positions_match_spec (text : List Char) (i : Nat) (hi : i ≤ text.length) :
    posOf text i = ⟨i, Spec.Locs.lineOf text i, Spec.Locs.colOf text i, Spec.Locs.byteOf text i⟩ :=
  posOf_eq_spec text i hi

/-- (T) `location_fields_consistent` read against the specification -/
theorem location_fields_spec (text : List Char) (s e : Mark) (hs : MarkAt text s) (he : MarkAt text e)
    (hse : s.index ≤ e.index) (hsz : text.length + 1 < 4294967296) :
    ∃ L, locationFromSpan s e = .ok L ∧ L.span.offset ≤ text.length ∧
      L.line = Spec.Locs.lineOf text L.span.offset ∧ L.column = Spec.Locs.colOf text L.span.offset + 1 ∧
      (∀ b, L.span.byteOffset = some b → b = Spec.Locs.byteOf text L.span.offset) := by
  obtain ⟨L, hL, hoff, _, hline, hcol, _, hb, _⟩ := location_fields_consistent text s e hs he hse hsz
  have hp := posOf_eq_spec text L.span.offset hoff
  refine ⟨L, hL, hoff, ?_, ?_, ?_⟩
  · rw [hline, hp]
  · rw [hcol, hp]
  · intro b hb'
    exact (hb b hb').1

/-! ### the conversions `LiveEvents` applies for in-memory input (`location_from_span_in`, `from_scan_error_in`) -/

theorem markLineCol_none (m : Mark) : markLineCol m none = (m.line, m.col + 1) := by
  unfold markLineCol
  split <;> rfl

theorem locationFromSpanIn_none (s e : Mark) : locationFromSpanIn none s e = locationFromSpan s e := by
  unfold locationFromSpanIn locationFromSpan
  simp only [markLineCol_none]

/-- (T) for a start mark that is a position of the text, handing over the text changes nothing: all of
`location_fields_consistent`, `location_fields_spec`, `locations_within_input` hold verbatim for the
conversion with the in-memory input. -/
theorem locationFromSpanIn_of_markAt (text : List Char) (s e : Mark) (hs : MarkAt text s) :
    locationFromSpanIn (some text) s e = locationFromSpan s e := by
  have h := markLineCol_of_posOf text s.index hs.1
  rw [← hs.2] at h
  obtain ⟨hl, hc, _⟩ := hs.fields
  unfold locationFromSpanIn locationFromSpan
  simp only [h, hl, hc]

theorem fromScanErrorIn_of_markAt (text : List Char) (m : Mark) (hm : MarkAt text m) :
    fromScanErrorIn (some text) m = fromScanError m := by
  have h := markLineCol_of_posOf text m.index hm.1
  rw [← hm.2] at h
  obtain ⟨hl, hc, _⟩ := hm.fields
  unfold fromScanErrorIn fromScanError
  simp only [h, hl, hc]

/-- (T) location_fields_consistent for the conversion the deserializer uses on in-memory input -/
theorem location_fields_consistent_in_memory (text : List Char) (s e : Mark) (hs : MarkAt text s) (he : MarkAt text e)
    (hse : s.index ≤ e.index) (hsz : text.length + 1 < 4294967296) :
    ∃ L, locationFromSpanIn (some text) s e = .ok L ∧
      L.span.offset ≤ text.length ∧ L.span.offset + L.span.len ≤ text.length ∧
      L.line = Spec.Locs.lineOf text L.span.offset ∧ L.column = Spec.Locs.colOf text L.span.offset + 1 ∧
      (∀ b, L.span.byteOffset = some b → b = Spec.Locs.byteOf text L.span.offset) ∧
      (∀ n, L.span.byteLen = some n → n = utf8Len ((text.drop L.span.offset).take L.span.len)) := by
  rw [locationFromSpanIn_of_markAt text s e hs]
  obtain ⟨L, hL, hoff, hin, hline, hcol, _, hb, hn, _⟩ := location_fields_consistent text s e hs he hse hsz
  have hp := posOf_eq_spec text L.span.offset hoff
  refine ⟨L, hL, hoff, hin, ?_, ?_, fun b hb' => (hb b hb').1, hn⟩
  · rw [hline, hp]
  · rw [hcol, hp]

/-- (T) end_of_stream_location_consistent (full; formerly only for texts ending with a line break): the
scanner's end-of-stream mark — which sits on a forced new line when the text does not end with a break —
is converted, for EVERY in-memory text, into the location of the end of the text: character offset =
length, line and column those of that offset (just after the last character of the last line).  Holds for
the span conversion (end-of-document events, EOF errors, values of empty documents) and for scan errors. -/
theorem end_of_stream_location_consistent (text : List Char) (hsz : text.length + 1 < 4294967296) :
    let E := (streamEndMark text).toMark
    (∃ L, locationFromSpanIn (some text) E E = .ok L ∧ L.span.offset = text.length ∧ L.span.len = 0 ∧
      L.line = (posOf text text.length).line ∧ L.column = (posOf text text.length).col + 1) ∧
    (∃ L, fromScanErrorIn (some text) E = .ok L ∧ L.span.offset = text.length ∧
      L.line = (posOf text text.length).line ∧ L.column = (posOf text text.length).col + 1) := by
  have hn := markLineCol_streamEnd text
  have hb := posOf_bounds text text.length
  have hidx : (streamEndMark text).toMark.index = text.length := by
    have := posOf_index text text.length (Nat.le_refl _)
    by_cases h : ((posOf text text.length).col != 0) = true <;> simp [streamEndMark, h, Pos.toMark, this]
  have hcol0 : (streamEndMark text).toMark.col ≤ text.length := by
    by_cases h : ((posOf text text.length).col != 0) = true
    · simp [streamEndMark, h, Pos.toMark]
    · simp only [streamEndMark, h, Pos.toMark]; simp only [Bool.false_eq_true, if_false]; omega
  have hcol : ¬ ((streamEndMark text).toMark.col + 1 > Budget.USIZE_MAX) := by
    have : Budget.USIZE_MAX = 18446744073709551615 := by decide
    rw [this]; omega
  simp only
  refine ⟨⟨_, by simp only [locationFromSpanIn, hcol, Nat.lt_irrefl, if_false]; rfl, ?_⟩,
          ⟨_, by simp only [fromScanErrorIn, hcol, if_false]; rfl, ?_⟩⟩
  · simp only [hn, hidx, Nat.sub_self]
    rw [asU32_of_lt (by omega : text.length < 4294967296), asU32_of_lt (by omega : (posOf text text.length).line < 4294967296),
      asU32_of_lt (by omega : (posOf text text.length).col + 1 < 4294967296)]
    exact ⟨rfl, rfl, rfl, rfl⟩
  · simp only [hn, hidx]
    rw [asU32_of_lt (by omega : text.length < 4294967296), asU32_of_lt (by omega : (posOf text text.length).line < 4294967296),
      asU32_of_lt (by omega : (posOf text text.length).col + 1 < 4294967296)]
    exact ⟨rfl, rfl, rfl⟩

/-! ## Part B: attribution -/

/-- (T) spanned_plain (live cursor): when no alias replay is in progress after the look-ahead (empty inject
stack), a span-carrying value gets `referenced = defined =` the location of the node's own first event. -/
theorem spanned_plain (p : Pump) (inp : List RawItem) (ev : Ev) (p' : Pump) (rest : List RawItem)
    (h : Pump.peek p inp = (.event ev, p', rest)) (hinj : p'.inject = []) :
    spannedLocs (.live p inp) = .ok (ev.loc, ev.loc) (.live p' rest) := by
  have hl := pump_peek_look p inp ev p' rest h
  simp only [spannedLocs, live_peek_of p inp ev p' rest h, Cur.refLoc, Pump.referenceLocation, hinj, hl]

/-- (T) spanned_plain (recorded buffer without use-site override: mapping keys, tagged payloads):
`referenced = defined =` the node's own location. -/
theorem spanned_plain_replay (buf : List Ev) (idx : Nat) (ev : Ev) (h : buf[idx]? = some ev) :
    spannedLocs (.replay buf idx none) = .ok (ev.loc, ev.loc) (.replay buf idx none) := by
  simp only [spannedLocs, Cur.peek, h, Cur.refLoc]

theorem peek_inject_eq (p : Pump) (inp : List RawItem) (hl : p.look = none) :
    (Pump.peek p inp).2.1.inject = (nextImpl p inp).2.1.inject := by
  simp only [Pump.peek, hl]
  split
  · rename_i h; rw [h]
  · rfl

/-- a node event straight from the parser (no alias, no budget): the inject stack stays empty, so
`spanned_plain` applies -/
theorem peek_plain_keeps_inject_empty (p : Pump) (raw : Raw) (loc : Loc) (rest : List RawItem)
    (hl : p.look = none) (hi : p.inject = []) (hb : p.budget = none)
    (hraw : (∃ v st a t, raw = .scalar v st a t) ∨ (∃ a t, raw = .seqStart a t) ∨ (∃ a t, raw = .mapStart a t)) :
    (Pump.peek p (.ev raw loc :: rest)).2.1.inject = [] := by
  rw [peek_inject_eq p _ hl]
  simp only [nextImpl, hi, serveInject]
  rcases hraw with ⟨v, st, a, t, rfl⟩ | ⟨a, t, rfl⟩ | ⟨a, t, rfl⟩
  · simp only [parserLoop, hb]
    split
    · rfl
    · by_cases ha : (a != 0) = true <;> simp [ha]
  · simp only [parserLoop, hb]
  · simp only [parserLoop, hb]

/-- (T) spanned_alias (while an alias is being replayed): with a live inject frame on top (alias token at
`fr.refLoc`, recorded buffer `buf` of the anchored node, next index `fr.idx`), whenever the look-ahead
yields an event it is the next event of the DEFINITION's buffer, a span-carrying value at it gets
`referenced =` the alias token's location and `defined =` that event's own (definition-site) location,
and the frame stays on top with the index advanced (so the statement applies again to the next node
of the replayed subtree: every nested span-carrying value has the same `referenced`). -/
theorem spanned_alias_replay (p : Pump) (inp : List RawItem) (fr : InjectFrame) (frs : List InjectFrame)
    (buf : List Ev) (ev : Ev) (p' : Pump) (r : List RawItem)
    (hl : p.look = none) (hi : p.inject = fr :: frs)
    (hb : lookupAnchor p.anchors fr.anchorId = some buf) (hidx : fr.idx < buf.length)
    (h : Pump.peek p inp = (.event ev, p', r)) :
    buf[fr.idx]? = some ev ∧
    spannedLocs (.live p inp) = .ok (fr.refLoc, ev.loc) (.live p' r) ∧
    p'.inject = { fr with idx := fr.idx + 1 } :: frs ∧ p'.anchors = p.anchors ∧ r = inp := by
  have key : buf[fr.idx]? = some ev ∧ p'.inject = { fr with idx := fr.idx + 1 } :: frs ∧ p'.anchors = p.anchors ∧ r = inp := by
    obtain ⟨st, q, hs, hq1, hq2, _, hq4⟩ := serveInject_top p fr frs buf hb hidx
    simp only [Pump.peek, hl, nextImpl, hi, hs] at h
    cases st with
    | event e0 =>
      simp only [Prod.mk.injEq, Step.event.injEq] at h
      obtain ⟨rfl, rfl, rfl⟩ := h
      exact ⟨hq4 _ rfl, hq1, hq2, rfl⟩
    | eof => simp at h
    | error err => simp at h
  obtain ⟨k1, k2, k3, k4⟩ := key
  refine ⟨k1, ?_, k2, k3, k4⟩
  simp only [spannedLocs, live_peek_of p inp ev p' r h, Cur.refLoc, Pump.referenceLocation, k2]

/-- (T) spanned_alias (at the alias token): the next parser item is an alias `*x` at location `aloc`, the
anchor's recorded buffer is `buf` (by C02 `alias_expansion_is_buffer` / `pump_eq_expand_partial` the
events of the anchored node, which start with that node's own start event).  If the look-ahead yields
an event, a span-carrying value there gets `referenced = aloc` (the alias token) and `defined =` the
location of the first buffered event (the anchored node); the new inject frame carries `aloc`, so
`spanned_alias_replay` continues from index 1.  (No budget, nothing else being replayed.) -/
theorem spanned_alias (p : Pump) (id : Nat) (aloc : Loc) (rest : List RawItem) (buf : List Ev)
    (ev : Ev) (p' : Pump) (r : List RawItem)
    (hl : p.look = none) (hi : p.inject = []) (hb : p.budget = none)
    (hrec : p.recStack.any (fun f => f.id == id) = false)
    (hbuf : lookupAnchor p.anchors id = some buf) (hlen : 0 < buf.length)
    (h : Pump.peek p (.ev (.alias id) aloc :: rest) = (.event ev, p', r)) :
    buf[0]? = some ev ∧
    spannedLocs (.live p (.ev (.alias id) aloc :: rest)) = .ok (aloc, ev.loc) (.live p' r) ∧
    p'.inject = [{ anchorId := id, idx := 1, refLoc := aloc }] ∧ p'.anchors = p.anchors := by
  obtain ⟨st, q, hs, hq⟩ := parserLoop_alias { p with look := none, inject := [] } id aloc rest buf hb rfl hrec hbuf hlen
  have key : buf[0]? = some ev ∧ p'.inject = [{ anchorId := id, idx := 1, refLoc := aloc }] ∧ p'.anchors = p.anchors := by
    simp only [Pump.peek, hl, nextImpl, hi, serveInject, hs] at h
    cases st with
    | event e0 =>
      simp only [Prod.mk.injEq, Step.event.injEq] at h
      obtain ⟨rfl, rfl, rfl⟩ := h
      exact hq _ rfl
    | eof => simp at h
    | error err => simp at h
  obtain ⟨k1, k2, k3⟩ := key
  refine ⟨k1, ?_, k2, k3⟩
  simp only [spannedLocs, live_peek_of _ _ ev p' r h, Cur.refLoc, Pump.referenceLocation, k2]

/-- (T) spanned_merge: a value delivered from a pending (merge-derived or buffered) entry is read from a
replay of the SOURCE node's recorded events with the entry's `reference_location` as use-site override:
a span-carrying value there gets `referenced =` the entry's `ref` (the location observed at the merge
value: the alias token of `<<: *m` / of an element of `<<: [*a, *b]`, the start of an inline mapping) and
`defined =` the location of the source node's own first event. -/
theorem spanned_merge (fuel : Nat) (cfg : Cfg) (t : STy) (c : Cur) (m : MA) (ev : Ev) (evs : List Ev) (ref : Loc)
    (hk : m.haveKey = true) (hp : m.pendingValue = some (ev :: evs, ref))
    (v : SVal) (m' : MA) (c' : Cur)
    (h : nextValueS (fuel + 2) cfg (.spanned t) c m = .ok (v, m') c') :
    ∃ x, v = .spanned ref ev.loc x := by
  simp only [nextValueS, hk, hp, deserS, spannedLocs, Cur.peek, Cur.refLoc] at h
  simp only [List.getElem?_cons_zero, Bool.not_true, Bool.false_eq_true, if_false] at h
  split at h
  · cases h
  · rename_i x rc' hx
    split at hx
    · cases hx
    · rename_i y rc'' hy
      simp only [R.ok.injEq] at hx
      obtain ⟨rfl, rfl⟩ := hx
      split at h
      · cases h
      · simp only [R.ok.injEq, Prod.mk.injEq] at h
        exact ⟨y, h.1.1.symm⟩

/-- the use-site recorded for the own fields of a merged mapping is the one handed to
`collect_entries_from_map` (`PendingEntry.reference_location`) -/
theorem merge_entry_ref (fuel : Nat) (c : Cur) (ref : Loc) (fields : List PendingEntry) (merges : List (List PendingEntry))
    (key value : KeyNode) (c1 c2 : Cur) (ev : Ev)
    (hpk : c.peek = .ok (some ev) c1) (hnotend : ∀ l, ev ≠ .mapEnd l)
    (hk : capture fuel c1 = .ok key c2) (hm : isMergeKey key = false)
    (c3 : Cur) (hv : capture fuel c2 = .ok value c3) :
    collectLoop (fuel + 1) c ref fields merges = collectLoop fuel c3 ref (fields ++ [⟨key, value, ref⟩]) merges := by
  simp only [collectLoop, hpk]
  cases ev <;> first | exact absurd rfl (hnotend _) | simp [hk, hm, hv]

/-- (T) everything expanded from ONE merge source carries the use-site observed at that source:
`pending_entries_from_events(events, _, r)` — own fields, fields of nested `<<` inside the source, elements
of nested merge sequences — yields only entries with `reference_location = r` (the nested readers run on
`ReplayEvents::with_reference(_, r)`, whose `reference_location()` is `r`). -/
theorem merge_source_entries_ref (fuel : Nat) (events : List Ev) (loc r : Loc) (es : List PendingEntry)
    (h : pendingFromEvents fuel events loc r = .ok es) : ∀ e ∈ es, e.ref = r :=
  (merge_readers_ref r fuel).1 events loc es h

/-- (T) `<<: <mapping>` on ANY cursor (live or replay): the entries get the use-site `mref` observed at the
merge value (for `<<: *m` the alias token by `spanned_alias`, for an inline mapping its own start by
`spanned_plain`). -/
theorem merge_map_entries_ref (fuel : Nat) (c c1 : Cur) (a : Nat) (l : Loc) (mref : Loc)
    (hpk : c.peek = .ok (some (.mapStart a l)) c1)
    (es : List PendingEntry) (c' : Cur) (h : pendingFromLive (fuel + 1) c mref = .ok es c') :
    ∀ e ∈ es, e.ref = mref := by
  unfold pendingFromLive at h
  simp only [hpk] at h
  split at h
  · cases h
  · rename_i node c2 _
    split at h
    · cases h
    · rename_i es' hpe
      cases h
      exact merge_source_entries_ref fuel _ _ mref _ hpe

/-- (T) `<<: [ … ]` on ANY cursor: one step of the element loop.  The batch read from an element carries the
use-site observed at THAT element after the look-ahead (`c1.refLoc`: the element's alias token, or its own
start), independently of the other elements. -/
theorem merge_seq_element_ref (fuel : Nat) (c c1 c2 : Cur) (ev : Ev) (batches : List (List PendingEntry))
    (element : KeyNode) (b : List PendingEntry)
    (hpk : c.peek = .ok (some ev) c1) (hne : ∀ l, ev ≠ .seqEnd l)
    (hcap : capture fuel c1 = .ok element c2)
    (hb : pendingFromEvents fuel element.events element.loc c1.refLoc = .ok b) :
    mergeSeqBatches (fuel + 1) c batches = mergeSeqBatches fuel c2 (batches ++ [b]) ∧
    ∀ e ∈ b, e.ref = c1.refLoc := by
  refine ⟨?_, merge_source_entries_ref fuel _ _ _ _ hb⟩
  simp only [mergeSeqBatches, hpk]
  cases ev <;> first | exact absurd rfl (hne _) | simp [hcap, hb]

/-- scalar-leaf target types -/
def scalarTy : Ty → Bool
  | .bool | .int .. | .float _ | .char => true
  | _ => false

theorem err_inj_loc {k : String} {l : Loc} {x c2 : Cur} {e : DErr}
    (h : R.err (α := Val) ⟨k, l, 0⟩ x = R.err e c2) (hk : k ≠ "AliasError") :
    e.loc = l ∧ e.loc2 = 0 ∧ e.kind ≠ "AliasError" := by
  cases h; exact ⟨rfl, rfl, hk⟩

/-- every error of a typed scalar read on a cursor whose look-ahead holds the scalar event `ev` is located
at that event (and is not an `AliasError`) -/
theorem deserScalarTyped_err_loc (cfg : Cfg) (ty : Ty) (c c1 : Cur) (v : List Char) (tag : Nat)
    (rt : Option (List Char)) (st : Style) (a : Nat) (l : Loc)
    (hpk : c.peek = .ok (some (.scalar v tag rt st a l)) c1)
    (e : DErr) (c2 : Cur) (h : deserScalarTyped cfg ty c1 = .err e c2) :
    e.loc = l ∧ e.loc2 = 0 ∧ e.kind ≠ "AliasError" := by
  obtain ⟨⟨n1, hn1⟩, ⟨c1', hp1, _, ⟨n2, hn2⟩⟩⟩ := cur_peek_then c _ c1 hpk
  unfold deserScalarTyped at h
  simp only [hp1, hn1, hn2] at h
  cases ty with
  | char =>
    simp only [] at h
    split at h
    · rename_i r heq
      subst h
      repeat' split at heq
      all_goals first
        | (simp only [Option.some.injEq] at heq; exact err_inj_loc heq (by decide))
        | (cases heq)
    · split at h
      · cases h
      · exact err_inj_loc h (by decide)
  | _ =>
    simp only [] at h
    repeat' split at h
    all_goals first
      | (exact err_inj_loc h (by decide))
      | (cases h)

/-- (T) error_location_eq_spanned: a type error at a scalar leaf carries the locations a span-carrying value
at that leaf would carry.  `c1` is the cursor after the look-ahead at the leaf (what `SA::next_element_seed`,
`MA::next_value_seed` and `deserialize_yaml_spanned` all do first); they attach
`attach_alias_locations_if_missing(e, reference_location(), location of the peeked event)` to an error of
the element / value.  For every scalar target type, ANY error of reading the leaf then has
`Error::locations() = (referenced, defined)` exactly as `spannedLocs` reports them: a single location when
no alias is involved (`referenced = defined`), an `AliasError` with both otherwise. -/
theorem error_location_eq_spanned (fuel : Nat) (cfg : Cfg) (ty : Ty) (hty : scalarTy ty = true) (c c1 : Cur)
    (v : List Char) (tag : Nat) (rt : Option (List Char)) (st : Style) (a : Nat) (l : Loc)
    (hpk : c.peek = .ok (some (.scalar v tag rt st a l)) c1)
    (hl : l ≠ 0) (href : c1.refLoc ≠ 0)
    (e : DErr) (c2 : Cur) (h : deser (fuel + 1) cfg ty false false c1 = .err e c2) :
    spannedLocs c = .ok (c1.refLoc, l) c1 ∧
    errLocations (attachAlias e c1.refLoc l) = some (c1.refLoc, l) := by
  refine ⟨by simp only [spannedLocs, hpk, Ev.loc], ?_⟩
  have hs : deserScalarTyped cfg ty c1 = .err e c2 := by
    cases ty <;> simp only [scalarTy] at hty <;> (try cases hty) <;> simpa only [deser] using h
  obtain ⟨h1, h2, h3⟩ := deserScalarTyped_err_loc cfg ty c c1 v tag rt st a l hpk e c2 hs
  unfold attachAlias errLocations
  have h3' : (e.kind == "AliasError") = false := by simpa using h3
  by_cases hne : c1.refLoc = l
  · simp [hne, hl, h1, h3']
  · simp [hne, hl, href, h3']

/-- (T) once an error carries both locations, no enclosing access changes them
(`attach_alias_locations_if_missing` really is "if missing") -/
theorem alias_error_survives_outer_access (e : DErr) (r d : Loc) (h : e.kind = "AliasError") :
    attachAlias e r d = e := by
  simp [attachAlias, h]

/-- (T) error_location_eq_spanned, through any number of enclosing sequence / map accesses: the pair attached
at the innermost access (use site, failing node) is what the caller sees, whatever use / definition sites
`r'`, `d'` the enclosing accesses compute for their whole containers (`e` is the leaf's own error,
`ref ≠ l`: the leaf is reached through an alias or merge).  Together with
`error_location_eq_spanned` (the innermost access attaches exactly the pair a span-carrying value at the
leaf reports) this is the property for leaves nested in aliased or merged containers. -/
theorem error_location_nested (e : DErr) (ref l r' d' : Loc) (hk : e.kind ≠ "AliasError")
    (hl : l ≠ 0) (href : ref ≠ 0) (hne : ref ≠ l) :
    attachAlias (attachAlias e ref l) r' d' = ⟨"AliasError", ref, l⟩ ∧
    errLocations (attachAlias (attachAlias e ref l) r' d') = some (ref, l) := by
  have hke : (e.kind == "AliasError") = false := by simpa using hk
  have h0 : attachAlias e ref l = ⟨"AliasError", ref, l⟩ := by
    simp [attachAlias, hke, hl, href, hne]
  have h1 := alias_error_survives_outer_access (attachAlias e ref l) r' d' (by rw [h0])
  rw [h1, h0]
  exact ⟨rfl, by simp [errLocations]⟩

/-! ## Part C: errors that Serde raises without a location (the fallback location) -/

/-- (T) a location-less Serde error raised while a SEQUENCE ELEMENT is read (`SA::next_element_seed`): the
access hands on the static constructor's error on ITS OWN use site (`c1.refLoc`, the element guard), wrapped
by `attach_alias_locations_if_missing` with the element's (use site, definition site) — the pair
`spannedLocs` reports for a span-carrying value at that element.  The cell of the enclosing deserialization
plays no role (the access has no such argument). -/
theorem static_error_at_seq_element (fuel : Nat) (cfg : Cfg) (t : STy) (c c1 c2 : Cur) (ev : Ev) (acc : List SVal)
    (kind : String) (hpk : c.peek = .ok (some ev) c1) (hne : ∀ l, ev ≠ .seqEnd l)
    (hs : RaisesStatic fuel cfg t c1 kind c2) :
    seqElemsS (fuel + 1) cfg t c acc = .err (attachAlias (staticErr kind (some c1.refLoc)) c1.refLoc ev.loc) c2 ∧
    spannedLocs c = .ok (c1.refLoc, ev.loc) c1 := by
  refine ⟨?_, by simp only [spannedLocs, hpk]⟩
  simp only [seqElemsS, hpk]
  cases ev <;> first | exact absurd rfl (hne _) | simp only [hs (some c1.refLoc)]

/-- (T) the same for a MAPPING VALUE read from the live stream (`MA::next_value_seed`, value guard — the
repair of `C16-static-error-at-map-value-reported-at-key`): the value's own use site `c1.refLoc`, not the key. -/
theorem static_error_at_map_value (fuel : Nat) (cfg : Cfg) (t : STy) (c c1 c2 : Cur) (m : MA) (pk : Option Ev)
    (kind : String) (hk : m.haveKey = true) (hp : m.pendingValue = none) (hpk : c.peek = .ok pk c1)
    (hs : RaisesStatic fuel cfg t c1 kind c2) :
    let defined := match pk with | some e => e.loc | none => c1.lastLoc
    nextValueS (fuel + 1) cfg t c m = .err (attachAlias (staticErr kind (some c1.refLoc)) c1.refLoc defined) c2 ∧
    spannedLocs c = .ok (c1.refLoc, defined) c1 := by
  refine ⟨?_, by cases pk <;> simp only [spannedLocs, hpk]⟩
  cases pk <;> simp [nextValueS, hk, hp, hpk, hs (some c1.refLoc)]

/-- (T) the same for a mapping value delivered from a pending entry (merge-derived or buffered:
`ReplayEvents::with_reference(events, reference_location)`): the entry's recorded use site `ref` — by
`merge_source_entries_ref` / `merge_map_entries_ref` / `merge_seq_element_ref` the alias token of `<<: *m`, the
element of `<<: [*a, *b]`, the start of an inline mapping — and the source node's own location. -/
theorem static_error_at_merged_value (fuel : Nat) (cfg : Cfg) (t : STy) (c rc2 : Cur) (m : MA) (ev : Ev) (evs : List Ev)
    (ref : Loc) (kind : String) (hk : m.haveKey = true) (hp : m.pendingValue = some (ev :: evs, ref))
    (hs : RaisesStatic fuel cfg t (.replay (ev :: evs) 0 (some ref)) kind rc2) :
    nextValueS (fuel + 1) cfg t c m = .err (attachAlias (staticErr kind (some ref)) ref ev.loc) c ∧
    spannedLocs (.replay (ev :: evs) 0 (some ref)) = .ok (ref, ev.loc) (.replay (ev :: evs) 0 (some ref)) := by
  refine ⟨?_, by simp only [spannedLocs, Cur.peek, Cur.refLoc, List.getElem?_cons_zero]⟩
  simp only [nextValueS, hk, hp, hs (some ref)]
  simp

/-- (T) **static_error_at_value_node**: the location attached to a location-less Serde error raised while a
sequence element or a mapping value (live, or merged / buffered) is read is the use-site location of THAT
node — through an alias or a merge the alias token / merge entry, with the node's own location as definition
site: `Error::locations()` of the access's error is exactly the pair `(referenced, defined)` that a
span-carrying value at the node reports (`spannedLocs`), and `Error::location()` is the use site.
(`kind ≠ "AliasError"`: the five static constructors; both locations known.)  Nothing of the enclosing
deserialization — the key guard, the container guard, an outer element — enters. -/
theorem static_error_at_value_node (fuel : Nat) (cfg : Cfg) (t : STy) (kind : String) (hkind : kind ≠ "AliasError") :
    -- sequence element
    (∀ (c c1 c2 : Cur) (ev : Ev) (acc : List SVal), c.peek = .ok (some ev) c1 → (∀ l, ev ≠ .seqEnd l) →
      RaisesStatic fuel cfg t c1 kind c2 → c1.refLoc ≠ 0 → ev.loc ≠ 0 →
      ∃ e, seqElemsS (fuel + 1) cfg t c acc = .err e c2 ∧ spannedLocs c = .ok (c1.refLoc, ev.loc) c1 ∧
        errLocations e = some (c1.refLoc, ev.loc) ∧ e.loc = c1.refLoc) ∧
    -- mapping value, live
    (∀ (c c1 c2 : Cur) (m : MA) (ev : Ev), m.haveKey = true → m.pendingValue = none → c.peek = .ok (some ev) c1 →
      RaisesStatic fuel cfg t c1 kind c2 → c1.refLoc ≠ 0 → ev.loc ≠ 0 →
      ∃ e, nextValueS (fuel + 1) cfg t c m = .err e c2 ∧ spannedLocs c = .ok (c1.refLoc, ev.loc) c1 ∧
        errLocations e = some (c1.refLoc, ev.loc) ∧ e.loc = c1.refLoc) ∧
    -- mapping value from a pending (merged / buffered) entry
    (∀ (c rc2 : Cur) (m : MA) (ev : Ev) (evs : List Ev) (ref : Loc), m.haveKey = true →
      m.pendingValue = some (ev :: evs, ref) → RaisesStatic fuel cfg t (.replay (ev :: evs) 0 (some ref)) kind rc2 →
      ref ≠ 0 → ev.loc ≠ 0 →
      ∃ e, nextValueS (fuel + 1) cfg t c m = .err e c ∧
        spannedLocs (.replay (ev :: evs) 0 (some ref)) = .ok (ref, ev.loc) (.replay (ev :: evs) 0 (some ref)) ∧
        errLocations e = some (ref, ev.loc) ∧ e.loc = ref) := by
  refine ⟨?_, ?_, ?_⟩
  · intro c c1 c2 ev acc hpk hne hs href hdef
    obtain ⟨h1, h2⟩ := static_error_at_seq_element fuel cfg t c c1 c2 ev acc kind hpk hne hs
    obtain ⟨h3, h4⟩ := static_locations kind hkind c1.refLoc ev.loc href hdef
    exact ⟨_, h1, h2, h3, h4⟩
  · intro c c1 c2 m ev hk hp hpk hs href hdef
    obtain ⟨h1, h2⟩ := static_error_at_map_value fuel cfg t c c1 c2 m (some ev) kind hk hp hpk hs
    obtain ⟨h3, h4⟩ := static_locations kind hkind c1.refLoc ev.loc href hdef
    exact ⟨_, h1, h2, h3, h4⟩
  · intro c rc2 m ev evs ref hk hp hs href hdef
    obtain ⟨h1, h2⟩ := static_error_at_merged_value fuel cfg t c rc2 m ev evs ref kind hk hp hs
    obtain ⟨h3, h4⟩ := static_locations kind hkind ref ev.loc href hdef
    exact ⟨_, h1, h2, h3, h4⟩

/-- (T) the instance the repair is about: a `NonZero*` target on a node whose integer reading is 0
(`invalid_value`), directly or inside the span-carrying wrapper, satisfies the hypothesis of
`static_error_at_value_node`. -/
theorem nonzero_zero_raises_static (fuel : Nat) (cfg : Cfg) (signed : Bool) (bits : Nat) (c c2 : Cur)
    (h : deser (fuel + 1) cfg (.int signed bits) false false c = .ok (.int 0) c2) :
    RaisesStatic (fuel + 1) cfg (.nonzero signed bits) c "invalid_value" c2 ∧
    (∀ c0 rd, spannedLocs c0 = .ok rd c →
      RaisesStatic (fuel + 2) cfg (.spanned (.nonzero signed bits)) c0 "invalid_value" c2) :=
  ⟨raisesStatic_nonzero fuel cfg signed bits c c2 h,
   fun c0 rd hl => raisesStatic_spanned (fuel + 1) cfg _ c0 c c2 _ rd hl (raisesStatic_nonzero fuel cfg signed bits c c2 h)⟩

/-- (T) once located at the node, the error is left alone by every enclosing access whose own container is
not reached through an alias (`r' = d'`, or one of the two unknown).  (Inside a replayed container the
innermost access already sees use site ≠ definition site and has built the `AliasError`, which no enclosing
access changes: `alias_error_survives_outer_access`, `error_location_nested` — the same composition as for
type errors.) -/
theorem static_error_survives_outer_access (e : DErr) (r' d' : Loc) (hl : e.loc ≠ 0)
    (h : r' = 0 ∨ d' = 0 ∨ r' = d') : attachAlias e r' d' = e := by
  unfold attachAlias
  by_cases hk : (e.kind == "AliasError") = true
  · simp [hk]
  · rcases h with h | h | h <;> simp [hk, h, hl]

/-- (T) the bridge to the thread-local model of C15 (`Model/Tls.lean`): while the body of a scoped guard runs
— the element guard, the value guard: `Tls.Prog.guard loc body k`, the `G` of the call scripts — the cell
holds the guard's location, whatever it held before (`s`, `st` arbitrary); a static constructor called there
yields the location of `staticErr kind (some loc)`: the `fb` that `seqElemsS` / `nextValueS` hand to `deserS`
is the cell of the thread-local model. -/
theorem cell_under_guard_is_fb (loc : Loc) (k : Tls.Prog) (s : Tls.Slot) (st : Tls.St) (kind : String) :
    (Tls.exec (.guard loc .serr k) s st).1 = .err (staticErr kind (some loc)).loc := by
  simp [Tls.exec, Tls.andThen, staticErr]

/-! ## Non-vacuity -/

-- marks of a text with a multi-byte character and a CRLF break are positions of it; the conversion is exact
example : MarkAt "é\r\nb: x".toList ⟨3, 2, 0, some 4⟩ ∧ MarkAt "é\r\nb: x".toList ⟨4, 2, 1, some 5⟩ := by
  unfold MarkAt; decide
example : locationFromSpan ⟨3, 2, 0, some 4⟩ ⟨4, 2, 1, some 5⟩ = .ok ⟨2, 1, ⟨3, 1, (4, 1)⟩⟩ := by decide
-- CR alone ends a line, CR before LF does not (the line ends at the LF)
example : (posOf "a\rb\r\nc".toList 2, posOf "a\rb\r\nc".toList 4, posOf "a\rb\r\nc".toList 5) =
    (⟨2, 2, 0, 2⟩, ⟨4, 2, 2, 4⟩, ⟨5, 3, 0, 5⟩) := by decide
-- byte information out of the `u32` range is dropped, never truncated
example : (locationFromSpan ⟨5, 1, 5, some 4294967296⟩ ⟨6, 1, 6, some 4294967297⟩) = .ok ⟨1, 6, ⟨5, 1, (0, 0)⟩⟩ := by decide
example : (locationFromSpan ⟨5, 1, 5, some 7⟩ ⟨6, 1, 6, some 4294967303⟩) = .ok ⟨1, 6, ⟨5, 1, (0, 0)⟩⟩ := by decide
-- `Span::len` underflows when the end mark is before the start mark
example : (locationFromSpan ⟨5, 1, 5, some 5⟩ ⟨4, 1, 4, some 4⟩) = .panic "Span::len: end.index() - start.index()" := by decide

-- the end-of-stream mark of a text without final line break sits on a forced new line (the scanner's rule,
-- compared with the real parser by the `endmark` operation) …
example : streamEndMark "a: [".toList = ⟨4, 2, 0, 4⟩ ∧ posOf "a: [".toList 4 = ⟨4, 1, 4, 4⟩ := by decide
-- … and is converted into the position just after the last character when the text is at hand,
example : locationFromSpanIn (some "a: [".toList) ⟨4, 2, 0, some 4⟩ ⟨4, 2, 0, some 4⟩ = .ok ⟨1, 5, ⟨4, 0, (4, 0)⟩⟩ := by decide
example : fromScanErrorIn (some "é\r\nbé".toList) ⟨5, 3, 0, some 7⟩ = .ok ⟨2, 3, ⟨5, 1, (0, 0)⟩⟩ := by decide
-- left alone without the text (reader input), after a real line break, off a character boundary, beyond the end
example : locationFromSpanIn none ⟨4, 2, 0, some 4⟩ ⟨4, 2, 0, some 4⟩ = .ok ⟨2, 1, ⟨4, 0, (4, 0)⟩⟩ := by decide
example : fromScanErrorIn (some "ab\n".toList) ⟨3, 2, 0, some 3⟩ = .ok ⟨2, 1, ⟨3, 1, (0, 0)⟩⟩ := by decide
example : fromScanErrorIn (some "é".toList) ⟨1, 2, 0, some 1⟩ = .ok ⟨2, 1, ⟨1, 1, (0, 0)⟩⟩ := by decide
example : fromScanErrorIn (some "a".toList) ⟨3, 2, 0, some 3⟩ = .ok ⟨2, 1, ⟨3, 1, (0, 0)⟩⟩ := by decide

/-- `k: &a [1, <second>]` / `j: *a` as parser items (locations 10 …) -/
def aliasDoc (second : String) : List RawItem :=
  [.ev .streamStart 10, .ev (.docStart false) 10, .ev (.mapStart 0 none) 10,
   .ev (.scalar ['k'] .plain 0 none) 11, .ev (.seqStart 1 none) 12, .ev (.scalar ['1'] .plain 0 none) 13,
   .ev (.scalar second.toList .plain 0 none) 14, .ev .seqEnd 15,
   .ev (.scalar ['j'] .plain 0 none) 16, .ev (.alias 1) 17, .ev .mapEnd 18, .ev .docEnd 18, .ev .streamEnd 18]

def aliasTy : STy := .struct [("j", .seq (.spanned (.leaf (.int true 32))))]
def aliasPump : Pump := { limits := ⟨1000, 8, 100⟩ }

mutual
/-- a flat digest of a delivered value (values have no decidable equality): constructor codes, the two
locations of every wrapper, integer leaves -/
def digestS : SVal → List Nat
  | .leaf (.int i) => [1, i.toNat]
  | .leaf _ => [2]
  | .spanned r d v => 3 :: r :: d :: digestS v
  | .none => [4]
  | .some v => 5 :: digestS v
  | .seq vs => 6 :: digestL vs
  | .map es => 7 :: digestE es
  | .struct fs => 8 :: digestF fs
def digestL : List SVal → List Nat
  | [] => [0]
  | v :: vs => digestS v ++ digestL vs
def digestE : List (Val × SVal) → List Nat
  | [] => [0]
  | (_, v) :: vs => digestS v ++ digestE vs
def digestF : List (String × SVal) → List Nat
  | [] => [0]
  | (_, v) :: vs => digestS v ++ digestF vs
end

/-- outcome of a run: `0 :: digest` of the value, or `1 :: loc :: loc2 :: kind` of the error -/
def outcome (r : R SVal) : List Nat :=
  match r with
  | .ok v _ => 0 :: digestS v
  | .err e _ => 1 :: e.loc :: e.loc2 :: e.kind.toList.map Char.toNat

-- through the alias `*a` (at 17): `referenced` = the alias token, `defined` = each element's own location
example : outcome (deserS 40 {} none aliasTy (.live aliasPump (aliasDoc "2"))) =
    0 :: digestS (.struct [("j", .seq [.spanned 17 13 (.leaf (.int 1)), .spanned 17 14 (.leaf (.int 2))])]) := by
  decide +kernel
-- at the definition itself: `referenced = defined`
example : outcome (deserS 40 {} none (.struct [("k", .seq (.spanned (.leaf (.int true 32))))]) (.live aliasPump (aliasDoc "2"))) =
    0 :: digestS (.struct [("k", .seq [.spanned 13 13 (.leaf (.int 1)), .spanned 14 14 (.leaf (.int 2))])]) := by
  decide +kernel
-- an aliased scalar leaf that does not fit the type: `AliasError` with both locations (those of the wrapper)
example : outcome (deserS 40 {} none (.struct [("j", .spanned (.leaf (.int true 32)))]) (.live aliasPump
    [.ev .streamStart 10, .ev (.docStart false) 10, .ev (.mapStart 0 none) 10,
     .ev (.scalar ['k'] .plain 0 none) 11, .ev (.scalar "oops".toList .plain 1 none) 12,
     .ev (.scalar ['j'] .plain 0 none) 16, .ev (.alias 1) 17, .ev .mapEnd 18, .ev .docEnd 18, .ev .streamEnd 18])) =
    1 :: 17 :: 12 :: "AliasError".toList.map Char.toNat := by decide +kernel
-- `t: {<<: *m, z: 3}` with `m = {k: 1}` at 12..15, the alias at 19: merged `k` is referenced at the alias
-- token and defined at its own scalar (14); the own entry `z` has both at 21
example : outcome (deserS 60 {} none (.struct [("t", .map (.spanned (.leaf (.int true 32))))]) (.live aliasPump
    [.ev .streamStart 10, .ev (.docStart false) 10, .ev (.mapStart 0 none) 10,
     .ev (.scalar ['s'] .plain 0 none) 11, .ev (.mapStart 1 none) 12, .ev (.scalar ['k'] .plain 0 none) 13,
     .ev (.scalar ['1'] .plain 0 none) 14, .ev .mapEnd 15,
     .ev (.scalar ['t'] .plain 0 none) 16, .ev (.mapStart 0 none) 17, .ev (.scalar "<<".toList .plain 0 none) 18,
     .ev (.alias 1) 19, .ev (.scalar ['z'] .plain 0 none) 20, .ev (.scalar ['3'] .plain 0 none) 21, .ev .mapEnd 22,
     .ev .mapEnd 23, .ev .docEnd 23, .ev .streamEnd 23])) =
    0 :: digestS (.struct [("t", .map [(.str ['z'], .spanned 21 21 (.leaf (.int 3))), (.str ['k'], .spanned 19 14 (.leaf (.int 1)))])]) := by
  decide +kernel

-- a leaf inside the aliased sequence that does not fit: use site = the alias token, definition site = the LEAF
example : outcome (deserS 40 {} none aliasTy (.live aliasPump (aliasDoc "oops"))) =
    1 :: 17 :: 14 :: "AliasError".toList.map Char.toNat := by decide +kernel

/-! ### the fallback location (Part C) on witnesses -/

/-- `a: 1` / `k:   <second>` as parser items: key `k` at 13, its value at 14 -/
def nzDoc (second : String) : List RawItem :=
  [.ev .streamStart 10, .ev (.docStart false) 10, .ev (.mapStart 0 none) 10,
   .ev (.scalar ['a'] .plain 0 none) 11, .ev (.scalar ['1'] .plain 0 none) 12,
   .ev (.scalar ['k'] .plain 0 none) 13, .ev (.scalar second.toList .plain 0 none) 14,
   .ev .mapEnd 15, .ev .docEnd 15, .ev .streamEnd 15]

/-- `struct { a: u8, k: NonZeroU8 }` -/
def nzTy : STy := .struct [("a", .leaf (.int false 8)), ("k", .nonzero false 8)]

-- the witness of the finding: `invalid_value` for `k:   0` is located at the VALUE (14), not at the key (13)
example : outcome (deserS 40 {} none nzTy (.live aliasPump (nzDoc "0"))) =
    1 :: 14 :: 0 :: "invalid_value".toList.map Char.toNat := by decide +kernel
-- also inside the span-carrying wrapper and `Option`; a non-zero value is delivered
example : outcome (deserS 40 {} none (.struct [("k", .spanned (.option (.nonzero false 8)))]) (.live aliasPump (nzDoc "0"))) =
    1 :: 14 :: 0 :: "invalid_value".toList.map Char.toNat := by decide +kernel
example : outcome (deserS 40 {} none nzTy (.live aliasPump (nzDoc "7"))) =
    0 :: digestS (.struct [("a", .leaf (.int 1)), ("k", .leaf (.int 7))]) := by decide +kernel
-- a sequence element: the element (14); through the alias `*a` (17): alias token and the element's own location
example : outcome (deserS 40 {} none (.struct [("k", .seq (.nonzero false 8))]) (.live aliasPump (aliasDoc "0"))) =
    1 :: 14 :: 0 :: "invalid_value".toList.map Char.toNat := by decide +kernel
example : outcome (deserS 40 {} none (.struct [("j", .seq (.nonzero false 8))]) (.live aliasPump (aliasDoc "0"))) =
    1 :: 17 :: 14 :: "AliasError".toList.map Char.toNat := by decide +kernel
-- a mapping value that is an alias (`a: &z 0` at 12, `k: *z` at 14): alias token and anchored scalar
example : outcome (deserS 40 {} none nzTy (.live aliasPump
    [.ev .streamStart 10, .ev (.docStart false) 10, .ev (.mapStart 0 none) 10,
     .ev (.scalar ['a'] .plain 0 none) 11, .ev (.scalar ['0'] .plain 1 none) 12,
     .ev (.scalar ['k'] .plain 0 none) 13, .ev (.alias 1) 14, .ev .mapEnd 15, .ev .docEnd 15, .ev .streamEnd 15])) =
    1 :: 14 :: 12 :: "AliasError".toList.map Char.toNat := by decide +kernel
-- a merged value (`s: &m {k: 0}` with the 0 at 14, `t: {<<: *m, z: 3}` with the alias at 19): merge entry and source node
example : outcome (deserS 60 {} none (.struct [("t", .map (.nonzero false 8))]) (.live aliasPump
    [.ev .streamStart 10, .ev (.docStart false) 10, .ev (.mapStart 0 none) 10,
     .ev (.scalar ['s'] .plain 0 none) 11, .ev (.mapStart 1 none) 12, .ev (.scalar ['k'] .plain 0 none) 13,
     .ev (.scalar ['0'] .plain 0 none) 14, .ev .mapEnd 15,
     .ev (.scalar ['t'] .plain 0 none) 16, .ev (.mapStart 0 none) 17, .ev (.scalar "<<".toList .plain 0 none) 18,
     .ev (.alias 1) 19, .ev (.scalar ['z'] .plain 0 none) 20, .ev (.scalar ['3'] .plain 0 none) 21, .ev .mapEnd 22,
     .ev .mapEnd 23, .ev .docEnd 23, .ev .streamEnd 23])) =
    1 :: 19 :: 14 :: "AliasError".toList.map Char.toNat := by decide +kernel
-- a top-level call has no guard of its own: no location at all (`from_str::<NonZeroU8>("0")`, C15 `callNonZero`)
example : outcome (deserS 40 {} none (.nonzero false 8) (.live aliasPump
    [.ev .streamStart 10, .ev (.docStart false) 10, .ev (.scalar ['0'] .plain 0 none) 11, .ev .docEnd 12, .ev .streamEnd 12])) =
    1 :: 0 :: 0 :: "invalid_value".toList.map Char.toNat := by decide +kernel

/-- the hypotheses of `static_error_at_value_node` (mapping value, live) on a concrete cursor: the value of `k`
in a replayed `{k: 0}` whose use site is 19 -/
def nzCur : Cur := .replay [.scalar ['0'] 0 none .plain 0 14, .mapEnd 15] 0 (some 19)
example : RaisesStatic 3 {} (.nonzero false 8) nzCur "invalid_value" (.replay [.scalar ['0'] 0 none .plain 0 14, .mapEnd 15] 1 (some 19)) :=
  raisesStatic_nonzero 2 {} false 8 _ _ (by rfl)
example : nzCur.peek = .ok (some (.scalar ['0'] 0 none .plain 0 14)) nzCur ∧ nzCur.refLoc = 19 := ⟨rfl, rfl⟩

#print axioms location_chars_consistent
#print axioms location_bytes_absent_or_exact
#print axioms location_fields_consistent
#print axioms scan_error_location_consistent
#print axioms locations_within_input
#print axioms spanned_plain
#print axioms spanned_plain_replay
#print axioms peek_plain_keeps_inject_empty
#print axioms spanned_alias_replay
#print axioms spanned_alias
#print axioms spanned_merge
#print axioms merge_entry_ref
#print axioms merge_source_entries_ref
#print axioms merge_map_entries_ref
#print axioms merge_seq_element_ref
#print axioms positions_match_spec
#print axioms location_fields_spec
#print axioms deserScalarTyped_err_loc
#print axioms error_location_eq_spanned
#print axioms end_of_stream_location_consistent
#print axioms locationFromSpanIn_of_markAt
#print axioms location_fields_consistent_in_memory
#print axioms alias_error_survives_outer_access
#print axioms error_location_nested
#print axioms static_error_at_seq_element
#print axioms static_error_at_map_value
#print axioms static_error_at_merged_value
#print axioms static_error_at_value_node
#print axioms nonzero_zero_raises_static
#print axioms static_error_survives_outer_access
#print axioms cell_under_guard_is_fb

end SaphyrVerif.Props.C16
