import SaphyrVerif.Props.C04
import SaphyrVerif.Lemmas.C04_LocInv
/-!
# C04, location of the duplicate-key report — `Events::at_alias` is exact

`LiveEvents::at_alias` answers "the top replay frame has served exactly one event".  The theorems of
`Props/C04.lean` use, for a key inside a subtree that is being replayed, that the frame had served at least one
event BEFORE the look-ahead (`key_written_at_replayed`, hypothesis `1 ≤ fr.idx`).  Here: that is an invariant of the
pump — it holds for the empty stack a document starts with and is kept by every `peek` / `next` — so after a
look-ahead `idx == 1` can only belong to a frame that this very look-ahead pushed for an alias token, and a
look-ahead that has not been made yet cannot leave a stale `true` behind for the next node: the frame of a one-event
alias stays (exhausted, `idx == 1`) only until the next pump, which pops it before anything else is served.
(Kept apart from `Props/C04.lean`: the invariant is proved by functional induction on `parserLoop`, see
`Lemmas/C04_LocInv.lean`.)
-/
namespace SaphyrVerif.Props.C04
open SaphyrVerif SaphyrVerif.Scalars SaphyrVerif.Pump SaphyrVerif.De SaphyrVerif.Spec
open SaphyrVerif.Lemmas SaphyrVerif.Lemmas.C04Loc

/-- (T) every replay frame on the stack has served at least one event: true for the empty stack (start of a
document, `reset_document_state`, `skip_to_next_document`), kept by `peek` and by `next` in every state of the pump
(any input, any budget, any limits) -/
theorem replay_frames_have_served (p : Pump) (inp : List RawItem) (h : IdxPos p.inject) :
    IdxPos (Pump.peek p inp).2.1.inject ∧ IdxPos (Pump.next p inp).2.1.inject ∧
    IdxPos p.resetDocumentState.inject ∧ IdxPos (Pump.skipToNextDocument p inp).2.1.inject := by
  refine ⟨peek_idxPos p inp h, next_idxPos p inp h, by simpa [Pump.resetDocumentState] using IdxPos.nil, ?_⟩
  have : ∀ (q : Pump) (l : List RawItem), q.inject = [] → (skipLoop q l).2.1.inject = [] := by
    intro q l
    induction l generalizing q with
    | nil => intro hq; simpa [skipLoop] using hq
    | cons x xs ih =>
      intro hq
      cases x with
      | err a b => simpa [skipLoop] using hq
      | ev raw loc =>
        cases raw
        case docStart b =>
          simp only [skipLoop]
          cases skipBudget q.budget (.docStart b) <;> simp [Pump.resetDocumentState, hq]
        case docEnd =>
          simp only [skipLoop]
          exact ih _ (by simp [Pump.resetDocumentState])
        case streamEnd => simp [skipLoop, hq]
        all_goals (simp only [skipLoop]; exact ih _ hq)
  rw [Pump.skipToNextDocument, this _ _ rfl]
  exact IdxPos.nil

/-- (T) a frame that was on the stack before the look-ahead never makes `at_alias` answer `true`: with the invariant,
the look-ahead inside a replayed buffer leaves `idx ≥ 2` (this is `key_written_at_replayed` with its hypothesis
discharged from the invariant) -/
theorem at_alias_false_on_old_frame (p : Pump) (inp : List RawItem) (fr : InjectFrame) (frs : List InjectFrame)
    (buf : List Ev) (ev : Ev) (p' : Pump) (r : List RawItem)
    (hinv : IdxPos p.inject) (hl : p.look = none) (hi : p.inject = fr :: frs)
    (hb : lookupAnchor p.anchors fr.anchorId = some buf) (hidx : fr.idx < buf.length)
    (h : Pump.peek p inp = (.event ev, p', r)) (c2 : Cur) :
    (Cur.live p' r).atAlias = false ∧ keyWrittenAt (.live p' r) c2 ev = ev.loc := by
  have hpos : 1 ≤ fr.idx := hinv fr (by rw [hi]; exact List.mem_cons_self)
  obtain ⟨-, h2, -⟩ := peek_in_frame p inp fr frs buf ev p' r hl hi hb hidx hpos h
  exact ⟨h2, (key_written_at_replayed p inp fr frs buf ev p' r hl hi hb hidx hpos h c2).1⟩

#print axioms replay_frames_have_served
#print axioms at_alias_false_on_old_frame

end SaphyrVerif.Props.C04
