import SaphyrVerif.Spec.Expand
import SaphyrVerif.Lemmas.C02_Node
import SaphyrVerif.Model.Entry
import SaphyrVerif.Lemmas.C11_Skip
import SaphyrVerif.Lemmas.C11_Docs
import SaphyrVerif.Lemmas.C11_Iter
import SaphyrVerif.Lemmas.C11_Term
import SaphyrVerif.Lemmas.C11_Cex
/-!
# C11 — a multi-document stream is the list of its documents, each on its own

Pump level: the events delivered for a stream of documents are the concatenation of the expansions of
the documents, each expanded from an EMPTY anchor table (anchors are not visible across documents).
Entry level: batch vs iterator, recovery after errors, termination.

History: `read_iter_terminates` was FALSE of the earlier model — `deserialize_unit` / `deserialize_option`
accept a container-end event without consuming it, so the iterator (and the batch loop) yielded the same
item for ever once such an event was peeked at a document root: a stray `]` read as `()`, and also the
well-formed document `[[]]` read as `Option<()>`-like (`option (tuple [])`).  Confirmed on the
implementation and repaired: a container end where a document should start is now the error
`UnexpectedSequenceEnd` / `UnexpectedMappingEnd` (the iterator then recovers at the next document).
`read_iter_terminates` is proved as originally stated (every type, stream and pump state); the two former
witnesses are kept as regression `example`s below.
-/
namespace SaphyrVerif.Props.C11
open SaphyrVerif SaphyrVerif.Scalars SaphyrVerif.Pump SaphyrVerif.Spec SaphyrVerif.De SaphyrVerif.Entry

def initPump (L : AliasLimits) : Pump := { limits := L }

/-- a stream of documents (explicit or implicit starts, with the locations the parser attaches) -/
def docsStream : List (LNode × Bool × Loc × Loc) → List RawItem
  | [] => []
  | (t, explicit, ls, le) :: ds => [.ev (.docStart explicit) ls] ++ itemsOf t ++ [.ev .docEnd le] ++ docsStream ds

def streamOf (ds : List (LNode × Bool × Loc × Loc)) (l0 l1 : Loc) : List RawItem :=
  [.ev .streamStart l0] ++ docsStream ds ++ [.ev .streamEnd l1]

/-- expansion of each document on its own: always from the empty table -/
def expandDocs : List (LNode × Bool × Loc × Loc) → Except ExpErr (List Ev)
  | [] => .ok []
  | (t, _, _, _) :: ds =>
    match expand [] [] t with
    | .error e => .error e
    | .ok r =>
      match expandDocs ds with
      | .error e => .error e
      | .ok rest => .ok (r.evs ++ rest)

/-- generous alias limits (the limits are per document: counters are reset at every boundary) -/
def Unlimited (L : AliasLimits) (ds : List (LNode × Bool × Loc × Loc)) : Prop :=
  1 ≤ L.maxReplayStackDepth ∧
  ∀ d ∈ ds, (∀ r, expand [] [] d.1 = .ok r → r.replayed ≤ L.maxTotalReplayedEvents) ∧
            (∀ id, aliasCount id d.1 ≤ L.maxAliasExpansionsPerAnchor)

/-- (T) from_multiple_eq_map / anchors_not_visible_across_docs at the pump level: the event stream of a
multi-document input is the concatenation of the per-document expansions, each computed from an empty
anchor table — whatever the earlier documents defined. -/
theorem docs_pump_eq_concat (L : AliasLimits) (ds : List (LNode × Bool × Loc × Loc)) (l0 l1 : Loc) (evs : List Ev)
    (hL : Unlimited L ds) (hnf : ∀ d ∈ ds, Lemmas.C02.noFoldedIndent d.1 = true)
    (hexp : expandDocs ds = .ok evs) (hne : ds ≠ []) :
    ∃ n, ∀ fuel, n ≤ fuel →
      ∃ p', pumpAll fuel (initPump L) (streamOf ds l0 l1) [] = some (evs, none, p') := by
  have hitems : ∀ ds, docsStream ds = Lemmas.C11.docsItems ds := by
    intro ds
    induction ds with
    | nil => rfl
    | cons d ds ih => obtain ⟨t, ex, ls, le⟩ := d; simp only [docsStream, Lemmas.C11.docsItems, ih]
  have hexps : ∀ ds, expandDocs ds = Lemmas.C11.expandAll ds := by
    intro ds
    induction ds with
    | nil => rfl
    | cons d ds ih =>
      obtain ⟨t, ex, ls, le⟩ := d
      simp only [expandDocs, Lemmas.C11.expandAll, ih]
      cases expand [] [] t <;> cases Lemmas.C11.expandAll ds <;> rfl
  rw [hexps] at hexp
  unfold streamOf initPump
  rw [hitems]
  rcases Lemmas.C11.stream_run L l0 l1 ds hne with ⟨evs', p', he, hends⟩ | ⟨es, err, p', _, hno⟩
  · rw [hexp] at he
    cases he
    refine ⟨evs.length + 1, fun fuel hf => ⟨p', ?_⟩⟩
    obtain ⟨k, rfl⟩ := Nat.exists_eq_add_of_le hf
    exact Lemmas.C02.pumpAll_fuel_mono _ k _ _ _ _ (Lemmas.C02.pumpAll_ends hends)
  · exact (hno evs hexp hL hnf).elim

set_option linter.unusedVariables false in
/-- (T) anchors_not_visible_across_docs: a document that aliases an anchor defined only in an EARLIER
document is an error — never a stale value. -/
theorem alias_to_earlier_document_is_error (L : AliasLimits) (d1 d2 : LNode) (l0 l1 a b c d : Loc)
    (id : Nat) (aloc : Loc) (fuel : Nat) (evs : List Ev) (p' : Pump)
    (h2 : expand [] [] d2 = .error (.unknown aloc)) :
    pumpAll fuel (initPump L) (streamOf [(d1, false, a, b), (d2, true, c, d)] l0 l1) [] ≠ some (evs, none, p') := by
  intro hrun
  have hitems : docsStream [(d1, false, a, b), (d2, true, c, d)] =
      Lemmas.C11.docsItems [(d1, false, a, b), (d2, true, c, d)] := rfl
  unfold streamOf initPump at hrun
  rw [hitems] at hrun
  rcases Lemmas.C11.stream_run L l0 l1 [(d1, false, a, b), (d2, true, c, d)] (by simp) with
    ⟨evs', q, he, _⟩ | ⟨es, err, q, hstops, _⟩
  · simp only [Lemmas.C11.expandAll, h2] at he
    cases h1 : expand [] [] d1 <;> simp [h1] at he
  · have := Lemmas.C02.run_of_stops hstops hrun
    simp at this

/-- (T) pump_doc_state_reset: whatever the pump has accumulated, once a document boundary has been
processed the per-document state is the initial one (budget, limits, flags and last location aside). -/
theorem pump_doc_state_reset (p : Pump) :
    let q := p.resetDocumentState
    q.inject = [] ∧ q.recStack = [] ∧ q.anchors = [] ∧ q.perAnchor = [] ∧ q.totalReplayed = 0 ∧
    q.budget = p.budget ∧ q.limits = p.limits := by
  simp [Pump.resetDocumentState]

/-- (T) the recovery path leaves a clean per-document state when it finds the next document, and reports
"no further document" at a scan error or at the end of the stream. -/
theorem skip_to_next_document_resets (p : Pump) (inp : List RawItem) (p' : Pump) (rest : List RawItem)
    (h : skipToNextDocument p inp = (true, p', rest)) :
    p'.look = none ∧ p'.inject = [] ∧ p'.recStack = [] ∧ p'.anchors = [] ∧ p'.perAnchor = [] ∧
    p'.totalReplayed = 0 ∧ p'.producedAny = false ∧
    ∃ pre b l, inp = pre ++ .ev (.docStart b) l :: rest ∧ ∀ x ∈ pre, ∀ b' l', x ≠ .ev (.docStart b') l' := by
  unfold skipToNextDocument at h
  obtain ⟨h1, h2, h3, h4, h5, h6, h7, h8⟩ := Lemmas.C11.skipLoop_found inp _ p' rest h
  exact ⟨h1, h2, h3, h4, h5, h6, h7, h8⟩

theorem skip_stops_at_scan_error (p : Pump) (pre : List RawItem) (ua : Bool) (l : Loc) (rest : List RawItem)
    (hpre : ∀ x ∈ pre, (∀ b' l', x ≠ .ev (.docStart b') l') ∧ (∀ l', x ≠ .ev .streamEnd l') ∧ (∀ u l', x ≠ .err u l')) :
    (skipToNextDocument p (pre ++ .err ua l :: rest)).1 = false := by
  unfold skipToNextDocument
  exact Lemmas.C11.skipLoop_err pre ua l rest hpre _

/-- (T) single_rejects_second_document: if, after the value, the pump can deliver one more event, the
single-document entry points return `MultipleDocuments` — never the value. -/
theorem single_rejects_trailing_event (c c' : Cur) (e : Ev) (h : c.peek = .ok (some e) c') :
    ∃ l, enforceSingle c = some ⟨"MultipleDocuments", l, 0⟩ := by
  unfold enforceSingle
  rw [h]
  exact ⟨_, rfl⟩

/-- (T) read_iter_terminates: the iterator's item list stabilises — beyond some number of `next` calls it
only returns `None` (the list no longer grows), for every stream and type. -/
theorem read_iter_terminates (cfg : Cfg) (ty : Ty) (p : Pump) (items : List RawItem) :
    ∃ n, ∀ k, iterLoop cfg ty (n + k) p items [] = iterLoop cfg ty n p items [] := by
  obtain ⟨n, hn⟩ := Lemmas.C11.iter_stabilises cfg ty p items
  exact ⟨n, fun k => hn k []⟩

set_option linter.unusedVariables false in
/-- (T) iter_eq_batch: when the batch function succeeds (no document fails), the iterator — which differs
only in the budget policy — yields exactly the same values, in order (stated without a budget). -/
theorem iter_eq_batch (cfg : Cfg) (ty : Ty) (p : Pump) (items : List RawItem) (vs : List Val)
    (hb : p.budget = none) (h : fromMultiple cfg ty p items = .ok vs) :
    readIter cfg ty p items = vs.map .ok := by
  unfold fromMultiple at h
  unfold readIter
  exact Lemmas.C11.multi_iter cfg ty _ p items [] vs h

-- (E) non-vacuity: two documents re-using the same anchor id space; the second does not see the first's table
def docA : LNode := .seq 0 none 10 19 [.scalar ['x'] .plain 1 none 11, .alias 1 12]
def docB : LNode := .seq 0 none 30 39 [.alias 1 31]
def lim : AliasLimits := { maxTotalReplayedEvents := 5, maxReplayStackDepth := 1, maxAliasExpansionsPerAnchor := 5 }
example : (pumpAll 100 (initPump lim) (streamOf [(docA, false, 2, 3), (docA, true, 4, 5)] 1 9) []).map (fun x => (x.1.length, x.2.1)) = some (8, none) := by
  decide
example : (pumpAll 100 (initPump lim) (streamOf [(docA, false, 2, 3), (docB, true, 4, 5)] 1 9) []).map (·.2.1) = some (some (.unknownAnchor 31)) := by
  decide

-- (E) regression, former witness 1 against termination: a stray `]` at the document root read as `()` — one
-- error item, then the iterator stops (before the repair: `Ok(())` for ever)
example : iterLoop {} .unit 7 (initPump Lemmas.C11.cexLimits) [.ev .seqEnd 1] [] =
    [.error ⟨"UnexpectedSequenceEnd", 1, 0⟩] := Lemmas.C11.cex_now 6
example : readIter {} .unit (initPump Lemmas.C11.cexLimits) [.ev .seqEnd 1] =
    [.error ⟨"UnexpectedSequenceEnd", 1, 0⟩] := Lemmas.C11.cex_now 10

-- (E) regression, former witness 2: the well-formed document `[[]]` read as `Option<()>`-like — two values, then
-- the outer `]` is an error item and the iterator stops (before the repair: `Ok(None)` for ever); the batch
-- entry point returns that error
example : iterLoop {} (.option (.tuple [])) 50 (initPump Lemmas.C11.cexLimits)
      (streamOf [(.seq 0 none 10 19 [.seq 0 none 11 12 []], false, 2, 3)] 1 9) [] =
    [.ok (.some (.seq [])), .ok (.some (.seq [])), .error ⟨"UnexpectedSequenceEnd", 19, 0⟩] :=
  Lemmas.C11.wf_now 47
example : readIter {} (.option (.tuple [])) (initPump Lemmas.C11.cexLimits)
      (streamOf [(.seq 0 none 10 19 [.seq 0 none 11 12 []], false, 2, 3)] 1 9) =
    [.ok (.some (.seq [])), .ok (.some (.seq [])), .error ⟨"UnexpectedSequenceEnd", 19, 0⟩] :=
  Lemmas.C11.wf_now 15
example : fromMultiple {} (.option (.tuple [])) (initPump Lemmas.C11.cexLimits)
      (streamOf [(.seq 0 none 10 19 [.seq 0 none 11 12 []], false, 2, 3)] 1 9) =
    .error ⟨"UnexpectedSequenceEnd", 19, 0⟩ := Lemmas.C11.wf_batch_now

#print axioms docs_pump_eq_concat
#print axioms alias_to_earlier_document_is_error
#print axioms pump_doc_state_reset
#print axioms skip_to_next_document_resets
#print axioms skip_stops_at_scan_error
#print axioms single_rejects_trailing_event
#print axioms read_iter_terminates
#print axioms iter_eq_batch

end SaphyrVerif.Props.C11
