import SaphyrVerif.Spec.Explicit
import SaphyrVerif.Props.C03
import SaphyrVerif.Props.E2E
import SaphyrVerif.Lemmas.C03_TypedE
/-!
# C03 at the level of typed values, and end to end

`Props/C03.lean` is about entry lists (`effEntries`), `Props/C05.lean` about the typed deserializer on replay
cursors, `Props/E2E.lean` about live documents with anchors and aliases.  This file closes the triangle:

1. `eff_idempotent` — the effective entry list of a mapping is an ordinary mapping (no merge entry) whose own
   effective entry list it is, under each of the three duplicate-key policies; and what each policy does
   with repeated own keys (`eff_error`, `eff_firstWins`, `eff_lastWins`).
2. `interp_merge_eq_explicit_partial` — one node: a mapping with merge entries has the typed meaning of the
   ordinary mapping of its effective entries, for every type that does not put an ENUM on the node (and for
   those too when the mapping keeps its one-entry shape); `interp_merge_none` — without effective entries
   every such position is an error.  The statement for ALL types is false (`…_counterexample`: an externally
   tagged enum reads the first RAW key).
   `interp_writeOut_partial` / `interp_explicitTree_partial` — nested, the whole tree: `Spec.writeOut` (total)
   and `Spec.explicitTree` (strict, `Option`) write out every mapping at a value position and every merge
   source, recursively; the typed meaning does not change.  `explicitTree_mergeFree` — the explicit tree has
   no merge entry left at any value position; `writeOut_map_eq` — writing out commutes with merging.
3. `merge_explicit_end_to_end(_total)` — on the LIVE cursor over a document whose merge values are aliases
   (`<<: *base`, `<<: [*a, *b]`) the typed deserializer yields `v` iff the specification assigns `v` to the
   explicit tree of the alias-free expansion of the document; `merge_doc_eq_explicit_doc` — a document with
   merges and a document whose expansion is that explicit tree deserialize to the same value.
-/
namespace SaphyrVerif.Props.C03Typed
open SaphyrVerif SaphyrVerif.Scalars SaphyrVerif.Pump SaphyrVerif.De SaphyrVerif.Spec
open SaphyrVerif.Lemmas
open SaphyrVerif.Lemmas.C02 (noFoldedIndent)
open SaphyrVerif.Props.C02 (initPump)
open SaphyrVerif.Props.C05 (deserTop noKemnKeys tupleFree)
open SaphyrVerif.Props.E2E (deserTopLive)

/-- keys (fingerprints) of an entry list -/
abbrev keyFps (es : List (ENode × ENode)) : List FP := es.map fun p => fpOf p.1

/-- own (non-merge) entries of a mapping, in document order -/
abbrev ownEntries (entries : List (ENode × ENode)) : List (ENode × ENode) := (splitEntries entries).1

/-! ### deciding equalities between trees: through their event lists (`ENode` has no `DecidableEq`) -/

theorem enode_eq_of_eflatten {a b : ENode} (h : eflatten a = eflatten b) : a = b := by
  have h1 := Lemmas.CurSim.treeOf_eflatten a
  rw [h, Lemmas.CurSim.treeOf_eflatten b] at h1
  exact (Option.some.inj h1).symm

theorem opt_enode_eq {x : Option ENode} {y : ENode} (h : x.map eflatten = some (eflatten y)) : x = some y := by
  cases x with
  | none => cases h
  | some a => simp only [Option.map_some, Option.some.injEq] at h; rw [enode_eq_of_eflatten h]

theorem opt_entries_eq {x : Option (List (ENode × ENode))} {y : List (ENode × ENode)}
    (h : x.map (fun es => eflatten (.map 0 0 0 es)) = some (eflatten (.map 0 0 0 y))) : x = some y := by
  cases x with
  | none => cases h
  | some a =>
    simp only [Option.map_some, Option.some.injEq] at h
    have := enode_eq_of_eflatten h
    injection this with _ _ _ h4
    rw [h4]

/-! ## (1) the merged mapping is an explicit mapping -/

/-- (T) eff_idempotent: under each of the three policies, the effective entry list `es` of a mapping contains
no merge entry, and read as a mapping of its own it has itself as effective entry list (under the same
policy): the merged mapping is an explicit mapping. -/
theorem eff_idempotent (dup : DupPolicy) (entries es : List (ENode × ENode)) (h : effEntries dup entries = some es) :
    (∀ e ∈ es, isMergeKeyNode e.1 = false) ∧ effEntries dup es = some es :=
  ⟨C03T.eff_no_merge dup entries es h, C03T.eff_idem dup entries es h⟩

/-- (T) repeated own keys, `Error`: the effective entries exist only if the own keys are pairwise
different; then ALL own entries are delivered, followed by merged ones, and no key occurs twice — so the
result is its own effective entry list under every policy. -/
theorem eff_error (entries es : List (ENode × ENode)) (h : effEntries .error entries = some es) :
    (keyFps (ownEntries entries)).Nodup ∧ (∃ merged, es = ownEntries entries ++ merged) ∧ (keyFps es).Nodup ∧
      ∀ dup', effEntries dup' es = some es := by
  obtain ⟨ownKept, batches, h1, -, rfl⟩ := (C03.effEntries_eq_some_iff .error entries es).1 h
  obtain ⟨rfl, hnd⟩ := C03T.applyPolicy_error_eq _ _ h1
  exact ⟨hnd, ⟨_, rfl⟩, C03T.eff_nodup .error entries _ h (by decide),
    Props.C03.merge_eq_explicit .error entries _ h (by decide)⟩

/-- (T) … and a repeated own key is an error under `Error` (whatever the merge entries are). -/
theorem eff_error_repeated_own_key (entries : List (ENode × ENode)) (h : ¬ (keyFps (ownEntries entries)).Nodup) :
    effEntries .error entries = none := by
  cases he : effEntries .error entries with
  | none => rfl
  | some es => exact absurd (eff_error entries es he).1 h

/-- (T) repeated own keys, `FirstWins`: never an error; of the own entries the FIRST of every key is kept
(`dropSeen`), followed by merged ones; no key occurs twice, so the result is its own effective entry list
under every policy. -/
theorem eff_firstWins (entries es : List (ENode × ENode)) (h : effEntries .firstWins entries = some es) :
    (∃ merged, es = dropSeen (ownEntries entries) [] ++ merged) ∧ (keyFps es).Nodup ∧
      ∀ dup', effEntries dup' es = some es := by
  obtain ⟨ownKept, batches, h1, -, rfl⟩ := (C03.effEntries_eq_some_iff .firstWins entries es).1 h
  rw [C03T.applyPolicy_firstWins_eq] at h1
  cases h1
  exact ⟨⟨_, rfl⟩, C03T.eff_nodup .firstWins entries _ h (by decide),
    Props.C03.merge_eq_explicit .firstWins entries _ h (by decide)⟩

/-- (T) `FirstWins` fails only for an invalid merge value. -/
theorem eff_firstWins_none_iff (entries : List (ENode × ENode)) :
    effEntries .firstWins entries = none ↔ seqSourceEntries (splitEntries entries).2 = none := by
  rw [C03T.effEntries_alt, C03T.applyPolicy_firstWins_eq]
  cases seqSourceEntries (splitEntries entries).2 <;> simp

/-- (T) repeated own keys, `LastWins`: never an error; ALL own entries are delivered in document order,
repeated keys included (the later value overwrites the earlier one only in the user's map type), followed by
merged ones.  The result is its own effective entry list under `LastWins`; it is free of repeated keys
exactly when the own keys are, and otherwise it is NOT an admissible mapping under `Error`. -/
theorem eff_lastWins (entries es : List (ENode × ENode)) (h : effEntries .lastWins entries = some es) :
    (∃ merged, es = ownEntries entries ++ merged) ∧ effEntries .lastWins es = some es ∧
      ((keyFps es).Nodup ↔ (keyFps (ownEntries entries)).Nodup) ∧
      (¬ (keyFps (ownEntries entries)).Nodup → effEntries .error es = none) := by
  obtain ⟨ownKept, batches, h1, h2, rfl⟩ := (C03.effEntries_eq_some_iff .lastWins entries es).1 h
  rw [C04.applyPolicy_lastWins] at h1
  cases h1
  obtain ⟨-, hm2, hm3⟩ := C03.eff_merged_props (ownEntries entries) _ batches h2
  have hiff : (keyFps (ownEntries entries ++ dropSeen batches.flatten (C04.keys (ownEntries entries)).reverse)).Nodup ↔
      (keyFps (ownEntries entries)).Nodup := by
    simp only [keyFps, List.map_append]
    constructor
    · intro hn; exact (List.nodup_append.1 hn).1
    · intro hn
      refine List.nodup_append.2 ⟨hn, hm2, ?_⟩
      intro a ha b hb hab
      obtain ⟨o, ho, rfl⟩ := List.mem_map.1 ha
      obtain ⟨m, hm, rfl⟩ := List.mem_map.1 hb
      exact hm3 m hm o ho hab.symm
  refine ⟨⟨_, rfl⟩, C03T.eff_idem .lastWins entries _ h, hiff, fun hnd => ?_⟩
  apply eff_error_repeated_own_key
  intro hc
  apply hnd
  rw [← hiff]
  have hsplit := C03.splitEntries_of_no_merge _ (C03T.eff_no_merge .lastWins entries _ h)
  simp only [ownEntries] at hc
  rw [hsplit] at hc
  exact hc

/-- (T) `LastWins` fails only for an invalid merge value. -/
theorem eff_lastWins_none_iff (entries : List (ENode × ENode)) :
    effEntries .lastWins entries = none ↔ seqSourceEntries (splitEntries entries).2 = none := by
  rw [C03T.effEntries_alt, C04.applyPolicy_lastWins]
  cases seqSourceEntries (splitEntries entries).2 <;> simp

/-- (T) a merge source is never checked against the policy: as a merge value a mapping delivers, under
EVERY policy, the first entry of each of its keys (own fields first, then its own merge values from last to
first) — its effective entries under first-wins; a repeated key inside a merge source is not an error, not
even under `Error`. -/
theorem merge_source_is_first_wins (entries : List (ENode × ENode)) :
    effEntries .firstWins entries = (mapSourceEntries entries).map (dropSeen · []) :=
  C03T.eff_firstWins_eq entries

/-! ## (2) typed meaning: merge form = explicit form -/

/-- the statement asked for, for ALL types -/
def interp_merge_eq_explicit_Full : Prop :=
  ∀ (cfg : Cfg) (ty : Ty) (a : Nat) (l el : Loc) (entries es : List (ENode × ENode)),
    effEntries cfg.dup entries = some es → interp cfg ty (.map a l el entries) = interp cfg ty (.map a l el es)

def sc (s : String) (l : Loc) : ENode := .scalar s.toList 0 none .plain 0 l
def mk (es : List (ENode × ENode)) : ENode := .map 0 0 0 es

/-- `enum E { A(i32) }` and `enum F { <<(i32) }` (a variant may be renamed to any string) -/
def enumA : Ty := .enum "E" [("A", .newtype (.int true 32))]
def enumM : Ty := .enum "F" [("<<", .newtype (.map .string (.int true 32)))]

/-- (F) interp_merge_eq_explicit is FALSE at an enum position: the externally tagged form `{Variant: payload}`
takes the variant name from the first RAW entry of the mapping (`deserialize_enum` reads the key that follows
`MapStart`; there is no merge processing).  `{<<: {A: 1}}` into `enum E { A(i32) }` is an error (no variant
`<<`) although the explicit mapping `{A: 1}` is `E::A(1)`; `{A: 1, <<: {A: 2}}` (two entries) is an error
although its explicit form `{A: 1}` is accepted; and with a variant named `<<` the merge form is accepted
while the explicit form `{A: 1}` is rejected. -/
theorem interp_merge_eq_explicit_counterexample :
    effEntries .error [(sc "<<" 1, mk [(sc "A" 2, sc "1" 3)])] = some [(sc "A" 2, sc "1" 3)] ∧
    interp {} enumA (mk [(sc "<<" 1, mk [(sc "A" 2, sc "1" 3)])]) = none ∧
    interp {} enumA (mk [(sc "A" 2, sc "1" 3)]) = some (.variant "A" (.int 1)) ∧
    effEntries .error [(sc "A" 4, sc "1" 5), (sc "<<" 1, mk [(sc "A" 2, sc "2" 3)])] = some [(sc "A" 4, sc "1" 5)] ∧
    interp {} enumA (mk [(sc "A" 4, sc "1" 5), (sc "<<" 1, mk [(sc "A" 2, sc "2" 3)])]) = none ∧
    interp {} enumA (mk [(sc "A" 4, sc "1" 5)]) = some (.variant "A" (.int 1)) ∧
    interp {} enumM (mk [(sc "<<" 1, mk [(sc "A" 2, sc "1" 3)])]) =
      some (.variant "<<" (.map [(.str ['A'], .int 1)])) ∧
    interp {} enumM (mk [(sc "A" 2, sc "1" 3)]) = none := by
  refine ⟨opt_entries_eq ?_, ?_, ?_, opt_entries_eq ?_, ?_, ?_, ?_, ?_⟩ <;> decide +kernel

theorem interp_merge_eq_explicit_Full_false : ¬ interp_merge_eq_explicit_Full := by
  intro h
  have h1 := h {} enumA 0 0 0 _ _ interp_merge_eq_explicit_counterexample.1
  have h2 := interp_merge_eq_explicit_counterexample.2.1
  have h3 := interp_merge_eq_explicit_counterexample.2.2.1
  simp only [mk] at h1 h2 h3
  rw [h2, h3] at h1
  cases h1

/-- (T) interp_merge_eq_explicit (strongest true version, one node): for every configuration and every type
that does not put an enum on the node (`enumHead ty = false`: maps, structs, the untyped target, `Option`s and
newtypes of those — and trivially all scalar / sequence / tuple types) — or for EVERY type when the mapping
keeps its "one entry with an ordinary key / not one entry" shape — a mapping with merge entries has the same
typed meaning as the ordinary mapping of its effective entries. -/
theorem interp_merge_eq_explicit_partial (cfg : Cfg) (ty : Ty) (a : Nat) (l el : Loc) (entries es : List (ENode × ENode))
    (h : effEntries cfg.dup entries = some es)
    (hty : enumHead ty = false ∨ shapeStable cfg.dup entries = true) :
    interp cfg ty (.map a l el entries) = interp cfg ty (.map a l el es) :=
  C03T.node_agree cfg a l el entries es h (sizeOf ty) ty (Nat.le_refl _) hty

/-- (T) … and when the mapping has no effective entry list — a merge value that is not a mapping / a
(nested) sequence of mappings / null (`Props.C03.merge_value_kind_check`), or a repeated own key under the
`Error` policy — the mapping is an error at every position that is not an enum position: in particular for
every map-like type (`HashMap`, struct, untyped value, `Option` / newtype of those). -/
theorem interp_merge_none (cfg : Cfg) (ty : Ty) (a : Nat) (l el : Loc) (entries : List (ENode × ENode))
    (h : effEntries cfg.dup entries = none) (hty : enumHead ty = false) :
    interp cfg ty (.map a l el entries) = none :=
  C03T.node_none cfg a l el entries h (sizeOf ty) ty (Nat.le_refl _) hty

/-- `effEntries` is `none` exactly for a repeated own key under `Error` or an invalid merge value -/
theorem eff_none_iff (dup : DupPolicy) (entries : List (ENode × ENode)) :
    effEntries dup entries = none ↔
      applyPolicy dup (ownEntries entries) [] = none ∨ seqSourceEntries (splitEntries entries).2 = none := by
  rw [C03T.effEntries_alt]
  cases applyPolicy dup (splitEntries entries).1 [] <;> cases seqSourceEntries (splitEntries entries).2 <;> simp

/-! ### nested: the whole tree written out -/

/-- the nested statement for ALL types -/
def interp_explicitTree_Full : Prop :=
  ∀ (cfg : Cfg) (ty : Ty) (t t' : ENode), explicitTree cfg.dup t = some t' → interp cfg ty t = interp cfg ty t'

/-- (F) false for the same reason, at an enum position anywhere below the root: `[{<<: {A: 1}}]` into
`Vec<E>`. -/
theorem interp_explicitTree_counterexample :
    explicitTree .error (.seq 0 0 none 0 0 [mk [(sc "<<" 1, mk [(sc "A" 2, sc "1" 3)])]]) =
      some (.seq 0 0 none 0 0 [mk [(sc "A" 2, sc "1" 3)]]) ∧
    interp {} (.seq enumA) (.seq 0 0 none 0 0 [mk [(sc "<<" 1, mk [(sc "A" 2, sc "1" 3)])]]) = none ∧
    interp {} (.seq enumA) (.seq 0 0 none 0 0 [mk [(sc "A" 2, sc "1" 3)]]) = some (.seq [.variant "A" (.int 1)]) := by
  refine ⟨opt_enode_eq ?_, ?_, ?_⟩ <;> decide +kernel

theorem interp_explicitTree_Full_false : ¬ interp_explicitTree_Full := by
  intro h
  obtain ⟨h0, h2, h3⟩ := interp_explicitTree_counterexample
  have h1 := h {} (.seq enumA) _ _ h0
  rw [h2, h3] at h1
  cases h1

/-- (T) interp_merge_eq_explicit, nested, total form (strongest true version): for every configuration,
EVERY tree `t` and every type — provided that no enum stands at a value position of the type (`enumFree`; this
covers all map / struct / untyped / sequence / tuple / `Option` targets built from non-enum leaves) OR every
mapping of the tree keeps its one-entry shape (`enumStable`, any type) — `t` and its written-out form
`writeOut cfg.dup t` have the same typed meaning.  `writeOut` replaces every mapping at a value position by
the ordinary mapping of its effective entries and every merge source by its first-wins entries, recursively
(`Spec/Explicit.lean`); a mapping without effective entries stays as written (an error in both forms). -/
theorem interp_writeOut_partial (cfg : Cfg) (ty : Ty) (t : ENode)
    (hty : enumFree ty = true ∨ enumStable cfg.dup t = true) : interp cfg ty t = interp cfg ty (writeOut cfg.dup t) :=
  C03T.writeOut_interp cfg ty t hty

/-- (T) interp_merge_eq_explicit, nested, in the form asked for: when the strict explicit tree
`explicitTree cfg.dup t = some t'` exists (every mapping of `t` has effective entries), `t` and `t'` have the
same typed meaning (same side condition). -/
theorem interp_explicitTree_partial (cfg : Cfg) (ty : Ty) (t t' : ENode) (hx : explicitTree cfg.dup t = some t')
    (hty : enumFree ty = true ∨ enumStable cfg.dup t = true) : interp cfg ty t = interp cfg ty t' :=
  C03T.explicit_interp cfg ty t t' hx hty

/-- (T) where the strict form exists it is the written-out form -/
theorem explicitTree_eq_writeOut (dup : DupPolicy) (t t' : ENode) (hx : explicitTree dup t = some t') :
    writeOut dup t = t' :=
  C03T.writeOut_of_explicitTree dup t t' hx

/-- (T) the explicit tree is explicit: no mapping at a value position of `t'` has a merge entry any more
(so the theorems above are not about the identity function). -/
theorem explicitTree_mergeFree (dup : DupPolicy) (t t' : ENode) (hx : explicitTree dup t = some t') :
    mergeFree t' = true :=
  C03T.explicitTree_mergeFree dup t t' hx

/-- (T) writing out commutes with merging: the written-out form of a mapping is the ordinary mapping of the
effective entries of the ORIGINAL mapping with their values written out (same keys, same order); a mapping
without effective entries is left as written. -/
theorem writeOut_map_eq (dup : DupPolicy) (a : Nat) (l el : Loc) (entries : List (ENode × ENode)) :
    writeOut dup (.map a l el entries) =
      match effEntries dup entries with
      | some es => .map a l el (es.map fun e => (e.1, writeOut dup e.2))
      | none => .map a l el entries := by
  have hmap : ∀ {x y : List (ENode × ENode)}, C03T.VRel dup x y → y = x.map fun e => (e.1, writeOut dup e.2) := by
    intro x y hv
    induction hv with
    | nil => rfl
    | cons hvv _ ih => simp [ih, hvv]
  have hrel := C03T.effEntries_writeOut dup entries
  rw [C03T.writeOut_map]
  cases hf : effEntries dup (writeOutE dup entries) with
  | none =>
    rw [hf] at hrel
    rw [(hrel.none_iff).2 rfl]
  | some es' =>
    rw [hf] at hrel
    obtain ⟨es, hes, hv⟩ := hrel.of_some_right
    rw [hes, hmap hv]

/-- (T) the written-out mapping is its own effective entry list: `writeOut` produces explicit mappings -/
theorem writeOut_map_explicit (dup : DupPolicy) (a : Nat) (l el : Loc) (entries es : List (ENode × ENode))
    (h : effEntries dup entries = some es) :
    ∃ es', writeOut dup (.map a l el entries) = .map a l el es' ∧ effEntries dup es' = some es' ∧
      (∀ e ∈ es', isMergeKeyNode e.1 = false) := by
  have hrel := C03T.effEntries_writeOut dup entries
  rw [h] at hrel
  obtain ⟨es', hf, -⟩ := hrel.of_some_left
  refine ⟨es', by rw [C03T.writeOut_map, hf], C03T.eff_idem dup _ es' hf, C03T.eff_no_merge dup _ es' hf⟩

/-- (F, by design) keys must NOT be written out: the identity of a key is its structure as written.  The
two keys `{<<: {a: 1}}` and `{a: 1}` are different keys (no duplicate under `Error`, both delivered — both
with the value `{a: 1}` at a `HashMap<String, i32>` key position), whereas writing the first key out would make
them collide and turn the document into an error. -/
theorem explicit_keys_would_be_unsound :
    interp {} (.map (.map .string (.int true 32)) .string)
      (mk [(mk [(sc "<<" 1, mk [(sc "a" 2, sc "1" 3)])], sc "x" 4), (mk [(sc "a" 5, sc "1" 6)], sc "y" 7)]) =
      some (.map [(.map [(.str ['a'], .int 1)], .str ['x']), (.map [(.str ['a'], .int 1)], .str ['y'])]) ∧
    interp {} (.map (.map .string (.int true 32)) .string)
      (mk [(mk [(sc "a" 2, sc "1" 3)], sc "x" 4), (mk [(sc "a" 5, sc "1" 6)], sc "y" 7)]) = none ∧
    explicitTree .error
      (mk [(mk [(sc "<<" 1, mk [(sc "a" 2, sc "1" 3)])], sc "x" 4), (mk [(sc "a" 5, sc "1" 6)], sc "y" 7)]) =
      some (mk [(mk [(sc "<<" 1, mk [(sc "a" 2, sc "1" 3)])], sc "x" 4), (mk [(sc "a" 5, sc "1" 6)], sc "y" 7)]) := by
  refine ⟨?_, ?_, opt_enode_eq ?_⟩ <;> decide +kernel

/-! ## (3) end to end: live documents with aliased merge values -/

/-- (T) merge_explicit_end_to_end, total form: for every document tree `t` (anchors, aliases; in particular
merge values that are aliases, `<<: *base`, `<<: [*a, *b]`) whose expansion `r` exists and stays within the
alias limits (the hypotheses of `Props.E2E.typed_alias_transparent_interp`), with `n` the tree of the expansion
(every alias replaced by a copy of its anchored node): for all large enough fuel the typed deserializer on the
LIVE cursor over the document yields `v` iff the specification assigns `v` to the written-out tree
`writeOut cfg.dup n` — what the user gets is the typed value of the explicitly merged mapping.
(`noKemnKeys`, `tupleFree`: as in `Props.C05`; the enum side condition: see `interp_writeOut_partial`.) -/
theorem merge_explicit_end_to_end_total (L : AliasLimits) (t : LNode) (l0 l1 l2 l3 : Loc) (r : Exp) (n : ENode)
    (hnf : noFoldedIndent t = true) (hexp : expand [] [] t = .ok r)
    (hL1 : 1 ≤ L.maxReplayStackDepth) (hL2 : r.replayed ≤ L.maxTotalReplayedEvents)
    (hL3 : ∀ id, aliasCount id t ≤ L.maxAliasExpansionsPerAnchor)
    (hn : treeOf r.evs = some n) (hk : noKemnKeys n = true)
    (cfg : Cfg) (ty : Ty) (hty : tupleFree ty = true)
    (he : enumFree ty = true ∨ enumStable cfg.dup n = true) :
    ∃ N, ∀ fuel, N ≤ fuel → ∀ v,
      (deserTopLive fuel cfg ty (initPump L) (docStream t l0 l1 l2 l3) = some v ↔
        interp cfg ty (writeOut cfg.dup n) = some v) := by
  obtain ⟨N, hN⟩ := Props.E2E.typed_alias_transparent_interp L t l0 l1 l2 l3 r n hnf hexp hL1 hL2 hL3 hn hk cfg ty hty
  refine ⟨N, fun fuel hf v => ?_⟩
  rw [← interp_writeOut_partial cfg ty n he]
  exact (hN fuel hf v).2

/-- (T) merge_explicit_end_to_end (the form asked for): … iff `interp` of the explicit tree
`explicitTree cfg.dup n = some n'` of the document's alias-free expansion yields `v`. -/
theorem merge_explicit_end_to_end (L : AliasLimits) (t : LNode) (l0 l1 l2 l3 : Loc) (r : Exp) (n n' : ENode)
    (hnf : noFoldedIndent t = true) (hexp : expand [] [] t = .ok r)
    (hL1 : 1 ≤ L.maxReplayStackDepth) (hL2 : r.replayed ≤ L.maxTotalReplayedEvents)
    (hL3 : ∀ id, aliasCount id t ≤ L.maxAliasExpansionsPerAnchor)
    (hn : treeOf r.evs = some n) (hk : noKemnKeys n = true)
    (cfg : Cfg) (ty : Ty) (hty : tupleFree ty = true)
    (hx : explicitTree cfg.dup n = some n') (he : enumFree ty = true ∨ enumStable cfg.dup n = true) :
    ∃ N, ∀ fuel, N ≤ fuel → ∀ v,
      (deserTopLive fuel cfg ty (initPump L) (docStream t l0 l1 l2 l3) = some v ↔ interp cfg ty n' = some v) := by
  rw [← explicitTree_eq_writeOut cfg.dup n n' hx]
  exact merge_explicit_end_to_end_total L t l0 l1 l2 l3 r n hnf hexp hL1 hL2 hL3 hn hk cfg ty hty he

/-- (T) soundness half for ALL types (tuples included) and EVERY fuel value: whatever the live run over the
document accepts is the typed value of the written-out tree. -/
theorem merge_explicit_end_to_end_sound (L : AliasLimits) (t : LNode) (l0 l1 l2 l3 : Loc) (r : Exp) (n : ENode)
    (hnf : noFoldedIndent t = true) (hexp : expand [] [] t = .ok r)
    (hL1 : 1 ≤ L.maxReplayStackDepth) (hL2 : r.replayed ≤ L.maxTotalReplayedEvents)
    (hL3 : ∀ id, aliasCount id t ≤ L.maxAliasExpansionsPerAnchor)
    (hn : treeOf r.evs = some n) (hk : noKemnKeys n = true)
    (cfg : Cfg) (ty : Ty) (he : enumFree ty = true ∨ enumStable cfg.dup n = true)
    (fuel : Nat) (v : Val)
    (h : deserTopLive fuel cfg ty (initPump L) (docStream t l0 l1 l2 l3) = some v) :
    interp cfg ty (writeOut cfg.dup n) = some v := by
  rw [← interp_writeOut_partial cfg ty n he]
  exact Props.E2E.typed_alias_transparent_sound L t l0 l1 l2 l3 r n hnf hexp hL1 hL2 hL3 hn hk cfg ty fuel v h

/-- (T) the same for the entry-point protocol `from_str` / `from_reader` (`Model/Entry.lean: fromSingle`, with
its own fuel): an accepted document has the typed value of its written-out tree. -/
theorem merge_explicit_fromSingle_sound (L : AliasLimits) (t : LNode) (l0 l1 l2 l3 : Loc) (r : Exp) (n : ENode)
    (hnf : noFoldedIndent t = true) (hexp : expand [] [] t = .ok r)
    (hL1 : 1 ≤ L.maxReplayStackDepth) (hL2 : r.replayed ≤ L.maxTotalReplayedEvents)
    (hL3 : ∀ id, aliasCount id t ≤ L.maxAliasExpansionsPerAnchor)
    (hn : treeOf r.evs = some n) (hk : noKemnKeys n = true)
    (cfg : Cfg) (ty : Ty) (he : enumFree ty = true ∨ enumStable cfg.dup n = true) (v : Val)
    (h : (Entry.fromSingle cfg ty (initPump L) (docStream t l0 l1 l2 l3)).toOption = some v) :
    interp cfg ty (writeOut cfg.dup n) = some v := by
  rw [Props.E2E.fromSingle_alias_transparent L t l0 l1 l2 l3 r hnf hexp hL1 hL2 hL3] at h
  obtain ⟨m, hm, he'⟩ := Props.E2E.expansion_tree t r hexp
  rw [hn] at hm
  cases hm
  rw [he'] at h
  rw [← interp_writeOut_partial cfg ty n he]
  exact Props.C05.deser_top_sound cfg ty n hk _ v h

/-- (T) an invalid merge value (or a repeated own key under `Error`) at the root mapping of the expansion
makes the live run fail, for every fuel and every type that does not put an enum on the root. -/
theorem merge_invalid_end_to_end (L : AliasLimits) (t : LNode) (l0 l1 l2 l3 : Loc) (r : Exp)
    (a : Nat) (l el : Loc) (entries : List (ENode × ENode))
    (hnf : noFoldedIndent t = true) (hexp : expand [] [] t = .ok r)
    (hL1 : 1 ≤ L.maxReplayStackDepth) (hL2 : r.replayed ≤ L.maxTotalReplayedEvents)
    (hL3 : ∀ id, aliasCount id t ≤ L.maxAliasExpansionsPerAnchor)
    (hn : treeOf r.evs = some (.map a l el entries)) (hk : noKemnKeys (.map a l el entries) = true)
    (cfg : Cfg) (ty : Ty) (hty : enumHead ty = false) (hnone : effEntries cfg.dup entries = none) (fuel : Nat) :
    deserTopLive fuel cfg ty (initPump L) (docStream t l0 l1 l2 l3) = none := by
  cases h : deserTopLive fuel cfg ty (initPump L) (docStream t l0 l1 l2 l3) with
  | none => rfl
  | some v =>
    have := Props.E2E.typed_alias_transparent_sound L t l0 l1 l2 l3 r _ hnf hexp hL1 hL2 hL3 hn hk cfg ty fuel v h
    rw [interp_merge_none cfg ty a l el entries hnone hty] at this
    cases this

/-- (T) merge document = explicit document: a document `t` with (aliased) merges and ANY document `t2` whose
expansion is the written-out tree of the expansion of `t` — for instance the same data written out by hand
without `<<` — deserialize, on their live cursors, to the same result for all large enough fuel. -/
theorem merge_doc_eq_explicit_doc (L L2 : AliasLimits) (t t2 : LNode) (l0 l1 l2 l3 m0 m1 m2 m3 : Loc) (r r2 : Exp)
    (n : ENode)
    (hnf : noFoldedIndent t = true) (hexp : expand [] [] t = .ok r)
    (hL1 : 1 ≤ L.maxReplayStackDepth) (hL2 : r.replayed ≤ L.maxTotalReplayedEvents)
    (hL3 : ∀ id, aliasCount id t ≤ L.maxAliasExpansionsPerAnchor)
    (hn : treeOf r.evs = some n) (hk : noKemnKeys n = true)
    (cfg : Cfg)
    (hnf2 : noFoldedIndent t2 = true) (hexp2 : expand [] [] t2 = .ok r2)
    (hM1 : 1 ≤ L2.maxReplayStackDepth) (hM2 : r2.replayed ≤ L2.maxTotalReplayedEvents)
    (hM3 : ∀ id, aliasCount id t2 ≤ L2.maxAliasExpansionsPerAnchor)
    (hn2 : treeOf r2.evs = some (writeOut cfg.dup n)) (hk2 : noKemnKeys (writeOut cfg.dup n) = true)
    (ty : Ty) (hty : tupleFree ty = true)
    (he : enumFree ty = true ∨ enumStable cfg.dup n = true) :
    ∃ N, ∀ fuel, N ≤ fuel →
      deserTopLive fuel cfg ty (initPump L) (docStream t l0 l1 l2 l3) =
        deserTopLive fuel cfg ty (initPump L2) (docStream t2 m0 m1 m2 m3) := by
  obtain ⟨N1, h1⟩ := merge_explicit_end_to_end_total L t l0 l1 l2 l3 r n hnf hexp hL1 hL2 hL3 hn hk cfg ty hty he
  obtain ⟨N2, h2⟩ := Props.E2E.typed_alias_transparent_interp L2 t2 m0 m1 m2 m3 r2 _ hnf2 hexp2 hM1 hM2 hM3 hn2 hk2
    cfg ty hty
  refine ⟨max N1 N2, fun fuel hf => ?_⟩
  have a1 := h1 fuel (by omega)
  have a2 := fun v => (h2 fuel (by omega) v).2
  cases hd : deserTopLive fuel cfg ty (initPump L) (docStream t l0 l1 l2 l3) with
  | some v => exact ((a2 v).2 ((a1 v).1 hd)).symm
  | none =>
    cases hd2 : deserTopLive fuel cfg ty (initPump L2) (docStream t2 m0 m1 m2 m3) with
    | none => rfl
    | some v =>
      have := (a1 v).2 ((a2 v).1 hd2)
      rw [hd] at this
      cases this

/-! ## (E) non-vacuity -/

-- (1): `{a: 1, a: 2, <<: {a: 3, b: 4, b: 5}}` under the three policies
def dupDemo : List (ENode × ENode) :=
  [(sc "a" 1, sc "1" 2), (sc "a" 3, sc "2" 4), (sc "<<" 5, mk [(sc "a" 6, sc "3" 7), (sc "b" 8, sc "4" 9), (sc "b" 10, sc "5" 11)])]
example : effEntries .error dupDemo = none := by decide +kernel
example : (effEntries .firstWins dupDemo).map (·.map fun p => (p.1.loc, p.2.loc)) = some [(1, 2), (8, 9)] := by
  decide +kernel
example : (effEntries .lastWins dupDemo).map (·.map fun p => (p.1.loc, p.2.loc)) = some [(1, 2), (3, 4), (8, 9)] := by
  decide +kernel
/-- the hypotheses of `eff_idempotent` / `eff_lastWins` hold on it, with a repeated own key -/
example : ∃ es, effEntries .lastWins dupDemo = some es ∧ effEntries .lastWins es = some es ∧ effEntries .error es = none := by
  cases h : effEntries .lastWins dupDemo with
  | none => exact absurd h (by decide +kernel)
  | some es =>
    obtain ⟨-, h2, -, h4⟩ := eff_lastWins dupDemo es h
    refine ⟨es, rfl, h2, h4 (fun hnd => ?_)⟩
    have hnone : applyPolicy .error (ownEntries dupDemo) [] = none := by decide +kernel
    exact (C04.applyPolicy_error_none_iff _ []).1 hnone ⟨hnd, by simp⟩
/-- a repeated key inside the merge SOURCE is not an error under `Error`: the first one wins -/
example : (effEntries .error [(sc "<<" 5, mk [(sc "b" 8, sc "4" 9), (sc "b" 10, sc "5" 11)])]).map
    (·.map fun p => (p.1.loc, p.2.loc)) = some [(8, 9)] := by decide +kernel

-- (2): one node, struct target, merge sequence with a nested merge in a source
def nodeDemo : List (ENode × ENode) :=
  [(sc "b" 1, sc "9" 2),
   (sc "<<" 3, .seq 0 0 none 4 4 [mk [(sc "<<" 5, mk [(sc "a" 6, sc "1" 7), (sc "b" 8, sc "2" 9)]), (sc "c" 10, sc "3" 11)],
                                   mk [(sc "c" 12, sc "30" 13), (sc "d" 14, sc "4" 15)]])]
def nodeTy : Ty := .struct [("a", .int true 32), ("b", .int true 32), ("c", .int true 32), ("d", .option (.int true 32))] true
example : (effEntries .error nodeDemo).map (·.map fun p => (p.1.loc, p.2.loc)) =
    some [(1, 2), (12, 13), (14, 15), (6, 7)] := by decide +kernel
example : interp {} nodeTy (mk nodeDemo) =
    some (.struct [("a", .int 1), ("b", .int 9), ("c", .int 30), ("d", .some (.int 4))]) := by decide +kernel
example : ∃ es, effEntries .error nodeDemo = some es ∧ interp {} nodeTy (mk nodeDemo) = interp {} nodeTy (mk es) := by
  cases h : effEntries .error nodeDemo with
  | none => exact absurd h (by decide +kernel)
  | some es => exact ⟨es, rfl, interp_merge_eq_explicit_partial {} nodeTy 0 0 0 nodeDemo es h (Or.inl (by decide))⟩
/-- an invalid merge value: `{<<: x}` -/
example : interp {} nodeTy (mk [(sc "<<" 1, sc "x" 2)]) = none :=
  interp_merge_none {} nodeTy 0 0 0 _ (by decide +kernel) (by decide)

/-! ### the end-to-end example

```yaml
x: &1 {a: 1, b: 2}
y: &2 {<<: *1, c: 3}          # a merge inside a (later) merge source
z: &3 {c: 30, d: 4}
r: {b: 9, <<: [*2, *3]}       # two merge sources, the own key `b` overrides, `*3` overrides `*2` on `c`
```
-/

def lsc (s : String) (l : Loc) : LNode := .scalar s.toList .plain 0 none l

def demo : LNode :=
  .map 0 none 10 99 [
    (lsc "x" 11, .map 1 none 12 19 [(lsc "a" 13, lsc "1" 14), (lsc "b" 15, lsc "2" 16)]),
    (lsc "y" 20, .map 2 none 21 29 [(lsc "<<" 22, .alias 1 23), (lsc "c" 24, lsc "3" 25)]),
    (lsc "z" 30, .map 3 none 31 39 [(lsc "c" 32, lsc "30" 33), (lsc "d" 34, lsc "4" 35)]),
    (lsc "r" 40, .map 0 none 41 49 [(lsc "b" 42, lsc "9" 43),
      (lsc "<<" 44, .seq 0 none 45 48 [.alias 2 46, .alias 3 47])])]

/-- the same data written out by hand: no aliases, no `<<` (the anchors are still there, unused) -/
def demoFlat : LNode :=
  .map 0 none 10 99 [
    (lsc "x" 11, .map 1 none 12 19 [(lsc "a" 13, lsc "1" 14), (lsc "b" 15, lsc "2" 16)]),
    (lsc "y" 20, .map 2 none 21 29 [(lsc "c" 24, lsc "3" 25), (lsc "a" 13, lsc "1" 14), (lsc "b" 15, lsc "2" 16)]),
    (lsc "z" 30, .map 3 none 31 39 [(lsc "c" 32, lsc "30" 33), (lsc "d" 34, lsc "4" 35)]),
    (lsc "r" 40, .map 0 none 41 49 [(lsc "b" 42, lsc "9" 43), (lsc "c" 32, lsc "30" 33), (lsc "d" 34, lsc "4" 35),
      (lsc "a" 13, lsc "1" 14)])]

def demoL : AliasLimits := { maxTotalReplayedEvents := 40, maxReplayStackDepth := 1, maxAliasExpansionsPerAnchor := 1 }

def demoR : Exp := match expand [] [] demo with
  | .ok r => r
  | .error _ => ⟨[], [], 0⟩
def demoFlatR : Exp := match expand [] [] demoFlat with
  | .ok r => r
  | .error _ => ⟨[], [], 0⟩

/-- the tree of the expansion: every alias replaced by a copy of its anchored node (merge keys still there) -/
def demoTree : ENode := (treeOf demoR.evs).getD default
/-- its explicit tree -/
def demoExplicit : ENode := (explicitTree .error demoTree).getD default

def demoTy : Ty := .map .string (.map .string (.int true 32))

def demoVal : Val :=
  .map [(.str "x".toList, .map [(.str "a".toList, .int 1), (.str "b".toList, .int 2)]),
        (.str "y".toList, .map [(.str "c".toList, .int 3), (.str "a".toList, .int 1), (.str "b".toList, .int 2)]),
        (.str "z".toList, .map [(.str "c".toList, .int 30), (.str "d".toList, .int 4)]),
        (.str "r".toList, .map [(.str "b".toList, .int 9), (.str "c".toList, .int 30), (.str "d".toList, .int 4),
                                (.str "a".toList, .int 1)])]

theorem expand_eq_of_toOption {t : LNode} {r : Exp} (h : (expand [] [] t).toOption = some r) : expand [] [] t = .ok r := by
  cases hx : expand [] [] t with
  | error e => rw [hx] at h; cases h
  | ok r' =>
    rw [hx] at h
    simp only [Except.toOption, Option.some.injEq] at h
    rw [h]

theorem demo_expand : expand [] [] demo = .ok demoR := expand_eq_of_toOption (by decide +kernel)
theorem demoFlat_expand : expand [] [] demoFlat = .ok demoFlatR := expand_eq_of_toOption (by decide +kernel)
theorem demo_tree : treeOf demoR.evs = some demoTree := by
  obtain ⟨n, hn, -⟩ := Props.E2E.expansion_tree demo demoR demo_expand
  simp [demoTree, hn]
theorem demo_explicit : explicitTree .error demoTree = some demoExplicit := by
  cases h : explicitTree .error demoTree with
  | none => exact absurd h (by decide +kernel)
  | some t' => simp [demoExplicit, h]
theorem demo_writeOut : writeOut ({} : Cfg).dup demoTree = demoExplicit :=
  explicitTree_eq_writeOut _ _ _ demo_explicit
/-- the expansion of the hand-written document IS the explicit tree of the expansion of the merge document -/
theorem demoFlat_tree : treeOf demoFlatR.evs = some demoExplicit := by
  have h : demoFlatR.evs = eflatten demoExplicit := by decide +kernel
  rw [h, Lemmas.CurSim.treeOf_eflatten]
theorem demo_noFolded : noFoldedIndent demo = true := by decide
theorem demoFlat_noFolded : noFoldedIndent demoFlat = true := by decide
theorem demo_replayed : demoR.replayed ≤ demoL.maxTotalReplayedEvents := by decide +kernel
theorem demoFlat_replayed : demoFlatR.replayed ≤ demoL.maxTotalReplayedEvents := by decide +kernel
theorem demo_aliases : ∀ id, aliasCount id demo ≤ demoL.maxAliasExpansionsPerAnchor := by
  intro id
  simp only [demo, lsc, aliasCount, aliasCountE, aliasCountL, demoL, beq_iff_eq]
  repeat' split
  all_goals omega
theorem demoFlat_aliases : ∀ id, aliasCount id demoFlat ≤ demoL.maxAliasExpansionsPerAnchor := by
  intro id
  simp only [demoFlat, lsc, aliasCount, aliasCountE, demoL]
  omega
theorem demo_noKemn : noKemnKeys demoTree = true := by decide +kernel
theorem demoExplicit_noKemn : noKemnKeys demoExplicit = true := by decide +kernel
theorem demo_tupleFree : tupleFree demoTy = true := by decide +kernel
theorem demo_enumFree : enumFree demoTy = true := by decide +kernel

/-- the merge keys are in the expansion tree, and gone from the explicit tree -/
example : mergeFree demoTree = false ∧ mergeFree demoExplicit = true := by constructor <;> decide +kernel
example : enumStable .error demoTree = true := by decide +kernel

/-- the typed value of the explicit tree … -/
theorem demo_interp_explicit : interp {} demoTy demoExplicit = some demoVal := by decide +kernel

/-- … is, by `merge_explicit_end_to_end`, what the live run over the merge document yields -/
example : ∃ N, ∀ fuel, N ≤ fuel → deserTopLive fuel {} demoTy (initPump demoL) (docStream demo 1 2 3 4) = some demoVal := by
  obtain ⟨N, hN⟩ := merge_explicit_end_to_end demoL demo 1 2 3 4 demoR demoTree demoExplicit demo_noFolded demo_expand
    (by decide) demo_replayed demo_aliases demo_tree demo_noKemn {} demoTy demo_tupleFree demo_explicit (Or.inl demo_enumFree)
  exact ⟨N, fun fuel hf => (hN fuel hf demoVal).2 demo_interp_explicit⟩

/-- the live run itself (fuel 300), evaluated -/
example : deserTopLive 300 {} demoTy (initPump demoL) (docStream demo 1 2 3 4) = some demoVal := by
  rw [Props.E2E.typed_alias_transparent_top demoL demo 1 2 3 4 demoR demo_noFolded demo_expand (by decide) demo_replayed
    demo_aliases]
  decide +kernel

/-- the soundness theorem applied to it -/
example : interp {} demoTy (writeOut .error demoTree) = some demoVal :=
  merge_explicit_end_to_end_sound demoL demo 1 2 3 4 demoR demoTree demo_noFolded demo_expand
    (by decide) demo_replayed demo_aliases demo_tree demo_noKemn {} demoTy (Or.inl demo_enumFree) 300 demoVal
    (by
      rw [Props.E2E.typed_alias_transparent_top demoL demo 1 2 3 4 demoR demo_noFolded demo_expand (by decide)
        demo_replayed demo_aliases]
      decide +kernel)

/-- the merge document and the hand-written explicit document deserialize to the same result -/
example : ∃ N, ∀ fuel, N ≤ fuel →
    deserTopLive fuel {} demoTy (initPump demoL) (docStream demo 1 2 3 4) =
      deserTopLive fuel {} demoTy (initPump demoL) (docStream demoFlat 5 6 7 8) :=
  merge_doc_eq_explicit_doc demoL demoL demo demoFlat 1 2 3 4 5 6 7 8 demoR demoFlatR demoTree
    demo_noFolded demo_expand (by decide) demo_replayed demo_aliases demo_tree demo_noKemn {}
    demoFlat_noFolded demoFlat_expand (by decide) demoFlat_replayed demoFlat_aliases
    (by rw [demo_writeOut]; exact demoFlat_tree) (by rw [demo_writeOut]; exact demoExplicit_noKemn)
    demoTy demo_tupleFree (Or.inl demo_enumFree)

/-- a struct target with an enum field: `enumFree` fails, `enumStable` holds — `{k: {<<: *1, m: B}}` with
`&1 {n: 1}` elsewhere is fine because no mapping of the document changes its one-entry shape -/
def enumTy : Ty := .map .string (.struct [("m", .enum "E" [("A", .newtype (.int true 32)), ("B", .unit)]), ("n", .int true 32)] false)
def enumTree : ENode :=
  mk [(sc "k" 1, mk [(sc "<<" 2, mk [(sc "n" 3, sc "1" 4)]), (sc "m" 5, mk [(sc "A" 6, sc "7" 7)])])]
example : enumFree enumTy = false ∧ enumStable .error enumTree = true := by constructor <;> decide +kernel
example : ∃ t', explicitTree .error enumTree = some t' ∧ interp {} enumTy enumTree = interp {} enumTy t' ∧
    interp {} enumTy t' = some (.map [(.str ['k'], .struct [("m", .variant "A" (.int 7)), ("n", .int 1)])]) := by
  cases h : explicitTree .error enumTree with
  | none => exact absurd h (by decide +kernel)
  | some t' =>
    have := interp_explicitTree_partial {} enumTy enumTree t' h (Or.inr (by decide +kernel))
    refine ⟨t', rfl, this, ?_⟩
    rw [← this]
    decide +kernel

/-- `explicitTree` is strict, `writeOut` is not: in `{a: 1, <<: {a: {<<: x}}}` the merged entry `a` is dropped
(own key), so its invalid inner merge is never looked at — the deserializer accepts; `explicitTree` is undefined,
`writeOut` gives `{a: 1}` and the total theorem applies. -/
def strictDemo : ENode := mk [(sc "a" 1, sc "1" 2), (sc "<<" 3, mk [(sc "a" 4, mk [(sc "<<" 5, sc "x" 6)])])]
example : explicitTree .error strictDemo = none := by decide +kernel
example : eflatten (writeOut .error strictDemo) = eflatten (mk [(sc "a" 1, sc "1" 2)]) := by decide +kernel
example : deserTop 100 {} (.map .string (.int true 32)) (eflatten strictDemo) = some (.map [(.str ['a'], .int 1)]) := by
  decide +kernel
example : interp {} (.map .string (.int true 32)) strictDemo = interp {} (.map .string (.int true 32)) (writeOut .error strictDemo) :=
  interp_writeOut_partial {} _ strictDemo (Or.inl (by decide +kernel))

#print axioms eff_idempotent
#print axioms eff_error
#print axioms eff_error_repeated_own_key
#print axioms eff_firstWins
#print axioms eff_firstWins_none_iff
#print axioms eff_lastWins
#print axioms eff_lastWins_none_iff
#print axioms merge_source_is_first_wins
#print axioms interp_merge_eq_explicit_counterexample
#print axioms interp_merge_eq_explicit_Full_false
#print axioms interp_merge_eq_explicit_partial
#print axioms interp_merge_none
#print axioms eff_none_iff
#print axioms interp_explicitTree_counterexample
#print axioms interp_explicitTree_Full_false
#print axioms interp_writeOut_partial
#print axioms interp_explicitTree_partial
#print axioms explicitTree_eq_writeOut
#print axioms explicitTree_mergeFree
#print axioms writeOut_map_eq
#print axioms writeOut_map_explicit
#print axioms explicit_keys_would_be_unsound
#print axioms merge_explicit_end_to_end_total
#print axioms merge_explicit_end_to_end
#print axioms merge_explicit_end_to_end_sound
#print axioms merge_explicit_fromSingle_sound
#print axioms merge_invalid_end_to_end
#print axioms merge_doc_eq_explicit_doc

end SaphyrVerif.Props.C03Typed
