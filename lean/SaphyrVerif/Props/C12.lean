import SaphyrVerif.Lemmas.C12Quoted
import SaphyrVerif.Lemmas.C12Plain
import SaphyrVerif.Lemmas.C12Doc
import SaphyrVerif.Lemmas.C12Float
import SaphyrVerif.Lemmas.C12Int
import SaphyrVerif.Lemmas.C12LiteralDoc
import SaphyrVerif.Lemmas.C12FoldDoc
import SaphyrVerif.Lemmas.C12String
import SaphyrVerif.Props.C06
/-!
# C12 — every scalar value survives serialization and deserialization unchanged

Writer model: `Model/SerScalar.lean` (ser_quoting.rs, ser.rs scalar helpers, wrapping.rs, zmij_format.rs).
Reader specification: `Spec/ScalarRead.lean` — my formalisation of how the YAML scanner used by the crate
reads one scalar; it is *validated* against the real parser by the differential run, not verified.
All theorems are therefore "relative to the reader formalisation".

Status (after the repairs b4ece9d, 1fdb06b, 832e31b, a252cf9 and the C13/C20 emitter round up to 995e25e in
/repo): `string_roundtrip` — EVERY string, in each of the nine positions with a fixed opening, under every
option vector, is written as a document that reads back as that string; `plain_roundtrip`, `plain_meaning`,
`literal_roundtrip`, `auto_folded_roundtrip` say which style is read and that plain text still means a
string. The former counterexamples are regression examples. One residue remains: with `yaml_12: true` the
YAML 1.1 boolean words are written plain and the crate's default (non-strict) reader takes them for
booleans (`yaml12_bool_word_counterexample`).
-/
namespace SaphyrVerif.Props.C12
open SaphyrVerif SaphyrVerif.SerScalar SaphyrVerif.Spec.Read SaphyrVerif.Scalars SaphyrVerif.Lemmas.C12

/-- write, then read, in one position: `from_str(to_string_with_options(v))` at the level of
(style, scalar text) -/
def roundTrip (o : Opts) (p : SerScalar.Pos) (s : List Char) : Option (Style × List Char) :=
  match emitDoc o p s with
  | .ok t => readDoc (toRead p) t
  | _ => none

/-! ## the headline: every string round-trips -/

/-- (T) `string_roundtrip`, FULL: for EVERY string `s`, EVERY modelled position (root, map value, map key,
seq item, FlowSeq item, FlowMap value, FlowMap key, enum newtype payload, mapping in mapping, sequence in
mapping, sequence in sequence) and EVERY valid option vector (`indent_step ≥ 1`; `quote_all`, `yaml_12`,
`prefer_block_scalars`, `folded_wrap_chars`, `compact_list_indent` arbitrary): the writer produces a
document, and the reader reads exactly `s` back from it, in the style the writer chose (`writerStyle`:
plain, single- or double-quoted, literal, folded — every branch including the fall-backs). -/
theorem string_roundtrip (o : Opts) (p : SerScalar.Pos) (s : List Char) (hstep : 1 ≤ o.indentStep) :
    roundTrip o p s = some (writerStyle o p s, s) := by
  obtain ⟨t, h1, h2⟩ := string_doc o p hstep s
  unfold roundTrip; rw [h1]; exact h2

/-! ## quoted styles: full round trip for ALL strings -/

/-- (T) double-quoted: reading what `write_quoted` wrote gives the string back, for every string
(every escape of the table, `\xHH`, `\uFEFF`, raw non-ASCII). -/
theorem dq_roundtrip (s : List Char) : readDq (writeQuoted s) = some (s, []) := by
  unfold writeQuoted readDq
  simpa using dq_body s []

/-- (T) the key sink's quoted form (its own, smaller escape table: `\\ \" \n \r \t \uXXXX`) reads back. -/
theorem key_sink_roundtrip (s : List Char) (y : Bool)
    (h : (isPlainSafe s && isPlainValueSafe s y true && !isUnsafePlainShape s) = false) :
    readDq (keySinkStr s y) = some (s, []) := by
  unfold keySinkStr
  rw [h]
  simp only [Bool.false_eq_true, if_false, readDq]
  simpa using key_body s []

/-- (T) single-quoted: `write_single_quoted` is inverted by the reader for every string without a raw
line break / NUL -/
theorem sq_roundtrip (s : List Char) (h : ∀ c ∈ s, isBreak c = false ∧ isNul c = false) :
    readSq (writeSingleQuoted s) = some (s, []) := by
  unfold writeSingleQuoted readSq
  show sqRun false (List.flatMap sqEsc s ++ ['\'']) [] = some (s, [])
  simpa using sq_body s [] h

/-- (T) … in particular under the writer's own guard for choosing single quotes (`quote_all` and
`!needs_double_quotes(s)`) -/
theorem sq_roundtrip_guard (s : List Char) (h : needsDoubleQuotes s = false) :
    readSq (writeSingleQuoted s) = some (s, []) := by
  apply sq_roundtrip
  intro c hc
  have hc' := any_false_mem h c hc
  simp only [Bool.or_eq_false_iff] at hc'
  obtain ⟨_, hb, hn⟩ := not_control_facts hc'.2
  exact ⟨hb, hn⟩

/-- (T) whatever `write_plain_or_quoted_value` does under `quote_all`, it reads back -/
theorem quote_all_roundtrip (s : List Char) (y flow : Bool) :
    (needsDoubleQuotes s = true → readDq (writePlainOrQuotedValue s true y flow) = some (s, [])) ∧
    (needsDoubleQuotes s = false → readSq (writePlainOrQuotedValue s true y flow) = some (s, [])) := by
  constructor
  · intro h; simp only [writePlainOrQuotedValue, h, if_true]; exact dq_roundtrip s
  · intro h; simp only [writePlainOrQuotedValue, h, if_true, Bool.false_eq_true, if_false]; exact sq_roundtrip_guard s h

/-! ## plain style -/

/-- what a plain scalar means to the crate's reader in a position -/
inductive Meaning where
  | str | null | bool | int | float | mergeKey
deriving DecidableEq, Repr

def plainMeaning (key : Bool) (s : List Char) : Meaning :=
  if key && isMergeKey s then .mergeKey
  else match resolve s with
    | .str => .str | .null => .null | .bool => .bool | .int => .int | .float => .float

/-- (T, scan level, every context) a string accepted by `is_plain_value_safe` and not of an unsafe
plain shape, in front of any terminator (`term`: end of line, `: ` for keys, a flow indicator), starts a
plain scalar and is consumed exactly. (`hmark` is discharged at document level by `plain_roundtrip`.) -/
theorem plain_scan_roundtrip (s term : List Char) (y flow col0 : Bool)
    (h : isPlainValueSafe s y flow = true) (hu : isUnsafePlainShape s = false) (ht : isTerm flow term = true)
    (hmark : col0 = true → isDocMarker (s ++ term) = false) :
    startKind flow col0 (s ++ term) = .plain ∧ readPlain flow (s ++ term) = some (s, term) := by
  obtain ⟨_, hhead, hcs, hec, hsafe, hdash⟩ := pvs_unfold h
  obtain ⟨hblank, _, _⟩ := unsafe_shape_facts hu
  have hne : s ≠ [] := by intro e; subst e; simp [headRejects] at hhead
  refine ⟨plain_start flow col0 s term hsafe hhead hmark, ?_⟩
  have := plain_scan_run flow term ht s [] [] hsafe (colonOk_of s hcs (last_not_colon hec))
    (fun hf => not_suffix_of_endsWithBlankDash (hdash hf))
    (fun _ h => absurd rfl h) (fun e => absurd e hne) hblank
  simpa [readPlain] using this

/-- when the writer decides plain (`writerPlain`), the style function says so -/
theorem writerStyle_plain (o : Opts) (p : SerScalar.Pos) (s : List Char) (hw : writerPlain o p s) :
    writerStyle o p s = .plain := by
  unfold writerPlain at hw
  unfold writerStyle
  by_cases hk : isKeyPos p = true
  · rw [if_pos hk] at hw ⊢
    unfold keyStyle; rw [if_pos hw]
  · rw [if_neg hk] at hw ⊢
    obtain ⟨hq, hauto, hpv, hu, hdot⟩ := hw
    have hflow := posCtx_flow o p (by simpa using hk)
    rw [hflow, hauto]
    simp only
    obtain ⟨_, hhead, _, _, _, _⟩ := pvs_unfold hpv
    have hspecial : (s.length == 1 && (s == ['.'] || s == ['#'] || s == ['-'])) = false := by
      have h1 : (s == ['.']) = false := by simpa using hdot
      have h2 : (s == ['#']) = false := by
        apply Bool.eq_false_iff.mpr; intro e; have := eq_of_beq e; subst this; revert hhead; decide
      have h3 : (s == ['-']) = false := by
        apply Bool.eq_false_iff.mpr; intro e; have := eq_of_beq e; subst this; revert hhead; decide
      simp [h1, h2, h3]
    rw [hspecial]
    simp only [Bool.false_eq_true, if_false, pqvStyle, hq, hpv, hu, Bool.not_false, Bool.and_self, if_true]

/-- (T) `plain_roundtrip`, document level, FULL: in every modelled position, under EVERY option vector
(including `yaml_12`, whose preamble now carries `---`): if the writer decides *plain* for `s`, what it
wrote reads back as the same plain scalar. No excluding hypothesis: trailing blanks, document-marker
look-alikes, a leading U+FEFF and `… -` in flow context are quoted by the writer itself
(`is_unsafe_plain_shape`, b4ece9d). -/
theorem plain_roundtrip (o : Opts) (p : SerScalar.Pos) (s : List Char)
    (hstep : 1 ≤ o.indentStep) (hw : writerPlain o p s) :
    roundTrip o p s = some (.plain, s) := by
  rw [string_roundtrip o p s hstep, writerStyle_plain o p s hw]

/-- (T) `plain_meaning`, FULL for YAML 1.1 mode: a string the writer leaves plain (any position) still
MEANS a string to the crate's reader: not null, not a boolean, not a number (1fdb06b: whatever the
crate's own integer / float readers accept is quoted), not a merge key. -/
theorem plain_meaning (o : Opts) (p : SerScalar.Pos) (s : List Char) (hy : o.yaml12 = false)
    (hw : writerPlain o p s) : plainMeaning (isKeyPos p) s = .str := by
  have hamb : isAmbiguousValue s false = false := by
    unfold writerPlain at hw
    by_cases hk : isKeyPos p = true
    · rw [if_pos hk] at hw
      simp only [Bool.and_eq_true] at hw
      have := (pvs_unfold hw.1.2).1
      rwa [hy] at this
    · rw [if_neg hk] at hw
      have := (pvs_unfold hw.2.2.1).1
      rwa [hy] at this
  obtain ⟨ha, hbool⟩ := not_ambiguous_value_facts hamb
  obtain ⟨_, hmk, hnull, hnum⟩ := not_ambiguous_facts ha
  have hb := hbool rfl
  simp only [readsAsNumber, Bool.or_eq_false_iff] at hnum
  have hmerge : isMergeKey s = false := by
    simp only [isMergeKey]; simpa using hmk
  unfold plainMeaning
  rw [hmerge, Bool.and_false]
  simp only [Bool.false_eq_true, if_false]
  unfold resolve isYamlFloatText
  rw [hnull, hb, hnum.1.1, hnum.1.2, hnum.2]
  rfl

/-- (T) … and under `yaml_12: true` everything except the boolean clause: never null, a number or a merge
key -/
theorem plain_meaning_yaml12 (o : Opts) (p : SerScalar.Pos) (s : List Char) (hw : writerPlain o p s) :
    plainMeaning (isKeyPos p) s = .str ∨ plainMeaning (isKeyPos p) s = .bool := by
  have hamb : isAmbiguous s = false := by
    unfold writerPlain at hw
    by_cases hk : isKeyPos p = true
    · rw [if_pos hk] at hw
      simp only [Bool.and_eq_true] at hw
      exact (not_ambiguous_value_facts (pvs_unfold hw.1.2).1).1
    · rw [if_neg hk] at hw
      exact (not_ambiguous_value_facts (pvs_unfold hw.2.2.1).1).1
  obtain ⟨_, hmk, hnull, hnum⟩ := not_ambiguous_facts hamb
  simp only [readsAsNumber, Bool.or_eq_false_iff] at hnum
  have hmerge : isMergeKey s = false := by
    simp only [isMergeKey]; simpa using hmk
  unfold plainMeaning
  rw [hmerge, Bool.and_false]
  simp only [Bool.false_eq_true, if_false]
  unfold resolve isYamlFloatText
  rw [hnull, hnum.1.1, hnum.1.2, hnum.2]
  cases (parseYaml11Bool s).isSome <;> simp

/-- the meaning clause at full strength over ALL option vectors — still false, see the residue below -/
def plain_meaning_Full : Prop :=
  ∀ (o : Opts) (p : SerScalar.Pos) (s : List Char), writerPlain o p s → plainMeaning (isKeyPos p) s = .str

/-! ## (F) the residue that is still failing -/

/-- (F) `yaml_12: true` leaves the YAML 1.1 boolean words plain (on purpose: `y` coordinates …), the
document reads back as the same text, but the crate's default (non `strict_booleans`) reader resolves
the word as a boolean: "no string is ever emitted in a form that reads back as … a boolean" fails for
schema-less targets under this option. Oracle id `C12-yaml12-bool-word-plain`. -/
theorem yaml12_bool_word_counterexample :
    writerPlain { yaml12 := true } .root "yes".toList ∧
    roundTrip { yaml12 := true } .root "yes".toList = some (.plain, "yes".toList) ∧
    plainMeaning false "yes".toList = .bool ∧
    writerPlain { yaml12 := true } .mapValue "n".toList ∧ plainMeaning false "n".toList = .bool := by
  refine ⟨?_, ?_, ?_, ?_, ?_⟩ <;> decide

/-! ## regression examples: the repaired classes (former (F) witnesses) now read back -/

-- b4ece9d: trailing blank
example : roundTrip {} .root "abc ".toList = some (.double, "abc ".toList) ∧
    roundTrip {} .mapKey "abc ".toList = some (.double, "abc ".toList) ∧
    roundTrip {} .flowSeq "abc ".toList = some (.double, "abc ".toList) ∧ ¬ writerPlain {} .root "abc ".toList := by
  refine ⟨?_, ?_, ?_, ?_⟩ <;> decide
-- b4ece9d: document markers at column 0
example : roundTrip {} .root "---".toList = some (.double, "---".toList) ∧
    roundTrip {} .root "...".toList = some (.double, "...".toList) ∧
    roundTrip {} .root "--- a".toList = some (.double, "--- a".toList) ∧
    roundTrip {} .mapKey "--- a".toList = some (.double, "--- a".toList) ∧
    roundTrip {} .root "---a".toList = some (.plain, "---a".toList) := by
  refine ⟨?_, ?_, ?_, ?_, ?_⟩ <;> decide
-- b4ece9d: merge key
example : roundTrip {} .mapKey "<<".toList = some (.double, "<<".toList) ∧
    roundTrip {} .flowMapKey "<<".toList = some (.double, "<<".toList) ∧ ¬ writerPlain {} .mapKey "<<".toList := by
  refine ⟨?_, ?_, ?_⟩ <;> decide
-- b4ece9d: leading U+FEFF
example : roundTrip {} .root [Char.ofNat 0xFEFF, 'a'] = some (.double, [Char.ofNat 0xFEFF, 'a']) ∧
    roundTrip {} .mapKey [Char.ofNat 0xFEFF, 'a'] = some (.double, [Char.ofNat 0xFEFF, 'a']) ∧
    roundTrip {} .mapValue [Char.ofNat 0xFEFF, 'a'] = some (.double, [Char.ofNat 0xFEFF, 'a']) := by
  refine ⟨?_, ?_, ?_⟩ <;> decide
-- b4ece9d: blank + `-` at the end in flow context (still plain in block context)
example : roundTrip {} .flowSeq "a -".toList = some (.double, "a -".toList) ∧
    roundTrip {} .flowMapValue "a -".toList = some (.double, "a -".toList) ∧
    roundTrip {} .seqItem "a -".toList = some (.plain, "a -".toList) := by
  refine ⟨?_, ?_, ?_⟩ <;> decide
-- 832e31b: the `%YAML 1.2` preamble carries the document start marker
example : emitDoc { yaml12 := true } .root "a".toList = .ok "%YAML 1.2\n---\na\n".toList ∧
    roundTrip { yaml12 := true } .root "a".toList = some (.plain, "a".toList) ∧
    roundTrip { yaml12 := true } .mapKey "a b".toList = some (.plain, "a b".toList) ∧
    roundTrip { yaml12 := true, foldedWrap := 1 } .seqItem "x\ny".toList = some (.literal, "x\ny".toList) := by
  refine ⟨?_, ?_, ?_, ?_⟩ <;> decide
-- 1fdb06b: number look-alikes are quoted
example : roundTrip {} .root "0X1F".toList = some (.double, "0X1F".toList) ∧
    roundTrip {} .root "_1".toList = some (.double, "_1".toList) ∧
    roundTrip {} .root "infinity".toList = some (.double, "infinity".toList) ∧
    roundTrip {} .root "+nan".toList = some (.double, "+nan".toList) ∧
    roundTrip {} .root ['1', Char.ofNat 0x2028] = some (.double, ['1', Char.ofNat 0x2028]) ∧
    isAmbiguous "0X1F".toList = true := by
  refine ⟨?_, ?_, ?_, ?_, ?_, ?_⟩ <;> decide
-- a252cf9: CR / NUL / line breaks only are not sent to the literal style any more
example : roundTrip { foldedWrap := 1 } .root "a\rb\n".toList = some (.double, "a\rb\n".toList) ∧
    roundTrip { foldedWrap := 1 } .mapValue "a\r\nb".toList = some (.double, "a\r\nb".toList) ∧
    roundTrip { foldedWrap := 1 } .root ['a', Char.ofNat 0, '\n', 'b'] = some (.double, ['a', Char.ofNat 0, '\n', 'b']) ∧
    roundTrip { foldedWrap := 1 } .root "\n\n".toList = some (.double, "\n\n".toList) ∧
    roundTrip { foldedWrap := 1 } .seqItem "\n\n\n".toList = some (.double, "\n\n\n".toList) := by
  refine ⟨?_, ?_, ?_, ?_, ?_⟩ <;> decide
-- a252cf9: no indentation indicator below a nested parent, no block scalar after `- - ` with indent_step 1
example : roundTrip { foldedWrap := 1 } .nestedMapValue " a\nb".toList = some (.double, " a\nb".toList) ∧
    roundTrip { foldedWrap := 1 } .seqInMap " a\nb".toList = some (.double, " a\nb".toList) ∧
    roundTrip { foldedWrap := 1 } .seqInSeq " a\nb".toList = some (.double, " a\nb".toList) ∧
    roundTrip { foldedWrap := 1 } .mapValue " a\nb".toList = some (.literal, " a\nb".toList) ∧
    roundTrip { foldedWrap := 1 } .nestedMapValue "a\nb".toList = some (.literal, "a\nb".toList) ∧
    roundTrip { indentStep := 1, foldedWrap := 1 } .seqInSeq "a\nb".toList = some (.double, "a\nb".toList) ∧
    roundTrip { indentStep := 2, foldedWrap := 1 } .seqInSeq "a\nb".toList = some (.literal, "a\nb".toList) := by
  refine ⟨?_, ?_, ?_, ?_, ?_, ?_, ?_⟩ <;> decide

/-! ## block scalars -/

/-- (T, partial) reader level, every position: the literal block `serialize_str` writes (header with
optional indentation indicator and chomping indicator, body lines indented `N` columns, extra empty
lines for `keep`) is read back as `v` — PROVIDED the content is not made of line breaks only, the body
is deeper than the parent node, and an indentation indicator (needed iff the first non-empty line starts
with a space) is at most 9 and counted from a parent at column 0 or the root. -/
theorem literal_block_roundtrip (N : Nat) (parent : Int) (v : List Char) (hN : 1 ≤ N)
    (hcontent : trimEndNl v ≠ [])
    (hauto : firstLineLeadingSpaces (trimEndNl v) = 0 → parent + 1 ≤ (N : Int))
    (hexpl : firstLineLeadingSpaces (trimEndNl v) > 0 → N ≤ 9 ∧ parent ≤ 0) :
    readBlock true parent
      (litHeader (if firstLineLeadingSpaces (trimEndNl v) > 0 then some N else none) (v.length - (trimEndNl v).length))
      (litLines N v) = some (v, []) :=
  literal_read N parent v hN hcontent hauto hexpl

/-- (T) `literal_roundtrip`, document level, FULL: whenever the writer really emits the automatic literal
style (the selection `autoStyle … = literal`, and its own fall-back test `blockFallback` is false) at the
root, as a map value, as a sequence item, as an enum newtype payload, in a sequence in a sequence, in a
mapping in a mapping or in a sequence in a mapping, under every option vector, the document reads back as the same string in literal style. (When the fall-back
applies the string is written quoted or plain: covered by `string_roundtrip`.) -/
theorem literal_roundtrip (o : Opts) (p : SerScalar.Pos) (v : List Char) (hp : isBlockPos p = true)
    (hstep : 1 ≤ o.indentStep) (hauto : autoStyle o false v = some .literal)
    (hnf : blockFallback o (posCtx o p) v = false) :
    roundTrip o p v = some (.literal, v) := by
  obtain ⟨t, h1, h2⟩ := literal_doc o p v hp hstep hauto hnf
  unfold roundTrip
  rw [h1]
  exact h2

/-- (T) `fold_inverse`: for every line that is not empty and does not start with a space (lines that do
are written unwrapped), for every wrap column and indentation: `write_folded_block` emits the line as
indented segments such that joining the segments by single spaces — what unfolding does — gives the line
back; no segment is empty or starts with a space (so none is "more indented"). Wrapping happens only
inside runs of spaces, `n` spaces becoming `n-1` trailing spaces + the folded break. -/
theorem fold_inverse (line indent : List Char) (wrap : Nat) (hne : line ≠ []) (hhead : line.head? ≠ some ' ') :
    ∃ segs, foldLine line indent wrap = .ok (joinLines (segs.map (indent ++ ·))) ∧ joinSp segs = line ∧ segs ≠ [] ∧
      ∀ e ∈ segs, e ≠ [] ∧ e.head? ≠ some ' ' :=
  foldLine_spec line indent wrap hne hhead

/-- (T) the folded reader on such segments: single breaks between non-indented, non-empty lines read
as single spaces -/
theorem folded_read_segments (N : Nat) (hN : 1 ≤ N) (segs : List (List Char)) (hne : segs ≠ [])
    (hsegs : ∀ e ∈ segs, e ≠ [] ∧ headSat isBlank e = false) :
    blockBody false N (segs.map (spaces N ++ ·)) true false 0 [] = (joinSp segs, 0, [], false) := by
  simpa using blockBody_fold N hN segs hsegs true [] hne

/-- (T) document level: whenever the writer selects the automatic folded style (single-line string that
passes the value test and is longer than `folded_wrap_chars`, fall-back test false) in a block value
position with a fixed opening, the document reads back as the same string. No excluding hypothesis is
needed: in particular a trailing blank survives in a block scalar. -/
theorem auto_folded_roundtrip (o : Opts) (p : SerScalar.Pos) (v : List Char) (hp : isBlockPos p = true)
    (hstep : 1 ≤ o.indentStep) (hauto : autoStyle o false v = some .folded)
    (hnf : blockFallback o (posCtx o p) v = false) :
    roundTrip o p v = some (.folded, v) := by
  obtain ⟨t, h1, h2⟩ := folded_doc o p v hp hstep hauto hnf
  unfold roundTrip
  rw [h1]
  exact h2

/-! ## floats -/

/-- (T) float text: for EVERY digit string of zmij's documented output shape
`[-]digits[.digits][e[-]digits]`, `push_float_string` produces `[-]digits.digits[e(+|-)digits]`:
a decimal point in the mantissa and a signed exponent. -/
theorem float_text_grammar (p : ZmijParts) (h : p.wf) : normalizeFloatText p.text = p.yaml :=
  normalize_parts p h

/-- (T) float value: the normalised text denotes the same decimal as zmij's digits (`parseDec` gives
sign, mantissa m and exponent e of a decimal text; `sameDecimal`: m·10^e = m'·10^e'). Together with
zmij's contract (its digits parse back to the same bits — external, exercised by the differential on
boundary and random bit patterns) and correct rounding of the reader this is the float round trip. -/
theorem float_text_value (p : ZmijParts) (h : p.wf) :
    ∃ a b, FloatDec.parseDec p.text = some a ∧ FloatDec.parseDec (normalizeFloatText p.text) = some b ∧ sameDecimal a b := by
  rw [float_text_grammar p h]
  exact value_parts p h

/-- the non-finite spellings are the YAML 1.2 core-schema ones -/
theorem float_nonfinite_text :
    pushFloatString 1 [] = ".nan".toList ∧ pushFloatString 2 [] = ".inf".toList ∧ pushFloatString 3 [] = "-.inf".toList := by
  refine ⟨rfl, rfl, rfl⟩

/-! ## integers -/

/-- (T) signed integers of every width 1..128: the text `serialize_i64` / `serialize_i128` writes
(Rust `Display`) is read back by `parse_int_signed::<iW>` as the same value (uses C06's exactness). -/
theorem int_roundtrip (w : Nat) (hw1 : 1 ≤ w) (hw : w ≤ 128) (v : Int)
    (hlo : - (2 : Int) ^ (w - 1) ≤ v) (hhi : v < (2 : Int) ^ (w - 1)) :
    parseIntSigned w false (showInt v) = some v :=
  Props.C06.complete_signed w hw1 hw false _ v (intNotation_showInt v) hlo hhi

/-- (T) unsigned integers of every width up to 128 -/
theorem uint_roundtrip (w : Nat) (hw : w ≤ 128) (n : Nat) (h : n < 2 ^ w) :
    parseIntUnsigned w false (natDigits n) = some n :=
  Props.C06.complete_unsigned w hw false _ n (uintNotation_natDigits n) h

/-! ## bool, unit / None -/

/-- (T) booleans: `true` / `false` read back as the boolean, and they are not strings -/
theorem bool_roundtrip (b : Bool) : parseYaml11Bool (showBool b) = some b ∧ parseStrictBool (showBool b) = some b := by
  cases b <;> constructor <;> decide

/-- (T) unit / None are written `null`, which is null-like in plain style for both null tests -/
theorem unit_roundtrip : scalarIsNullish showUnit .plain = true ∧ scalarIsNullishForOption showUnit .plain = true := by
  constructor <;> decide

/-! ## non-vacuity examples and tests (E) -/

example : roundTrip {} .root "hello world".toList = some (.plain, "hello world".toList) := by decide
example : roundTrip {} .mapValue "a: b".toList = some (.double, "a: b".toList) := by decide
example : roundTrip { quoteAll := true } .seqItem "it's".toList = some (.double, "it's".toList) := by decide
example : roundTrip { quoteAll := true } .seqItem "plain".toList = some (.single, "plain".toList) := by decide
example : roundTrip {} .mapKey "yes".toList = some (.double, "yes".toList) := by decide
example : roundTrip { foldedWrap := 4 } .root "aa bb  cc".toList = some (.folded, "aa bb  cc".toList) := by decide
example : roundTrip { foldedWrap := 4 } .mapValue " x\ny\n\n".toList = some (.literal, " x\ny\n\n".toList) := by decide
example : writerPlain {} .flowMapValue "a:b".toList ∧ roundTrip {} .flowMapValue "a:b".toList = some (.plain, "a:b".toList) := by
  constructor <;> decide
-- hypotheses of `plain_roundtrip_partial` are satisfiable on a non-trivial instance
example : writerPlain {} .mapKey "?a b".toList ∧ "?a b".toList.getLast? ≠ some ' ' := by constructor <;> decide
example : normalizeFloatText "4e-6".toList = "4.0e-6".toList ∧ normalizeFloatText "1e21".toList = "1.0e+21".toList ∧
    normalizeFloatText "123".toList = "123.0".toList ∧ normalizeFloatText "-1.5e300".toList = "-1.5e+300".toList := by decide
-- nested positions and every indentation step: the style function and the round trip
example : writerStyle { indentStep := 4, foldedWrap := 1 } .seqInSeq "\t\n".toList = .literal ∧
    emitDoc { indentStep := 4, foldedWrap := 1 } .seqInSeq "\t\n".toList = .ok "- - |\n      \t\n".toList ∧
    roundTrip { indentStep := 4, foldedWrap := 1 } .seqInSeq "\t\n".toList = some (.literal, "\t\n".toList) ∧
    roundTrip { indentStep := 3, foldedWrap := 1 } .nestedMapValue "a\nb".toList = some (.literal, "a\nb".toList) ∧
    roundTrip { indentStep := 5, foldedWrap := 1, compactList := true } .seqInMap " a\nb".toList = some (.literal, " a\nb".toList) ∧
    roundTrip { indentStep := 5, foldedWrap := 1 } .seqInMap " a\nb".toList = some (.double, " a\nb".toList) := by
  refine ⟨?_, ?_, ?_, ?_, ?_, ?_⟩ <;> decide
example : (⟨true, ['4'], none, some (true, ['6'])⟩ : ZmijParts).text = "-4e-6".toList := by decide
example : autoStyle { foldedWrap := 4 } false "aa bb  cc ".toList = some .folded ∧
    roundTrip { foldedWrap := 4 } .root "aa bb  cc ".toList = some (.folded, "aa bb  cc ".toList) := by
  constructor <;> decide
example : foldLine "AA  BB".toList [] 4 = .ok "AA \nBB\n".toList := by decide
example : autoStyle { foldedWrap := 2 } false " x\ny\n\n".toList = some .literal ∧ needsInd " x\ny\n\n".toList = true := by
  constructor <;> decide

end SaphyrVerif.Props.C12
