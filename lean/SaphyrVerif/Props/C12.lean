import SaphyrVerif.Lemmas.C12Quoted
import SaphyrVerif.Lemmas.C12Plain
import SaphyrVerif.Lemmas.C12Doc
import SaphyrVerif.Lemmas.C12Float
import SaphyrVerif.Lemmas.C12Int
import SaphyrVerif.Lemmas.C12LiteralDoc
import SaphyrVerif.Lemmas.C12FoldDoc
import SaphyrVerif.Props.C06
/-!
# C12 — every scalar value survives serialization and deserialization unchanged

Writer model: `Model/SerScalar.lean` (ser_quoting.rs, ser.rs scalar helpers, wrapping.rs, zmij_format.rs).
Reader specification: `Spec/ScalarRead.lean` — my formalisation of how the YAML scanner used by the crate
reads one scalar; it is *validated* against the real parser by the differential run, not verified.
All theorems are therefore "relative to the reader formalisation".

Status: the property is FALSE for the code as it is. The (T) theorems below are the parts that hold for all
strings; `plain_roundtrip_partial` needs excluding hypotheses, and each excluded class has an (F) theorem
with a concrete witness on which model and implementation agree (see the differential and the oracle).
-/
namespace SaphyrVerif.Props.C12
open SaphyrVerif SaphyrVerif.SerScalar SaphyrVerif.Spec.Read SaphyrVerif.Scalars SaphyrVerif.Lemmas.C12

/-- write, then read, in one position: `from_str(to_string_with_options(v))` at the level of
(style, scalar text) -/
def roundTrip (o : Opts) (p : SerScalar.Pos) (s : List Char) : Option (Style × List Char) :=
  match emitDoc o p s with
  | .ok t => readDoc (toRead p) t
  | _ => none

/-! ## quoted styles: full round trip for ALL strings -/

/-- (T) double-quoted: reading what `write_quoted` wrote gives the string back, for every string
(every escape of the table, `\xHH`, `\uFEFF`, raw non-ASCII). -/
theorem dq_roundtrip (s : List Char) : readDq (writeQuoted s) = some (s, []) := by
  unfold writeQuoted readDq
  simpa using dq_body s []

/-- (T) the key sink's quoted form (its own, smaller escape table: `\\ \" \n \r \t \uXXXX`) reads back. -/
theorem key_sink_roundtrip (s : List Char) (y : Bool)
    (h : (isPlainSafe s && isPlainValueSafe s y true) = false) :
    readDq (keySinkStr s y) = some (s, []) := by
  unfold keySinkStr
  rw [h]
  simp only [Bool.false_eq_true, if_false, readDq]
  simpa using key_body s []

/-- (T) single-quoted: `write_single_quoted` is inverted by the reader for every string without a raw
line break / NUL -/
theorem sq_roundtrip (s : List Char) (h : ∀ c ∈ s, isBreak c = false ∧ isNul c = false) :
    readSq (writeSingleQuoted s) = some (s, []) := by
  unfold writeSingleQuoted readSq
  show sqRun false (List.flatMap sqEsc s ++ ['\'']) [] = some (s, [])
  simpa using sq_body s [] h

/-- (T) … in particular under the writer's own guard for choosing single quotes (`quote_all` and
`!needs_double_quotes(s)`) -/
theorem sq_roundtrip_guard (s : List Char) (h : needsDoubleQuotes s = false) :
    readSq (writeSingleQuoted s) = some (s, []) := by
  apply sq_roundtrip
  intro c hc
  have hc' := any_false_mem h c hc
  simp only [Bool.or_eq_false_iff] at hc'
  obtain ⟨_, hb, hn⟩ := not_control_facts hc'.2
  exact ⟨hb, hn⟩

/-- (T) whatever `write_plain_or_quoted_value` does under `quote_all`, it reads back -/
theorem quote_all_roundtrip (s : List Char) (y flow : Bool) :
    (needsDoubleQuotes s = true → readDq (writePlainOrQuotedValue s true y flow) = some (s, [])) ∧
    (needsDoubleQuotes s = false → readSq (writePlainOrQuotedValue s true y flow) = some (s, [])) := by
  constructor
  · intro h; simp only [writePlainOrQuotedValue, h, if_true]; exact dq_roundtrip s
  · intro h; simp only [writePlainOrQuotedValue, h, if_true, Bool.false_eq_true, if_false]; exact sq_roundtrip_guard s h

/-! ## plain style -/

/-- what a plain scalar means to the crate's reader in a position -/
inductive Meaning where
  | str | null | bool | int | float | mergeKey
deriving DecidableEq, Repr

def plainMeaning (key : Bool) (s : List Char) : Meaning :=
  if key && isMergeKey s then .mergeKey
  else match resolve s with
    | .str => .str | .null => .null | .bool => .bool | .int => .int | .float => .float

/-- The property for plain style at full strength: whenever the writer decides *plain*, the document
reads back as the same string and still means a string. FALSE for the code as it is — see the (F)
theorems; kept as the statement to aim for. -/
def plain_roundtrip_Full : Prop :=
  ∀ (o : Opts) (p : SerScalar.Pos) (s : List Char), writerPlain o p s →
    roundTrip o p s = some (.plain, s) ∧ plainMeaning (isKeyPos p) s = .str

/-- (T, partial) scan level, every context: a string accepted by `is_plain_value_safe`, with no trailing
blank (and, in flow context, not ending in blank + `-`), in front of any terminator (`term`: end of
line, `: ` for keys, a flow indicator) starts a plain scalar and is consumed exactly. -/
theorem plain_scan_roundtrip_partial (s term : List Char) (y flow col0 : Bool)
    (h : isPlainValueSafe s y flow = true) (ht : isTerm flow term = true)
    (hblank : s.getLast? ≠ some ' ')
    (hdash : flow = true → ¬ [' ', '-'] <:+ s)
    (hmark : col0 = true → isDocMarker (s ++ term) = false) :
    startKind flow col0 (s ++ term) = .plain ∧ readPlain flow (s ++ term) = some (s, term) := by
  obtain ⟨_, hhead, hcs, hec, hsafe⟩ := pvs_unfold h
  have hne : s ≠ [] := by intro e; subst e; simp [headRejects] at hhead
  refine ⟨plain_start flow col0 s term hsafe hhead hmark, ?_⟩
  have := plain_scan_run flow term ht s [] [] hsafe (colonOk_of s hcs (last_not_colon hec)) hdash
    (fun _ h => absurd rfl h) (fun e => absurd e hne) hblank
  simpa [readPlain] using this

/-- (T, partial) never null, never a boolean: a string the value test accepts (YAML 1.1 mode) does not
resolve to null or bool. (It CAN resolve to a number: see `number_lookalike_counterexample`.) -/
theorem plain_not_null_bool (s : List Char) (flow : Bool) (h : isPlainValueSafe s false flow = true) :
    resolve s ≠ .null ∧ resolve s ≠ .bool := by
  obtain ⟨hamb, _, _, _, _⟩ := pvs_unfold h
  unfold isAmbiguousValue at hamb
  by_cases h1 : isAmbiguous s = true
  · rw [if_pos h1] at hamb; cases hamb
  rw [if_neg h1] at hamb
  by_cases h2 : (!false && (parseYaml11Bool s).isSome) = true
  · rw [if_pos h2] at hamb; cases hamb
  have hb : (parseYaml11Bool s).isSome = false := by simpa using h2
  have hn : scalarIsNullish s .plain = false := by
    unfold isAmbiguous at h1
    by_cases e1 : s.isEmpty = true
    · rw [if_pos e1] at h1; exact absurd rfl h1
    rw [if_neg e1] at h1
    by_cases e2 : (s == ['~'] || eqIgnoreAsciiCase s "null".toList || eqIgnoreAsciiCase s "true".toList
        || eqIgnoreAsciiCase s "false".toList) = true
    · rw [if_pos e2] at h1; exact absurd rfl h1
    simp only [Bool.or_eq_true, not_or, Bool.not_eq_true] at e2
    simp only [scalarIsNullish, Bool.and_eq_false_iff, Bool.or_eq_false_iff]
    right
    exact ⟨⟨by simpa using e1, e2.1.1.1⟩, e2.1.1.2⟩
  unfold resolve
  rw [hn, hb]
  simp only [Bool.false_eq_true, if_false]
  constructor <;> (split <;> (try split) <;> simp)

/-- (T, partial) document level — the headline statement for plain style. In every position whose
layout does not depend on the indentation step (root, map value, map key, seq item, FlowSeq item, FlowMap
value, FlowMap key, enum newtype payload, seq in seq), without the `%YAML` preamble: if the writer
decides *plain*, then what it wrote reads back as the same plain scalar — PROVIDED
* `hblank`: the string does not end in a space,
* `hmark`: it is not a document-marker look-alike at column 0 (root / block key),
* `hbom`: it does not start with U+FEFF at the start of the stream,
* `hdash`: in flow context it does not end in space + `-`.
(The merge key `<<` and number look-alikes read back as the same TEXT but with another meaning: see
`merge_key_counterexample`, `number_lookalike_counterexample`.) -/
theorem plain_roundtrip_partial (o : Opts) (p : SerScalar.Pos) (s : List Char)
    (hp : simplePos (toRead p) = true) (hy : o.yaml12 = false) (hw : writerPlain o p s)
    (hblank : s.getLast? ≠ some ' ')
    (hmark : posCol0 (toRead p) = true → isDocMarker (s ++ lineEnd (toRead p)) = false)
    (hbom : posCol0 (toRead p) = true → s.head? ≠ some (Char.ofNat 0xFEFF))
    (hdash : (toRead p).isFlow = true → ¬ [' ', '-'] <:+ s) :
    roundTrip o p s = some (.plain, s) := by
  unfold roundTrip
  rw [emit_plain o p hp s hy hw]
  simp only
  unfold writerPlain at hw
  by_cases hk : isKeyPos p = true
  · rw [if_pos hk] at hw
    simp only [Bool.and_eq_true] at hw
    exact readDoc_plain (toRead p) hp s o.yaml12 true hw.2 (fun _ => rfl) hblank hdash hmark hbom
  · rw [if_neg hk] at hw
    exact readDoc_plain (toRead p) hp s o.yaml12 (toRead p).isFlow hw.2.2.1 (fun h => h) hblank hdash hmark hbom

/-! ## (F) counterexamples: the excluded classes are real — the writer decides plain, the value is lost.
Each witness is also an oracle class of the differential run (`scalarrt.oracle.jsonl`). -/

/-- (F) trailing blank: `"abc "` is emitted plain and reads back as `"abc"` -/
theorem trailing_blank_counterexample :
    writerPlain {} .root "abc ".toList ∧ roundTrip {} .root "abc ".toList = some (.plain, "abc".toList) ∧
    roundTrip {} .mapKey "abc ".toList = some (.plain, "abc".toList) ∧
    roundTrip {} .flowSeq "abc ".toList = some (.plain, "abc".toList) := by
  refine ⟨?_, ?_, ?_, ?_⟩ <;> decide

/-- (F) document markers at column 0: root `---`, `...`, `--- a`, key `--- a` are emitted plain and do not
read back as that scalar -/
theorem doc_marker_counterexample :
    writerPlain {} .root "---".toList ∧ roundTrip {} .root "---".toList = none ∧
    roundTrip {} .root "...".toList = none ∧ roundTrip {} .root "--- a".toList = none ∧
    writerPlain {} .mapKey "--- a".toList ∧ roundTrip {} .mapKey "--- a".toList = none := by
  refine ⟨?_, ?_, ?_, ?_, ?_, ?_⟩ <;> decide

/-- (F) merge key: the key `<<` is emitted plain; the text survives but it now MEANS a merge key -/
theorem merge_key_counterexample :
    writerPlain {} .mapKey "<<".toList ∧ roundTrip {} .mapKey "<<".toList = some (.plain, "<<".toList) ∧
    plainMeaning true "<<".toList = .mergeKey ∧ writerPlain {} .flowMapKey "<<".toList := by
  refine ⟨?_, ?_, ?_, ?_⟩ <;> decide

/-- (F) leading U+FEFF at the start of the stream is taken as a byte-order mark -/
theorem leading_bom_counterexample :
    writerPlain {} .root [Char.ofNat 0xFEFF, 'a'] ∧
    roundTrip {} .root [Char.ofNat 0xFEFF, 'a'] = some (.plain, ['a']) ∧
    roundTrip {} .mapKey [Char.ofNat 0xFEFF, 'a'] = some (.plain, ['a']) := by
  refine ⟨?_, ?_, ?_⟩ <;> decide

/-- (F, new) flow context: a plain scalar ending in space + `-` is followed by `]` / `}` / `,` and the
scanner rejects "`-` followed by a flow indicator" -/
theorem flow_blank_dash_counterexample :
    writerPlain {} .flowSeq "a -".toList ∧ roundTrip {} .flowSeq "a -".toList = none ∧
    roundTrip {} .flowMapValue "a -".toList = none := by
  refine ⟨?_, ?_, ?_⟩ <;> decide

/-- (F, new) `yaml_12: true`: every document starts with a `%YAML 1.2` directive that is not followed by
`---`; the reader rejects the whole document, whatever the value -/
theorem yaml12_directive_counterexample :
    roundTrip { yaml12 := true } .root "a".toList = none ∧
    emitDoc { yaml12 := true } .root "a".toList = .ok "%YAML 1.2\na\n".toList := by
  refine ⟨?_, ?_⟩ <;> decide

/-- (F, new) number look-alikes: accepted as plain by the value test, but the crate's own reader
resolves them as numbers (upper-case radix prefix, leading `_`, `infinity`, signed `nan`, a number
wrapped in Unicode blanks) -/
theorem number_lookalike_counterexample :
    (isPlainValueSafe "0X1F".toList false false = true ∧ resolve "0X1F".toList = .int) ∧
    (isPlainValueSafe "_1".toList false false = true ∧ resolve "_1".toList = .int) ∧
    (isPlainValueSafe "infinity".toList false false = true ∧ resolve "infinity".toList = .float) ∧
    (isPlainValueSafe "+nan".toList false false = true ∧ resolve "+nan".toList = .float) ∧
    (isPlainValueSafe ['1', Char.ofNat 0x2028] false false = true ∧ resolve ['1', Char.ofNat 0x2028] = .int) := by
  refine ⟨⟨?_, ?_⟩, ⟨?_, ?_⟩, ⟨?_, ?_⟩, ⟨?_, ?_⟩, ⟨?_, ?_⟩⟩ <;> decide

/-- (F, new) `yaml_12: true` leaves the YAML 1.1 boolean words plain; the (default, non-strict) reader
resolves them as booleans -/
theorem yaml12_bool_counterexample :
    isPlainValueSafe "yes".toList true false = true ∧ resolve "yes".toList = .bool := by
  constructor <;> decide

/-- (F, new) automatic literal style with a carriage return: the reader takes `\r` as a line break -/
theorem block_cr_counterexample :
    roundTrip { foldedWrap := 1 } .root "a\rb\n".toList = none ∧
    roundTrip { foldedWrap := 1 } .mapValue "a\r\nb".toList = some (.literal, "a\nb".toList) := by
  constructor <;> decide

/-- (F, new) automatic literal style for a string of line breaks only: `"\n\n"` is written `|+` with ONE
empty line and reads back as `"\n"` (with the default `folded_wrap_chars = 80`: 81 line breaks) -/
theorem block_only_newlines_counterexample :
    roundTrip { foldedWrap := 1 } .root "\n\n".toList = some (.literal, "\n".toList) ∧
    roundTrip { foldedWrap := 1 } .seqItem "\n\n\n".toList = some (.literal, "\n".toList) := by
  constructor <;> decide

/-- (F, new) the indentation indicator is written as the ABSOLUTE column of the body, but YAML counts
it from the parent node: wrong in every nested position -/
theorem block_indicator_nested_counterexample :
    emitDoc { foldedWrap := 1 } .nestedMapValue " a\nb".toList = .ok "a:\n  k: |4-\n     a\n    b\n".toList ∧
    roundTrip { foldedWrap := 1 } .nestedMapValue " a\nb".toList = none ∧
    roundTrip { foldedWrap := 1 } .seqInMap " a\nb".toList = none ∧
    roundTrip { foldedWrap := 1 } .seqInSeq " a\nb".toList = none ∧
    roundTrip { foldedWrap := 1 } .mapValue " a\nb".toList = some (.literal, " a\nb".toList) := by
  refine ⟨?_, ?_, ?_, ?_, ?_⟩ <;> decide

/-- (F, new) `indent_step: 1`, sequence in sequence: the body of a block scalar after `- - ` is indented
2 columns, which is not deeper than the inner sequence -/
theorem seq_in_seq_step1_counterexample :
    emitDoc { indentStep := 1, foldedWrap := 1 } .seqInSeq "a\nb".toList = .ok "- - |-\n  a\n  b\n".toList ∧
    roundTrip { indentStep := 1, foldedWrap := 1 } .seqInSeq "a\nb".toList ≠ some (.literal, "a\nb".toList) := by
  constructor <;> decide

/-- the full statement is refuted by the witnesses above -/
theorem plain_roundtrip_Full_false : ¬ plain_roundtrip_Full := by
  intro h
  have := (h {} .root "abc ".toList trailing_blank_counterexample.1).1
  rw [trailing_blank_counterexample.2.1] at this
  revert this; decide

/-! ## block scalars -/

/-- (T, partial) reader level, every position: the literal block `serialize_str` writes (header with
optional indentation indicator and chomping indicator, body lines indented `N` columns, extra empty
lines for `keep`) is read back as `v` — PROVIDED the content is not made of line breaks only, the body
is deeper than the parent node, and an indentation indicator (needed iff the first non-empty line starts
with a space) is at most 9 and counted from a parent at column 0 or the root. -/
theorem literal_block_roundtrip (N : Nat) (parent : Int) (v : List Char) (hN : 1 ≤ N)
    (hcontent : trimEndNl v ≠ [])
    (hauto : firstLineLeadingSpaces (trimEndNl v) = 0 → parent + 1 ≤ (N : Int))
    (hexpl : firstLineLeadingSpaces (trimEndNl v) > 0 → N ≤ 9 ∧ parent ≤ 0) :
    readBlock true parent
      (litHeader (if firstLineLeadingSpaces (trimEndNl v) > 0 then some N else none) (v.length - (trimEndNl v).length))
      (litLines N v) = some (v, []) :=
  literal_read N parent v hN hcontent hauto hexpl

/-- (T, partial) document level: whenever the writer selects the automatic literal style at the root,
as a map value, as a sequence item or as an enum newtype payload, the document reads back as the same
string — PROVIDED the string contains no `\r` and no U+0000, is not made of line breaks only, and the
indentation indicator (if one is needed) is a single digit. The excluded classes are real:
`block_cr_counterexample`, `block_only_newlines_counterexample`; nested positions:
`block_indicator_nested_counterexample`, `seq_in_seq_step1_counterexample`. -/
theorem literal_roundtrip (o : Opts) (p : SerScalar.Pos) (v : List Char) (hp : blockSimplePos p = true)
    (hy : o.yaml12 = false) (hstep : 1 ≤ o.indentStep)
    (hauto : autoStyle o false v = some .literal) (hcontent : trimEndNl v ≠ [])
    (hchars : ∀ c ∈ v, c ≠ '\r' ∧ isNul c = false)
    (hdig : needsInd v = true → o.indentStep ≤ 9) :
    roundTrip o p v = some (.literal, v) := by
  obtain ⟨t, h1, h2⟩ := literal_doc o p v hp hy hstep hauto hcontent hchars hdig
  unfold roundTrip
  rw [h1]
  exact h2

/-- (T) `fold_inverse`: for every line that is not empty and does not start with a space (lines that do
are written unwrapped), for every wrap column and indentation: `write_folded_block` emits the line as
indented segments such that joining the segments by single spaces — what unfolding does — gives the line
back; no segment is empty or starts with a space (so none is "more indented"). Wrapping happens only
inside runs of spaces, `n` spaces becoming `n-1` trailing spaces + the folded break. -/
theorem fold_inverse (line indent : List Char) (wrap : Nat) (hne : line ≠ []) (hhead : line.head? ≠ some ' ') :
    ∃ segs, foldLine line indent wrap = .ok (joinLines (segs.map (indent ++ ·))) ∧ joinSp segs = line ∧ segs ≠ [] ∧
      ∀ e ∈ segs, e ≠ [] ∧ e.head? ≠ some ' ' :=
  foldLine_spec line indent wrap hne hhead

/-- (T) the folded reader on such segments: single breaks between non-indented, non-empty lines read
as single spaces -/
theorem folded_read_segments (N : Nat) (hN : 1 ≤ N) (segs : List (List Char)) (hne : segs ≠ [])
    (hsegs : ∀ e ∈ segs, e ≠ [] ∧ headSat isBlank e = false) :
    blockBody false N (segs.map (spaces N ++ ·)) true false 0 [] = (joinSp segs, 0, [], false) := by
  simpa using blockBody_fold N hN segs hsegs true [] hne

/-- (T) document level: whenever the writer selects the automatic folded style (single-line string that
passes the value test and is longer than `folded_wrap_chars`) at the root, as a map value, as a sequence
item or as an enum newtype payload, the document reads back as the same string. No excluding hypothesis
is needed: in particular a trailing blank survives in a block scalar. -/
theorem auto_folded_roundtrip (o : Opts) (p : SerScalar.Pos) (v : List Char) (hp : blockSimplePos p = true)
    (hy : o.yaml12 = false) (hstep : 1 ≤ o.indentStep) (hauto : autoStyle o false v = some .folded) :
    roundTrip o p v = some (.folded, v) := by
  obtain ⟨t, h1, h2⟩ := folded_doc o p v hp hy hstep hauto
  unfold roundTrip
  rw [h1]
  exact h2

/-- the literal round trip at full strength (all positions, all strings the writer sends to the literal
style): FALSE, see the block counterexamples -/
def literal_roundtrip_Full : Prop :=
  ∀ (o : Opts) (p : SerScalar.Pos) (v : List Char), o.yaml12 = false → 1 ≤ o.indentStep →
    autoStyle o (toRead p).isFlow v = some .literal → roundTrip o p v = some (.literal, v)

theorem literal_roundtrip_Full_false : ¬ literal_roundtrip_Full := by
  intro h
  have := h { foldedWrap := 1 } .root "\n\n".toList rfl (by decide) (by decide)
  rw [block_only_newlines_counterexample.1] at this
  revert this; decide

/-! ## floats -/

/-- (T) float text: for EVERY digit string of zmij's documented output shape
`[-]digits[.digits][e[-]digits]`, `push_float_string` produces `[-]digits.digits[e(+|-)digits]`:
a decimal point in the mantissa and a signed exponent. -/
theorem float_text_grammar (p : ZmijParts) (h : p.wf) : normalizeFloatText p.text = p.yaml :=
  normalize_parts p h

/-- (T) float value: the normalised text denotes the same decimal as zmij's digits (`parseDec` gives
sign, mantissa m and exponent e of a decimal text; `sameDecimal`: m·10^e = m'·10^e'). Together with
zmij's contract (its digits parse back to the same bits — external, exercised by the differential on
boundary and random bit patterns) and correct rounding of the reader this is the float round trip. -/
theorem float_text_value (p : ZmijParts) (h : p.wf) :
    ∃ a b, FloatDec.parseDec p.text = some a ∧ FloatDec.parseDec (normalizeFloatText p.text) = some b ∧ sameDecimal a b := by
  rw [float_text_grammar p h]
  exact value_parts p h

/-- the non-finite spellings are the YAML 1.2 core-schema ones -/
theorem float_nonfinite_text :
    pushFloatString 1 [] = ".nan".toList ∧ pushFloatString 2 [] = ".inf".toList ∧ pushFloatString 3 [] = "-.inf".toList := by
  refine ⟨rfl, rfl, rfl⟩

/-! ## integers -/

/-- (T) signed integers of every width 1..128: the text `serialize_i64` / `serialize_i128` writes
(Rust `Display`) is read back by `parse_int_signed::<iW>` as the same value (uses C06's exactness). -/
theorem int_roundtrip (w : Nat) (hw1 : 1 ≤ w) (hw : w ≤ 128) (v : Int)
    (hlo : - (2 : Int) ^ (w - 1) ≤ v) (hhi : v < (2 : Int) ^ (w - 1)) :
    parseIntSigned w false (showInt v) = some v :=
  Props.C06.complete_signed w hw1 hw false _ v (intNotation_showInt v) hlo hhi

/-- (T) unsigned integers of every width up to 128 -/
theorem uint_roundtrip (w : Nat) (hw : w ≤ 128) (n : Nat) (h : n < 2 ^ w) :
    parseIntUnsigned w false (natDigits n) = some n :=
  Props.C06.complete_unsigned w hw false _ n (uintNotation_natDigits n) h

/-! ## bool, unit / None -/

/-- (T) booleans: `true` / `false` read back as the boolean, and they are not strings -/
theorem bool_roundtrip (b : Bool) : parseYaml11Bool (showBool b) = some b ∧ parseStrictBool (showBool b) = some b := by
  cases b <;> constructor <;> decide

/-- (T) unit / None are written `null`, which is null-like in plain style for both null tests -/
theorem unit_roundtrip : scalarIsNullish showUnit .plain = true ∧ scalarIsNullishForOption showUnit .plain = true := by
  constructor <;> decide

/-! ## non-vacuity examples and tests (E) -/

example : roundTrip {} .root "hello world".toList = some (.plain, "hello world".toList) := by decide
example : roundTrip {} .mapValue "a: b".toList = some (.double, "a: b".toList) := by decide
example : roundTrip { quoteAll := true } .seqItem "it's".toList = some (.double, "it's".toList) := by decide
example : roundTrip { quoteAll := true } .seqItem "plain".toList = some (.single, "plain".toList) := by decide
example : roundTrip {} .mapKey "yes".toList = some (.double, "yes".toList) := by decide
example : roundTrip { foldedWrap := 4 } .root "aa bb  cc".toList = some (.folded, "aa bb  cc".toList) := by decide
example : roundTrip { foldedWrap := 4 } .mapValue " x\ny\n\n".toList = some (.literal, " x\ny\n\n".toList) := by decide
example : writerPlain {} .flowMapValue "a:b".toList ∧ roundTrip {} .flowMapValue "a:b".toList = some (.plain, "a:b".toList) := by
  constructor <;> decide
-- hypotheses of `plain_roundtrip_partial` are satisfiable on a non-trivial instance
example : writerPlain {} .mapKey "?a b".toList ∧ "?a b".toList.getLast? ≠ some ' ' := by constructor <;> decide
example : normalizeFloatText "4e-6".toList = "4.0e-6".toList ∧ normalizeFloatText "1e21".toList = "1.0e+21".toList ∧
    normalizeFloatText "123".toList = "123.0".toList ∧ normalizeFloatText "-1.5e300".toList = "-1.5e+300".toList := by decide
example : (⟨true, ['4'], none, some (true, ['6'])⟩ : ZmijParts).text = "-4e-6".toList := by decide
example : autoStyle { foldedWrap := 4 } false "aa bb  cc ".toList = some .folded ∧
    roundTrip { foldedWrap := 4 } .root "aa bb  cc ".toList = some (.folded, "aa bb  cc ".toList) := by
  constructor <;> decide
example : foldLine "AA  BB".toList [] 4 = .ok "AA \nBB\n".toList := by decide
example : autoStyle { foldedWrap := 2 } false " x\ny\n\n".toList = some .literal ∧ needsInd " x\ny\n\n".toList = true := by
  constructor <;> decide

end SaphyrVerif.Props.C12
