import SaphyrVerif.Gen.Tables
import SaphyrVerif.Model.SerScalar
import SaphyrVerif.Model.Emitter
import SaphyrVerif.Spec.EmitReader
/-!
Pins that tie the hand-written serializer model to the tables regenerated from the Rust source
(`Gen/Tables.lean`, written by `tools/extract_tables.py` on every run from `src/serializer_options.rs`,
`src/ser_quoting.rs`, `src/ser.rs`):

* the defaults of the model's `Opts` are `SerializerOptions::default()`;
* the first-byte indicator sets of `is_plain_safe` / `is_plain_value_safe` are the model's `startIndicators`
  (+ `,`) and the "alone or followed by a blank" set is `{-, ?}`, and both predicates use the same sets;
* `dqEscape` (one arm of `write_quoted`) IS a lookup in the regenerated table of named escapes, followed by
  the two generic `\xNN` / `\uNNNN` arms — for every character (`dqEscape_eq_table`);
* likewise `keyEscape` for `KeyScalarSink::serialize_str`.

A change of one of these tables in the source therefore breaks an obligation here (C12, C13, C20 list this
module) even when no generated case of the differential run happens to hit the changed entry.
-/
namespace SaphyrVerif.Props.Ser_Tables
open SaphyrVerif SaphyrVerif.SerScalar

/-- the model's default option vector is `SerializerOptions::default()` -/
theorem opts_default_pinned :
    ({} : Emit.Opts) =
      { indentStep := Gen.serOptDefault_indentStep, minFoldChars := Gen.serOptDefault_minFoldChars,
        foldedWrapCol := Gen.serOptDefault_foldedWrapChars, taggedEnums := Gen.serOptDefault_taggedEnums,
        emptyAsBraces := Gen.serOptDefault_emptyAsBraces, compactListIndent := Gen.serOptDefault_compactListIndent,
        preferBlockScalars := Gen.serOptDefault_preferBlockScalars, quoteAll := Gen.serOptDefault_quoteAll,
        yaml12 := Gen.serOptDefault_yaml12 } := by decide

/-- a valid default: `indent_step ≥ 1` (C13's standing hypothesis holds for the default options) -/
theorem default_indent_step_valid : 1 ≤ Gen.serOptDefault_indentStep := by decide

/-- the emitter model switches to an explicit key at the source's `MAX_IMPLICIT_KEY_CHARS`, and that threshold does
not exceed what the reference reader accepts as an implicit key (the direction the round trip needs) -/
theorem implicit_key_limit_pinned :
    Emit.maxImplicitKeyChars = Gen.serMaxImplicitKeyChars ∧ Gen.serMaxImplicitKeyChars ≤ Emit.maxImplicitKey := by decide

/-- both predicates use the same first-byte tables -/
theorem plain_predicates_share_tables :
    Gen.serPlainSafe_loneOrBlankIndicators = Gen.serPlainValueSafe_loneOrBlankIndicators ∧
    Gen.serPlainSafe_firstByteIndicators = Gen.serPlainValueSafe_firstByteIndicators := by decide

/-- the model's `headRejects` tables are the source's -/
theorem head_tables_pinned :
    Gen.serPlainSafe_loneOrBlankIndicators.map Char.ofNat = ['-', '?'] ∧
    Gen.serPlainSafe_firstByteIndicators.map Char.ofNat = ',' :: startIndicators := by decide

/-- what the properties need from the set itself: every YAML indicator that cannot start a plain scalar
(c-indicator minus `-`, `?`, `:` handled separately) is rejected as a first character -/
theorem indicators_cover_yaml_spec :
    ∀ c ∈ [',', '[', ']', '{', '}', '#', '&', '*', '!', '|', '>', '\'', '"', '%', '@', '`', ':'],
      c.toNat ∈ Gen.serPlainValueSafe_firstByteIndicators := by decide

/-- the generic arms of `write_quoted` after the named ones -/
def dqGeneric (c : Char) : List Char :=
  if c.toNat ≤ 0xFF && (isControl c || (0x7F ≤ c.toNat && c.toNat ≤ 0x9F)) then '\\' :: 'x' :: hex2 c.toNat
  else if c.toNat ≤ 0xFFFF && (isControl c || (0x7F ≤ c.toNat && c.toNat ≤ 0x9F)) then '\\' :: 'u' :: hex4 c.toNat
  else [c]

/-- the generic arms of the key sink after the named ones -/
def keyGeneric (c : Char) : List Char :=
  if isControl c then '\\' :: 'u' :: hex4 c.toNat else [c]

theorem eq_of_toNat {c : Char} {n : Nat} (h : c.toNat = n) : c = Char.ofNat n := by
  rw [← h, Char.ofNat_toNat]

theorem ne_of_toNat_ne {c d : Char} (h : c.toNat ≠ d.toNat) : (c == d) = false := by
  rw [beq_eq_false_iff_ne]
  intro hc
  exact h (by rw [hc])

/-- (T) `dqEscape` is: look the character up in the regenerated table of named escapes of `write_quoted`;
if absent, the generic arms. For EVERY character. -/
theorem dqEscape_eq_table (c : Char) :
    dqEscape c = match Gen.serWriteQuotedEscapes.lookup c.toNat with
      | some t => t.map Char.ofNat
      | none => dqGeneric c := by
  by_cases h1 : c.toNat = 92
  · rw [eq_of_toNat h1]; decide
  by_cases h2 : c.toNat = 34
  · rw [eq_of_toNat h2]; decide
  by_cases h3 : c.toNat = 0
  · rw [eq_of_toNat h3]; decide
  by_cases h4 : c.toNat = 7
  · rw [eq_of_toNat h4]; decide
  by_cases h5 : c.toNat = 8
  · rw [eq_of_toNat h5]; decide
  by_cases h6 : c.toNat = 9
  · rw [eq_of_toNat h6]; decide
  by_cases h7 : c.toNat = 10
  · rw [eq_of_toNat h7]; decide
  by_cases h8 : c.toNat = 11
  · rw [eq_of_toNat h8]; decide
  by_cases h9 : c.toNat = 12
  · rw [eq_of_toNat h9]; decide
  by_cases h10 : c.toNat = 13
  · rw [eq_of_toNat h10]; decide
  by_cases h11 : c.toNat = 27
  · rw [eq_of_toNat h11]; decide
  by_cases h12 : c.toNat = 65279
  · rw [eq_of_toNat h12]; decide
  by_cases h13 : c.toNat = 133
  · rw [eq_of_toNat h13]; decide
  by_cases h14 : c.toNat = 8232
  · rw [eq_of_toNat h14]; decide
  by_cases h15 : c.toNat = 8233
  · rw [eq_of_toNat h15]; decide
  have e1 : (c == '\\') = false := ne_of_toNat_ne (by simpa using h1)
  have e2 : (c == '"') = false := ne_of_toNat_ne (by simpa using h2)
  have e6 : (c == '\t') = false := ne_of_toNat_ne (by simpa using h6)
  have e7 : (c == '\n') = false := ne_of_toNat_ne (by simpa using h7)
  have e10 : (c == '\r') = false := ne_of_toNat_ne (by simpa using h10)
  have b : ∀ n, c.toNat ≠ n → (c.toNat == n) = false := fun n h => by simp [h]
  simp only [dqEscape, dqGeneric, Gen.serWriteQuotedEscapes, List.lookup, e1, e2, e6, e7, e10, b _ h1, b _ h2, b _ h3, b _ h4,
    b _ h5, b _ h6, b _ h7, b _ h8, b _ h9, b _ h10, b _ h11, b _ h12, b _ h13, b _ h14, b _ h15, Bool.false_eq_true, if_false]

/-- (T) same for the key sink. -/
theorem keyEscape_eq_table (c : Char) :
    keyEscape c = match Gen.serKeySinkEscapes.lookup c.toNat with
      | some t => t.map Char.ofNat
      | none => keyGeneric c := by
  by_cases h1 : c.toNat = 92
  · rw [eq_of_toNat h1]; decide
  by_cases h2 : c.toNat = 34
  · rw [eq_of_toNat h2]; decide
  by_cases h7 : c.toNat = 10
  · rw [eq_of_toNat h7]; decide
  by_cases h10 : c.toNat = 13
  · rw [eq_of_toNat h10]; decide
  by_cases h6 : c.toNat = 9
  · rw [eq_of_toNat h6]; decide
  have e1 : (c == '\\') = false := ne_of_toNat_ne (by simpa using h1)
  have e2 : (c == '"') = false := ne_of_toNat_ne (by simpa using h2)
  have e6 : (c == '\t') = false := ne_of_toNat_ne (by simpa using h6)
  have e7 : (c == '\n') = false := ne_of_toNat_ne (by simpa using h7)
  have e10 : (c == '\r') = false := ne_of_toNat_ne (by simpa using h10)
  have b : ∀ n, c.toNat ≠ n → (c.toNat == n) = false := fun n h => by simp [h]
  simp only [keyEscape, keyGeneric, Gen.serKeySinkEscapes, List.lookup, e1, e2, e6, e7, e10, b _ h1, b _ h2, b _ h6, b _ h7,
    b _ h10, Bool.false_eq_true, if_false]

/-- what C12 needs from the table itself: every named escape starts with a backslash and is 2 or 6
characters long (so the double-quoted reader can undo it), and backslash and quote are in the table -/
theorem named_escapes_wellformed :
    (∀ p ∈ Gen.serWriteQuotedEscapes, p.2.head? = some 92 ∧ (p.2.length = 2 ∨ p.2.length = 6)) ∧
    Gen.serWriteQuotedEscapes.lookup 92 = some [92, 92] ∧ Gen.serWriteQuotedEscapes.lookup 34 = some [92, 34] ∧
    (∀ p ∈ Gen.serKeySinkEscapes, p.2.head? = some 92 ∧ p.2.length = 2) ∧
    Gen.serKeySinkEscapes.lookup 92 = some [92, 92] ∧ Gen.serKeySinkEscapes.lookup 34 = some [92, 34] := by decide

/-- (E) non-vacuity: a character from each class -/
example : dqEscape 'a' = ['a'] ∧ dqEscape '\n' = ['\\', 'n'] ∧ dqEscape (Char.ofNat 0x7F) = "\\x7F".toList ∧
    dqEscape (Char.ofNat 0x200B) = [Char.ofNat 0x200B] := by decide

end SaphyrVerif.Props.Ser_Tables
