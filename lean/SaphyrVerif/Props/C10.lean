import SaphyrVerif.Lemmas.C10
import SaphyrVerif.Lemmas.C09
import SaphyrVerif.Lemmas.C10_Gate
import SaphyrVerif.Lemmas.C10_Pipe
/-!
# C10 — I/O faults and the input-size cap are never swallowed (reader and writer)

Theorems about the model of the deferred-error protocol (Model/IoCell.lean) and of the byte cap of
`ChunkedChars` (Model/Reader.lean).
-/
namespace SaphyrVerif.Props.C10
open SaphyrVerif SaphyrVerif.Scalars SaphyrVerif.Pump SaphyrVerif.Reader SaphyrVerif.IoCell SaphyrVerif.Lemmas.C10 SaphyrVerif.Lemmas.C09

/-- (T) fault_surfaces_single.  For EVERY consumer strategy, EVERY list of parser items (no contract on
the scanner is needed), EVERY set of fault points and every budget / alias configuration: if the shared
cell was set at any point during a `from_reader*` / `with_deserializer_from_reader*` call, the call does
not return `Ok`.  Every observation point (`next`, `peek`, `finish`) returns the taken I/O error, the
consumer propagates it, and — since fix ae01964 — the trailing `peek` ignores only scanner errors after a
document end marker (`Error::is_trailing_garbage`), never an I/O error. -/
theorem fault_surfaces_single (c : Client) (fuel : Nat) (s : Src)
    (hcell : s.cell = none) (hever : s.everSet = false) :
    (fromReader c fuel s).2.everSet = true → (fromReader c fuel s).1 ≠ .ok := by
  unfold fromReader
  cases hrc : runClient c fuel [] s with
  | mk res s1 =>
    cases res with
    | some e =>
      simp only []
      split <;> simp
    | none =>
      simp only []
      have hk0 : K false s := by intro h; simp [hever] at h
      have hk := runClient_K c fuel [] s s1 false hk0 hrc
      cases hc : s1.cell with
      | some k =>
        have hp : s1.peek = (.err (.io k), { s1 with cell := none }) := doOp_some .peek hc
        rw [hp]
        simp [Err.isTrailingGarbage]
      | none =>
        have hk2 : K false s1.peek.2 := doOp_K_none .peek hc hk
        cases hpk : s1.peek with
        | mk r s2 =>
          rw [hpk] at hk2
          cases r with
          | event e => simp
          | none => exact finishTail_surfaces hk2
          | err e =>
            simp only []
            split
            · exact finishTail_surfaces hk2
            · simp

/-- (T) the error that `fault_surfaces_single` promises is not hidden behind the trailing-garbage rule
either: whatever `seen_doc_end` says, an I/O error or a budget breach met at the trailing `peek` is returned. -/
theorem trailing_garbage_only_scanner_errors (e : Err) (h : e.isTrailingGarbage = true) :
    (∃ l, e = .pump (.scan l)) ∨ (∃ l, e = .pump (.unknownAnchor l)) := by
  cases e with
  | pump pe => cases pe <;> simp [Err.isTrailingGarbage] at h ⊢
  | _ => simp [Err.isTrailingGarbage] at h

/-- (T) fault_surfaces_iter (full strength since fix 80d7f83).  Drive `ReadIter` (any consumer, any parser
items, any fault points, any budget) until it returns `None`: if every yielded item is `Ok`, the error cell
was never set.  Equivalently a fault always produces an `Err` item — also while a null-like document is
being skipped, the case that used to be swallowed. -/
theorem fault_surfaces_iter (c : Client) (fuel : Nat) : ∀ (calls : Nat) (it : Iter),
    it.finished = false → K false it.src →
    (iterAll c fuel calls it).2.1 = true →
    (∀ item ∈ (iterAll c fuel calls it).1, item.isErr = false) →
    (iterAll c fuel calls it).2.2.src.everSet = false := by
  intro calls
  induction calls with
  | zero => intro it _ _ h; simp [iterAll] at h
  | succ calls ih =>
    intro it hf hk hend hall
    have hg := iterNext_spec c fuel it hf hk
    simp only [iterAll] at hend hall ⊢
    cases hn : iterNext c fuel it with
    | mk r it' =>
      rw [hn] at hg
      simp only [hn] at hend hall ⊢
      cases r with
      | none =>
        simp only [Good] at hg
        simp only
        cases hev : it'.src.everSet with
        | false => rfl
        | true =>
          rcases hg.1 hev with h | h
          · simp [hg.2] at h
          · simp at h
      | some item =>
        simp only at hend hall ⊢
        cases item with
        | err e =>
          have := hall (.err e) (by simp)
          simp [Item.isErr] at this
        | ok =>
          simp only [Good] at hg
          exact ih it' hg.1 hg.2 hend (fun i hi => hall i (by simp [hi]))

/-- the same as an existence statement: the cell was set ⇒ some item is an `Err` -/
theorem fault_yields_err_item (c : Client) (fuel calls : Nat) (it : Iter)
    (hf : it.finished = false) (hk : K false it.src) (hend : (iterAll c fuel calls it).2.1 = true)
    (hset : (iterAll c fuel calls it).2.2.src.everSet = true) :
    ∃ item ∈ (iterAll c fuel calls it).1, item.isErr = true := by
  apply Classical.byContradiction
  intro hno
  have hall : ∀ item ∈ (iterAll c fuel calls it).1, item.isErr = false := by
    intro item hi
    cases h : item.isErr with
    | false => rfl
    | true => exact absurd ⟨item, hi, h⟩ hno
  have := fault_surfaces_iter c fuel calls it hf hk hend hall
  rw [this] at hset
  cases hset

/-- the fresh iterator of `read` / `read_with_options` satisfies the hypotheses -/
theorem fresh_iter_K (s : Src) (h : s.everSet = false) : K false s := by intro h'; simp [h] at h'

/-! ### regression: the former swallow witnesses (fixed by 80d7f83) now yield the error -/

def defaultLimits : Budget.Limits :=
  { maxEvents := Gen.budgetDefault_maxEvents, maxAliases := Gen.budgetDefault_maxAliases,
    maxAnchors := Gen.budgetDefault_maxAnchors, maxDepth := Gen.budgetDefault_maxDepth,
    maxDocuments := Gen.budgetDefault_maxDocuments, maxNodes := Gen.budgetDefault_maxNodes,
    maxTotalScalarBytes := Gen.budgetDefault_maxTotalScalarBytes, maxMergeKeys := Gen.budgetDefault_maxMergeKeys,
    enforceRatio := Gen.budgetDefault_enforceAliasAnchorRatio, minAliases := Gen.budgetDefault_aliasAnchorMinAliases,
    multiplier := Gen.budgetDefault_aliasAnchorRatioMultiplier }

def defaultAlias : AliasLimits :=
  { maxTotalReplayedEvents := Gen.aliasLimitsDefault_maxTotalReplayedEvents,
    maxReplayStackDepth := Gen.aliasLimitsDefault_maxReplayStackDepth,
    maxAliasExpansionsPerAnchor := Gen.aliasLimitsDefault_maxAliasExpansionsPerAnchor }

/-- `read_with_options` over the given parser items and fault points (per-document budget policy) -/
def readIter (items : List RawItem) (fires : List (Nat × IoKind)) : Iter :=
  { src := { pump := { limits := defaultAlias, budget := some (Budget.Enf.new defaultLimits true) },
             input := items, total := items.length, fires := fires } }

/-- parser items of `~\n---\na: 1\n` with `max_reader_input_bytes = 2` as observed on the implementation
(`verif_hooks::reader::reader_items_with_cell`): the scanner has the explicit null and its document end; the
third byte breaches the cap (`FileTooLarge`) while the second item is pulled. -/
def witnessCapItems : List RawItem :=
  [.ev .streamStart 1048577, .ev (.docStart false) 1048577, .ev (.scalar ['~'] .plain 0 none) 1048577,
   .ev .docEnd 2097153, .ev .streamEnd 2097153]

/-- parser items of `x\n` (or `~\n---\na: 1\n`) when the reader fails before the decoder has delivered
anything: an empty stream, for which the pump synthesizes a null document -/
def witnessEmptyItems : List RawItem := [.ev .streamStart 1048577, .ev .streamEnd 1048577]

/-- regression (was (F) `iter_swallows_fault_after_null`): on both former witnesses the iterator now yields
exactly one item, the I/O error, and ends. -/
theorem iter_null_skip_surfaces_fault :
    (iterAll consumeNode 64 8 (readIter witnessCapItems [(2, kFileTooLarge)])).1 = [.err (.io kFileTooLarge)] ∧
    (iterAll consumeNode 64 8 (readIter witnessCapItems [(2, kFileTooLarge)])).2.1 = true ∧
    (iterAll consumeNode 64 8 (readIter witnessEmptyItems [(1, kOther)])).1 = [.err (.io kOther)] ∧
    (iterAll consumeNode 64 8 (readIter witnessEmptyItems [(1, kOther)])).2.1 = true := by
  decide

/-- (E) the same inputs through the single-document entry point fail as before -/
example : (fromReader consumeNode 64 (readIter witnessCapItems [(2, kFileTooLarge)]).src).1 = .err (.io kFileTooLarge) := by
  decide
/-- (E) without the fault the iterator skips the null document and ends normally (hypotheses satisfiable) -/
example : (iterAll consumeNode 64 8 (readIter witnessCapItems [])).1 = [] ∧
    (iterAll consumeNode 64 8 (readIter witnessCapItems [])).2.2.src.everSet = false := by decide
example : (iterAll consumeNode 64 8 (readIter
    [.ev .streamStart 1048577, .ev (.docStart false) 1048577, .ev (.scalar ['x'] .plain 0 none) 1048577,
     .ev .docEnd 2097153, .ev .streamEnd 2097153] [(2, kOther)])).1 = [.err (.io kOther)] := by decide
/-- a consumer that accepts a value after one event (like a unit/Option target on a shape mismatch) -/
def takeOne : Client := fun hist =>
  match hist with
  | [] => .op .peek
  | [_] => .op .next
  | _ => .done

/-- (E) a container end where a document should start is an error item (fix 2d066df): `[a]` read by a
consumer that stops after one event -/
example : (iterAll takeOne 64 8 (readIter
    [.ev .streamStart 1048577, .ev (.docStart false) 1048577, .ev (.seqStart 0 none) 1048577,
     .ev (.scalar ['a'] .plain 0 none) 1048578, .ev .seqEnd 1048579,
     .ev .docEnd 2097153, .ev .streamEnd 2097153] [])).1 = [.ok, .ok, .err .unexpectedEnd] := by decide
/-- (E) after a document end marker a scanner error is still ignored, an I/O error is not (fix ae01964) -/
example : (fromReader consumeNode 64 (readIter
    [.ev .streamStart 1048577, .ev (.docStart false) 1048577, .ev (.scalar ['a'] .plain 0 none) 1048577,
     .ev .docEnd 2097153, .err false 3145729] []).src).1 = .ok := by decide
example : (fromReader consumeNode 64 (readIter
    [.ev .streamStart 1048577, .ev (.docStart false) 1048577, .ev (.scalar ['a'] .plain 0 none) 1048577,
     .ev .docEnd 2097153, .err false 3145729] [(5, kOther)]).src).1 = .err (.io kOther) := by decide

/-! ### a reader error reaches the cell -/

/-- (T) reader_fault_sets_cell.  The reader delivers any bytes in any partition into non-empty read results
and then a call FAILS with a hard error (any kind other than `Interrupted`, which is retried; since fix
2f20266 this includes `UnexpectedEof`): by the time `ChunkedChars` reports end of input to the scanner the shared cell is set
(with that error, or with the error of a malformed / truncated sequence met earlier).  Together with
`fault_surfaces_single` this is the chain "reader error ⇒ cell set ⇒ `Err`". -/
theorem reader_fault_sets_cell (pre post : Sched) (k : IoKind) (hc : chunked pre = true)
    (hk1 : k ≠ kInterrupted) :
    (collectAll { reader := pre ++ .fail k :: post }).2.cell ≠ none := by
  have happ : ∀ (a b : Sched), flat (a ++ b) = flat a ++ flat b := by
    intro a b
    induction a with
    | nil => simp [flat]
    | cons it rest ih => cases it <;> simp [flat, ih]
  let F := 2 * Sched.bytes (pre ++ .fail k :: post) + 2
  let cc0 : CC := { reader := pre ++ .fail k :: post }
  have hb : (flat pre).length < F := by simp [F, Sched.bytes, happ, flat]; omega
  have hraw := SaphyrVerif.Lemmas.C09.collect_fault_recorded k hk1 post F cc0 pre rfl hc rfl hb
  have hlen := collectRaw_len F cc0
  have hfin : (collectRaw F cc0).1.length < F := by
    have : (flat cc0.reader).length = Sched.bytes (pre ++ .fail k :: post) := rfl
    omega
  obtain ⟨more, _, c2, _⟩ := collect_seg_general F cc0 hfin
  have hsome : (collectRaw F cc0).2.cell.isSome = true := by
    cases h : (collectRaw F cc0).2.cell with
    | none => exact absurd h hraw
    | some x => rfl
  have := c2 hsome
  intro hnone
  have hr : collectAll { reader := pre ++ .fail k :: post } = collect F cc0 := rfl
  rw [hr] at hnone
  rw [hnone] at this
  simp at this

/-! ### regression: a reader error of kind `UnexpectedEof` (fixed by 2f20266) -/

/-- regression (was (F) `unexpected_eof_kind_swallowed`): the reader delivers `a: 1\n` and then FAILS with
`Err(ErrorKind::UnexpectedEof)`; the five characters are produced and the error is now recorded in the
cell, like any other kind; a clean `Ok(0)` still is the end of the input without an error. -/
theorem unexpected_eof_kind_recorded :
    (collectAll { reader := [.data [0x61, 0x3A, 0x20, 0x31, 0x0A], .fail kUnexpectedEof] }).1 = ['a', ':', ' ', '1', '\n'] ∧
    (collectAll { reader := [.data [0x61, 0x3A, 0x20, 0x31, 0x0A], .fail kUnexpectedEof] }).2.cell = some kUnexpectedEof ∧
    (collectAll { reader := [.data [0x61, 0x3A, 0x20, 0x31, 0x0A], .data []] }).2.cell = none ∧
    (collectAll { reader := [.data [0x61, 0x3A, 0x20, 0x31, 0x0A], .fail kInterrupted, .data [0x62]] }).1 =
      ['a', ':', ' ', '1', '\n', 'b'] := by
  decide

/-! ### byte cap -/

/-- (T) cap_pull_bound.  For EVERY schedule (any chunking, failing calls, empty reads) and every cap: up to the
first `None` of `next_char` — the first time the reader glue gives up: end of input, I/O error, malformed
sequence or the cap itself — at most `cap + 4` bytes have been taken from the reader (general form: the bytes
pulled beyond those already accounted in `total_bytes` never exceed what the cap still allows plus one
code point). -/
theorem cap_pull_bound_general : ∀ (fuel : Nat) (cc : CC) (cap : Nat), cc.maxBytes = some cap → cc.totalBytes ≤ cap →
    (collectRaw fuel cc).2.pulled + cc.totalBytes ≤ cc.pulled + cap + 4 := by
  intro fuel
  induction fuel with
  | zero => intro cc cap _ h; simp [collectRaw]; omega
  | succ fuel ih =>
    intro cc cap hm ht
    obtain ⟨h1, h2, h3⟩ := next_pull cc
    simp only [collectRaw]
    cases hn : nextChar cc with
    | mk r cc' =>
      rw [hn] at h1 h2 h3
      cases r with
      | none =>
        have := h3 rfl
        simp only at this ⊢
        omega
      | some c =>
        obtain ⟨n, _, a, b, d⟩ := h2 c rfl
        have hcap := d cap hm
        have := ih (noteChar cc' c) cap (by simpa using h1 ▸ hm) (by simpa using hcap)
        simp only at a b this ⊢
        simp at this
        omega

theorem cap_pull_bound (sched : Sched) (cap : Nat) (fuel : Nat) :
    (collectRaw fuel { reader := sched, maxBytes := some cap }).2.pulled ≤ cap + 4 := by
  have := cap_pull_bound_general fuel { reader := sched, maxBytes := some cap } cap rfl (by simp)
  simpa using this

/-- (T) every call of `next` — also the calls the scanner's `BufferedInput` keeps making after the end — pulls
at most one code point, keeps the cap setting and keeps `total_bytes` under the cap -/
theorem pull_per_call (cc : CC) : (Reader.next cc).2.pulled ≤ cc.pulled + 4 := (next_pull' cc).2.1

/-- (T) cap_pull_invariant.  Over ANY number of `next` calls (the run continues after a synthetic line break,
fix bfd6267, so `next_char` can give up more than once): every byte pulled is accounted in `total_bytes`,
which never exceeds the cap, or belongs to one of the at most 4-byte sequences on which `next_char` gave up:
`pulled ≤ cap + 4 · giveUps`. -/
theorem cap_pull_invariant (fuel : Nat) (sched : Sched) (cap : Nat) :
    (collect fuel { reader := sched, maxBytes := some cap }).2.pulled ≤
      cap + 4 * giveUps fuel { reader := sched, maxBytes := some cap } := by
  have h := pull_invariant fuel { reader := sched, maxBytes := some cap }
  have ht : ∀ (f : Nat) (cc : CC), cc.maxBytes = some cap → cc.totalBytes ≤ cap → (collect f cc).2.totalBytes ≤ cap := by
    intro f
    induction f with
    | zero => intro cc _ h; simpa [collect] using h
    | succ f ih =>
      intro cc hm hle
      obtain ⟨a, _, c⟩ := next_pull' cc
      simp only [collect]
      cases hn : Reader.next cc with
      | mk r cc' =>
        rw [hn] at a c
        cases r with
        | none => exact c cap hm hle
        | some ch => exact ih cc' (by rw [a]; exact hm) (c cap hm hle)
  have := ht fuel { reader := sched, maxBytes := some cap } rfl (by simp)
  simp only at h
  omega

/-- (T) cap_inactive_below.  For EVERY schedule (faults and empty reads included) whose stream is at most
`cap` bytes long, `ChunkedChars` with the cap produces the same characters (synthetic break included) and
records the same error as without a cap: the cap never changes the behaviour on inputs that fit. -/
theorem cap_inactive_below_general : ∀ (fuel : Nat) (cc : CC) (cap L : Nat), CapInv L cc → L ≤ cap →
    cc.maxBytes = some cap →
    (collect fuel cc).1 = (collect fuel { cc with maxBytes := none }).1 ∧
    (collect fuel cc).2.cell = (collect fuel { cc with maxBytes := none }).2.cell := by
  intro fuel
  induction fuel with
  | zero => intro cc cap L _ _ _; simp [collect]
  | succ fuel ih =>
    intro cc cap L hi hL hm
    obtain ⟨h1, h2, h3⟩ := next_cap_free' cc cap L hi hL hm
    have hmb := (next_pull' { cc with maxBytes := none }).1
    simp only [collect]
    cases hn : Reader.next cc with
    | mk r cc' =>
      cases hn0 : Reader.next { cc with maxBytes := none } with
      | mk r0 cc0' =>
        rw [hn, hn0] at h1 h2
        rw [hn] at h3
        rw [hn0] at hmb
        simp only at h1 h2 h3 hmb
        subst h1
        cases r with
        | none => simp only []; exact ⟨trivial, by rw [h2]⟩
        | some c =>
          simp only []
          have hcc0 : { cc' with maxBytes := none } = cc0' := by
            rw [h2]
            cases cc0' with
            | mk a b c d e f g => simp only at hmb; subst hmb; rfl
          have := ih cc' cap L h3 hL (by rw [h2])
          rw [hcc0] at this
          exact ⟨by rw [this.1], this.2⟩

theorem cap_inactive_below (sched : Sched) (cap : Nat) (h : (flat sched).length ≤ cap) :
    (collectAll { reader := sched, maxBytes := some cap }).1 = (collectAll { reader := sched }).1 ∧
    (collectAll { reader := sched, maxBytes := some cap }).2.cell = (collectAll { reader := sched }).2.cell := by
  have := cap_inactive_below_general (2 * Sched.bytes sched + 2) { reader := sched, maxBytes := some cap } cap
    (flat sched).length ⟨Nat.le_refl _, by simp⟩ h rfl
  simpa [collectAll] using this

/-- (E) the cap is breached twice (`%€`, line break, `%€`; cap 3): two synthetic breaks, 9 bytes pulled
= within `cap + 4 · giveUps` = 3 + 4·2, beyond `cap + 4` — why the bound is stated per give-up -/
example : (collectAll { reader := [.data [0x25, 0xE2, 0x82, 0xAC, 0x0A, 0x25, 0xE2, 0x82, 0xAC]], maxBytes := some 3 }).1 =
      ['%', '\n', '\n', '%', '\n'] ∧
    (collectAll { reader := [.data [0x25, 0xE2, 0x82, 0xAC, 0x0A, 0x25, 0xE2, 0x82, 0xAC]], maxBytes := some 3 }).2.pulled = 9 := by
  decide
/-- (E) the cap is hit in the middle of `a€a` (cap 3): one character, `FileTooLarge`, 4 ≤ 3 + 4 bytes pulled -/
example : (collectAll { reader := [.data [0x61, 0xE2, 0x82, 0xAC, 0x61]], maxBytes := some 3 }).1 = ['a'] ∧
    (collectAll { reader := [.data [0x61, 0xE2, 0x82, 0xAC, 0x61]], maxBytes := some 3 }).2.cell = some kFileTooLarge ∧
    (collectAll { reader := [.data [0x61, 0xE2, 0x82, 0xAC, 0x61]], maxBytes := some 3 }).2.pulled = 4 := by decide

/-! ### the raw-byte gate in front of the decoder (fix 2cd23fb)

`RawGate` (Model/RawGate.lean) sits between the caller's reader and the external decoder.  The caller's reader is
a schedule of read results (any chunking, failing calls, empty reads); the consumer — the decoder under
`BufReader` — is the list `reqs` of the buffer sizes of its `read` calls (never an empty buffer). -/

section Gate
open SaphyrVerif.Lemmas.C10Gate SaphyrVerif.Spec.Utf16

/-- (T) raw_pull_bound.  For EVERY schedule of the caller's reader, every cap and every sequence of `read` calls
(empty buffers included): the gate takes at most `cap + 1` bytes from the reader — whatever the encoding is and
whatever the decoder behind it does — and never hands on more than `cap`.  (`taken` is exactly what the inner
schedule lost: `raw_taken_is_consumption`.) -/
theorem raw_pull_bound (sched : Sched) (cap : Nat) (reqs : List Nat) :
    (Gate.run { inner := sched, limit := some cap } reqs).2.taken ≤ cap + 1 ∧
    (Gate.run { inner := sched, limit := some cap } reqs).2.pulled ≤ cap := by
  obtain ⟨_, h2, h3⟩ := run_capInv cap reqs { inner := sched, limit := some cap } ⟨rfl, by simp, by simp⟩
  refine ⟨?_, h2⟩
  rw [h3]; split <;> omega

/-- (T) the ghost counter of `raw_pull_bound` is the consumption of the reader: the bytes the schedule still holds
plus `taken` is constant -/
theorem raw_taken_is_consumption (sched : Sched) (limit : Option Nat) (reqs : List Nat) :
    (flat (Gate.run { inner := sched, limit := limit } reqs).2.inner).length +
      (Gate.run { inner := sched, limit := limit } reqs).2.taken = (flat sched).length := by
  simpa using run_taken reqs { inner := sched, limit := limit }

/-- (T) raw_gate_transparent_below_cap.  For EVERY schedule (failing calls and empty reads included) whose stream
has at most `cap` bytes (or with no cap at all) and in which no end-of-input result falls inside a UTF-16
character (`eofClean`), and every sequence of `read` calls with non-empty buffers: the consumer sees exactly the
results the reader itself would have given — same bytes in the same pieces, same errors, same `Ok(0)` — and the
reader is left in the same state. -/
theorem raw_gate_transparent_below_cap (sched : Sched) (limit : Option Nat) (reqs : List Nat)
    (hpos : ∀ n ∈ reqs, 0 < n) (hcap : ∀ cap, limit = some cap → (flat sched).length ≤ cap)
    (hclean : eofClean [] sched = true) :
    (Gate.run { inner := sched, limit := limit } reqs).1 = (readCalls sched reqs).1 ∧
    (Gate.run { inner := sched, limit := limit } reqs).2.inner = (readCalls sched reqs).2 := by
  apply run_transparent reqs { inner := sched, limit := limit } [] hpos
  · exact ⟨rfl, rfl, fun cap h => by simpa using hcap cap h⟩
  · exact hclean

/-- (T) input that does not begin with a UTF-16 byte-order mark (UTF-8 with or without its own mark, anything
shorter than two bytes) satisfies `eofClean` for every schedule: for such input `raw_gate_transparent_below_cap`
needs the size condition only -/
theorem not_utf16_is_clean (sched : Sched) (h : bomOf (flat sched) = none) : eofClean [] sched = true :=
  eofClean_not_utf16 sched [] (by simpa using h)

/-- (T) raw_gate_refuses_above_cap.  The reader delivers MORE than `cap` bytes, in any partition into non-empty
read results; the consumer makes any `read` calls with non-empty buffers.  Then its results are non-empty pieces
of the first `cap` bytes followed by `FileTooLarge` forever: never an end of input, never a byte beyond the cap;
the first refusal comes after exactly the first `cap` bytes, and a consumer that keeps reading (more than `cap`
calls) does meet it. -/
theorem raw_gate_refuses_above_cap (sched : Sched) (cap : Nat) (reqs : List Nat) (hc : chunked sched = true)
    (hpos : ∀ n ∈ reqs, 0 < n) (hlen : cap < (flat sched).length) :
    ∃ (chunks : List (List Nat)) (m : Nat),
      (Gate.run { inner := sched, limit := some cap } reqs).1 =
        chunks.map .ok ++ List.replicate m (.err kFileTooLarge) ∧
      (∀ c ∈ chunks, c ≠ []) ∧
      (∃ rest, chunks.flatten ++ rest = (flat sched).take cap ∧ (0 < m → rest = [])) ∧
      (cap < reqs.length → 0 < m) := by
  obtain ⟨chunks, m, e1, e2, ⟨rest, e3, e4⟩, e5⟩ :=
    run_refuses cap reqs { inner := sched, limit := some cap } hpos rfl rfl hc (by simp) (by simpa using hlen)
  have e3' : chunks.flatten ++ rest = (flat sched).take cap := by simpa using e3
  refine ⟨chunks, m, e1, e2, ⟨rest, e3', e4⟩, ?_⟩
  intro hlong
  have h1 := length_le_flatten chunks e2
  have h2 : chunks.flatten.length ≤ cap := by
    have := congrArg List.length e3'
    rw [List.length_append, List.length_take, Nat.min_eq_left (Nat.le_of_lt hlen)] at this
    omega
  omega

/-- (T) utf16_truncation_is_error.  The raw input (delivered in any partition into non-empty read results, under
no cap or a cap it fits) starts with a UTF-16 mark and ends inside a character (`endsInsideChar`: an odd number of
bytes after the mark, or a high surrogate as last code unit).  Then the consumer gets the bytes in non-empty
pieces and after them `UnexpectedEof` on every call — never `Ok(0)`: the decoder is not told "end of input", so
it cannot flush a U+FFFD for the incomplete character as if the text were complete. -/
theorem utf16_truncation_is_error (sched : Sched) (limit : Option Nat) (reqs : List Nat) (hc : chunked sched = true)
    (hpos : ∀ n ∈ reqs, 0 < n) (hcap : ∀ cap, limit = some cap → (flat sched).length ≤ cap)
    (hcut : endsInsideChar (flat sched) = true) :
    ∃ (chunks : List (List Nat)) (m : Nat),
      (Gate.run { inner := sched, limit := limit } reqs).1 =
        chunks.map .ok ++ List.replicate m (.err kUnexpectedEof) ∧
      (∀ c ∈ chunks, c ≠ []) ∧
      (∃ rest, chunks.flatten ++ rest = flat sched ∧ (0 < m → rest = [])) ∧
      ((flat sched).length < reqs.length → 0 < m) := by
  obtain ⟨chunks, m, e1, e2, ⟨rest, e3, e4⟩, e5⟩ :=
    run_truncated reqs { inner := sched, limit := limit } [] hpos
      ⟨rfl, rfl, fun cap h => by simpa using hcap cap h⟩ hc (by simpa using hcut)
  refine ⟨chunks, m, e1, e2, ⟨rest, e3, e4⟩, ?_⟩
  intro hlong
  have h1 := length_le_flatten chunks e2
  have h2 : chunks.flatten.length ≤ (flat sched).length := by
    have := congrArg List.length e3
    rw [List.length_append] at this
    change _ = (flat sched).length at this
    omega
  omega

/-- (T) the flag `RawGate::at_end` tests IS the predicate, for every byte string and every way of handing it on
in pieces: after a fresh gate has noted `chunks.flatten`, `insideChar` = `endsInsideChar (chunks.flatten)` -/
theorem gate_flag_is_predicate (chunks : List (List Nat)) :
    (chunks.foldl (fun g c => g.noteAll c) ({ inner := [] } : Gate)).insideChar = endsInsideChar chunks.flatten := by
  have : ∀ (cs : List (List Nat)) (g : Gate), cs.foldl (fun g c => g.noteAll c) g = g.noteAll cs.flatten := by
    intro cs
    induction cs with
    | nil => intro g; rfl
    | cons c cs ih => intro g; simp only [List.foldl_cons, List.flatten_cons, noteAll_append]; exact ih _
  rw [this]
  exact flag_eq_spec _ _ rfl

/-- (T) which cut positions are "inside a character": the raw bytes of a UTF-16 text (`encode be us` = mark ++ code
units, LE or BE) cut `q` bytes after the mark.  An odd `q` is inside a code unit; `q = 2·(i+1)` is inside a
character exactly when the unit `us[i]` before the cut is a high surrogate; the complete text is inside a
character exactly when its last unit is a high surrogate. -/
theorem utf16_cut_positions (be : Bool) (us : List Nat) :
    (∀ q, q ≤ 2 * us.length → q % 2 = 1 → endsInsideChar ((encode be us).take (2 + q)) = true) ∧
    (∀ i u, us[i]? = some u → endsInsideChar ((encode be us).take (2 + 2 * (i + 1))) = isHigh u) ∧
    (endsInsideChar (encode be us) = true ↔ ∃ u, us.getLast? = some u ∧ isHigh u = true) := by
  have htake : ∀ q, (encode be us).take (2 + q) =
      (if be then [0xFE, 0xFF] else [0xFF, 0xFE]) ++ (us.flatMap (unitBytes be)).take q := by
    intro q
    unfold encode
    rw [show 2 + q = q + 1 + 1 by omega]
    cases be <;> simp [List.take_succ_cons]
  refine ⟨?_, ?_, ?_⟩
  · intro q hq hodd
    rw [htake, endsInsideChar_bom_append]
    exact cut_odd be _ q (by rw [flatMap_length]; exact hq) hodd
  · intro i u hu
    rw [htake, endsInsideChar_bom_append]
    exact cut_after_unit be us i u hu
  · unfold encode
    rw [endsInsideChar_bom_append]
    exact cut_complete be us

/-- (T) utf16_complete_is_clean.  A complete UTF-16 text (an even number of bytes after the mark, no dangling high
surrogate at the end), delivered with any chunking and any failing calls (no empty reads), under no cap or a cap
it fits, passes the gate unchanged: the consumer sees the reader's own results. -/
theorem utf16_complete_is_clean (be : Bool) (us : List Nat) (sched : Sched) (limit : Option Nat) (reqs : List Nat)
    (hne : noEmpty sched = true) (hflat : flat sched = encode be us)
    (hlast : ∀ u, us.getLast? = some u → isHigh u = false)
    (hpos : ∀ n ∈ reqs, 0 < n) (hcap : ∀ cap, limit = some cap → (flat sched).length ≤ cap) :
    (Gate.run { inner := sched, limit := limit } reqs).1 = (readCalls sched reqs).1 := by
  refine (raw_gate_transparent_below_cap sched limit reqs hpos hcap ?_).1
  rw [eofClean_noEmpty sched [] hne, List.nil_append, hflat]
  cases h : endsInsideChar (encode be us) with
  | false => rfl
  | true =>
    obtain ⟨u, hu, hh⟩ := (utf16_cut_positions be us).2.2.1 h
    rw [hlast u hu] at hh; cases hh

/-- (T) the gate's own errors are errors of the "underlying reader" in the sense of `reader_fault_sets_cell` /
`fault_surfaces_single` / `fault_surfaces_iter`: every error result of the gate is either the inner reader's own
error, passed on unchanged, or one of the two hard kinds `FileTooLarge` / `UnexpectedEof` — never an `Interrupted`
of its own making, which `ChunkedChars` would retry. -/
theorem gate_error_origin (g : Gate) (n : Nat) (k : IoKind) (h : (g.read n).1 = .err k) :
    (∃ want s, readCall want g.inner = (.err k, s)) ∨ k = kFileTooLarge ∨ k = kUnexpectedEof := by
  by_cases hn : n = 0
  · subst hn; simp [Gate.read] at h
  · have hplain : ∀ want, (g.plain want).1 = .err k →
        (∃ want s, readCall want g.inner = (.err k, s)) ∨ k = kFileTooLarge ∨ k = kUnexpectedEof := by
      intro want hp
      rcases plain_spec g want with ⟨k', s, hrc, he⟩ | ⟨s, _, he⟩ | ⟨b, bs, s, _, he⟩
      · rw [he] at hp; simp at hp; subst hp; exact Or.inl ⟨want, s, hrc⟩
      · rw [he] at hp
        simp only [Gate.atEnd] at hp
        split at hp
        · simp at hp; exact Or.inr (Or.inr hp.symm)
        · simp at hp
      · rw [he] at hp; simp at hp
    rcases read_paths g n (by omega) with ⟨l, _, _, hr⟩ | ⟨_, hr⟩ | ⟨l, _, _, _, hr⟩ | ⟨l, _, _, _, hr⟩
    · rw [hr] at h; simp at h; exact Or.inr (Or.inl h.symm)
    · rw [hr] at h; exact hplain _ h
    · rw [hr] at h; exact hplain _ h
    · rw [hr] at h
      rcases probe_spec g with ⟨k', s, hrc, he⟩ | ⟨s, _, he⟩ | ⟨b, s, _, he⟩
      · rw [he] at h; simp at h; subst h; exact Or.inl ⟨1, s, hrc⟩
      · rw [he] at h
        simp only [Gate.atEnd] at h
        split at h
        · simp at h; exact Or.inr (Or.inr h.symm)
        · simp at h
      · rw [he] at h; simp at h; exact Or.inr (Or.inl h.symm)

/-- (T) gate_fault_reaches_cell: `reader_fault_sets_cell` applies verbatim to the gate's two errors.  Whatever the
layers between the gate and `ChunkedChars` delivered before (any non-empty read results `pre`: the decoded text so
far), a failing call with the gate's `FileTooLarge` or `UnexpectedEof` leaves the shared cell set by the time
`ChunkedChars` reports the end — and then `fault_surfaces_single` / `fault_surfaces_iter` give `Err`. -/
theorem gate_fault_reaches_cell (pre post : Sched) (k : IoKind) (hc : chunked pre = true)
    (hk : k = kFileTooLarge ∨ k = kUnexpectedEof) :
    (collectAll { reader := pre ++ .fail k :: post }).2.cell ≠ none := by
  apply reader_fault_sets_cell pre post k hc
  rcases hk with rfl | rfl <;> decide

/-- (T) the composition on the decoder's pass-through path (UTF-8 without a mark: decoder and `BufReader` hand the
gate's results on as they are): an input of more than `cap` raw bytes, read by `ChunkedChars` through the gate with
more than `cap` calls, ends with the cell set — by `fault_surfaces_single` the call returns `Err`. -/
theorem gate_cap_refusal_recorded (sched : Sched) (cap : Nat) (reqs : List Nat) (hc : chunked sched = true)
    (hpos : ∀ n ∈ reqs, 0 < n) (hlen : cap < (flat sched).length) (hlong : cap < reqs.length) :
    (collectAll { reader := asSched (Gate.run { inner := sched, limit := some cap } reqs).1 }).2.cell ≠ none := by
  obtain ⟨chunks, m, e1, e2, _, e4⟩ := raw_gate_refuses_above_cap sched cap reqs hc hpos hlen
  obtain ⟨m', rfl⟩ : ∃ m', m = m' + 1 := ⟨m - 1, by have := e4 hlong; omega⟩
  rw [e1, asSched_oks_errs]
  exact gate_fault_reaches_cell _ _ _ (chunked_map_data chunks e2) (Or.inl rfl)

/-- (T) raw_gate_drained: the consumer of the differential run (`Gate.drain`: buffers of `n > 0` bytes until the
first end of input or hard error — the `iofault gate` answers of the model driver) over a reader that delivers its
bytes in any partition into non-empty read results.  More than `cap` bytes: exactly the first `cap` bytes, then
`FileTooLarge`, exactly `cap + 1` bytes taken.  At most `cap` bytes (or no cap): all bytes, all of them taken, and
the end is `UnexpectedEof` exactly when the input ends inside a UTF-16 character, a clean end otherwise. -/
theorem raw_gate_drained (sched : Sched) (n fuel : Nat) (hn : 0 < n) (hc : chunked sched = true) :
    (∀ cap, cap < (flat sched).length → cap < fuel →
      Gate.drain n fuel { inner := sched, limit := some cap } =
        ((flat sched).take cap, some kFileTooLarge, (Gate.drain n fuel { inner := sched, limit := some cap }).2.2) ∧
      (Gate.drain n fuel { inner := sched, limit := some cap }).2.2.taken = cap + 1) ∧
    (∀ limit, (∀ cap, limit = some cap → (flat sched).length ≤ cap) → (flat sched).length < fuel →
      Gate.drain n fuel { inner := sched, limit := limit } =
        (flat sched, if endsInsideChar (flat sched) then some kUnexpectedEof else none,
          (Gate.drain n fuel { inner := sched, limit := limit }).2.2) ∧
      (Gate.drain n fuel { inner := sched, limit := limit }).2.2.taken = (flat sched).length) := by
  constructor
  · intro cap hlen hf
    obtain ⟨a, b, c⟩ := drain_refuses cap n hn fuel { inner := sched, limit := some cap } rfl rfl hc (by simp)
      (by simpa using hlen) (by simpa using hf)
    refine ⟨?_, by simpa using c⟩
    apply Prod.ext
    · simpa using a
    · apply Prod.ext
      · exact b
      · rfl
  · intro limit hcap hf
    obtain ⟨a, b, c⟩ := drain_to_end n hn fuel { inner := sched, limit := limit } []
      ⟨rfl, rfl, fun cap h => by simpa using hcap cap h⟩ hc hf
    refine ⟨?_, by simpa using c⟩
    apply Prod.ext
    · exact a
    · apply Prod.ext
      · simpa using b
      · rfl

/-- (E) `a: xyz` in UTF-16LE minus its last byte (the former witness), read in 1-byte pieces with 4-byte buffers:
13 bytes, then `UnexpectedEof` on every further call -/
example : (Gate.run { inner := [.data [0xFF], .data [0xFE, 0x61], .data [0, 0x3A, 0, 0x20, 0, 0x78, 0, 0x79, 0, 0x7A]] }
    [4, 4, 4, 4, 4, 4, 4]).1 =
    [.ok [0xFF], .ok [0xFE, 0x61], .ok [0, 0x3A, 0, 0x20], .ok [0, 0x78, 0, 0x79], .ok [0, 0x7A],
     .err kUnexpectedEof, .err kUnexpectedEof] := by decide
/-- (E) the complete text is clean; cut after the high half of U+1F600 (`3D D8 | 00 DE`, LE and BE) it is not -/
example : endsInsideChar [0xFF, 0xFE, 0x61, 0, 0x3D, 0xD8, 0x00, 0xDE] = false ∧
    endsInsideChar [0xFF, 0xFE, 0x61, 0, 0x3D, 0xD8] = true ∧
    endsInsideChar [0xFE, 0xFF, 0, 0x61, 0xD8, 0x3D] = true ∧
    endsInsideChar [0xFE, 0xFF, 0, 0x61, 0xD8, 0x3D, 0xDE] = true ∧
    endsInsideChar [0xEF, 0xBB, 0xBF, 0xC3] = false := by decide
/-- (E) `encode` / cut positions on a non-trivial instance: `a😀` -/
example : encode false [0x61, 0xD83D, 0xDE00] = [0xFF, 0xFE, 0x61, 0, 0x3D, 0xD8, 0x00, 0xDE] ∧
    endsInsideChar ((encode true [0x61, 0xD83D, 0xDE00]).take (2 + 2 * (1 + 1))) = isHigh 0xD83D := by decide
/-- (E) the cap: 5 raw bytes under cap 3 (reader gives 2-byte pieces): 3 bytes, `FileTooLarge`, 4 bytes taken;
under cap 5 the same reader passes unchanged and the probe sees the end of input -/
example : (Gate.run { inner := [.data [1, 2], .data [3, 4], .data [5]], limit := some 3 } [8, 8, 8, 8]).1 =
      [.ok [1, 2], .ok [3], .err kFileTooLarge, .err kFileTooLarge] ∧
    (Gate.run { inner := [.data [1, 2], .data [3, 4], .data [5]], limit := some 3 } [8, 8, 8, 8]).2.taken = 4 ∧
    (Gate.run { inner := [.data [1, 2], .data [3, 4], .data [5]], limit := some 5 } [8, 8, 8, 8]).1 =
      [.ok [1, 2], .ok [3, 4], .ok [5], .ok []] ∧
    (Gate.run { inner := [.data [1, 2], .data [3, 4], .data [5]], limit := some 5 } [8, 8, 8, 8]).2.taken = 5 := by decide
/-- (E) hypotheses of the transparency theorem on a schedule with a failing call and an empty read -/
example : eofClean [] [.data [0x61], .fail kInterrupted, .data [], .data [0x62]] = true ∧
    (Gate.run { inner := [.data [0x61], .fail kInterrupted, .data [], .data [0x62]], limit := some 2 } [4, 4, 4, 4, 4]).1 =
      (readCalls [.data [0x61], .fail kInterrupted, .data [], .data [0x62]] [4, 4, 4, 4, 4]).1 := by decide
/-- (E) `ChunkedChars` behind the gate on the pass-through path: `ab€` (5 bytes) under cap 3 ends with `FileTooLarge`
in the cell after `ab` -/
example : (collectAll { reader := asSched (Gate.run { inner := [.data [0x61, 0x62, 0xE2, 0x82, 0xAC]], limit := some 3 } [8, 8, 8, 8]).1 }).1 = ['a', 'b'] ∧
    (collectAll { reader := asSched (Gate.run { inner := [.data [0x61, 0x62, 0xE2, 0x82, 0xAC]], limit := some 3 } [8, 8, 8, 8]).1 }).2.cell = some kFileTooLarge := by decide
/-- (E) the draining consumer on the former witnesses: truncated UTF-16 and a UTF-16 input of 14 raw bytes under
cap 7 (its 6 decoded bytes would fit) -/
example : (Gate.drain 8192 20 { inner := [.data [0xFF, 0xFE, 0x61, 0, 0x3A, 0, 0x20, 0, 0x78, 0, 0x79, 0, 0x7A]] }).2.1 = some kUnexpectedEof ∧
    (Gate.drain 8192 20 { inner := [.data [0xFF, 0xFE, 0x61, 0, 0x3A, 0, 0x20, 0, 0x78, 0, 0x79, 0, 0x7A, 0]], limit := some 7 }).2.1 = some kFileTooLarge ∧
    (Gate.drain 8192 20 { inner := [.data [0xFF, 0xFE, 0x61, 0, 0x3A, 0, 0x20, 0, 0x78, 0, 0x79, 0, 0x7A, 0]], limit := some 7 }).2.2.taken = 8 ∧
    (Gate.drain 8192 20 { inner := [.data [0xFF, 0xFE, 0x61, 0, 0x3A, 0, 0x20, 0, 0x78, 0, 0x79, 0, 0x7A, 0]], limit := some 14 }).2.1 = none := by decide

end Gate

/-! ### the pipeline: the gate owns the limit, `ChunkedChars` behind it has none (fixes cbb7ef9, 784e913)

Since fix 784e913 `buffered_input_from_reader_with_limit` gives `ChunkedChars` no cap of its own; since fix cbb7ef9
UTF-8 input with a byte-order mark is handed on by the decoder as it is (minus the mark), like unmarked UTF-8.
So for UTF-8 the pipeline is `ChunkedChars` (cap-less) over the gate's results (`asSched`), and for every
encoding everything behind the gate is a function of the gate's results. -/

section Pipeline
open SaphyrVerif.Lemmas.C10Gate SaphyrVerif.Lemmas.C10Pipe SaphyrVerif.Spec.Utf8

/-- (T) pipeline_cap_inactive_below (`cap_inactive_below` for the pipeline).  For EVERY byte string in EVERY
encoding (UTF-8 with or without mark, UTF-16, cut inside a character or not), every schedule of the caller's
reader (failing calls, empty reads), every sequence of non-empty `read` calls: if the RAW input has at most `cap`
bytes, the consumer of the gate sees exactly the results it sees with no cap at all — so everything behind the
gate (decoder, `BufReader`, the cap-less `ChunkedChars`, the scanner) behaves as without a cap; spelled out for
`ChunkedChars` reading the gate's results directly. -/
theorem pipeline_cap_inactive_below (sched : Sched) (cap : Nat) (reqs : List Nat) (hpos : ∀ n ∈ reqs, 0 < n)
    (hfit : (flat sched).length ≤ cap) :
    (Gate.run { inner := sched, limit := some cap } reqs).1 = (Gate.run { inner := sched } reqs).1 ∧
    collectAll { reader := asSched (Gate.run { inner := sched, limit := some cap } reqs).1 } =
      collectAll { reader := asSched (Gate.run { inner := sched } reqs).1 } := by
  have h := run_cap_inactive cap reqs { inner := sched, limit := some cap } hpos rfl rfl (by simpa using hfit)
  have h' : (Gate.run { inner := sched, limit := some cap } reqs).1 = (Gate.run { inner := sched } reqs).1 := h
  exact ⟨h', by rw [h']⟩

/-- (T) pipeline_cap_refusal_file_too_large (extends `gate_cap_refusal_recorded` to a refusal in the middle of a code
point).  The reader delivers MORE than `cap` raw bytes (any partition into non-empty read results) whose first `cap`
bytes are the beginning of a well-formed UTF-8 text — possibly ending in the middle of a character; the cap-less
`ChunkedChars` reads the gate's results (more than `cap` calls).  Up to the first `None` of `next_char` it yields
exactly the characters completed within the limit (`take cap = encode chars ++ cut`, `cut` the bytes of the
character the limit falls into, which begins no well-formed character) and the cell holds `FileTooLarge` — not
`unexpected EOF in middle of UTF-8 codepoint`: the continuation loop stores the `Err` it receives.  `collect`
(which goes on after a synthetic break) ends with the cell set, and with `FileTooLarge` when the last line is not
a directive line. -/
theorem pipeline_cap_refusal_file_too_large (sched : Sched) (cap : Nat) (reqs : List Nat) (hc : chunked sched = true)
    (hpos : ∀ n ∈ reqs, 0 < n) (hlen : cap < (flat sched).length) (hlong : cap < reqs.length)
    (cs : List Char) (tail : List Nat) (hwf : (flat sched).take cap ++ tail = encode cs)
    (fuel : Nat) (hfuel : cap < fuel) :
    let cc : CC := { reader := asSched (Gate.run { inner := sched, limit := some cap } reqs).1 }
    (collectRaw fuel cc).2.cell = some kFileTooLarge ∧
    (∃ cut, (flat sched).take cap = encode (collectRaw fuel cc).1 ++ cut ∧ (cut ≠ [] → ¬ StartsWithChar cut)) ∧
    (collect fuel cc).2.cell ≠ none ∧
    ((collectRaw fuel cc).2.inDirectiveLine = false → (collect fuel cc).2.cell = some kFileTooLarge) := by
  intro cc
  obtain ⟨chunks, m, e1, e2, ⟨rest, e3, e4⟩, e5⟩ := raw_gate_refuses_above_cap sched cap reqs hc hpos hlen
  obtain ⟨m', rfl⟩ : ∃ m', m = m' + 1 := ⟨m - 1, by have := e5 hlong; omega⟩
  have hrest := e4 (by omega)
  subst hrest
  simp only [List.append_nil] at e3
  have hreader : cc.reader = chunks.map .data ++ .fail kFileTooLarge :: asSched (List.replicate m' (.err kFileTooLarge)) := by
    show asSched _ = _
    rw [e1, asSched_oks_errs]
  have hflat : flat (chunks.map RItem.data) = (flat sched).take cap := by rw [flat_map_data, e3]
  have hl : (flat (chunks.map RItem.data)).length < fuel := by
    rw [hflat, List.length_take]; omega
  have hgood : (flatDecode fuel (flat (chunks.map RItem.data))).2.1 ≠ some kInvalidData := by
    rw [hflat]
    exact flatDecode_prefix_ok fuel cs _ tail hwf (by rw [List.length_take]; omega)
  obtain ⟨c1, c2⟩ := collect_fault_exact kFileTooLarge (by decide) _ fuel cc _ hreader (chunked_map_data chunks e2) rfl hl hgood
  obtain ⟨s1, s2, s3⟩ := flatDecode_spec fuel ((flat sched).take cap) (by rw [List.length_take]; omega)
  rw [hflat] at c1
  have hchars : ((collectRaw fuel cc).1).length < fuel := by
    have := collectRaw_len fuel cc
    have hb : (flat cc.reader).length = (List.take cap (flat sched)).length := by
      rw [hreader, flat_append, hflat]; simp [flat, flat_asSched_errs]
    rw [hb, List.length_take] at this
    omega
  obtain ⟨_, g1, g2, g3⟩ := collect_seg_general fuel cc hchars
  refine ⟨c2, ⟨_, by rw [c1]; exact s1, s3⟩, ?_, ?_⟩
  · have := g2 (by rw [c2]; rfl)
    intro hn; rw [hn] at this; simp at this
  · intro hd; rw [g3 hd, c2]

/-- (E) `ab€` (5 bytes) under cap 3 — the limit falls INSIDE `€`: `ab` is delivered, the cell holds `FileTooLarge`
(not `UnexpectedEof`), 4 bytes taken from the reader -/
example : (collectAll { reader := asSched (Gate.run { inner := [.data [0x61, 0x62], .data [0xE2, 0x82, 0xAC]], limit := some 3 } [8, 8, 8, 8]).1 }).1 = ['a', 'b'] ∧
    (collectAll { reader := asSched (Gate.run { inner := [.data [0x61, 0x62], .data [0xE2, 0x82, 0xAC]], limit := some 3 } [8, 8, 8, 8]).1 }).2.cell = some kFileTooLarge ∧
    (Gate.run { inner := [.data [0x61, 0x62], .data [0xE2, 0x82, 0xAC]], limit := some 3 } [8, 8, 8, 8]).2.taken = 4 ∧
    [0x61, 0x62, 0xE2] ++ [0x82, 0xAC] = encode ['a', 'b', '€'] := by decide
/-- (E) UTF-16LE `a: 日本` (12 raw bytes, 10 once decoded) under cap 12: the gate's results are those without a cap
(the former `C10-utf16-decoded-cap-rejects-small-input` class fits by its RAW size) -/
example : (Gate.run { inner := [.data [0xFF, 0xFE, 0x61, 0, 0x3A, 0, 0x20, 0], .data [0xE5, 0x65, 0x2C, 0x67]], limit := some 12 } [8, 8, 8]).1 =
    (Gate.run { inner := [.data [0xFF, 0xFE, 0x61, 0, 0x3A, 0, 0x20, 0], .data [0xE5, 0x65, 0x2C, 0x67]] } [8, 8, 8]).1 := by decide

end Pipeline

/-! ### writer -/

/-- (T) writer_fault_prefix.  For EVERY chunk sequence of the serializer and EVERY schedule of `write`
results (short writes, `Interrupted`, zero-length accepts, hard failures): what the target accepted is a
prefix of the fault-free output; `Ok` means everything was written; and as soon as one `write_all` fails
the call returns the remembered I/O error — never `Ok`, never the bare formatting error. -/
theorem writer_fault_prefix (chunks : List (List Nat)) (own : Bool) (w : W) (hw : w.lastErr = none) :
    (∃ rest, w.written ++ chunks.flatten = (toIoWriter chunks own w).2.written ++ rest) ∧
    ((toIoWriter chunks own w).1 = .ok → (toIoWriter chunks own w).2.written = w.written ++ chunks.flatten) ∧
    ((emitChunks chunks w).1 = true ↔ ∃ k, (toIoWriter chunks own w).1 = .io k) := by
  unfold toIoWriter
  cases he : emitChunks chunks w with
  | mk f w' =>
    have hs := emitChunks_spec chunks w w' f he
    cases f with
    | true =>
      obtain ⟨⟨rest, h1⟩, h2⟩ := hs.2 rfl
      cases hl : w'.lastErr with
      | none => simp [hl] at h2
      | some k =>
        simp only [hl]
        exact ⟨⟨rest, h1⟩, fun h => by simp at h, fun _ => ⟨k, rfl⟩, fun _ => trivial⟩
    | false =>
      obtain ⟨h1, h2⟩ := hs.1 rfl
      rw [hw] at h2
      simp only [h2]
      cases own with
      | true =>
        exact ⟨⟨[], by simp [h1]⟩, fun h => by simp at h, fun h => by simp at h, fun ⟨k, h⟩ => by simp at h⟩
      | false =>
        exact ⟨⟨[], by simp [h1]⟩, fun _ => h1, fun h => by simp at h, fun ⟨k, h⟩ => by simp at h⟩

/-- (E) the third write fails: the I/O error comes back and exactly the first two chunks were accepted -/
example : toIoWriter [[1, 2], [3], [4, 5], [6]] false { sched := [.accept 9, .accept 9, .fail 5] } =
    (.io 5, { sched := [], written := [1, 2, 3] }) := by decide
/-- (E) short writes and an interrupted call are absorbed by `write_all` -/
example : (toIoWriter [[1, 2, 3], [4]] false { sched := [.accept 1, .fail kInterrupted, .accept 1] }).1 = .ok ∧
    (toIoWriter [[1, 2, 3], [4]] false { sched := [.accept 1, .fail kInterrupted, .accept 1] }).2.written = [1, 2, 3, 4] := by
  decide
/-- (E) a target that accepts nothing: `WriteZero`, nothing written -/
example : toIoWriter [[1, 2]] false { sched := [.accept 0] } = (.io kWriteZero, { sched := [], written := [] }) := by decide

end SaphyrVerif.Props.C10
