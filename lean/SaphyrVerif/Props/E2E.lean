import SaphyrVerif.Props.C02
import SaphyrVerif.Props.C05
import SaphyrVerif.Lemmas.CurSimMain
import SaphyrVerif.Lemmas.CurSimPump
import SaphyrVerif.Lemmas.CurSimTree
import SaphyrVerif.Lemmas.CurSimVal
/-!
# E2E — the typed deserializer cannot tell a live cursor from a replay cursor

The composition that was missing between C02 (the pump delivers the expansion of the document: every
alias replaced by a copy of its anchored node) and C05 (over a REPLAY cursor on the events of a tree the
typed deserializer computes `Spec.interp`): the typed deserializer (`Model/De.lean`, all 24 functions of
the mutual block and the scalar leaves) touches its cursor only through `next` / `peek` / `lastLoc` /
`refLoc`; two cursors that *serve the same events* (`Sim`) are indistinguishable for it up to locations
in error payloads.  Hence alias transparency holds at the level of typed VALUES, and the C05 theorems
apply to real documents with anchors and aliases.

What is compared, precisely:
* `next` / `peek`: same answer on both sides, related successor cursors (`sim_next`, `sim_peek`).
* `lastLoc`: agrees right after a `next` that delivered an event (`lastLoc_after_next`, for every
  cursor); it does NOT agree after a `peek` (a live pump moves `last_location` to the peeked event, a
  replay cursor does not — `lastLoc_differs_after_peek`), nor at the very beginning.
* `refLoc`: does NOT agree (a live pump reports the alias site while it replays a buffer,
  `refLoc_differs_in_replay`).
* Both only flow into error payloads, into the `ref` field of pending entries / the buffered value of the
  map access (compared modulo that field: `Lemmas.CurSim.MRel`), and from there again only into error
  payloads (`attach_alias_locations_if_missing`).  Results are therefore compared by `sameVal`: both
  succeed with the SAME value and related cursors, or both fail (the errors may differ in location and,
  through `AliasError`, in kind; never in whether it is an error: `outcome_kind_preserved`).
  `KeyNode`s (fingerprint, recorded events, start location) are EQUAL on both sides.
-/
namespace SaphyrVerif.Props.E2E
open SaphyrVerif SaphyrVerif.Scalars SaphyrVerif.Pump SaphyrVerif.De SaphyrVerif.Spec
open SaphyrVerif.Lemmas.CurSim (Sim Serves sameVal RV)
open SaphyrVerif.Lemmas.C02 (noFoldedIndent)
open SaphyrVerif.Props.C02 (initPump)
open SaphyrVerif.Props.C05 (deserTop noKemnKeys tupleFree)

/-! ### the simulation and its primitives -/

/-- (T) cursor simulation, `peek`: related cursors answer `peek` with the same event (or end of input),
never with an error, and stay related. -/
theorem sim_peek {c c' : Cur} (h : Sim c c') :
    ∃ o d d', c.peek = .ok o d ∧ c'.peek = .ok o d' ∧ Sim d d' := h.peek

/-- (T) cursor simulation, `next`. -/
theorem sim_next {c c' : Cur} (h : Sim c c') :
    ∃ o d d', c.next = .ok o d ∧ c'.next = .ok o d' ∧ Sim d d' := h.next

/-- (T) a replay cursor is related to every replay cursor over the same buffer at the same index, whatever
the reference locations are (`ReplayEvents::with_reference`). -/
theorem sim_replay (buf : List Ev) (idx : Nat) (ref ref' : Option Loc) :
    Sim (.replay buf idx ref) (.replay buf idx ref') := Sim.replay buf idx ref ref'

/-- (T) live versus replay: a live cursor whose pump (empty look-ahead slot, no budget enforcer) delivers,
without error, exactly the events `evs.drop i` and then end of input for good, is related to the replay
cursor `.replay evs i none`. -/
theorem sim_live_replay_at {p : Pump} {inp : List RawItem} {evs : List Ev} {i : Nat}
    (hl : p.look = none) (hb : p.budget = none) (hr : Lemmas.CurSim.Run p inp (evs.drop i)) :
    Sim (.live p inp) (.replay evs i none) :=
  Sim.of_serves (Lemmas.CurSim.serves_live hl hb hr) none

/-- (T) `lastLoc`: right after a `next` that delivered an event the last location is the location of that
event — for every cursor, live or replay; so related cursors agree on `lastLoc` at these positions. -/
theorem lastLoc_after_next (c d : Cur) (e : Ev) (h : c.next = .ok (some e) d) : d.lastLoc = e.loc := by
  cases c with
  | live p inp =>
    simp only [Cur.next] at h
    rcases hn : Pump.next p inp with ⟨s, p', rest⟩
    rw [hn] at h
    cases s with
    | event e' =>
      simp only [R.ok.injEq, Option.some.injEq] at h
      obtain ⟨rfl, rfl⟩ := h
      simp only [Cur.lastLoc]
      unfold Pump.next at hn
      split at hn
      · simp only [Prod.mk.injEq, Step.event.injEq] at hn
        obtain ⟨rfl, rfl, rfl⟩ := hn
        rfl
      · exact Lemmas.CurSim.nextImpl_event_lastLoc hn
    | eof => simp at h
    | error e' => simp at h
  | replay buf idx ref =>
    simp only [Cur.next] at h
    cases hg : buf[idx]? with
    | none => rw [hg] at h; simp at h
    | some e' =>
      rw [hg] at h
      simp only [R.ok.injEq, Option.some.injEq] at h
      obtain ⟨rfl, rfl⟩ := h
      simp [Cur.lastLoc, hg]

/-- the document `[&1 x, *1]` with every item at its own location -/
def locDemo : LNode := .seq 0 none 10 19 [.scalar ['x'] .plain 1 none 11, .alias 1 12]
def locDemoL : AliasLimits := { maxTotalReplayedEvents := 10, maxReplayStackDepth := 1, maxAliasExpansionsPerAnchor := 10 }

/-- the cursor of a result -/
def rcur {α : Type} : R α → Cur
  | .ok _ c => c
  | .err _ c => c

/-- (F, by design) `lastLoc` after `next` then `peek`: the live pump has already moved to the peeked event
(location 11), the replay cursor is still at the event taken last (location 10). -/
theorem lastLoc_differs_after_peek :
    (rcur (Cur.peek (rcur (Cur.next (.live (initPump locDemoL) (docStream locDemo 1 2 3 4)))))).lastLoc = 11 ∧
    (rcur (Cur.peek (rcur (Cur.next (.replay [.seqStart 0 0 none 10, .scalar ['x'] 0 none .plain 1 11,
        .scalar ['x'] 0 none .plain 1 11, .seqEnd 19] 0 none))))).lastLoc = 10 := by
  decide

/-- (F, by design) `refLoc` while the alias `*1` (at location 12) is replayed: the live pump reports the
alias site 12, the plain replay cursor the location 11 of the (copied) event. -/
theorem refLoc_differs_in_replay :
    (rcur (Cur.peek (rcur (Cur.next (rcur (Cur.next
      (.live (initPump locDemoL) (docStream locDemo 1 2 3 4)))))))).refLoc = 12 ∧
    (rcur (Cur.peek (rcur (Cur.next (rcur (Cur.next
      (.replay [.seqStart 0 0 none 10, .scalar ['x'] 0 none .plain 1 11,
        .scalar ['x'] 0 none .plain 1 11, .seqEnd 19] 0 none))))))).refLoc = 11 := by
  decide

/-! ### the lifted statement -/

/-- (T) deser_live_eq_replay: the typed deserializer maps related cursors to the same value (and related
cursors), or fails on both — for ALL target types, ALL fuel values, all key flags. -/
theorem deser_live_eq_replay (fuel : Nat) (cfg : Cfg) (ty : Ty) {c c' : Cur} (h : Sim c c') :
    sameVal (deser fuel cfg ty false false c) (deser fuel cfg ty false false c') :=
  (Lemmas.CurSim.simA fuel).deser cfg ty false false h

/-- (T) the same with arbitrary key flags (`in_key`, `key_empty_map_node`) -/
theorem deser_sim (fuel : Nat) (cfg : Cfg) (ty : Ty) (inKey kemn : Bool) {c c' : Cur} (h : Sim c c') :
    sameVal (deser fuel cfg ty inKey kemn c) (deser fuel cfg ty inKey kemn c') :=
  (Lemmas.CurSim.simA fuel).deser cfg ty inKey kemn h

/-- (T) … and for every function of the mutual block (`capture*`, the merge machinery, `skip*`, sequences,
the map access `nextKey` / `nextValue` with states equal up to reference locations, enums). -/
theorem block_sim (fuel : Nat) : Lemmas.CurSim.SimA fuel := Lemmas.CurSim.simA fuel

/-- (T) outcome-kind preservation: whether the call is an error never depends on `refLoc` / `lastLoc`. -/
theorem outcome_kind_preserved (fuel : Nat) (cfg : Cfg) (ty : Ty) {c c' : Cur} (h : Sim c c') :
    (∃ v d, deser fuel cfg ty false false c = .ok v d) ↔ (∃ v d', deser fuel cfg ty false false c' = .ok v d') :=
  (deser_live_eq_replay fuel cfg ty h).isOk_iff

/-! ### documents -/

/-- the live cursor at the start of a single-document stream (positioned at the root node: the stream and
document start markers are skipped by the first `next_impl`) is related to the replay cursor over the
expansion of the document -/
theorem doc_sim (L : AliasLimits) (t : LNode) (l0 l1 l2 l3 : Loc) (r : Exp)
    (hnf : noFoldedIndent t = true) (hexp : expand [] [] t = .ok r)
    (hL1 : 1 ≤ L.maxReplayStackDepth) (hL2 : r.replayed ≤ L.maxTotalReplayedEvents)
    (hL3 : ∀ id, aliasCount id t ≤ L.maxAliasExpansionsPerAnchor) :
    Sim (.live (initPump L) (docStream t l0 l1 l2 l3)) (.replay r.evs 0 none) :=
  Lemmas.CurSim.sim_live_replay rfl rfl
    (Lemmas.CurSim.run_docStream L t l0 l1 l2 l3 r hnf hexp hL1 hL2 hL3) none

/-- the document-level check of the single-document entry points on the LIVE cursor (the twin of
`Props.C05.deserTop`): the value, then `peek` must see end of input -/
def deserTopLive (fuel : Nat) (cfg : Cfg) (ty : Ty) (p : Pump) (inp : List RawItem) : Option Val :=
  match deser fuel cfg ty false false (.live p inp) with
  | .ok v c =>
    match c.peek with
    | .ok none _ => some v
    | _ => none
  | .err _ _ => none

/-- (T) typed_alias_transparent (headline, cursor form): for every document tree whose expansion exists
and stays within the alias limits (the hypotheses of `pump_eq_expand_partial`), every configuration, every
target type and EVERY fuel value, the typed deserializer on the live cursor over the document and the
typed deserializer on a replay cursor over the expansion (= the document with every alias replaced by a
copy of its anchored node) agree: same value and related final cursors, or both fail. -/
theorem typed_alias_transparent (L : AliasLimits) (t : LNode) (l0 l1 l2 l3 : Loc) (r : Exp)
    (hnf : noFoldedIndent t = true) (hexp : expand [] [] t = .ok r)
    (hL1 : 1 ≤ L.maxReplayStackDepth) (hL2 : r.replayed ≤ L.maxTotalReplayedEvents)
    (hL3 : ∀ id, aliasCount id t ≤ L.maxAliasExpansionsPerAnchor)
    (cfg : Cfg) (ty : Ty) (fuel : Nat) :
    sameVal (deser fuel cfg ty false false (.live (initPump L) (docStream t l0 l1 l2 l3)))
      (deser fuel cfg ty false false (.replay r.evs 0 none)) :=
  deser_live_eq_replay fuel cfg ty (doc_sim L t l0 l1 l2 l3 r hnf hexp hL1 hL2 hL3)

theorem deserTop_of_sameVal {fuel : Nat} {cfg : Cfg} {ty : Ty} {p : Pump} {inp : List RawItem} {evs : List Ev}
    (h : sameVal (deser fuel cfg ty false false (.live p inp)) (deser fuel cfg ty false false (.replay evs 0 none))) :
    deserTopLive fuel cfg ty p inp = deserTop fuel cfg ty evs := by
  unfold deserTopLive deserTop
  revert h
  generalize deser fuel cfg ty false false (.live p inp) = x
  generalize deser fuel cfg ty false false (.replay evs 0 none) = y
  intro h
  cases h with
  | ok hr hs =>
    cases hr
    obtain ⟨o, d, d', h1, h2, -⟩ := hs.peek
    simp only [h1, h2]
    cases o <;> rfl
  | err => rfl

/-- (T) typed_alias_transparent (document level): with the end-of-document check of the single-document
entry points, live and replay yield the same `Option Val`, for every fuel. -/
theorem typed_alias_transparent_top (L : AliasLimits) (t : LNode) (l0 l1 l2 l3 : Loc) (r : Exp)
    (hnf : noFoldedIndent t = true) (hexp : expand [] [] t = .ok r)
    (hL1 : 1 ≤ L.maxReplayStackDepth) (hL2 : r.replayed ≤ L.maxTotalReplayedEvents)
    (hL3 : ∀ id, aliasCount id t ≤ L.maxAliasExpansionsPerAnchor)
    (cfg : Cfg) (ty : Ty) (fuel : Nat) :
    deserTopLive fuel cfg ty (initPump L) (docStream t l0 l1 l2 l3) = deserTop fuel cfg ty r.evs :=
  deserTop_of_sameVal (typed_alias_transparent L t l0 l1 l2 l3 r hnf hexp hL1 hL2 hL3 cfg ty fuel)

/-- (T) alias transparency of typed values, stated between two documents: documents with the same
expansion (for instance a document with aliases and the same document with every alias written out as a
copy of its anchored node) deserialize to the same typed value — for every type, configuration and fuel. -/
theorem typed_value_depends_only_on_expansion (L L' : AliasLimits) (t t' : LNode) (l0 l1 l2 l3 l0' l1' l2' l3' : Loc)
    (r r' : Exp) (hnf : noFoldedIndent t = true) (hnf' : noFoldedIndent t' = true)
    (hexp : expand [] [] t = .ok r) (hexp' : expand [] [] t' = .ok r') (hsame : r.evs = r'.evs)
    (hL1 : 1 ≤ L.maxReplayStackDepth) (hL2 : r.replayed ≤ L.maxTotalReplayedEvents)
    (hL3 : ∀ id, aliasCount id t ≤ L.maxAliasExpansionsPerAnchor)
    (hL1' : 1 ≤ L'.maxReplayStackDepth) (hL2' : r'.replayed ≤ L'.maxTotalReplayedEvents)
    (hL3' : ∀ id, aliasCount id t' ≤ L'.maxAliasExpansionsPerAnchor)
    (cfg : Cfg) (ty : Ty) (fuel : Nat) :
    deserTopLive fuel cfg ty (initPump L) (docStream t l0 l1 l2 l3) =
      deserTopLive fuel cfg ty (initPump L') (docStream t' l0' l1' l2' l3') := by
  rw [typed_alias_transparent_top L t l0 l1 l2 l3 r hnf hexp hL1 hL2 hL3,
    typed_alias_transparent_top L' t' l0' l1' l2' l3' r' hnf' hexp' hL1' hL2' hL3', hsame]

/-- (T) the bridge between the two specifications: the events of the expansion are the flattening of
exactly one tree of logical events, the one `treeOf` parses back. -/
theorem expansion_tree (t : LNode) (r : Exp) (hexp : expand [] [] t = .ok r) :
    ∃ n : ENode, treeOf r.evs = some n ∧ r.evs = eflatten n :=
  Lemmas.CurSim.expand_treeOf t r hexp

/-- (T) typed_alias_transparent (specification form, soundness — ALL types, ALL fuel): if the live run over
the document accepts with value `v`, then `v` is the position-faithful interpretation `Spec.interp` of the
tree of the expansion (the tree `treeOf r.evs` of the document with every alias replaced by a copy of its
anchored node). -/
theorem typed_alias_transparent_sound (L : AliasLimits) (t : LNode) (l0 l1 l2 l3 : Loc) (r : Exp) (n : ENode)
    (hnf : noFoldedIndent t = true) (hexp : expand [] [] t = .ok r)
    (hL1 : 1 ≤ L.maxReplayStackDepth) (hL2 : r.replayed ≤ L.maxTotalReplayedEvents)
    (hL3 : ∀ id, aliasCount id t ≤ L.maxAliasExpansionsPerAnchor)
    (hn : treeOf r.evs = some n) (hk : noKemnKeys n = true)
    (cfg : Cfg) (ty : Ty) (fuel : Nat) (v : Val)
    (h : deserTopLive fuel cfg ty (initPump L) (docStream t l0 l1 l2 l3) = some v) :
    interp cfg ty n = some v := by
  obtain ⟨n', hn', he⟩ := expansion_tree t r hexp
  rw [hn] at hn'
  cases hn'
  rw [typed_alias_transparent_top L t l0 l1 l2 l3 r hnf hexp hL1 hL2 hL3, he] at h
  exact Props.C05.deser_top_sound cfg ty n hk fuel v h

/-- (T) typed_alias_transparent (specification form, completeness for tuple-free types): whenever the
specification assigns a value to the tree of the expansion, the live run over the document yields exactly
that value for all large enough fuel. -/
theorem typed_alias_transparent_complete (L : AliasLimits) (t : LNode) (l0 l1 l2 l3 : Loc) (r : Exp) (n : ENode)
    (hnf : noFoldedIndent t = true) (hexp : expand [] [] t = .ok r)
    (hL1 : 1 ≤ L.maxReplayStackDepth) (hL2 : r.replayed ≤ L.maxTotalReplayedEvents)
    (hL3 : ∀ id, aliasCount id t ≤ L.maxAliasExpansionsPerAnchor)
    (hn : treeOf r.evs = some n) (hk : noKemnKeys n = true)
    (cfg : Cfg) (ty : Ty) (hty : tupleFree ty = true) (v : Val) (h : interp cfg ty n = some v) :
    ∃ N, ∀ fuel, N ≤ fuel → deserTopLive fuel cfg ty (initPump L) (docStream t l0 l1 l2 l3) = some v := by
  obtain ⟨n', hn', he⟩ := expansion_tree t r hexp
  rw [hn] at hn'
  cases hn'
  obtain ⟨N, hN⟩ := Props.C05.deser_top_complete cfg ty n hty hk v h
  refine ⟨N, fun fuel hf => ?_⟩
  rw [typed_alias_transparent_top L t l0 l1 l2 l3 r hnf hexp hL1 hL2 hL3, he]
  exact hN fuel hf

/-- (T) typed_alias_transparent (headline, specification form): for all large enough fuel, the typed
deserializer on the live cursor over the document yields `v` iff the replay-cursor deserializer over the
expansion yields `v` iff the specification `Spec.interp` assigns `v` to the tree of the expansion.
(Hypotheses: those of `pump_eq_expand_partial`; `noKemnKeys` and `tupleFree` as in the C05 theorems the
last equivalence is taken from — the first equivalence holds without them and for every fuel,
`typed_alias_transparent_top`.) -/
theorem typed_alias_transparent_interp (L : AliasLimits) (t : LNode) (l0 l1 l2 l3 : Loc) (r : Exp) (n : ENode)
    (hnf : noFoldedIndent t = true) (hexp : expand [] [] t = .ok r)
    (hL1 : 1 ≤ L.maxReplayStackDepth) (hL2 : r.replayed ≤ L.maxTotalReplayedEvents)
    (hL3 : ∀ id, aliasCount id t ≤ L.maxAliasExpansionsPerAnchor)
    (hn : treeOf r.evs = some n) (hk : noKemnKeys n = true)
    (cfg : Cfg) (ty : Ty) (hty : tupleFree ty = true) :
    ∃ N, ∀ fuel, N ≤ fuel → ∀ v,
      (deserTopLive fuel cfg ty (initPump L) (docStream t l0 l1 l2 l3) = some v ↔ deserTop fuel cfg ty r.evs = some v) ∧
      (deserTopLive fuel cfg ty (initPump L) (docStream t l0 l1 l2 l3) = some v ↔ interp cfg ty n = some v) := by
  have htop := typed_alias_transparent_top L t l0 l1 l2 l3 r hnf hexp hL1 hL2 hL3 cfg ty
  have hsound := typed_alias_transparent_sound L t l0 l1 l2 l3 r n hnf hexp hL1 hL2 hL3 hn hk cfg ty
  cases hi : interp cfg ty n with
  | none =>
    refine ⟨0, fun fuel _ v => ⟨by rw [htop], ⟨fun h => ?_, fun h => by cases h⟩⟩⟩
    have := hsound fuel v h
    rw [hi] at this
    cases this
  | some v0 =>
    obtain ⟨N, hN⟩ := typed_alias_transparent_complete L t l0 l1 l2 l3 r n hnf hexp hL1 hL2 hL3 hn hk cfg ty hty v0 hi
    refine ⟨N, fun fuel hf v => ⟨by rw [htop], ⟨fun h => ?_, fun h => ?_⟩⟩⟩
    · have := hsound fuel v h
      rw [hi] at this
      exact this
    · cases h
      exact hN fuel hf

/-- (T) typed_alias_transparent (specification form, completeness for ALL types — tuples and tuple variants
included; the `tupleFree` hypothesis of `typed_alias_transparent_complete` is not needed): whenever the
specification assigns a value to the tree of the expansion, the live run over the document yields exactly that
value for all large enough fuel. -/
theorem typed_alias_transparent_complete_all (L : AliasLimits) (t : LNode) (l0 l1 l2 l3 : Loc) (r : Exp) (n : ENode)
    (hnf : noFoldedIndent t = true) (hexp : expand [] [] t = .ok r)
    (hL1 : 1 ≤ L.maxReplayStackDepth) (hL2 : r.replayed ≤ L.maxTotalReplayedEvents)
    (hL3 : ∀ id, aliasCount id t ≤ L.maxAliasExpansionsPerAnchor)
    (hn : treeOf r.evs = some n) (hk : noKemnKeys n = true)
    (cfg : Cfg) (ty : Ty) (v : Val) (h : interp cfg ty n = some v) :
    ∃ N, ∀ fuel, N ≤ fuel → deserTopLive fuel cfg ty (initPump L) (docStream t l0 l1 l2 l3) = some v := by
  obtain ⟨n', hn', he⟩ := expansion_tree t r hexp
  rw [hn] at hn'
  cases hn'
  obtain ⟨N, hN⟩ := Props.C05.deser_top_complete_all cfg ty n hk v h
  refine ⟨N, fun fuel hf => ?_⟩
  rw [typed_alias_transparent_top L t l0 l1 l2 l3 r hnf hexp hL1 hL2 hL3, he]
  exact hN fuel hf

/-- (T) typed_alias_transparent (headline, specification form, ALL types): `typed_alias_transparent_interp`
without the `tupleFree` hypothesis. For all large enough fuel, the typed deserializer on the live cursor over the
document yields `v` iff the replay-cursor deserializer over the expansion yields `v` iff the specification
`Spec.interp` assigns `v` to the tree of the expansion. -/
theorem typed_alias_transparent_interp_all (L : AliasLimits) (t : LNode) (l0 l1 l2 l3 : Loc) (r : Exp) (n : ENode)
    (hnf : noFoldedIndent t = true) (hexp : expand [] [] t = .ok r)
    (hL1 : 1 ≤ L.maxReplayStackDepth) (hL2 : r.replayed ≤ L.maxTotalReplayedEvents)
    (hL3 : ∀ id, aliasCount id t ≤ L.maxAliasExpansionsPerAnchor)
    (hn : treeOf r.evs = some n) (hk : noKemnKeys n = true)
    (cfg : Cfg) (ty : Ty) :
    ∃ N, ∀ fuel, N ≤ fuel → ∀ v,
      (deserTopLive fuel cfg ty (initPump L) (docStream t l0 l1 l2 l3) = some v ↔ deserTop fuel cfg ty r.evs = some v) ∧
      (deserTopLive fuel cfg ty (initPump L) (docStream t l0 l1 l2 l3) = some v ↔ interp cfg ty n = some v) := by
  have htop := typed_alias_transparent_top L t l0 l1 l2 l3 r hnf hexp hL1 hL2 hL3 cfg ty
  have hsound := typed_alias_transparent_sound L t l0 l1 l2 l3 r n hnf hexp hL1 hL2 hL3 hn hk cfg ty
  cases hi : interp cfg ty n with
  | none =>
    refine ⟨0, fun fuel _ v => ⟨by rw [htop], ⟨fun h => ?_, fun h => by cases h⟩⟩⟩
    have := hsound fuel v h
    rw [hi] at this
    cases this
  | some v0 =>
    obtain ⟨N, hN⟩ := typed_alias_transparent_complete_all L t l0 l1 l2 l3 r n hnf hexp hL1 hL2 hL3 hn hk cfg ty v0 hi
    refine ⟨N, fun fuel hf v => ⟨by rw [htop], ⟨fun h => ?_, fun h => ?_⟩⟩⟩
    · have := hsound fuel v h
      rw [hi] at this
      exact this
    · cases h
      exact hN fuel hf

/-- (T) the same as one equation: for all large enough fuel the live run over the document IS the specification
on the tree of the expansion (same value, or both reject) — every type. -/
theorem typed_alias_transparent_eq_interp (L : AliasLimits) (t : LNode) (l0 l1 l2 l3 : Loc) (r : Exp) (n : ENode)
    (hnf : noFoldedIndent t = true) (hexp : expand [] [] t = .ok r)
    (hL1 : 1 ≤ L.maxReplayStackDepth) (hL2 : r.replayed ≤ L.maxTotalReplayedEvents)
    (hL3 : ∀ id, aliasCount id t ≤ L.maxAliasExpansionsPerAnchor)
    (hn : treeOf r.evs = some n) (hk : noKemnKeys n = true)
    (cfg : Cfg) (ty : Ty) :
    ∃ N, ∀ fuel, N ≤ fuel → deserTopLive fuel cfg ty (initPump L) (docStream t l0 l1 l2 l3) = interp cfg ty n := by
  obtain ⟨n', hn', he⟩ := expansion_tree t r hexp
  rw [hn] at hn'
  cases hn'
  obtain ⟨N, hN⟩ := Props.C05.deser_top_eq_interp cfg ty n hk
  refine ⟨N, fun fuel hf => ?_⟩
  rw [typed_alias_transparent_top L t l0 l1 l2 l3 r hnf hexp hL1 hL2 hL3, he]
  exact hN fuel hf

/-- (T) the negative clause on the live run: a sequence of the wrong length at a tuple position anywhere in the
tree of the expansion (`Spec.SubPos`; the sequence may itself come from an alias) makes the live run over the
document reject, for every fuel. -/
theorem typed_alias_transparent_arity_mismatch (L : AliasLimits) (t : LNode) (l0 l1 l2 l3 : Loc) (r : Exp) (n : ENode)
    (hnf : noFoldedIndent t = true) (hexp : expand [] [] t = .ok r)
    (hL1 : 1 ≤ L.maxReplayStackDepth) (hL2 : r.replayed ≤ L.maxTotalReplayedEvents)
    (hL3 : ∀ id, aliasCount id t ≤ L.maxAliasExpansionsPerAnchor)
    (hn : treeOf r.evs = some n) (hk : noKemnKeys n = true)
    (cfg : Cfg) (ty : Ty) (ts : List Ty) (a tag : Nat) (rt : Option (List Char)) (l el : Loc) (items : List ENode)
    (hpos : SubPos cfg ty n (.tuple ts) (.seq a tag rt l el items)) (h : items.length ≠ ts.length) (fuel : Nat) :
    deserTopLive fuel cfg ty (initPump L) (docStream t l0 l1 l2 l3) = none := by
  obtain ⟨n', hn', he⟩ := expansion_tree t r hexp
  rw [hn] at hn'
  cases hn'
  rw [typed_alias_transparent_top L t l0 l1 l2 l3 r hnf hexp hL1 hL2 hL3, he]
  exact Props.C05.arity_mismatch_is_error cfg ty n hk ts a tag rt l el items hpos h fuel

/-- (T) the entry-point protocol `from_str` / `from_reader` (`Model/Entry.lean: fromSingle`: value, then
`peek` must see end of input, then `finish()`), on the live pump over the document, accepts exactly when
the replay-cursor deserializer over the expansion does, with the same value (fuel = the protocol's own
`fuelFor`). -/
theorem fromSingle_alias_transparent (L : AliasLimits) (t : LNode) (l0 l1 l2 l3 : Loc) (r : Exp)
    (hnf : noFoldedIndent t = true) (hexp : expand [] [] t = .ok r)
    (hL1 : 1 ≤ L.maxReplayStackDepth) (hL2 : r.replayed ≤ L.maxTotalReplayedEvents)
    (hL3 : ∀ id, aliasCount id t ≤ L.maxAliasExpansionsPerAnchor)
    (cfg : Cfg) (ty : Ty) :
    (Entry.fromSingle cfg ty (initPump L) (docStream t l0 l1 l2 l3)).toOption =
      deserTop (Entry.fuelFor (docStream t l0 l1 l2 l3).length) cfg ty r.evs := by
  have h := typed_alias_transparent L t l0 l1 l2 l3 r hnf hexp hL1 hL2 hL3 cfg ty
    (Entry.fuelFor (docStream t l0 l1 l2 l3).length)
  unfold Entry.fromSingle deserTop
  simp only []
  revert h
  generalize deser _ cfg ty false false (.live (initPump L) (docStream t l0 l1 l2 l3)) = x
  generalize deser _ cfg ty false false (.replay r.evs 0 none) = y
  intro h
  cases h with
  | ok hr hs =>
    cases hr
    obtain ⟨o, d, d', h1, h2, hs'⟩ := hs.peek
    simp only [Entry.enforceSingle, h1, h2]
    cases o with
    | none => simp [hs'.finish_left, Except.toOption]
    | some e => simp [Except.toOption]
  | err =>
    simp only []
    repeat' split
    all_goals rfl

/-! ### (E) non-vacuity: a document with one anchor and two aliases, one of them under a merge key

```yaml
base: &1 {a: 1}
derived: {<<: *1, b: 2}
again: *1
```
All hypotheses hold, and the theorems yield the concrete typed value (the merged entry `a: 1` comes from the
alias). -/

def sc (s : String) (l : Loc) : LNode := .scalar s.toList .plain 0 none l

def demo : LNode :=
  .map 0 none 10 99 [
    (sc "base" 11, .map 1 none 12 19 [(sc "a" 13, sc "1" 14)]),
    (sc "derived" 20, .map 0 none 21 29 [(sc "<<" 22, .alias 1 23), (sc "b" 24, sc "2" 25)]),
    (sc "again" 30, .alias 1 31)]

def demoL : AliasLimits := { maxTotalReplayedEvents := 8, maxReplayStackDepth := 1, maxAliasExpansionsPerAnchor := 2 }

/-- the expansion of `demo` -/
def demoR : Exp := match expand [] [] demo with
  | .ok r => r
  | .error _ => ⟨[], [], 0⟩

/-- the tree of the expansion: both aliases replaced by a copy of `{a: 1}` -/
def demoTree : ENode := (treeOf demoR.evs).getD default

def demoTy : Ty := .map .string (.map .string (.int true 32))

def demoVal : Val :=
  .map [(.str "base".toList, .map [(.str "a".toList, .int 1)]),
        (.str "derived".toList, .map [(.str "b".toList, .int 2), (.str "a".toList, .int 1)]),
        (.str "again".toList, .map [(.str "a".toList, .int 1)])]

theorem demo_expand : expand [] [] demo = .ok demoR := by
  have h : (expand [] [] demo).toOption = some demoR := by decide +kernel
  cases hx : expand [] [] demo with
  | error e => rw [hx] at h; cases h
  | ok r =>
    rw [hx] at h
    simp only [Except.toOption, Option.some.injEq] at h
    rw [h]
theorem demo_tree : treeOf demoR.evs = some demoTree := by
  obtain ⟨n, hn, -⟩ := expansion_tree demo demoR demo_expand
  simp [demoTree, hn]
theorem demo_noFolded : noFoldedIndent demo = true := by decide
theorem demo_replayed : demoR.replayed ≤ demoL.maxTotalReplayedEvents := by decide +kernel
theorem demo_aliases : ∀ id, aliasCount id demo ≤ demoL.maxAliasExpansionsPerAnchor := by
  intro id
  simp only [demo, sc, aliasCount, aliasCountE, demoL]
  split <;> omega
example : demoR.replayed = 8 := by decide +kernel
example : demoR.evs.length = 22 := by decide +kernel
theorem demo_noKemn : noKemnKeys demoTree = true := by decide +kernel
theorem demo_tupleFree : tupleFree demoTy = true := by decide +kernel

/-- the cursor-level theorem applies … -/
example : sameVal (deser 200 {} demoTy false false (.live (initPump demoL) (docStream demo 1 2 3 4)))
    (deser 200 {} demoTy false false (.replay demoR.evs 0 none)) :=
  typed_alias_transparent demoL demo 1 2 3 4 demoR demo_noFolded demo_expand (by decide) demo_replayed demo_aliases
    {} demoTy 200

/-- … and yields the concrete value of the live run from the replay run over the expansion -/
example : deserTopLive 200 {} demoTy (initPump demoL) (docStream demo 1 2 3 4) = some demoVal := by
  rw [typed_alias_transparent_top demoL demo 1 2 3 4 demoR demo_noFolded demo_expand (by decide) demo_replayed
    demo_aliases]
  decide +kernel

/-- the specification assigns the same value to the tree of the expansion, and the completeness theorem
transports it to the live run -/
theorem demo_interp : interp {} demoTy demoTree = some demoVal := by decide +kernel
example : ∃ N, ∀ fuel, N ≤ fuel → deserTopLive fuel {} demoTy (initPump demoL) (docStream demo 1 2 3 4) = some demoVal :=
  typed_alias_transparent_complete demoL demo 1 2 3 4 demoR demoTree demo_noFolded demo_expand (by decide)
    demo_replayed demo_aliases demo_tree demo_noKemn {} demoTy demo_tupleFree demoVal demo_interp

/-- the entry-point protocol accepts the document with that value -/
example : (Entry.fromSingle {} demoTy (initPump demoL) (docStream demo 1 2 3 4)).toOption = some demoVal := by
  rw [fromSingle_alias_transparent demoL demo 1 2 3 4 demoR demo_noFolded demo_expand (by decide) demo_replayed
    demo_aliases]
  decide +kernel

/-- a second witness: `[&1 x, *1, *1]` into `Vec<String>` -/
def demoSeq : LNode := .seq 0 none 10 19 [.scalar ['x'] .plain 1 none 11, .alias 1 12, .alias 1 13]
def demoSeqL : AliasLimits := { maxTotalReplayedEvents := 2, maxReplayStackDepth := 1, maxAliasExpansionsPerAnchor := 2 }
example : deserTopLive 100 {} (.seq .string) (initPump demoSeqL) (docStream demoSeq 1 2 3 4) =
    some (.seq [.str ['x'], .str ['x'], .str ['x']]) := by decide +kernel
/-- the same document with the aliases written out has the same expansion up to … nothing: it is equal -/
def demoSeqFlat : LNode :=
  .seq 0 none 10 19 [.scalar ['x'] .plain 1 none 11, .scalar ['x'] .plain 1 none 11, .scalar ['x'] .plain 1 none 11]
example : (expand [] [] demoSeq).toOption.map (·.evs) = (expand [] [] demoSeqFlat).toOption.map (·.evs) := by decide

/-! ### (E) non-vacuity of the all-types theorems: an aliased pair read at a tuple position

```yaml
[&1 [1, 2], *1]          # into Vec<(i32, i32)>  — accepted
[&1 [1, 2, 3], *1]       # into Vec<(i32, i32)>  — rejected: surplus element, also in the aliased copy
``` -/

def demoPairs : LNode := .seq 0 none 10 19 [.seq 1 none 11 14 [sc "1" 12, sc "2" 13], .alias 1 15]
def demoPairsBad : LNode := .seq 0 none 10 19 [.seq 1 none 11 15 [sc "1" 12, sc "2" 13, sc "3" 14], .alias 1 16]
def demoPairsL : AliasLimits := { maxTotalReplayedEvents := 5, maxReplayStackDepth := 1, maxAliasExpansionsPerAnchor := 1 }
def demoPairsR : Exp := match expand [] [] demoPairs with
  | .ok r => r
  | .error _ => ⟨[], [], 0⟩
def demoPairsBadR : Exp := match expand [] [] demoPairsBad with
  | .ok r => r
  | .error _ => ⟨[], [], 0⟩
def demoPairsTree : ENode := (treeOf demoPairsR.evs).getD default
def demoPairsBadTree : ENode := (treeOf demoPairsBadR.evs).getD default
def demoPairsTy : Ty := .seq (.tuple [.int true 32, .int true 32])

theorem demoPairs_expand : expand [] [] demoPairs = .ok demoPairsR := by
  have h : (expand [] [] demoPairs).toOption = some demoPairsR := by decide +kernel
  cases hx : expand [] [] demoPairs with
  | error e => rw [hx] at h; cases h
  | ok r =>
    rw [hx] at h
    simp only [Except.toOption, Option.some.injEq] at h
    rw [h]
theorem demoPairsBad_expand : expand [] [] demoPairsBad = .ok demoPairsBadR := by
  have h : (expand [] [] demoPairsBad).toOption = some demoPairsBadR := by decide +kernel
  cases hx : expand [] [] demoPairsBad with
  | error e => rw [hx] at h; cases h
  | ok r =>
    rw [hx] at h
    simp only [Except.toOption, Option.some.injEq] at h
    rw [h]
theorem demoPairs_tree : treeOf demoPairsR.evs = some demoPairsTree := by
  obtain ⟨n, hn, -⟩ := expansion_tree demoPairs demoPairsR demoPairs_expand
  simp [demoPairsTree, hn]
theorem demoPairsBad_tree : treeOf demoPairsBadR.evs = some demoPairsBadTree := by
  obtain ⟨n, hn, -⟩ := expansion_tree demoPairsBad demoPairsBadR demoPairsBad_expand
  simp [demoPairsBadTree, hn]
theorem demoPairs_aliases (t : LNode) (ht : t = demoPairs ∨ t = demoPairsBad) :
    ∀ id, aliasCount id t ≤ demoPairsL.maxAliasExpansionsPerAnchor := by
  intro id
  rcases ht with rfl | rfl <;>
  · simp only [demoPairs, demoPairsBad, sc, aliasCount, aliasCountL, demoPairsL]
    split <;> omega

example : tupleFree demoPairsTy = false := by decide +kernel
/-- the specification accepts the first document, and the all-types completeness theorem transports the value to
the live run -/
example : ∃ N, ∀ fuel, N ≤ fuel → deserTopLive fuel {} demoPairsTy (initPump demoPairsL) (docStream demoPairs 1 2 3 4) =
    some (.seq [.seq [.int 1, .int 2], .seq [.int 1, .int 2]]) :=
  typed_alias_transparent_complete_all demoPairsL demoPairs 1 2 3 4 demoPairsR demoPairsTree (by decide)
    demoPairs_expand (by decide) (by decide +kernel) (demoPairs_aliases _ (Or.inl rfl)) demoPairs_tree (by decide +kernel)
    {} demoPairsTy _ (by decide +kernel)
/-- the second document is rejected by the live run for every fuel: the sub-position is the ALIASED copy -/
example (fuel : Nat) : deserTopLive fuel {} demoPairsTy (initPump demoPairsL) (docStream demoPairsBad 1 2 3 4) = none := by
  have htree : demoPairsBadTree = .seq 0 0 none 10 19
      [.seq 1 0 none 11 15 [.scalar ['1'] 0 none .plain 0 12, .scalar ['2'] 0 none .plain 0 13, .scalar ['3'] 0 none .plain 0 14],
       .seq 1 0 none 11 15 [.scalar ['1'] 0 none .plain 0 12, .scalar ['2'] 0 none .plain 0 13, .scalar ['3'] 0 none .plain 0 14]] := by
    rfl
  refine typed_alias_transparent_arity_mismatch demoPairsL demoPairsBad 1 2 3 4 demoPairsBadR demoPairsBadTree (by decide)
    demoPairsBad_expand (by decide) (by decide +kernel) (demoPairs_aliases _ (Or.inr rfl)) demoPairsBad_tree
    (by decide +kernel) {} demoPairsTy [.int true 32, .int true 32] 1 0 none 11 15
    [.scalar ['1'] 0 none .plain 0 12, .scalar ['2'] 0 none .plain 0 13, .scalar ['3'] 0 none .plain 0 14] ?_ (by decide) fuel
  rw [htree]
  exact .seqItem (List.Mem.tail _ (List.Mem.head _)) (.here _ _)

#print axioms sim_peek
#print axioms sim_next
#print axioms sim_replay
#print axioms sim_live_replay_at
#print axioms lastLoc_after_next
#print axioms lastLoc_differs_after_peek
#print axioms refLoc_differs_in_replay
#print axioms deser_live_eq_replay
#print axioms deser_sim
#print axioms block_sim
#print axioms outcome_kind_preserved
#print axioms doc_sim
#print axioms typed_alias_transparent
#print axioms typed_alias_transparent_top
#print axioms typed_value_depends_only_on_expansion
#print axioms expansion_tree
#print axioms typed_alias_transparent_sound
#print axioms typed_alias_transparent_complete
#print axioms typed_alias_transparent_interp
#print axioms typed_alias_transparent_complete_all
#print axioms typed_alias_transparent_interp_all
#print axioms typed_alias_transparent_eq_interp
#print axioms typed_alias_transparent_arity_mismatch
#print axioms fromSingle_alias_transparent

end SaphyrVerif.Props.E2E
