import SaphyrVerif.Props.C16
/-!
# C16 — counter-example theorems (F)

The model is faithful to the code on these inputs (the `locs` differential agrees on them and the oracle
stream reproduces each on the implementation: classes `C16-eof-virtual-line`,
`C16-alias-error-defined-is-container` of `known_findings.json`); the property is false on them.
The other recorded classes (`C16-quoted-span-includes-trailing`, `C16-empty-scalar-span`,
`C16-block-scalar-span-includes-next-indent`, `C16-directive-multibyte-char-offset`) are defects of the
marks the external scanner hands over; the models take marks as input, so there is no theorem for them.
-/
namespace SaphyrVerif.Props.C16
open SaphyrVerif SaphyrVerif.Scalars SaphyrVerif.Pump SaphyrVerif.De SaphyrVerif.Locs

/-- (F) **end-of-stream mark names a line that does not exist**: for the input `%YAML 1.2` (no final line
break) the scanner's end-of-stream mark is (index 9, line 2, column 0) although character offset 9 is
line 1, column 9; the parser reports "did not find expected <document start>" there and
`from_scan_error` turns it into line 2, column 1, offset 9. -/
theorem eof_virtual_line_counterexample :
    streamEndMark "%YAML 1.2".toList = ⟨9, 2, 0, 9⟩ ∧
    posOf "%YAML 1.2".toList 9 = ⟨9, 1, 9, 9⟩ ∧
    fromScanError (streamEndMark "%YAML 1.2".toList).toMark = .ok ⟨2, 1, ⟨9, 1, (0, 0)⟩⟩ ∧
    ¬ MarkAt "%YAML 1.2".toList (streamEndMark "%YAML 1.2".toList).toMark := by
  refine ⟨by decide, by decide, by decide, ?_⟩
  unfold MarkAt; decide

theorem stream_end_mark_consistent_counterexample : ¬ stream_end_mark_consistent_Full := by
  intro h
  exact eof_virtual_line_counterexample.2.2.2 (h _)

/-- a type error at a leaf carries the locations a span-carrying value at that leaf carries, ALSO when the
leaf sits inside a container that is reached through an alias (full statement, on the witness family):
the error of `j: *a` with `a = [1, oops]` should have the definition site of `oops` (14), as the
span-carrying value at that position has (`aliasDoc "2"`: `.spanned 17 14`). -/
def nested_alias_error_eq_spanned_Full : Prop :=
  outcome (deserS 40 {} aliasTy (.live aliasPump (aliasDoc "oops"))) = 1 :: 17 :: 14 :: "AliasError".toList.map Char.toNat

/-- (F) **a type error inside an aliased container reports the container as definition site**: the element
error is first wrapped with (alias token 17, leaf 14) by the sequence access and then RE-wrapped by the
enclosing map access with (alias token 17, start of the anchored sequence 12) — the outermost
`attach_alias_locations_if_missing` wins, the leaf's location survives only inside the message text. -/
theorem alias_error_defined_is_container_counterexample :
    outcome (deserS 40 {} aliasTy (.live aliasPump (aliasDoc "oops"))) = 1 :: 17 :: 12 :: "AliasError".toList.map Char.toNat ∧
    outcome (deserS 40 {} aliasTy (.live aliasPump (aliasDoc "2"))) =
      0 :: digestS (.struct [("j", .seq [.spanned 17 13 (.leaf (.int 1)), .spanned 17 14 (.leaf (.int 2))])]) ∧
    ¬ nested_alias_error_eq_spanned_Full := by
  unfold nested_alias_error_eq_spanned_Full
  decide +kernel

/-- the two wrappings, on the model's `attachAlias`: the outer call overrides the inner one -/
theorem attachAlias_outer_wins (e : DErr) (r d r' d' : Loc) (h : r' ≠ 0 ∧ d' ≠ 0 ∧ r' ≠ d') :
    attachAlias (attachAlias e r d) r' d' = ⟨"AliasError", r', d'⟩ := by
  obtain ⟨h1, h2, h3⟩ := h
  simp [attachAlias, h1, h2, h3]

/-- (F) **character coordinates wrap beyond 2^32** (the `as u32` casts of line, column, character offset,
length; only the byte information is range-checked): marks at character 2^32 of one long line give
offset 0, column 1.  Not reachable in a run-time test (needs a 4 GiB input); recorded as the reason for
the size hypothesis of `location_fields_consistent`. -/
theorem char_offset_wraps_counterexample :
    locationFromSpan ⟨4294967296, 1, 4294967296, some 4294967296⟩ ⟨4294967297, 1, 4294967297, some 4294967297⟩ =
      .ok ⟨1, 1, ⟨0, 1, (0, 0)⟩⟩ := by decide

#print axioms eof_virtual_line_counterexample
#print axioms stream_end_mark_consistent_counterexample
#print axioms alias_error_defined_is_container_counterexample
#print axioms attachAlias_outer_wins
#print axioms char_offset_wraps_counterexample

end SaphyrVerif.Props.C16
