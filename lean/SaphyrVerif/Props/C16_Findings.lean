import SaphyrVerif.Props.C16
/-!
# C16 — regression theorems of the repaired findings, and what remains recorded

The findings the models cover are repaired in the code (and in the models): the former counter-example
theorems are now theorems of the good behaviour on the same witnesses, next to the general theorems of
`Props/C16.lean` (`end_of_stream_location_consistent`, `error_location_nested`, `static_error_at_value_node`).
The oracle classes `C16-eof-virtual-line`, `C16-alias-error-defined-is-container` and
`C16-static-error-at-map-value-reported-at-key` keep their ids: a regression is a violation.
The other recorded classes (`C16-quoted-span-includes-trailing`, `C16-empty-scalar-span`,
`C16-block-scalar-span-includes-next-indent`, `C16-directive-multibyte-char-offset`) are defects of the
marks the external scanner hands over; the models take marks as input, so there is no theorem for them.
-/
namespace SaphyrVerif.Props.C16
open SaphyrVerif SaphyrVerif.Scalars SaphyrVerif.Pump SaphyrVerif.De SaphyrVerif.Locs

/-- (R, formerly `eof_virtual_line_counterexample`) the witness `%YAML 1.2` (no final line break): the
scanner's end-of-stream mark still is (index 9, line 2, column 0) — its rule, not ours — but the location
built from it for the in-memory input is line 1, column 10, offset 9: the position just after the last
character, which is what offset 9 denotes. -/
theorem eof_location_regression :
    streamEndMark "%YAML 1.2".toList = ⟨9, 2, 0, 9⟩ ∧
    posOf "%YAML 1.2".toList 9 = ⟨9, 1, 9, 9⟩ ∧
    fromScanErrorIn (some "%YAML 1.2".toList) (streamEndMark "%YAML 1.2".toList).toMark = .ok ⟨1, 10, ⟨9, 1, (0, 0)⟩⟩ ∧
    locationFromSpanIn (some "# c".toList) (streamEndMark "# c".toList).toMark (streamEndMark "# c".toList).toMark =
      .ok ⟨1, 4, ⟨3, 0, (3, 0)⟩⟩ := by
  refine ⟨by decide, by decide, by decide, by decide⟩

/-- a type error at a leaf carries the locations a span-carrying value at that leaf carries, ALSO when the
leaf sits inside a container that is reached through an alias (on the witness family): the error of
`j: *a` with `a = [1, oops]` has the definition site of `oops` (14), as the span-carrying value at that
position has (`aliasDoc "2"`: `.spanned 17 14`). -/
def nested_alias_error_eq_spanned_Full : Prop :=
  outcome (deserS 40 {} none aliasTy (.live aliasPump (aliasDoc "oops"))) = 1 :: 17 :: 14 :: "AliasError".toList.map Char.toNat

/-- (R, formerly `alias_error_defined_is_container_counterexample`) the element error is wrapped with (alias
token 17, leaf 14) by the sequence access; the enclosing map access — which knows (alias token 17, start of
the anchored sequence 12) — leaves it alone. -/
theorem alias_error_keeps_leaf_regression :
    nested_alias_error_eq_spanned_Full ∧
    outcome (deserS 40 {} none aliasTy (.live aliasPump (aliasDoc "2"))) =
      0 :: digestS (.struct [("j", .seq [.spanned 17 13 (.leaf (.int 1)), .spanned 17 14 (.leaf (.int 2))])]) := by
  unfold nested_alias_error_eq_spanned_Full
  decide +kernel

/-- (R, formerly `attachAlias_outer_wins`) the two wrappings, on the model's `attachAlias`: the inner call wins -/
theorem attachAlias_inner_wins (e : DErr) (r d r' d' : Loc) (h : r ≠ 0 ∧ d ≠ 0 ∧ r ≠ d) (hk : e.kind ≠ "AliasError") :
    attachAlias (attachAlias e r d) r' d' = ⟨"AliasError", r, d⟩ :=
  (error_location_nested e r d r' d' hk h.2.1 h.1 h.2.2).1

/-- (R, finding `C16-static-error-at-map-value-reported-at-key`) the witness `a: 1` / `k:   0` into
`struct { a: u8, k: NonZeroU8 }` (key `k` at 13, its value at 14): the location-less `invalid_value` of the
`NonZeroU8` visitor is reported at the VALUE node — where the span-carrying value at that node is
(`.spanned 14 14`) —, no longer at the key; the sequence element (`k: [1, 0]`, element at 14) reports the same
way.  What the cell would have attached before the repair (the key guard's 13) is spelled out by C15
`static_error_in_value_at_value` / `static_error_after_value_at_key`. -/
theorem static_error_at_map_value_regression :
    outcome (deserS 40 {} none nzTy (.live aliasPump (nzDoc "0"))) =
      1 :: 14 :: 0 :: "invalid_value".toList.map Char.toNat ∧
    outcome (deserS 40 {} none (.struct [("a", .leaf (.int false 8)), ("k", .spanned (.leaf (.int false 8)))])
        (.live aliasPump (nzDoc "0"))) =
      0 :: digestS (.struct [("a", .leaf (.int 1)), ("k", .spanned 14 14 (.leaf (.int 0)))]) ∧
    outcome (deserS 40 {} none (.struct [("k", .seq (.nonzero false 8))]) (.live aliasPump (aliasDoc "0"))) =
      1 :: 14 :: 0 :: "invalid_value".toList.map Char.toNat := by
  decide +kernel

/-- (F) **character coordinates wrap beyond 2^32** (the `as u32` casts of line, column, character offset,
length; only the byte information is range-checked): marks at character 2^32 of one long line give
offset 0, column 1.  Not reachable in a run-time test (needs a 4 GiB input); recorded as the reason for
the size hypothesis of `location_fields_consistent`. -/
theorem char_offset_wraps_counterexample :
    locationFromSpan ⟨4294967296, 1, 4294967296, some 4294967296⟩ ⟨4294967297, 1, 4294967297, some 4294967297⟩ =
      .ok ⟨1, 1, ⟨0, 1, (0, 0)⟩⟩ := by decide

#print axioms eof_location_regression
#print axioms alias_error_keeps_leaf_regression
#print axioms attachAlias_inner_wins
#print axioms static_error_at_map_value_regression
#print axioms char_offset_wraps_counterexample

end SaphyrVerif.Props.C16
