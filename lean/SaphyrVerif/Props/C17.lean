import SaphyrVerif.Spec.Snippet
import SaphyrVerif.Lemmas.C17Utf8
import SaphyrVerif.Lemmas.C17Source
import SaphyrVerif.Lemmas.C17Ring
import SaphyrVerif.Lemmas.C17Prepare
import SaphyrVerif.Lemmas.C17Render
import SaphyrVerif.Lemmas.C17Aligned
import SaphyrVerif.Lemmas.C17Breaks
import SaphyrVerif.Lemmas.C17Yaml
import SaphyrVerif.Lemmas.C17Compose
/-!
# C17 — rendered error reports are terminal-safe, cropped and show the right line

Property theorems for the models of `src/de/snippet.rs`, the region bookkeeping of `src/de_error.rs`
and the recent-bytes trimming of `src/ring_reader.rs` (Model/Snippet.lean).
Helper lemmas live in `SaphyrVerif/Lemmas/C17*.lean`.
-/
namespace SaphyrVerif.Props.C17
open SaphyrVerif SaphyrVerif.Snippet
open SaphyrVerif.Spec.Snippet (isControl sanitizeChar clean takeRows dropRows row shownLines visibleLine
  yamlLines yamlLine IsYamlPosition endsLineAt linesEndedBefore)

/-! ## sanitising -/

/-- (T) `sanitize_utf8`: the byte-level sanitiser (two loops over the raw bytes, then
`String::from_utf8`) never produces invalid UTF-8 — the lossy fallback is unreachable — and is exactly
the character-level specification: C0 (except `\n`, `\t`) and DEL become a space, C1 becomes NBSP,
every other character is kept. For ALL texts. -/
theorem sanitize_utf8 (s : List Char) : sanitize s = .ok (Spec.Snippet.sanitize s) :=
  Lemmas.C17.sanitize_eq s

/-- (T) `sanitize_clean`: the sanitised text contains no C0 (other than `\n`, `\t`), DEL or C1
character, whatever the input contained. -/
theorem sanitize_clean (s r : List Char) (h : sanitize s = .ok r) : clean r = true := by
  rw [sanitize_utf8] at h
  cases h
  unfold clean Spec.Snippet.sanitize
  rw [List.all_map, List.all_eq_true]
  intro c _
  simp [Lemmas.C17.sanitizeChar_clean c]

/-- (T) `sanitize_len`: sanitising never lengthens (or shortens) the text: every character keeps
its UTF-8 length, so every byte offset / character boundary of the input is one of the output
(this is what keeps annotation spans valid). -/
theorem sanitize_len (s r : List Char) (h : sanitize s = .ok r) :
    r.map utf8LenChar = s.map utf8LenChar ∧ r.length = s.length ∧ utf8Len r = utf8Len s := by
  rw [sanitize_utf8] at h
  cases h
  have h1 : (Spec.Snippet.sanitize s).map utf8LenChar = s.map utf8LenChar := by
    unfold Spec.Snippet.sanitize
    rw [List.map_map]
    apply List.map_congr_left
    intro c _
    exact Lemmas.C17.sanitizeChar_len c
  refine ⟨h1, by simp [Spec.Snippet.sanitize], ?_⟩
  unfold utf8Len
  rw [h1]

/-- (T) `clean_iff`: the byte-level scan `is_terminal_snippet_clean` decides exactly "no C0 (other than
`\n`, `\t`), DEL, C1 character". -/
theorem clean_iff (s : List Char) : isClean s = true ↔ ∀ c ∈ s, isControl c = false := by
  rw [Lemmas.C17.isClean_eq]
  unfold clean
  rw [List.all_eq_true]
  constructor
  · intro h c hc
    simpa using h c hc
  · intro h c hc
    simp [h c hc]

/-- (T) a clean text is left untouched (so the fast path of `crop_window_text` is sound). -/
theorem sanitize_id_of_clean (s : List Char) (h : isClean s = true) : sanitize s = .ok s := by
  rw [sanitize_utf8]
  congr 1
  unfold Spec.Snippet.sanitize
  rw [clean_iff] at h
  conv => rhs; rw [← List.map_id s]
  apply List.map_congr_left
  intro c hc
  exact Lemmas.C17.sanitizeChar_id c (h c hc)

/-- (E) non-vacuity: a text with ESC, DEL, a C1 CSI, CR, a tab and a 4-byte character -/
example : sanitize "a\x1b[31m\x7f\u009b\r\tz😀\n".toList = .ok "a [31m   \tz😀\n".toList := by
  rw [sanitize_utf8]; decide

example : isClean "a\x1b".toList = false ∧ isClean "ok\n\t é".toList = true := by decide

/-! ## cropping one line (`crop_line_by_cols`)

Hypotheses `… ≤ usizeMax` say that a length / column is a `usize` value at all (they hold for every
Rust value; lengths are in fact bounded by `isize::MAX`). -/

/-- (T) `crop_line_by_cols_safe` (also the snippet part of C01): for every line and every column
window with `left ≤ right + 1` (saturating) the slice `&line[start_byte..end_byte]` is in range and on
character boundaries — the model never reaches the panic outcome. -/
theorem crop_line_by_cols_safe (line : List Char) (left right : Nat) (hn : line.length + 1 ≤ usizeMax)
    (hlr : left ≤ satAdd right 1) : ∃ r, cropLineByCols line left right = .ok r :=
  Lemmas.C17.cropLine_safe line left right hn hlr

/-- (T) the column window every caller builds (`left = max(col − r, 1)`, `right = col ⊕ r`) satisfies
that precondition, for ALL columns and radii (0, 1, …, `usize::MAX`). -/
theorem caller_window_ok (col r : Nat) (hc : col ≤ usizeMax) : max (col - r) 1 ≤ satAdd (satAdd col r) 1 :=
  Lemmas.C17.caller_window_ok col r hc

/-- (T) `crop_width`: a line cropped around column `col` with radius `r` is an optional ellipsis, a
contiguous piece of the line of at most `2·r + 1` characters, and an optional ellipsis; the only other
outcome is a (context) line kept whole because it ends left of the window. -/
theorem crop_width (line : List Char) (col r : Nat) (hn : line.length + 1 ≤ usizeMax) (hc : col ≤ usizeMax) :
    ∃ out crop le mid re, cropLineByCols line (max (col - r) 1) (satAdd col r) = .ok (out, crop) ∧
      out = le ++ mid ++ re ∧ mid <:+: line ∧ (le = [] ∨ le = [ellipsis]) ∧ (re = [] ∨ re = [ellipsis]) ∧
      (mid.length ≤ 2 * r + 1 ∨ (out = line ∧ line.length < max (col - r) 1)) := by
  obtain ⟨le, mid, re, h1, h2, h3, h4, h5⟩ := Lemmas.C17.cropLinePure_width line col r
  exact ⟨(Lemmas.C17.cropLinePure line (max (col - r) 1) (satAdd col r)).1,
    (Lemmas.C17.cropLinePure line (max (col - r) 1) (satAdd col r)).2, le, mid, re,
    Lemmas.C17.cropLine_eq line _ _ hn (Lemmas.C17.caller_window_ok col r hc), h1, h2, h3, h4, h5⟩

/-- (T) `caret_column` (one line): after cropping, the span start rebased exactly as `crop_window_text`
does (`prefix_bytes + (off − start_byte)`, clamped to the rendered line) is a character boundary of the
rendered line; what precedes it is an optional ellipsis followed by a tail of the characters before
column `col`; and the character at it is the character in the reported column `col` (nothing — end of
line — for `col = len + 1`). For ALL lines, columns `1 ≤ col ≤ len+1`, radii. -/
theorem caret_column (line : List Char) (col r : Nat) (hn : line.length + 1 ≤ usizeMax) (hc : col ≤ usizeMax)
    (h1 : 1 ≤ col) (h2 : col ≤ line.length + 1) :
    ∃ out crop, cropLineByCols line (max (col - r) 1) (satAdd col r) = .ok (out, crop) ∧
      colToByte line col = some (blen (line.take (col - 1))) ∧
      ∃ le k rest, (le = [] ∨ le = [ellipsis]) ∧
        out = (le ++ (line.take (col - 1)).drop k) ++ rest ∧
        blen (le ++ (line.take (col - 1)).drop k) =
          min (crop.prefixBytes + (blen (line.take (col - 1)) - crop.startByte)) (blen out) ∧
        rest.head? = Spec.Snippet.charAtCol line col := by
  refine ⟨(Lemmas.C17.cropLinePure line (max (col - r) 1) (satAdd col r)).1,
    (Lemmas.C17.cropLinePure line (max (col - r) 1) (satAdd col r)).2,
    Lemmas.C17.cropLine_eq line _ _ hn (Lemmas.C17.caller_window_ok col r hc), ?_, ?_⟩
  · rw [Lemmas.C17.colToByte_eq, if_pos ⟨h1, by omega⟩]
  · have := Lemmas.C17.caret_line line col r hn hc h1 h2
    have hc0 : ¬ col = 0 := by omega
    simp only [Spec.Snippet.charAtCol, hc0, if_false]
    exact this

/-! ## `crop_window_text` -/

/-- (T) `crop_window_text_safe` (snippet part of C01) and cleanliness of its text: for ALL window
texts, rows, columns, radii and spans, `crop_window_text` never panics (no slice out of range or off a
character boundary, the loop terminates), its text contains no C0 (except `\n`, `\t`), DEL or C1
character, and a span that was ordered and inside the window text stays ordered and inside the new text. -/
theorem crop_window_text_safe (w : List Char) (wsr erow ecol r ls le : Nat)
    (hw : w.length + 1 ≤ usizeMax) (hc : ecol ≤ usizeMax) :
    ∃ out ns ne, cropWindowText w wsr erow ecol r ls le = .ok (out, ns, ne) ∧ clean out = true ∧
      ((ls ≤ le ∧ le ≤ blen w) → (ns ≤ ne ∧ ne ≤ blen out)) :=
  Lemmas.C17.cropWindowText_safe w wsr erow ecol r ls le hw hc

/-! ## `crop_source_window` (what `with_snippet` stores) -/

/-- (T) `crop_source_window_safe` (snippet part of C01): never a panic, for ALL texts, locations,
line mappings and radii. -/
theorem crop_source_window_safe (text : List Char) (loc : Snippet.Loc) (m : Mapping) (r : Nat)
    (hlen : text.length + 1 ≤ usizeMax) (hb : blen text ≤ usizeMax) (hcol : loc.column ≤ usizeMax) :
    ∃ res, cropSourceWindow text loc m r = .ok res := by
  obtain ⟨out, sl, h, _⟩ := Lemmas.C17.cropSourceWindow_spec text loc m r hlen hb hcol
  exact ⟨_, h⟩

/-- (T) `window_le_5_lines`: the stored window shows at most `2·2 + 1 = 5` lines (two lines of
context either side), for ALL inputs — verbatim window and storage-cropped window alike. -/
theorem window_le_5_lines (text : List Char) (loc : Snippet.Loc) (m : Mapping) (r : Nat)
    (hlen : text.length + 1 ≤ usizeMax) (hb : blen text ≤ usizeMax) (hcol : loc.column ≤ usizeMax) :
    ∃ out sl, cropSourceWindow text loc m r = .ok (out, sl) ∧ shownLines out ≤ 2 * ctxLines + 1 ∧
      ctxLines = 2 := by
  obtain ⟨out, sl, h, hs⟩ := Lemmas.C17.cropSourceWindow_spec text loc m r hlen hb hcol
  refine ⟨out, sl, h, ?_, rfl⟩
  rcases hs with hs | ⟨rel, ws, we, _, h1, h2, h3, h4, h5, _, _, hs⟩
  · rw [hs]; simp [shownLines]
  · have hk : we - (ws - 1) ≤ 2 * ctxLines + 1 := by omega
    have hcw := Lemmas.C17.count_takeRows_le (we - (ws - 1)) (dropRows (ws - 1) (normBreaks (stripBom text)))
    -- a window with as many line breaks as rows ends with a line break
    have hfull : (takeRows (we - (ws - 1)) (dropRows (ws - 1) (normBreaks (stripBom text)))).count '\n' = we - (ws - 1) →
        (takeRows (we - (ws - 1)) (dropRows (ws - 1) (normBreaks (stripBom text)))).getLast? = some '\n' :=
      fun hc => Lemmas.C17.takeRows_full_ends _ _ (by omega) hc
    rcases hs with hs | ⟨hc1, hc2, _⟩
    · rw [hs]
      unfold shownLines
      split
      · omega
      · rename_i hno
        have : (takeRows (we - (ws - 1)) (dropRows (ws - 1) (normBreaks (stripBom text)))).count '\n' ≠ we - (ws - 1) :=
          fun hc => hno (.inr (hfull hc))
        omega
    · unfold shownLines
      split
      · omega
      · rename_i hno
        have : (takeRows (we - (ws - 1)) (dropRows (ws - 1) (normBreaks (stripBom text)))).count '\n' ≠ we - (ws - 1) :=
          fun hc => hno (.inr (hc2 (hfull hc)))
        omega

/-- (T) `window_contains_error_line`: when a window is stored, it consists of the rows `ws..=we` of the
(BOM-stripped) text — with its line breaks normalised (`normalize_line_breaks`: a lone CR has become LF, so
the rows are the lines of the text under the YAML rule, see `window_contains_error_line_yaml`) — with
`ws ≤ rel ≤ we`, where `rel` is the row the location refers to, and its
reported first line number is that of row `ws` (so row `rel` is shown under the location's own line
number). Verbatim windows contain row `rel` literally, preceded by exactly `rel − ws` complete rows;
storage-cropped windows (lines over 4 KiB / windows over 16 KiB) keep the same row structure (each row
cropped horizontally and sanitised). -/
theorem window_contains_error_line (text : List Char) (loc : Snippet.Loc) (m : Mapping) (r : Nat)
    (hlen : text.length + 1 ≤ usizeMax) (hb : blen text ≤ usizeMax) (hcol : loc.column ≤ usizeMax) :
    ∃ out sl, cropSourceWindow text loc m r = .ok (out, sl) ∧
      (out = [] ∨
       ∃ rel ws, relativeRow m loc.line = some rel ∧ 1 ≤ ws ∧ ws ≤ rel ∧ sl = absoluteRow m ws ∧
         rel - ws ≤ out.count '\n' ∧
         ((∃ pre post, out = pre ++ row (normBreaks (stripBom text)) rel ++ post ∧ pre.count '\n' = rel - ws ∧
              (pre = [] ∨ pre.getLast? = some '\n')) ∨
          clean out = true)) := by
  obtain ⟨out, sl, h, hs⟩ := Lemmas.C17.cropSourceWindow_spec text loc m r hlen hb hcol
  refine ⟨out, sl, h, ?_⟩
  rcases hs with hs | ⟨rel, ws, we, hrel, h1, h2, h3, h4, h5, hsl, _, hs⟩
  · exact .inl hs
  · right
    have hsplit := Lemmas.C17.window_contains_row (normBreaks (stripBom text)) ws we rel h1 h2 h3
    have hcd := Lemmas.C17.count_dropRows (ws - 1) (normBreaks (stripBom text))
    have hpre_cnt : (takeRows (rel - ws) (dropRows (ws - 1) (normBreaks (stripBom text)))).count '\n' = rel - ws :=
      Lemmas.C17.count_takeRows_eq _ _ (by omega)
    have hwcnt : rel - ws ≤ (takeRows (we - (ws - 1)) (dropRows (ws - 1) (normBreaks (stripBom text)))).count '\n' := by
      rw [hsplit, List.count_append, List.count_append, hpre_cnt]; omega
    refine ⟨rel, ws, hrel, h1, h2, hsl, ?_, ?_⟩
    · rcases hs with hs | ⟨hc1, _, _⟩
      · rw [hs]; exact hwcnt
      · rw [hc1]; exact hwcnt
    · rcases hs with hs | ⟨_, _, hc3⟩
      · left
        refine ⟨_, _, by rw [hs, hsplit]; rfl, hpre_cnt, ?_⟩
        exact Lemmas.C17.takeRows_ends _ _ (by omega)
      · exact .inr hc3

/-- (T) the reported first line plus the row offset is the location's line (no saturation when the
line number leaves room for `+ 1`). -/
theorem window_row_number (m : Mapping) (line rel ws : Nat) (hrel : relativeRow m line = some rel)
    (h1 : 1 ≤ ws) (h2 : ws ≤ rel) (hl : line + 1 ≤ usizeMax) :
    absoluteRow m ws + (rel - ws) = line := by
  cases m with
  | none =>
    simp only [relativeRow, Option.some.injEq] at hrel
    simp only [absoluteRow]; omega
  | some s =>
    simp only [relativeRow] at hrel
    by_cases hlt : line < s
    · rw [if_pos hlt] at hrel; cases hrel
    · rw [if_neg hlt, Option.some.injEq] at hrel
      have e1 : satAdd (line - s) 1 = line - s + 1 := Lemmas.C17.satAdd_eq _ _ (by omega)
      simp only [absoluteRow]
      have e2 : satAdd s ws = s + ws := Lemmas.C17.satAdd_eq _ _ (by omega)
      omega

/-- (E) non-vacuity: a 7-line text, location on line 4: rows 2..6 are stored, starting at line 2 -/
example : cropSourceWindow "l1\nl2\nl3\nl4\nl5\nl6\nl7\n".toList ⟨4, 2⟩ none 64 =
    .ok ("l2\nl3\nl4\nl5\nl6\n".toList, 2) := by decide +kernel

/-- (E) the same through a reader-style fragment that starts at absolute line 10 -/
example : cropSourceWindow "l1\nl2\nl3\nl4\nl5\nl6\nl7\n".toList ⟨13, 2⟩ (some 10) 64 =
    .ok ("l2\nl3\nl4\nl5\nl6\n".toList, 11) := by decide +kernel

/-- (E) cropping a line around column 9 with radius 2, and the rebased caret -/
example : cropLineByCols "abcdefghijklmnop".toList 7 11 = .ok ("…ghijk…".toList, ⟨6, 3⟩) := by decide +kernel

/-! ## line / column → byte offset, and the window + span handed to the renderers -/

/-- (T) `line_col_to_byte_boundary` (snippet part of C01): with `starts = line_starts(text)`,
`line_col_to_byte_offset_with_starts` never panics for any existing row and any column; it answers
`Some` exactly for `1 ≤ col ≤ len+1` of the visible line (CR / CRLF stripped), and the offset is the
byte length of everything before the row plus the first `col−1` characters of the visible line — a
character boundary of the text. -/
theorem line_col_to_byte_boundary (text : List Char) (ht : text ≠ []) (rw_ col : Nat) (h1 : 1 ≤ rw_)
    (h2 : rw_ ≤ text.count '\n' + 1) :
    lineColToByte text (lineStarts text) rw_ col =
      .ok (if 1 ≤ col ∧ col - 1 ≤ (visibleLine text rw_).length
           then some (blen (takeRows (rw_ - 1) text ++ (visibleLine text rw_).take (col - 1))) else none) ∧
    ∃ rest, text = (takeRows (rw_ - 1) text ++ (visibleLine text rw_).take (col - 1)) ++ rest := by
  refine ⟨?_, Lemmas.C17.lineColToByte_boundary text rw_ col h1⟩
  rw [Lemmas.C17.lineColToByte_spec text ht rw_ col h1 h2, Lemmas.C17.colToByte_eq]
  split
  · simp [Lemmas.C17.blen_append]
  · rfl

/-- (T) `fmt_prepare_safe` (snippet part of C01; the `fmt_window_safe` obligations up to the renderer
call): the computation shared by `Snippet::fmt_or_fallback` and the crate's own window renderer — row
mapping, `line_col_to_byte…`, minimal span, vertical window, `crop_window_text` — never panics, for ALL
texts, locations, mappings and radii. When it produces a window (otherwise the plain-message fallback
is taken): the window text is terminal-clean, the primary span is ordered and inside the window text
(the span given to annotate-snippets is in bounds), the window is at most `2·2+1` rows high, starts at
or before and ends at or after the row of the location, and is numbered from the absolute line of its
first row. -/
theorem fmt_prepare_safe (text : List Char) (loc : Snippet.Loc) (m : Mapping) (r : Nat)
    (hlen : text.length + 1 ≤ usizeMax) (hcol : loc.column ≤ usizeMax) :
    ∃ res, prepare text loc m r = .ok res ∧
      ∀ p, res = some p →
        clean p.windowText = true ∧ p.localStart ≤ p.localEnd ∧ p.localEnd ≤ blen p.windowText ∧
        relativeRow m loc.line = some p.row ∧ 1 ≤ p.windowStartRow ∧ p.windowStartRow ≤ p.row ∧
        p.row ≤ p.windowEndRow ∧ p.windowEndRow - p.windowStartRow ≤ 2 * ctxLines ∧
        p.displayStartRow = absoluteRow m p.windowStartRow := by
  obtain ⟨res, h, hp⟩ := Lemmas.C17.prepare_safe text loc m r hlen hcol
  refine ⟨res, h, fun p hres => ?_⟩
  have := hp p hres
  exact ⟨this.clean, this.span_ordered, this.span_inside, this.row_rel, this.ws_pos, this.ws_le,
    this.row_le, this.height, this.display⟩

/-- (T) `window_output_clean` (was `_partial`; full since the fix of finding
`C17-message-control-chars`): everything `Snippet::fmt_or_fallback` hands to the external renderer —
title, window source, label — is terminal-clean for ANY formatted message (reflected keys / values
included): the message is sanitised before it is used, the title as a whole, and the label and title
are the character-level sanitisation of what the formatter produced. The span is ordered and inside the
source. For ALL texts, locations, mappings, radii, messages. -/
theorem window_output_clean (text : List Char) (loc : Snippet.Loc) (m : Mapping) (r : Nat)
    (msg : List Char) (hlen : text.length + 1 ≤ usizeMax) (hcol : loc.column ≤ usizeMax) :
    ∃ res, snippetRequest text loc m r msg = .ok res ∧
      ∀ q, res = some q → clean q.source = true ∧ clean q.label = true ∧ clean q.title = true ∧
        q.label = Spec.Snippet.sanitize msg ∧
        q.title = locPrefix loc ++ ": ".toList ++ Spec.Snippet.sanitize msg ∧
        q.spanStart ≤ q.spanEnd ∧ q.spanEnd ≤ blen q.source := by
  obtain ⟨res, h, hp⟩ := Lemmas.C17.prepare_safe text loc m r hlen hcol
  unfold snippetRequest
  rw [Lemmas.C17.sanitizeMessage_eq]
  simp only [Lemmas.C17.res_bind_ok]
  rw [h]
  cases res with
  | none => exact ⟨none, rfl, fun q hq => by cases hq⟩
  | some p =>
    simp only [Lemmas.C17.res_bind_ok, Lemmas.C17.sanitizeMessage_eq, Lemmas.C17.res_pure]
    refine ⟨_, rfl, fun q hq => ?_⟩
    simp only [Option.some.injEq] at hq
    subst hq
    have ok := hp p rfl
    have hmsg := Lemmas.C17.sanitize_spec_clean msg
    have hpre : clean (locPrefix loc ++ ": ".toList ++ Spec.Snippet.sanitize msg) = true := by
      unfold locPrefix
      simp only [Lemmas.C17.clean_append, Lemmas.C17.toDigits_clean, hmsg, Bool.and_true]
      decide
    refine ⟨?_, hmsg, ?_, rfl, ?_, ok.span_ordered, ?_⟩
    · show clean (if _ then p.windowText ++ ['\n'] else p.windowText) = true
      split
      · rw [Lemmas.C17.clean_append, ok.clean]; decide
      · exact ok.clean
    · exact Lemmas.C17.sanitize_spec_clean _
    · exact Lemmas.C17.sanitize_of_clean _ hpre
    · show p.localEnd ≤ blen (if _ then p.windowText ++ ['\n'] else p.windowText)
      have := ok.span_inside
      split
      · rw [Lemmas.C17.blen_append]; omega
      · exact this

/-- (T) `eof_line_terminated` (fix of finding `C17-location-on-empty-last-line`): when the location is
on the empty line after the input's final line break, the source handed to the external renderer has
that line terminated (it ends with two line breaks and the span starts right after the first of
them), so the line exists for the renderer; in every other case the source is the window text. -/
theorem eof_line_terminated (text : List Char) (loc : Snippet.Loc) (m : Mapping) (r : Nat) (msg : List Char)
    (p : Prepared) (q : RenderRequest) (hp : prepare text loc m r = .ok (some p))
    (hq : snippetRequest text loc m r msg = .ok (some q)) :
    (p.row = p.totalLines ∧ p.localStart = blen p.windowText ∧ p.windowText.getLast? = some '\n' →
        q.source = p.windowText ++ ['\n'] ∧ q.spanStart = blen p.windowText) ∧
    (¬ (p.row = p.totalLines ∧ p.localStart = blen p.windowText ∧ p.windowText.getLast? = some '\n') →
        q.source = p.windowText) := by
  unfold snippetRequest at hq
  rw [Lemmas.C17.sanitizeMessage_eq] at hq
  simp only [Lemmas.C17.res_bind_ok] at hq
  rw [hp] at hq
  simp only [Lemmas.C17.res_bind_ok, Lemmas.C17.sanitizeMessage_eq, Lemmas.C17.res_pure,
    Res.ok.injEq, Option.some.injEq] at hq
  subst hq
  constructor
  · intro hc
    exact ⟨by simp only [hc, and_self, if_true], hc.2.1⟩
  · intro hc
    simp only [hc, if_false]

/-- (T) `caret_column_window`: `crop_window_text` on ANY window text that consists of `k` complete rows
`R`, then the row of the error `body` (without line break), then `T` (nothing, or the line break and
further rows), with the incoming span start at column `col` of that row (`1 ≤ col ≤ len+1` of the
visible line, CR stripped): it never panics and the rebased span start `ns` is a character boundary of
the new text, located after exactly `k` line breaks (in the rendered error row), preceded in that row
by an optional ellipsis and a tail of the (sanitised) characters before column `col`, and followed by
the sanitised character of column `col` — or by the end of the row when `col = len+1`. For ALL radii
(including 0 and `usize::MAX`) and ALL window texts (CRLF, lone CR, control characters, multi-byte
characters, very long lines). -/
theorem caret_column_window (w : List Char) (wsr col rad le k : Nat) (R body T : List Char)
    (hw : w.length + 1 ≤ usizeMax) (hc : col ≤ usizeMax)
    (hwp : w = R ++ (body ++ T)) (hcnt : R.count '\n' = k) (hR : R = [] ∨ R.getLast? = some '\n')
    (hnb : '\n' ∉ body) (hT : T = [] ∨ ∃ post, T = '\n' :: post) (hne : body ++ T ≠ [])
    (h1 : 1 ≤ col) (h2 : col ≤ (stripCR body).length + 1) :
    ∃ out ns ne,
      cropWindowText w wsr (wsr + k) col rad (blen R + blen ((stripCR body).take (col - 1))) le = .ok (out, ns, ne) ∧
      ∃ Q lead j rest', out = (Q ++ (lead ++ Spec.Snippet.sanitize (((stripCR body).take (col - 1)).drop j))) ++ rest' ∧
        ns = blen (Q ++ (lead ++ Spec.Snippet.sanitize (((stripCR body).take (col - 1)).drop j))) ∧
        Q.count '\n' = k ∧ (Q = [] ∨ Q.getLast? = some '\n') ∧ (lead = [] ∨ lead = [ellipsis]) ∧
        (rest'.head? = ((stripCR body)[col - 1]?).map sanitizeChar ∨
          ((stripCR body)[col - 1]? = none ∧ (rest' = [] ∨ rest'.head? = some '\n'))) := by
  obtain ⟨out, ns, ne, h, hcar⟩ := Lemmas.C17.cropWindowText_caret w wsr col rad
    (blen R + blen ((stripCR body).take (col - 1))) le k R body T hw hc hwp hcnt hR hnb hT hne h1 h2 rfl
  exact ⟨out, ns, ne, h, hcar.ex⟩

/-- (T) `marker_at_reported_column` (the full `caret_column` claim for both renderers): whenever the
window / span computation shared by `Snippet::fmt_or_fallback` (annotate-snippets) and the crate's own
window renderer yields a window for (text, location, mapping, radius), the primary span start is a
character boundary of the window text; it lies in the row of the location — after exactly
`row − window_start_row` line breaks, and the window is numbered so that this row carries the
location's line number (`fmt_prepare_safe`, `window_row_number`); in that row it is preceded by an
optional ellipsis and a tail of the sanitised characters before the reported column; and the character
at it is the (sanitised) character in the reported column of the visible line (CR / CRLF stripped) of
the text with its line breaks normalised — i.e. of the line of the text under the YAML rule (LF, CRLF,
lone CR; `window_contains_error_line_yaml`) —, or the end of the row for `column = len + 1`. For ALL texts,
locations, mappings, radii. -/
theorem marker_at_reported_column (text : List Char) (loc : Snippet.Loc) (m : Mapping) (r : Nat)
    (hlen : text.length + 1 ≤ usizeMax) (hcol : loc.column ≤ usizeMax) (p : Prepared)
    (h : prepare text loc m r = .ok (some p)) :
    ∃ pre rest, p.windowText = pre ++ rest ∧ blen pre = p.localStart ∧
      pre.count '\n' = p.row - p.windowStartRow ∧
      (rest.head? = ((visibleLine (normBreaks text) p.row)[loc.column - 1]?).map sanitizeChar ∨
        ((visibleLine (normBreaks text) p.row)[loc.column - 1]? = none ∧ (rest = [] ∨ rest.head? = some '\n'))) ∧
      (∃ Q lead j, pre = Q ++ (lead ++ Spec.Snippet.sanitize (((visibleLine (normBreaks text) p.row).take (loc.column - 1)).drop j)) ∧
        (Q = [] ∨ Q.getLast? = some '\n') ∧ (lead = [] ∨ lead = [ellipsis])) :=
  Lemmas.C17.prepare_caret text loc m r hlen hcol p h

/-! ## the shown line is the line YAML means (fix of finding `C17-lone-cr-line-break`)

A reported `Location` counts lines as the YAML parser does: a line ends at LF, at CRLF (one break) and at
a lone CR (`Spec.Snippet.yamlLines`). Before the fix the snippet code split lines at LF only, so a text
with a lone CR was rendered with the wrong line under the location's line number. Every entry point now
rewrites the text with `normalize_line_breaks` first. -/

/-- (T) the key fact of the repair: line `k` of a text under the YAML rule is exactly what the `\n`-based
helpers see as row `k` (without its `\n` / `\r\n`) of the text rewritten by `normalize_line_breaks`, and
both have the same number of lines. For ALL texts. -/
theorem normalized_rows_are_yaml_lines (text : List Char) :
    (yamlLines text).length = (normBreaks text).count '\n' + 1 ∧
    ∀ k, 1 ≤ k → k ≤ (yamlLines text).length → yamlLine text k = some (visibleLine (normBreaks text) k) := by
  refine ⟨Lemmas.C17.yamlLines_length text, fun k h1 h2 => ?_⟩
  rw [Lemmas.C17.yamlLines_length] at h2
  exact Lemmas.C17.yamlLine_eq_visible text k h1 h2

/-- (T) `normalize_line_breaks` keeps every byte offset, length and character column (a lone CR and the
LF that replaces it are one byte each), changes nothing in a text whose line breaks are LF / CRLF only
(it is idempotent), and commutes with stripping the byte-order mark. -/
theorem normalize_line_breaks_preserves (text : List Char) :
    (normBreaks text).length = text.length ∧ blen (normBreaks text) = blen text ∧
    normBreaks (normBreaks text) = normBreaks text ∧ normBreaks (stripBom text) = stripBom (normBreaks text) :=
  ⟨Lemmas.C17.normBreaks_length text, Lemmas.C17.normBreaks_blen text, Lemmas.C17.normBreaks_idem text,
    Lemmas.C17.normBreaks_stripBom text⟩

/-- (T) `fragment_lines_are_text_lines`: cut ANY text after a complete line break (`P` is empty, ends with
LF, or ends with a CR that is not followed by LF): the lines of the whole under the YAML rule are the
complete lines of `P` followed by the lines of the rest `R`, so line `j` of `R` is line
`(lines of P) − 1 + j` of the text. (This is why a fragment with a line offset — reader snapshots, stored
windows — can be rendered like a whole text.) -/
theorem fragment_lines_are_text_lines (P R : List Char)
    (h : P = [] ∨ P.getLast? = some '\n' ∨ (P.getLast? = some '\r' ∧ R.head? ≠ some '\n')) :
    yamlLines (P ++ R) = (yamlLines P).dropLast ++ yamlLines R ∧
    ∀ j, 1 ≤ j → yamlLine (P ++ R) ((yamlLines P).length - 1 + j) = yamlLine R j :=
  ⟨Lemmas.C17.yamlLines_append P R h, fun j hj => Lemmas.C17.yamlLine_append P R h j hj⟩

/-- (E) cutting `a⏎b⏎␊c` after the lone CR and after the CRLF pair -/
example : yamlLines ("a\r".toList ++ "b\r\nc".toList) = ["a".toList, "b".toList, "c".toList] ∧
    yamlLine ("a\rb\r\n".toList ++ "c".toList) (3 - 1 + 1) = yamlLine "c".toList 1 := by decide

/-- (T) `window_contains_error_line_yaml_partial` — the statement the code violated before the fix, for
every NON-EMPTY text (see `window_contains_error_line_yaml` for the statement over all texts and
`window_contains_error_line_yaml_empty_counterexample` for the excluded case): take ANY non-empty text,
ANY line mapping, radius, and ANY location whose line (mapped to row `rel` of the text) exists under the
YAML line-break rule (LF, CRLF, lone CR) with content `line`, and whose column is a position on that line
(`1 ≤ column ≤ len + 1`). Then the window / span computation shared by `Snippet::fmt_or_fallback`
(annotate-snippets) and the crate's own window renderer DOES yield a window (never the plain-message
fallback, never a panic), and in it:
* the row of the location is `rel`, the window starts at a row `ws` with `1 ≤ ws ≤ rel ≤ we`,
  `we − ws ≤ 4`, and is numbered from `absoluteRow m ws` — so the row carrying the location's own line
  number (`window_row_number`) is row `rel`;
* the primary span start is a character boundary of the (terminal-clean) window text, after exactly
  `rel − ws` line breaks — i.e. in the shown row with the location's line number;
* in that row it is preceded by an optional ellipsis and a tail of the (sanitised) characters of the YAML
  line `line` before the reported column, and the character at it is the (sanitised) character of `line` in
  the reported column — or the end of the row for `column = len + 1`.
So the row shown under the location's line number is YAML line `line`, with the marker under the
reported column. -/
theorem window_contains_error_line_yaml_partial (text : List Char) (loc : Snippet.Loc) (m : Mapping)
    (r rel : Nat) (line : List Char)
    (hlen : text.length + 1 ≤ usizeMax) (hcol : loc.column ≤ usizeMax)
    (hne : text ≠ [])
    (hrel : relativeRow m loc.line = some rel) (hline : yamlLine text rel = some line)
    (hc1 : 1 ≤ loc.column) (hc2 : loc.column ≤ line.length + 1) :
    ∃ p, prepare text loc m r = .ok (some p) ∧
      p.row = rel ∧ 1 ≤ p.windowStartRow ∧ p.windowStartRow ≤ rel ∧ rel ≤ p.windowEndRow ∧
      p.windowEndRow - p.windowStartRow ≤ 2 * ctxLines ∧
      p.displayStartRow = absoluteRow m p.windowStartRow ∧ clean p.windowText = true ∧
      ∃ pre rest, p.windowText = pre ++ rest ∧ blen pre = p.localStart ∧
        pre.count '\n' = rel - p.windowStartRow ∧
        (rest.head? = (line[loc.column - 1]?).map sanitizeChar ∨
          (line[loc.column - 1]? = none ∧ (rest = [] ∨ rest.head? = some '\n'))) ∧
        (∃ Q lead j, pre = Q ++ (lead ++ Spec.Snippet.sanitize ((line.take (loc.column - 1)).drop j)) ∧
          (Q = [] ∨ Q.getLast? = some '\n') ∧ (lead = [] ∨ lead = [ellipsis])) := by
  obtain ⟨p, hp, ok⟩ := Lemmas.C17.prepare_yaml text loc m r rel line hlen hcol hne hrel hline hc1 hc2
  exact ⟨p, hp, ok.row_eq, ok.ws_pos, ok.ws_le, ok.row_le, ok.height, ok.display, ok.clean, ok.marker⟩

/-- (F) `window_contains_error_line_yaml_empty_counterexample`: the statement "for EVERY text and every
YAML position a window with the line is rendered" is false for the empty text: `(1, 1)` is a position of
the empty text under the YAML rule (its single, empty line), but no window is rendered for it — the
renderers fall back to the plain message (`line_starts` of an empty text is empty). There is no line
to show; this is the only excluded case (`window_contains_error_line_yaml`). -/
theorem window_contains_error_line_yaml_empty_counterexample :
    IsYamlPosition [] 1 1 ∧ ∀ (m : Mapping) (r : Nat), prepare [] ⟨1, 1⟩ m r = .ok none :=
  ⟨⟨[], rfl, Nat.le_refl _, Nat.le_refl _⟩, fun m r => Lemmas.C17.prepare_nil ⟨1, 1⟩ m r⟩

/-- (T) `window_contains_error_line_yaml` — over ALL texts: for every text, line mapping, radius and every
location that is a position of the text under the YAML line-break rule (its line, mapped to row `rel`,
exists under LF / CRLF / lone-CR splitting; `1 ≤ column ≤ len + 1`): either the text is empty and the
plain-message fallback is taken (nothing to show), or a window is rendered whose row numbered with the
location's line is that YAML line, with the marker under the character in the reported column (all the
conclusions of `window_contains_error_line_yaml_partial`). -/
theorem window_contains_error_line_yaml (text : List Char) (loc : Snippet.Loc) (m : Mapping) (r rel : Nat)
    (hlen : text.length + 1 ≤ usizeMax) (hcol : loc.column ≤ usizeMax)
    (hrel : relativeRow m loc.line = some rel) (hpos : IsYamlPosition text rel loc.column) :
    (text = [] ∧ prepare text loc m r = .ok none) ∨
    ∃ line p, yamlLine text rel = some line ∧ prepare text loc m r = .ok (some p) ∧
      p.row = rel ∧ 1 ≤ p.windowStartRow ∧ p.windowStartRow ≤ rel ∧ rel ≤ p.windowEndRow ∧
      p.windowEndRow - p.windowStartRow ≤ 2 * ctxLines ∧
      p.displayStartRow = absoluteRow m p.windowStartRow ∧ clean p.windowText = true ∧
      ∃ pre rest, p.windowText = pre ++ rest ∧ blen pre = p.localStart ∧
        pre.count '\n' = rel - p.windowStartRow ∧
        (rest.head? = (line[loc.column - 1]?).map sanitizeChar ∨
          (line[loc.column - 1]? = none ∧ (rest = [] ∨ rest.head? = some '\n'))) ∧
        (∃ Q lead j, pre = Q ++ (lead ++ Spec.Snippet.sanitize ((line.take (loc.column - 1)).drop j)) ∧
          (Q = [] ∨ Q.getLast? = some '\n') ∧ (lead = [] ∨ lead = [ellipsis])) := by
  by_cases hne : text = []
  · left
    subst hne
    exact ⟨rfl, Lemmas.C17.prepare_nil loc m r⟩
  · right
    obtain ⟨line, hline, hc1, hc2⟩ := hpos
    obtain ⟨p, h⟩ := window_contains_error_line_yaml_partial text loc m r rel line hlen hcol hne hrel hline hc1 hc2
    exact ⟨line, p, hline, h⟩

/-- (T) `stored_window_row_is_yaml_line`: the same for what `with_snippet` stores
(`crop_source_window`): when a window is stored verbatim for a location whose (mapped) row `rel` is a
line of the BOM-stripped text under the YAML rule, the window contains — after exactly `rel − ws` complete
rows, `ws` being the row its first line number stands for — a row whose content (without its line break)
is that YAML line; a lone CR that ended the line in the input has become LF in the stored text. (Storage-cropped
windows, for lines over 4 KiB, keep the row structure: `window_contains_error_line`.) -/
theorem stored_window_row_is_yaml_line (text : List Char) (loc : Snippet.Loc) (m : Mapping) (r : Nat)
    (hlen : text.length + 1 ≤ usizeMax) (hb : blen text ≤ usizeMax) (hcol : loc.column ≤ usizeMax) :
    ∃ out sl, cropSourceWindow text loc m r = .ok (out, sl) ∧
      (out = [] ∨
       ∃ rel ws, relativeRow m loc.line = some rel ∧ 1 ≤ ws ∧ ws ≤ rel ∧ sl = absoluteRow m ws ∧
         ((∃ pre body post, out = pre ++ body ++ post ∧ pre.count '\n' = rel - ws ∧
              (pre = [] ∨ pre.getLast? = some '\n') ∧
              ∀ line, yamlLine (stripBom text) rel = some line →
                Spec.Snippet.stripCr (Spec.Snippet.stripNl body) = line) ∨
          clean out = true)) := by
  obtain ⟨out, sl, h, hs⟩ := window_contains_error_line text loc m r hlen hb hcol
  refine ⟨out, sl, h, ?_⟩
  rcases hs with hs | ⟨rel, ws, h1, h2, h3, h4, _, hs⟩
  · exact .inl hs
  · right
    refine ⟨rel, ws, h1, h2, h3, h4, ?_⟩
    rcases hs with ⟨pre, post, e1, e2, e3⟩ | hs
    · left
      refine ⟨pre, _, post, e1, e2, e3, fun line hline => ?_⟩
      obtain ⟨_, _, hl⟩ := (Lemmas.C17.yamlLine_some_iff (stripBom text) rel line).mp hline
      rw [hl]; rfl
    · exact .inr hs

/-- (T) `stored_region_renders_yaml_line` — the string entry points' whole path (`with_snippet` stores a
region, the error is rendered from it later), for texts of at most 4 KiB (no line reaches the storage-crop
threshold; longer lines are cropped and sanitised at storage time, `window_contains_error_line`): take
ANY such text with a non-empty body, ANY mapping and radius `≠ 0`, and ANY location that is a position of
the BOM-stripped text under the YAML rule (row `rel`, content `line`, `1 ≤ column ≤ len + 1`). Then a
region IS stored, rendering from the stored regions DOES yield a window for the location, the window row
that carries the location's own line number is the row of the marker, and the marker stands right before
the (sanitised) character of YAML line `line` in the reported column (end of row for `column = len + 1`),
preceded in its row by an optional ellipsis and a tail of the sanitised characters of `line` before that
column. -/
theorem stored_region_renders_yaml_line (text : List Char) (loc : Snippet.Loc) (m : Mapping) (r rel : Nat)
    (line : List Char)
    (hlen : text.length + 1 ≤ usizeMax) (hcol : loc.column ≤ usizeMax) (hl : loc.line + 1 ≤ usizeMax)
    (hsmall : blen text ≤ storageCropLine) (hr : r ≠ 0) (hne : stripBom text ≠ [])
    (hrel : relativeRow m loc.line = some rel) (hline : yamlLine (stripBom text) rel = some line)
    (hc1 : 1 ≤ loc.column) (hc2 : loc.column ≤ line.length + 1) :
    ∃ reg p, regionFor text loc m r = .ok (some reg) ∧ renderPrepare [reg] loc r = .ok (some p) ∧
      p.windowStartRow ≤ p.row ∧ p.displayStartRow + (p.row - p.windowStartRow) = loc.line ∧
      clean p.windowText = true ∧
      ∃ pre rest, p.windowText = pre ++ rest ∧ blen pre = p.localStart ∧
        pre.count '\n' = p.row - p.windowStartRow ∧
        (rest.head? = (line[loc.column - 1]?).map sanitizeChar ∨
          (line[loc.column - 1]? = none ∧ (rest = [] ∨ rest.head? = some '\n'))) ∧
        (∃ Q lead j, pre = Q ++ (lead ++ Spec.Snippet.sanitize ((line.take (loc.column - 1)).drop j)) ∧
          (Q = [] ∨ Q.getLast? = some '\n') ∧ (lead = [] ∨ lead = [ellipsis])) := by
  have hu := Lemmas.C17.isUnknown_false_of_col loc hc1
  obtain ⟨hr1, hr2, hlv⟩ := (Lemmas.C17.yamlLine_some_iff (stripBom text) rel line).mp hline
  obtain ⟨ws, we, f1, f2, f3, f5, hwne, hcsw⟩ :=
    Lemmas.C17.cropSourceWindow_small text loc m r rel hlen hsmall hu hrel hne hr1 hr2
  generalize hw : takeRows (we - (ws - 1)) (dropRows (ws - 1) (normBreaks (stripBom text))) = w at hwne hcsw
  -- the stored region
  have hreg : regionFor text loc m r = .ok (some ⟨w, absoluteRow m ws, regionEndLine text m loc⟩) := by
    unfold regionFor
    rw [if_neg (by intro h; rcases h with h | h; exact hr h; rw [hu] at h; cases h), hcsw]
    simp only [Lemmas.C17.res_bind_ok]
    rw [if_neg (by intro h; exact hwne (List.isEmpty_iff.mp h))]
    rfl
  -- rendering from it
  have hrender : renderPrepare [⟨w, absoluteRow m ws, regionEndLine text m loc⟩] loc r =
      prepare w loc (some (absoluteRow m ws)) r := by
    unfold renderPrepare
    rw [if_neg (by
      intro h
      rcases h with h | h | h
      · exact hr h
      · cases h
      · rw [hu] at h; cases h)]
    have hpick : pickRegion [⟨w, absoluteRow m ws, regionEndLine text m loc⟩] loc =
        some ⟨w, absoluteRow m ws, regionEndLine text m loc⟩ := by
      unfold pickRegion
      cases hcov : (⟨w, absoluteRow m ws, regionEndLine text m loc⟩ : Region).covers loc <;>
        simp [List.find?_cons, hcov]
    rw [hpick]
  have hnum := window_row_number m loc.line rel ws hrel f1 f2 hl
  have hrel' : relativeRow (some (absoluteRow m ws)) loc.line = some (rel - ws + 1) := by
    simp only [relativeRow]
    rw [if_neg (by omega)]
    have e : loc.line - absoluteRow m ws = rel - ws := by omega
    have hctx : ctxLines = 2 := rfl
    rw [e, Lemmas.C17.satAdd_eq _ _ (by omega)]
  have hline' : yamlLine w (rel - ws + 1) = some line := by
    rw [← hw, hlv]
    exact Lemmas.C17.window_yaml_line (normBreaks (stripBom text)) (Lemmas.C17.normBreaks_idem _) ws we rel f1 f2 f3 hr2
  have hwlen : w.length + 1 ≤ usizeMax := by
    rw [← hw]
    have a1 := Lemmas.C17.takeRows_length_le (we - (ws - 1)) (dropRows (ws - 1) (normBreaks (stripBom text)))
    have a2 := Lemmas.C17.dropRows_length_le (ws - 1) (normBreaks (stripBom text))
    have a3 := Lemmas.C17.normBreaks_stripBom_length_le text
    omega
  obtain ⟨p, hp, ok⟩ := Lemmas.C17.prepare_yaml w loc (some (absoluteRow m ws)) r (rel - ws + 1) line hwlen hcol
    hwne hrel' hline' hc1 hc2
  refine ⟨_, p, hreg, by rw [hrender]; exact hp, by rw [ok.row_eq]; exact ok.ws_le, ?_, ok.clean, ?_⟩
  · rw [ok.display, ok.row_eq]
    exact window_row_number (some (absoluteRow m ws)) loc.line (rel - ws + 1) p.windowStartRow hrel' ok.ws_pos ok.ws_le hl
  · obtain ⟨pre, rest, c1, c2, c3, c4, c5⟩ := ok.marker
    exact ⟨pre, rest, c1, c2, by rw [ok.row_eq]; exact c3, c4, c5⟩

/-- (E) the hypotheses of `stored_region_renders_yaml_line` on the witness of the finding (with a byte-order
mark in front), location line 2 column 8 -/
example : blen "\uFEFFname: x\rcount: zz\nflag: true".toList ≤ storageCropLine ∧
    stripBom "\uFEFFname: x\rcount: zz\nflag: true".toList ≠ [] ∧ relativeRow none 2 = some 2 ∧
    yamlLine (stripBom "\uFEFFname: x\rcount: zz\nflag: true".toList) 2 = some "count: zz".toList ∧
    8 ≤ "count: zz".toList.length + 1 := by decide

/-- (E) the witness of the finding: `name: x⏎count: zz␊flag: true` (⏎ = lone CR), location line 2
column 8. Line 2 under the YAML rule is `count: zz`; the window shows it as its second row and the span
starts at byte 15 = 7 bytes into that row, on the first `z` (before the fix row 2 was `flag: true`). -/
example : yamlLine "name: x\rcount: zz\nflag: true".toList 2 = some "count: zz".toList ∧
    (prepare "name: x\rcount: zz\nflag: true".toList ⟨2, 8⟩ none 64).isOk = true ∧
    (match prepare "name: x\rcount: zz\nflag: true".toList ⟨2, 8⟩ none 64 with
     | .ok (some p) => p.windowText == "name: x\ncount: zz\nflag: true".toList && p.localStart == 15 &&
         p.windowStartRow == 1 && p.displayStartRow == 1
     | _ => false) = true := by
  refine ⟨by decide, by decide +kernel, by decide +kernel⟩

/-- (E) the hypotheses of `window_contains_error_line_yaml_partial` on a mixed-break text
(`a⏎bc⏎␊d␊⏎e`: lone CR, CRLF, LF, lone CR): the five YAML lines, and location (3, 1) on line `d`,
(5, 2) at the end of the last line -/
example : yamlLines "a\rbc\r\nd\n\re".toList = ["a".toList, "bc".toList, "d".toList, [], "e".toList] ∧
    IsYamlPosition "a\rbc\r\nd\n\re".toList 3 1 ∧ IsYamlPosition "a\rbc\r\nd\n\re".toList 5 2 ∧
    relativeRow none 3 = some 3 ∧
    (match prepare "a\rbc\r\nd\n\re".toList ⟨3, 1⟩ none 64 with
     | .ok (some p) => p.windowText == "a\nbc\nd\n\ne".toList && p.localStart == 5 && p.row == 3
     | _ => false) = true := by
  refine ⟨by decide, ⟨"d".toList, by decide, by decide, by decide⟩, ⟨"e".toList, by decide, by decide, by decide⟩,
    rfl, by decide +kernel⟩

/-- (E) the crate's own window renderer on the witness of the finding, reader-style fragment starting at
line 1: line 2 is `count: zz` and the caret is under column 8 -/
example : fmtWindow "name: x\rcount: zz\nflag: true".toList ⟨2, 8⟩ (some 1) "invalid".toList 64 =
    .ok "  |\n1 | name: x\n2 | count: zz\n  |        ^ invalid\n3 | flag: true\n  |\n".toList := by decide +kernel

/-- (T) `fmt_window_safe` (snippet part of C01) and cleanliness of its output: the crate's own window
renderer `fmt_snippet_window_with_mapping_or_fallback` never panics — in particular
`window_text[..local_start]` and `window_text[line_byte_start..local_start]` are in range and on
character boundaries — for ALL texts, locations, start lines, labels and radii; and what it writes
contains no C0 (except `\n`, `\t`), DEL or C1 character whatever the label contains (the label is
sanitised first; no hypothesis on it since the fix of `C17-message-control-chars`). -/
theorem fmt_window_safe (text : List Char) (loc : Snippet.Loc) (m : Mapping) (msg : List Char) (r : Nat)
    (hlen : text.length + 1 ≤ usizeMax) (hcol : loc.column ≤ usizeMax) :
    ∃ out, fmtWindow text loc m msg r = .ok out ∧ clean out = true :=
  Lemmas.C17.fmtWindow_spec text loc m msg r hlen hcol

/-- (E) the crate's own renderer on a CRLF text with a multi-byte character before the column -/
example : fmtWindow "a: 1\r\nké: [\r\nz: 2\r\n".toList ⟨2, 5⟩ (some 1) "defined here".toList 64 =
    .ok "  |\n1 | a: 1\n2 | ké: [\n  |     ^ defined here\n3 | z: 2\n4 |\n  |\n".toList := by decide +kernel

/-! ## regions stored in `Error::WithSnippet` -/

/-- `absoluteRow` of a later window row (no saturation) -/
theorem absoluteRow_add (m : Mapping) (ws d : Nat) (h1 : 1 ≤ ws) (hs : m.getD 1 + ws + d ≤ usizeMax) :
    absoluteRow m (ws + d) = absoluteRow m ws + d := by
  cases m with
  | none => rfl
  | some s =>
    simp only [Option.getD_some] at hs
    simp only [absoluteRow]
    rw [Lemmas.C17.satAdd_eq _ _ (by omega), Lemmas.C17.satAdd_eq _ _ (by omega)]
    omega

/-- (T) `region_lines_exact` (fix of finding `C17-region-end-line-overcount`): the region stored by
`with_snippet` / `with_snippet_offset` for a location records exactly the lines of its window: it
starts at the absolute line of the window's first row `ws` and ends at the absolute line of its last
row `we = min(rel + 2, number of rows of the text)` — rows under the YAML rule (LF, CRLF, lone CR: the
line feeds of the normalised text), the empty line after a final line break of the text being a row of
the text, the empty line after the window's own final line break not. -/
theorem region_lines_exact (text : List Char) (loc : Snippet.Loc) (m : Mapping) (r : Nat)
    (hlen : text.length + 1 ≤ usizeMax) (hb : blen text ≤ usizeMax) (hcol : loc.column ≤ usizeMax)
    (hline : loc.line + text.length + ctxLines + 2 ≤ usizeMax) :
    ∃ res, regionFor text loc m r = .ok res ∧
      ∀ reg, res = some reg →
        ∃ rel ws we, relativeRow m loc.line = some rel ∧ 1 ≤ ws ∧ ws ≤ rel ∧ rel ≤ we ∧
          we = min (rel + ctxLines) ((normBreaks (stripBom text)).count '\n' + 1) ∧
          reg.startLine = absoluteRow m ws ∧ reg.endLine = absoluteRow m we ∧
          absoluteRow m ws + (rel - ws) = loc.line ∧ absoluteRow m we = absoluteRow m ws + (we - ws) := by
  unfold regionFor
  by_cases h0 : r = 0 ∨ loc.isUnknown = true
  · rw [if_pos h0]; exact ⟨none, rfl, fun reg h => by cases h⟩
  · rw [if_neg h0]
    obtain ⟨out, sl, h, hs⟩ := Lemmas.C17.cropSourceWindow_spec text loc m r hlen hb hcol
    rw [h]
    simp only [Lemmas.C17.res_bind_ok]
    by_cases he : out.isEmpty = true
    · rw [if_pos he]; exact ⟨none, rfl, fun reg h => by cases h⟩
    · rw [if_neg he]
      refine ⟨_, rfl, fun reg hreg => ?_⟩
      have hreg' : reg = ⟨out, sl, regionEndLine text m loc⟩ := by
        simp only [Option.some.injEq] at hreg; exact hreg.symm
      rw [hreg']
      have hne : out ≠ [] := fun h => he (by rw [h]; rfl)
      rcases hs with hs | ⟨rel, ws, we, hrel, h1, h2, h3, h4, h5, hsl, hwe, _⟩
      · exact absurd hs hne
      · have htne : text ≠ [] := by
          intro ht; rw [ht] at h
          simp [cropSourceWindow] at h
          exact hne h.1
        have hcnt := Lemmas.C17.normBreaks_stripBom_count_nl text
        have hlc := Lemmas.C17.lineCount_eq text htne
        have hcl : (normBreaks text).count '\n' ≤ text.length := by
          have := List.count_le_length (a := '\n') (l := normBreaks text)
          rw [Lemmas.C17.normBreaks_length] at this; exact this
        have hnum := window_row_number m loc.line rel ws hrel h1 h2 (by omega)
        have hrelsat : satAdd rel ctxLines = rel + ctxLines := by
          apply Lemmas.C17.satAdd_eq
          cases m with
          | none => simp only [relativeRow, Option.some.injEq] at hrel; omega
          | some s =>
            simp only [relativeRow] at hrel
            by_cases hlt : loc.line < s
            · rw [if_pos hlt] at hrel; cases hrel
            · rw [if_neg hlt, Option.some.injEq] at hrel
              have := Lemmas.C17.satAdd_le (loc.line - s) 1
              omega
        refine ⟨rel, ws, we, hrel, h1, h2, h3, by rw [hwe, hrelsat, hcnt], hsl, ?_, by rw [← hsl]; rw [hsl]; exact hnum, ?_⟩
        · -- the end line
          show regionEndLine text m loc = absoluteRow m we
          unfold regionEndLine
          simp only []
          rw [hlc, hwe, hrelsat, hcnt]
          cases m with
          | none =>
            simp only [relativeRow, Option.some.injEq] at hrel
            simp only [absoluteRow]
            rw [Lemmas.C17.satAdd_eq _ _ (by omega), Lemmas.C17.satAdd_eq _ _ (by omega), hrel]
            omega
          | some s =>
            simp only [relativeRow] at hrel
            by_cases hlt : loc.line < s
            · rw [if_pos hlt] at hrel; cases hrel
            · rw [if_neg hlt, Option.some.injEq] at hrel
              have e1 : satAdd (loc.line - s) 1 = loc.line - s + 1 := Lemmas.C17.satAdd_eq _ _ (by omega)
              simp only [absoluteRow]
              rw [Lemmas.C17.satAdd_eq _ _ (by omega), Lemmas.C17.satAdd_eq _ _ (by omega),
                Lemmas.C17.satAdd_eq _ _ (by omega)]
              omega
        · have : we = ws + (we - ws) := by omega
          conv => lhs; rw [this]
          apply absoluteRow_add m ws (we - ws) h1
          cases m with
          | none => simp only [Option.getD_none]; omega
          | some s =>
            simp only [Option.getD_some]
            simp only [relativeRow] at hrel
            by_cases hlt : loc.line < s
            · rw [if_pos hlt] at hrel; cases hrel
            · omega

/-- (T) `regions_cover_location` (now an equivalence): the stored region `covers` a line exactly when
the line is one of the lines of its window; in particular it covers the location it was stored for. -/
theorem regions_cover_location (text : List Char) (loc : Snippet.Loc) (m : Mapping) (r : Nat)
    (hlen : text.length + 1 ≤ usizeMax) (hb : blen text ≤ usizeMax) (hcol : loc.column ≤ usizeMax)
    (hline : loc.line + text.length + ctxLines + 2 ≤ usizeMax) :
    ∃ res, regionFor text loc m r = .ok res ∧
      ∀ reg, res = some reg → reg.covers loc = true ∧
        ∃ ws we, reg.startLine = absoluteRow m ws ∧ reg.endLine = absoluteRow m ws + (we - ws) ∧
          ∀ other : Snippet.Loc, other.isUnknown = false →
            (reg.covers other = true ↔ absoluteRow m ws ≤ other.line ∧ other.line ≤ absoluteRow m ws + (we - ws)) := by
  obtain ⟨res, h, hp⟩ := region_lines_exact text loc m r hlen hb hcol hline
  refine ⟨res, h, fun reg hreg => ?_⟩
  obtain ⟨rel, ws, we, hrel, h1, h2, h3, hwe, hs, he, hnum, hadd⟩ := hp reg hreg
  have hu : loc.isUnknown = false := by
    cases hq : loc.isUnknown with
    | false => rfl
    | true =>
      exfalso
      unfold regionFor at h
      rw [if_pos (.inr hq)] at h
      cases h; cases hreg
  constructor
  · simp only [Region.covers, hu, hs, he, hadd, Bool.not_false, Bool.true_and, Bool.and_eq_true, decide_eq_true_eq]
    omega
  · refine ⟨ws, we, hs, by rw [he, hadd], fun other ho => ?_⟩
    simp only [Region.covers, ho, hs, he, hadd, Bool.not_false, Bool.true_and, Bool.and_eq_true, decide_eq_true_eq]

/-! ## reader snippets: the ring of recent bytes and its trimming -/

/-- (T) `ring_trim_utf8`: take ANY byte window `[a, b)` of a valid UTF-8 stream (the ring reader's
snapshot is such a window: reads stop at arbitrary byte positions and eviction is byte-wise).
`trim_to_utf8_boundaries_with_line` never panics, returns valid UTF-8 — exactly the encoding of a
contiguous piece `mid` of the stream's characters (so `String::from_utf8_lossy` in `lib.rs` changes
nothing) — advances the start offset by the `k` continuation bytes it dropped, and keeps the start
line, which is right because none of the dropped bytes is, or is part of, a line break (no LF among
them, and no line of the stream — YAML rule: LF, CRLF, lone CR — ends within them). -/
theorem ring_trim_utf8 (cs : List Char) (a b sl : Nat) (hab : a ≤ b) (hb : b ≤ (encode cs).length)
    (hsl : sl ≤ usizeMax) :
    ∃ k mid, ringTrim (((encode cs).take b).drop a) a sl = .ok (a + k, sl, encode mid) ∧ mid <:+: cs ∧
      decode (encode mid) = some mid ∧
      ((encode cs).take (a + k)).count 0x0A = ((encode cs).take a).count 0x0A ∧
      linesEndedBefore (encode cs) (a + k) = linesEndedBefore (encode cs) a := by
  obtain ⟨ct, mid, ph, e, h1, h2, h3⟩ := Lemmas.C17.window_decomp cs a b hab hb
  refine ⟨ct.length, mid, ?_, h2, Lemmas.C17.decode_encode mid, ?_, ?_⟩
  · rw [e]; exact Lemmas.C17.ringTrim_spec ct mid ph a sl h1 h3 hsl
  · exact Lemmas.C17.window_line (encode cs) a b hab hb ct (encode mid ++ ph) (by rw [e, List.append_assoc]) h1
  · exact Lemmas.C17.window_lines_ended (encode cs) a b hab hb ct (encode mid ++ ph)
      (by rw [e, List.append_assoc]) h1

/-- (T) `ring_window` (follows the fix of finding `C17-lone-cr-line-break`): after the bytes `bs` went
through `push_ring_bytes` (capacity `cap ≥ 1`) the ring holds exactly the last `cap` bytes, knows their
absolute offset, and its start line is 1 + the number of lines that ended within the evicted bytes under
the YAML rule: an evicted LF, and an evicted CR that is not followed by LF (the byte after it may still be
in the ring, or be the byte that caused the eviction); the CR of a CRLF pair split by the eviction is not
counted — the pair's LF, still in the ring, ends that line. -/
theorem ring_window (cap : Nat) (hcap : 1 ≤ cap) (bs : List Nat) (hlen : bs.length + 2 ≤ usizeMax) :
    (ringPush cap ⟨[], 0, 1, true⟩ 0 bs).buf = bs.drop (bs.length - cap) ∧
    (bs ≠ [] → (ringPush cap ⟨[], 0, 1, true⟩ 0 bs).startOffset = bs.length - cap) ∧
    (ringPush cap ⟨[], 0, 1, true⟩ 0 bs).startLine = 1 + linesEndedBefore bs (bs.length - cap) :=
  Lemmas.C17.ringPush_spec cap hcap bs hlen

/-- (E) a ring of 4 bytes over `a⏎b⏎␊c␊⏎d` (⏎ = CR, ␊ = LF): the evicted bytes `a⏎b⏎␊` hold two line ends
(the lone CR and the CRLF pair); one byte less evicted splits the CRLF pair and only the lone CR counts -/
example : (ringPush 4 ⟨[], 0, 1, true⟩ 0 [0x61, 0x0D, 0x62, 0x0D, 0x0A, 0x63, 0x0A, 0x0D, 0x64]).startLine = 3 ∧
    (ringPush 5 ⟨[], 0, 1, true⟩ 0 [0x61, 0x0D, 0x62, 0x0D, 0x0A, 0x63, 0x0A, 0x0D, 0x64]).startLine = 2 ∧
    (ringPush 5 ⟨[], 0, 1, true⟩ 0 [0x61, 0x0D, 0x62, 0x0D, 0x0A, 0x63, 0x0A, 0x0D, 0x64]).startsLine = false := by
  decide

/-- (T) `ring_snapshot_utf8`: `get_recent()` on a valid UTF-8 stream, after any amount consumed and
with any read-ahead allowance: the snapshot is valid UTF-8 (the encoding of a contiguous piece of the
stream), `end_offset − start_offset` is its length, and `start_line` is 1 + the number of lines of the
stream (YAML rule: LF, CRLF, lone CR) that end before `start_offset`. -/
theorem ring_snapshot_utf8 (cap ahead : Nat) (hcap : 1 ≤ cap) (cs : List Char) (consumed : Nat)
    (hlen : (encode cs).length + 2 ≤ usizeMax) :
    ∃ so sl mid, ringRun cap ahead (encode cs) consumed = .ok (so, so + (encode mid).length, sl, encode mid) ∧
      mid <:+: cs ∧ sl = 1 + linesEndedBefore (encode cs) so := by
  unfold ringRun
  simp only []
  generalize hn : min consumed (encode cs).length + ahead = n
  have hseen_len : ((encode cs).take n).length + 2 ≤ usizeMax := by rw [List.length_take]; omega
  obtain ⟨hbuf, hoff, hline⟩ := Lemmas.C17.ringPush_spec cap hcap ((encode cs).take n) hseen_len
  by_cases hemp : (ringPush cap ⟨[], 0, 1, true⟩ 0 ((encode cs).take n)).buf.isEmpty = true
  · rw [if_pos hemp]
    -- nothing retained: nothing was seen
    have hnil : (encode cs).take n = [] := by
      rw [hbuf] at hemp
      have h1 := List.isEmpty_iff.mp hemp
      have h2 := congrArg List.length h1
      rw [List.length_drop] at h2
      apply List.eq_nil_of_length_eq_zero
      simp only [List.length_nil] at h2
      omega
    refine ⟨min consumed (encode cs).length, _, [], rfl, List.nil_infix, ?_⟩
    rw [hline, hnil]
    have h3 := congrArg List.length hnil
    rw [List.length_take] at h3
    simp only [List.length_nil] at h3
    have : min consumed (encode cs).length = 0 := by omega
    rw [this]; simp
  · rw [if_neg hemp]
    have hne : (encode cs).take n ≠ [] := by
      intro h; apply hemp; rw [hbuf, h]; simp
    rw [hbuf, hoff hne, hline]
    -- the ring content as a window [a, b) of the stream
    have hb : ((encode cs).take n).length ≤ (encode cs).length := by rw [List.length_take]; omega
    have htt : (encode cs).take ((encode cs).take n).length = (encode cs).take n := by
      rw [List.length_take]
      by_cases hnl : n ≤ (encode cs).length
      · rw [Nat.min_eq_left hnl]
      · rw [Nat.min_eq_right (by omega), List.take_of_length_le (Nat.le_refl _), List.take_of_length_le (by omega)]
    have hpos : 0 < ((encode cs).take n).length := List.length_pos_iff.mpr hne
    have hcnt : linesEndedBefore ((encode cs).take n) (((encode cs).take n).length - cap) =
        linesEndedBefore (encode cs) (((encode cs).take n).length - cap) := by
      have := Lemmas.C17.linesEndedBefore_take (encode cs) ((encode cs).take n).length
        (((encode cs).take n).length - cap) (by omega)
      rw [htt] at this; exact this
    obtain ⟨k, mid, ht, hin, _, _, hl⟩ := ring_trim_utf8 cs (((encode cs).take n).length - cap) ((encode cs).take n).length
      (1 + linesEndedBefore ((encode cs).take n) (((encode cs).take n).length - cap)) (by omega) hb (by
        have h1 := Lemmas.C17.linesEndedBefore_le ((encode cs).take n) (((encode cs).take n).length - cap)
        omega)
    rw [htt] at ht
    rw [ht]
    simp only [Lemmas.C17.res_bind_ok, Lemmas.C17.res_pure]
    refine ⟨_, _, mid, rfl, hin, ?_⟩
    rw [hl, hcnt]

/-- (T) `reader_snippet_line_aligned` (fix of finding `C17-reader-window-starts-mid-line`; line breaks
under the YAML rule since the fix of `C17-lone-cr-line-break`): what `from_reader` attaches as snippet text
— `get_recent()` followed by `line_aligned_text()` — on a valid UTF-8 stream, after any amount consumed:
never a panic, and a non-empty text `T` is a contiguous piece of the stream (`cs = P ++ T ++ S`) that
begins at the beginning of a line: `P` is empty, or ends with LF, or ends with a CR that is not followed by
LF (a CRLF pair is never split between `P` and `T`); and it carries that line's number: `L` is the number
of lines of `P` under the YAML rule (`P` ends with a line break, so its last line is the empty line on
which `T` starts) — line `j` of the fragment (followed by the rest of the stream) under the YAML rule is
line `L − 1 + j` of the stream. So a column of a location on any line of `T` counts from the real beginning of that
line, and `marker_at_reported_column` / `window_contains_error_line_yaml` apply to the fragment exactly as
to a whole text; a line whose beginning has been evicted is not in `T`. -/
theorem reader_snippet_line_aligned (cap ahead : Nat) (hcap : 1 ≤ cap) (cs : List Char) (consumed : Nat)
    (hlen : (encode cs).length + 2 ≤ usizeMax) :
    ∃ starts T L, ringRunAligned cap ahead (encode cs) consumed = .ok (starts, T, L) ∧
      (T ≠ [] → ∃ P S, cs = P ++ T ++ S ∧
        (P = [] ∨ P.getLast? = some '\n' ∨ (P.getLast? = some '\r' ∧ T.head? ≠ some '\n')) ∧
        L = (yamlLines P).length ∧
        ∀ j, 1 ≤ j → yamlLine cs (L - 1 + j) = yamlLine (T ++ S) j) := by
  obtain ⟨starts, T, L, h, hT⟩ := Lemmas.C17.ringRunAligned_spec cap ahead hcap cs consumed hlen
  refine ⟨starts, T, L, h, fun hne => ?_⟩
  obtain ⟨P, S, hcs, hends, hL⟩ := hT hne
  refine ⟨P, S, hcs, hends, hL, fun j hj => ?_⟩
  have hends' : Lemmas.C17.EndsLine P (T ++ S) := by
    have hh : (T ++ S).head? = T.head? := by
      cases T with
      | nil => exact absurd rfl hne
      | cons c t => rfl
    unfold Lemmas.C17.EndsLine at hends ⊢
    rw [hh]; exact hends
  rw [hcs, List.append_assoc, hL]
  exact Lemmas.C17.yamlLine_append P (T ++ S) hends' j hj

/-- (E) a ring of capacity 6 over `aé\nb漢\nxyz` consumed to the end: the window starts inside `漢`
(two continuation bytes are dropped) on line 2 -/
example : ringRun 6 0 (encode "aé\nb漢\nxyz".toList) 100 = .ok (8, 12, 2, encode "\nxyz".toList) := by decide +kernel

end SaphyrVerif.Props.C17
