import SaphyrVerif.Spec.Scalars
import SaphyrVerif.Lemmas.C06
/-!
# C06 — scalars are interpreted exactly; never wrapped

Property theorems for the models of `parse_scalars.rs` and `base64.rs`.
Helper lemmas live in `SaphyrVerif/Lemmas/C06.lean`.
-/
namespace SaphyrVerif.Props.C06
open SaphyrVerif SaphyrVerif.Scalars SaphyrVerif.Spec SaphyrVerif.Base64

/-- The checked accumulator computes the exact value and rejects exactly when it exceeds `max`. -/
theorem accum_exact (radix max : Nat) (hr : 1 ≤ radix) (s : List Char) :
    accum radix max s 0 false =
      (digitsValue? radix s).bind (fun v => if v ≤ max then some v else none) := by
  exact Lemmas.C06.accum_exact radix max hr s

/-- (T) parse_int_signed: for every width 1..128 the result is the mathematically exact value of the
notation when it fits the width, and an error otherwise — never wrapped, saturated or truncated. -/
theorem parse_int_signed_exact (w : Nat) (hw1 : 1 ≤ w) (hw : w ≤ 128) (legacy : Bool) (s : List Char) :
    parseIntSigned w legacy s =
      (intNotation legacy s).bind (fun v => if fitsSigned w v then some v else none) := by
  have _ := hw1
  unfold parseIntSigned intNotation
  simp only []
  exact Lemmas.C06.signedCore_exact w hw _ _ (Lemmas.C06.radix_pos _ _) _

theorem parse_int_unsigned_exact (w : Nat) (hw : w ≤ 128) (legacy : Bool) (s : List Char) :
    parseIntUnsigned w legacy s =
      (uintNotation legacy s).bind (fun v => if fitsUnsigned w v then some v else none) := by
  unfold parseIntUnsigned uintNotation
  simp only []
  exact Lemmas.C06.dash_match (trim s) _ _ _
    (Lemmas.C06.unsignedCore_exact w hw _ (Lemmas.C06.radix_pos _ _) _)

/-- soundness half ("never wrapped") -/
theorem never_wrapped_signed (w : Nat) (hw1 : 1 ≤ w) (hw : w ≤ 128) (legacy : Bool) (s : List Char) (v : Int)
    (h : parseIntSigned w legacy s = some v) :
    intNotation legacy s = some v ∧ - (2 : Int) ^ (w - 1) ≤ v ∧ v < (2 : Int) ^ (w - 1) := by
  rw [parse_int_signed_exact w hw1 hw, Lemmas.C06.bind_fit_some] at h
  obtain ⟨h1, h2⟩ := h
  simp only [fitsSigned, Bool.and_eq_true, decide_eq_true_eq] at h2
  exact ⟨h1, h2.1, h2.2⟩

theorem never_wrapped_unsigned (w : Nat) (hw : w ≤ 128) (legacy : Bool) (s : List Char) (v : Nat)
    (h : parseIntUnsigned w legacy s = some v) :
    uintNotation legacy s = some v ∧ v < 2 ^ w := by
  rw [parse_int_unsigned_exact w hw, Lemmas.C06.bind_fit_some] at h
  obtain ⟨h1, h2⟩ := h
  simp only [fitsUnsigned, decide_eq_true_eq] at h2
  exact ⟨h1, h2⟩

/-- completeness half: every notation whose value fits is accepted (includes `i128::MIN` in every radix) -/
theorem complete_signed (w : Nat) (hw1 : 1 ≤ w) (hw : w ≤ 128) (legacy : Bool) (s : List Char) (v : Int)
    (h : intNotation legacy s = some v) (hlo : - (2 : Int) ^ (w - 1) ≤ v) (hhi : v < (2 : Int) ^ (w - 1)) :
    parseIntSigned w legacy s = some v := by
  rw [parse_int_signed_exact w hw1 hw, Lemmas.C06.bind_fit_some]
  refine ⟨h, ?_⟩
  simp only [fitsSigned, Bool.and_eq_true, decide_eq_true_eq]
  exact ⟨hlo, hhi⟩

theorem complete_unsigned (w : Nat) (hw : w ≤ 128) (legacy : Bool) (s : List Char) (v : Nat)
    (h : uintNotation legacy s = some v) (hhi : v < 2 ^ w) :
    parseIntUnsigned w legacy s = some v := by
  rw [parse_int_unsigned_exact w hw, Lemmas.C06.bind_fit_some]
  refine ⟨h, ?_⟩
  simp only [fitsUnsigned, decide_eq_true_eq]
  exact hhi

/-- (T) the YAML 1.1 boolean table is exact -/
theorem bool_table_exact (s : List Char) :
    (parseYaml11Bool s = some true ↔
        lowerAscii (trim s) ∈ ["true".toList, "yes".toList, "y".toList, "on".toList]) ∧
    (parseYaml11Bool s = some false ↔
        lowerAscii (trim s) ∈ ["false".toList, "no".toList, "n".toList, "off".toList]) := by
  unfold parseYaml11Bool eqIgnoreAsciiCase
  simp only []
  obtain ⟨e1, e2, e3, e4, e5, e6, e7, e8, -⟩ := Lemmas.C06.lower_consts
  rw [e1, e2, e3, e4, e5, e6, e7, e8]
  exact Lemmas.C06.table_lemma _ _ _ _ _ _ _ _ _ (by decide)

theorem strict_bool_exact (s : List Char) :
    (parseStrictBool s = some true ↔ lowerAscii (trim s) = "true".toList) ∧
    (parseStrictBool s = some false ↔ lowerAscii (trim s) = "false".toList) := by
  unfold parseStrictBool eqIgnoreAsciiCase
  simp only []
  obtain ⟨e1, -, -, -, e5, -⟩ := Lemmas.C06.lower_consts
  rw [e1, e5]
  generalize lowerAscii (trim s) = x
  by_cases h1 : x = "true".toList
  · subst h1; decide
  · by_cases h2 : x = "false".toList
    · subst h2; decide
    · have b1 : (x == "true".toList) = false := by simpa using h1
      have b2 : (x == "false".toList) = false := by simpa using h2
      rw [b1, b2]
      refine ⟨⟨fun h => ?_, fun h => absurd h h1⟩, ⟨fun h => ?_, fun h => absurd h h2⟩⟩
      · simp at h
      · simp at h

/-- (T) null-likes: only plain style, only the three spellings -/
theorem nullish_exact (v : List Char) (st : Style) :
    scalarIsNullish v st = true ↔
      st = .plain ∧ (v = [] ∨ v = ['~'] ∨ lowerAscii v = "null".toList) := by
  unfold scalarIsNullish eqIgnoreAsciiCase
  rw [Lemmas.C06.lower_consts.2.2.2.2.2.2.2.2]
  simp [List.isEmpty_iff, or_assoc]

theorem nullish_option_exact (v : List Char) (st : Style) :
    scalarIsNullishForOption v st = true ↔
      (v = [] ∧ st ≠ .single ∧ st ≠ .double) ∨
      (st = .plain ∧ (v = ['~'] ∨ lowerAscii v = "null".toList)) := by
  unfold scalarIsNullishForOption eqIgnoreAsciiCase
  rw [Lemmas.C06.lower_consts.2.2.2.2.2.2.2.2]
  simp [List.isEmpty_iff]

/-- quoted scalars are never null-like -/
theorem quoted_never_nullish (v : List Char) (st : Style) (h : st = .single ∨ st = .double) :
    scalarIsNullish v st = false ∧ scalarIsNullishForOption v st = false := by
  rcases h with rfl | rfl <;> simp [scalarIsNullish, scalarIsNullishForOption]

/-- (T) base64: decoding the RFC 4648 encoding of any byte string gives it back -/
theorem b64_decode_encode (bs : List Nat) (h : ∀ b ∈ bs, b < 256) :
    decodeChunks (b64encode bs) = some bs := by
  exact Lemmas.C06.b64_decode_encode bs h

/-- (T) base64 strictness: the only accepted text (after whitespace removal) is the canonical encoding
of the result — canonical padding, zero trailing bits. -/
theorem b64_strict (s bs : List Nat) (h : decodeChunks s = some bs) : s = b64encode bs := by
  exact Lemmas.C06.b64_strict s bs h

theorem b64_output_bytes (s bs : List Nat) (h : decodeChunks s = some bs) : ∀ b ∈ bs, b < 256 := by
  exact Lemmas.C06.b64_output_bytes s bs h

/-- (T) ASCII whitespace is the only thing ignored -/
theorem b64_decode_ws (s : List Nat) :
    decode s = decodeChunks (s.filter (fun b => !isAsciiWhitespaceByte b)) := rfl

-- (E) non-vacuity: concrete accepted / rejected notations
example : parseIntSigned 8 false "-0x80".toList = some (-128) := by decide
example : parseIntSigned 8 false "0x80".toList = none := by decide
example : parseIntSigned 128 false "-0x80000000000000000000000000000000".toList = some (-(2:Int)^127) := by decide
example : parseIntUnsigned 8 true " 00_7_7 ".toList = some 63 := by decide
example : parseIntUnsigned 8 false "-0".toList = none := by decide
example : decodeChunks (b64encode [1, 2, 3, 250]) = some [1, 2, 3, 250] := by decide
example : decodeChunks [65, 66, 61, 61] = none := by decide

section AxiomAudit
#print axioms accum_exact
#print axioms parse_int_signed_exact
#print axioms parse_int_unsigned_exact
#print axioms never_wrapped_signed
#print axioms never_wrapped_unsigned
#print axioms complete_signed
#print axioms complete_unsigned
#print axioms bool_table_exact
#print axioms strict_bool_exact
#print axioms nullish_exact
#print axioms nullish_option_exact
#print axioms quoted_never_nullish
#print axioms b64_decode_encode
#print axioms b64_strict
#print axioms b64_output_bytes
#print axioms b64_decode_ws
end AxiomAudit

end SaphyrVerif.Props.C06
