import SaphyrVerif.Spec.Interp
/-!
# C03 — merge keys (`<<`) equal the explicitly merged mapping with fixed precedence

Theorems about the effective entry list `effEntries` (Spec/Interp.lean) — the list of (key, value) nodes a
mapping with merge keys delivers — and about the model's merge expansion functions refining it.
That the map access of the typed deserializer delivers `effEntries` is part of the C05 refinement.
-/
namespace SaphyrVerif.Props.C03
open SaphyrVerif SaphyrVerif.Scalars SaphyrVerif.Pump SaphyrVerif.De SaphyrVerif.Spec

def keyFps (es : List (ENode × ENode)) : List FP := es.map fun p => fpOf p.1

/-- (T) quoted_or_tagged_is_plain_key: only the plain, untagged scalar `<<` is a merge key -/
theorem merge_key_iff (v : List Char) (tag : Nat) (rt : Option (List Char)) (st : Style) (a : Nat) (l : Loc) :
    isMergeKeyNode (.scalar v tag rt st a l) = true ↔ v = ['<', '<'] ∧ st = .plain ∧ tag = 0 := by
  sorry

theorem container_is_not_merge_key (n : ENode) (h : isMergeKeyNode n = true) : ∃ v tag rt st a l, n = .scalar v tag rt st a l := by
  sorry

mutual
/-- what may stand after `<<:` — a mapping (whose own merge values are valid), a sequence of valid
sources (nested sequences allowed), or a null-like scalar -/
def validSource : ENode → Bool
  | .scalar v _ _ st _ _ => scalarIsNullish v st
  | .map _ _ _ entries => validSourceE entries
  | .seq _ _ _ _ _ items => validSourceL items
def validSourceL : List ENode → Bool
  | [] => true
  | n :: ns => validSource n && validSourceL ns
def validSourceE : List (ENode × ENode) → Bool
  | [] => true
  | (k, v) :: es => (if isMergeKeyNode k then validSource v else true) && validSourceE es
end

/-- (T) merge_value_kind_check: a merge value is rejected exactly when it is not a mapping, a (nested)
sequence of mappings, or null -/
theorem merge_value_kind_check (n : ENode) : (sourceEntries n).isSome = validSource n := by
  sorry

/-- (T) the effective entries are free of merge keys and of repeated keys … -/
theorem eff_no_merge_no_dup (dup : DupPolicy) (entries es : List (ENode × ENode))
    (h : effEntries dup entries = some es) (hdup : dup ≠ .lastWins) :
    (∀ e ∈ es, isMergeKeyNode e.1 = false) ∧ (keyFps es).Nodup := by
  sorry

/-- (T) merge_eq_explicit: … so "the mapping written out in full" (its effective entries as an ordinary
mapping) reads back as exactly the same entries under every policy: deserializing the merge form and
the explicit form is the same thing. -/
theorem merge_eq_explicit (dup : DupPolicy) (entries es : List (ENode × ENode))
    (h : effEntries dup entries = some es) (hdup : dup ≠ .lastWins) :
    ∀ dup', effEntries dup' es = some es := by
  sorry

/-- (T) own_overrides_merged: every own entry kept by the policy is delivered, before all merged ones, and
no merged entry repeats an own key — under every duplicate-key policy (no error, no override). -/
theorem own_overrides_merged (dup : DupPolicy) (entries es : List (ENode × ENode))
    (h : effEntries dup entries = some es) :
    ∃ ownKept merged, applyPolicy dup (splitEntries entries).1 [] = some ownKept ∧ es = ownKept ++ merged ∧
      (∀ m ∈ merged, ∀ o ∈ ownKept, fpOf m.1 ≠ fpOf o.1) := by
  sorry

/-- (T) later_merge_overrides_earlier: with two merge entries, for a key present in both sources the entry
of the LATER `<<` is the one delivered. -/
theorem later_merge_overrides_earlier (dup : DupPolicy) (l1 l2 l3 l4 : Loc) (a b : Nat)
    (k1 v1 k2 v2 : ENode) (hk : fpOf k1 = fpOf k2) (hm1 : isMergeKeyNode k1 = false) (hm2 : isMergeKeyNode k2 = false) :
    effEntries dup
      [(.scalar ['<', '<'] 0 none .plain 0 l1, .map a l2 l2 [(k1, v1)]),
       (.scalar ['<', '<'] 0 none .plain 0 l3, .map b l4 l4 [(k2, v2)])] = some [(k2, v2)] := by
  sorry

/-- (T) in a merge sequence a later element overrides an earlier one -/
theorem later_seq_element_overrides_earlier (dup : DupPolicy) (l1 l2 l3 l4 : Loc)
    (k1 v1 k2 v2 : ENode) (hk : fpOf k1 = fpOf k2) (hm1 : isMergeKeyNode k1 = false) (hm2 : isMergeKeyNode k2 = false) :
    effEntries dup
      [(.scalar ['<', '<'] 0 none .plain 0 l1,
        .seq 0 0 none l2 l2 [.map 0 l3 l3 [(k1, v1)], .map 0 l4 l4 [(k2, v2)]])] = some [(k2, v2)] := by
  sorry

/-- (T) collect_entries_spec: the model's expansion of a merge value (`pending_entries_from_events`, the
recursive `collect_entries_from_map`) yields exactly `sourceEntries`, entry by entry (fingerprints, recorded
events), or fails exactly when `sourceEntries` does. -/
theorem collect_entries_spec (src : ENode) (loc ref : Loc) :
    ∃ n, ∀ fuel, n ≤ fuel →
      match sourceEntries src, pendingFromEvents fuel (eflatten src) loc ref with
      | some es, .ok ps =>
        ps.map (fun p => (p.key.fp, p.key.events, p.value.fp, p.value.events)) =
          es.map (fun e => (fpOf e.1, eflatten e.1, fpOf e.2, eflatten e.2))
      | none, .error _ => True
      | _, _ => False := by
  sorry

-- (E) non-vacuity
def sc (s : String) (l : Loc) : ENode := .scalar s.toList 0 none .plain 0 l
def mk (es : List (ENode × ENode)) : ENode := .map 0 0 0 es
/-- `{a: 1, <<: {a: 2, b: 3}, <<: [{b: 4}, {c: 5, b: 6}]}` ⇒ a: 1, then from the last `<<`: c: 5, b: 6 (later element first), then b from the first `<<` is already present -/
example :
    (effEntries .error [(sc "a" 1, sc "1" 2), (sc "<<" 3, mk [(sc "a" 4, sc "2" 5), (sc "b" 6, sc "3" 7)]),
      (sc "<<" 8, .seq 0 0 none 9 9 [mk [(sc "b" 10, sc "4" 11)], mk [(sc "c" 12, sc "5" 13), (sc "b" 14, sc "6" 15)]])]).map
      (fun es => es.map fun p => (p.1.loc, p.2.loc)) = some [(1, 2), (12, 13), (14, 15)] := by decide
example : (sourceEntries (sc "x" 1)).isSome = false := by decide

end SaphyrVerif.Props.C03
