import SaphyrVerif.Spec.Interp
import SaphyrVerif.Lemmas.C03
import SaphyrVerif.Lemmas.C03_Collect
/-!
# C03 — merge keys (`<<`) equal the explicitly merged mapping with fixed precedence

Theorems about the effective entry list `effEntries` (Spec/Interp.lean) — the list of (key, value) nodes a
mapping with merge keys delivers — and about the model's merge expansion functions refining it.
That the map access of the typed deserializer delivers `effEntries` is part of the C05 refinement.
-/
namespace SaphyrVerif.Props.C03
open SaphyrVerif SaphyrVerif.Scalars SaphyrVerif.Pump SaphyrVerif.De SaphyrVerif.Spec
open SaphyrVerif.Lemmas

def keyFps (es : List (ENode × ENode)) : List FP := es.map fun p => fpOf p.1

/-- (T) quoted_or_tagged_is_plain_key: only the plain, untagged scalar `<<` is a merge key -/
theorem merge_key_iff (v : List Char) (tag : Nat) (rt : Option (List Char)) (st : Style) (a : Nat) (l : Loc) :
    isMergeKeyNode (.scalar v tag rt st a l) = true ↔ v = ['<', '<'] ∧ st = .plain ∧ tag = 0 := by
  simp only [isMergeKeyNode, tagNone, Bool.and_eq_true, beq_iff_eq]
  constructor
  · rintro ⟨⟨h1, h2⟩, h3⟩; exact ⟨h3, h1, h2⟩
  · rintro ⟨h3, h1, h2⟩; exact ⟨⟨h1, h2⟩, h3⟩

theorem container_is_not_merge_key (n : ENode) (h : isMergeKeyNode n = true) : ∃ v tag rt st a l, n = .scalar v tag rt st a l := by
  cases n with
  | scalar v tag rt st a l => exact ⟨v, tag, rt, st, a, l, rfl⟩
  | seq => simp [isMergeKeyNode] at h
  | map => simp [isMergeKeyNode] at h

mutual
/-- what may stand after `<<:` — a mapping (whose own merge values are valid), a sequence of valid
sources (nested sequences allowed), or a null scalar (`isNullMergeNode`: tagged `!!null` or plain null-like
text, not forced to a string by `!!str` / `!`) -/
def validSource : ENode → Bool
  | .scalar v tag rt st a l => isNullMergeNode (.scalar v tag rt st a l)
  | .map _ _ _ entries => validSourceE entries
  | .seq _ _ _ _ _ items => validSourceL items
def validSourceL : List ENode → Bool
  | [] => true
  | n :: ns => validSource n && validSourceL ns
def validSourceE : List (ENode × ENode) → Bool
  | [] => true
  | (k, v) :: es => (if isMergeKeyNode k then validSource v else true) && validSourceE es
end

mutual
theorem sourceEntries_isSome : ∀ n : ENode, (sourceEntries n).isSome = validSource n
  | .scalar v tag rt st a l => by
    simp only [sourceEntries, validSource]
    split <;> simp_all
  | .map _ _ _ entries => by simp only [sourceEntries, validSource]; exact mapSourceEntries_isSome entries
  | .seq _ _ _ _ _ items => by simp only [sourceEntries, validSource]; exact seqSourceEntries_isSome items
theorem mapSourceEntries_isSome : ∀ es : List (ENode × ENode), (mapSourceEntries es).isSome = validSourceE es
  | [] => by simp [mapSourceEntries, validSourceE]
  | (k, v) :: rest => by
    have h1 := sourceEntries_isSome v
    have h2 := mapSourceEntries_isSome rest
    simp only [mapSourceEntries, validSourceE]
    split
    · rw [← h1, ← h2]
      cases sourceEntries v <;> cases mapSourceEntries rest <;> simp
    · rw [← h2]
      cases mapSourceEntries rest <;> simp
theorem seqSourceEntries_isSome : ∀ ns : List ENode, (seqSourceEntries ns).isSome = validSourceL ns
  | [] => by simp [seqSourceEntries, validSourceL]
  | n :: ns => by
    have h1 := sourceEntries_isSome n
    have h2 := seqSourceEntries_isSome ns
    simp only [seqSourceEntries, validSourceL]
    rw [← h1, ← h2]
    cases sourceEntries n <;> cases seqSourceEntries ns <;> simp
end

/-- (T) merge_value_kind_check: a merge value is rejected exactly when it is not a mapping, a (nested)
sequence of mappings, or null -/
theorem merge_value_kind_check (n : ENode) : (sourceEntries n).isSome = validSource n := by
  exact sourceEntries_isSome n

/-- the crate's notion of "this (possibly tagged) scalar is null" applied to merge values: tagged `!!null`
(any text, any style) or plain null-like text (`""`, `~`, `null`), unless the tag forces a string (`!!str`,
or the non-specific tag `!`) -/
def scalarIsNull (v : List Char) (st : Style) (tag : Nat) : Bool :=
  (tag == tagNull || scalarIsNullish v st) && tag != tagString && tag != tagNonSpecific

/-- (T) scalar_merge_value_null_iff (clause "a merge value that is not a mapping, a (nested) sequence of
mappings or null is rejected", scalar case): for EVERY scalar merge value — any text, style, tag class,
anchor — the specification accepts it as a null merge (no entries) iff it is null in the crate's sense, and
rejects it otherwise. The same holds for a scalar element of a merge sequence (`seqSourceEntries` applies
`sourceEntries` to every element). -/
theorem scalar_merge_value_null_iff (v : List Char) (tag : Nat) (rt : Option (List Char)) (st : Style) (a : Nat) (l : Loc) :
    (sourceEntries (.scalar v tag rt st a l) = some [] ↔ scalarIsNull v st tag = true) ∧
    (sourceEntries (.scalar v tag rt st a l) = none ↔ scalarIsNull v st tag = false) := by
  simp only [sourceEntries, isNullMergeNode, scalarIsNull]
  by_cases h : ((tag == tagNull || scalarIsNullish v st) && tag != tagString && tag != tagNonSpecific) = true
  · simp [h]
  · simp [h]

/-- (T) scalar_merge_value_model: the model of `pending_entries_from_events` (the reader of a recorded merge
value and of every element of a merge sequence) on a scalar: no entries iff the scalar is null in the crate's
sense, otherwise `MergeValueNotMapOrSeqOfMaps` at the scalar. -/
theorem scalar_merge_value_model (fuel : Nat) (v : List Char) (tag : Nat) (rt : Option (List Char)) (st : Style)
    (a : Nat) (l loc ref : Loc) :
    pendingFromEvents (fuel + 1) [.scalar v tag rt st a l] loc ref =
      if scalarIsNull v st tag then .ok [] else .error ⟨"MergeValueNotMapOrSeqOfMaps", l, 0⟩ := by
  rw [pendingFromEvents]; rfl

/-- (T) scalar_merge_value_live: the model of `pending_entries_from_live_events` (the reader of the value
after a `<<` key) looking at a scalar: the scalar is consumed and gives no entries iff it is null in the
crate's sense, otherwise `MergeValueNotMapOrSeqOfMaps` at the scalar. -/
theorem scalar_merge_value_live (fuel : Nat) (buf rest : List Ev) (idx : Nat) (cref : Option Loc) (mref : Loc)
    (v : List Char) (tag : Nat) (rt : Option (List Char)) (st : Style) (a : Nat) (l : Loc)
    (h : buf.drop idx = .scalar v tag rt st a l :: rest) :
    pendingFromLive (fuel + 1) (.replay buf idx cref) mref =
      if scalarIsNull v st tag then .ok [] (.replay buf (idx + 1) cref)
      else .err ⟨"MergeValueNotMapOrSeqOfMaps", l, 0⟩ (.replay buf idx cref) := by
  rw [pendingFromLive, Cursor.peek_replay_of_drop cref h]
  by_cases hn : mergeScalarIsNull v st tag = true
  · have : scalarIsNull v st tag = true := hn
    simp [hn, this, Cursor.next_replay_of_drop cref h]
  · have : scalarIsNull v st tag = false := by simpa [scalarIsNull, mergeScalarIsNull] using hn
    simp [hn, this]

/-- (T) the effective entries are free of merge keys and of repeated keys … -/
theorem eff_no_merge_no_dup (dup : DupPolicy) (entries es : List (ENode × ENode))
    (h : effEntries dup entries = some es) (hdup : dup ≠ .lastWins) :
    (∀ e ∈ es, isMergeKeyNode e.1 = false) ∧ (keyFps es).Nodup := by
  obtain ⟨ownKept, batches, h1, h2, rfl⟩ := (C03.effEntries_eq_some_iff dup entries es).1 h
  obtain ⟨hm1, hm2, hm3⟩ := C03.eff_merged_props ownKept _ batches h2
  obtain ⟨ho1, _⟩ := C04.applyPolicy_nodup_of_ne_lastWins dup hdup _ [] ownKept h1
  have hsub := C04.applyPolicy_sublist dup _ [] ownKept h1
  constructor
  · intro e he
    rcases List.mem_append.1 he with he | he
    · exact C03.splitEntries_own_no_merge entries e (hsub.subset he)
    · exact hm1 e he
  · simp only [keyFps, List.map_append]
    refine List.nodup_append.2 ⟨ho1, hm2, ?_⟩
    intro a ha b hb hab
    obtain ⟨o, ho, rfl⟩ := List.mem_map.1 ha
    obtain ⟨m, hm, rfl⟩ := List.mem_map.1 hb
    exact hm3 m hm o ho hab.symm

/-- (T) merge_eq_explicit: … so "the mapping written out in full" (its effective entries as an ordinary
mapping) reads back as exactly the same entries under every policy: deserializing the merge form and
the explicit form is the same thing. -/
theorem merge_eq_explicit (dup : DupPolicy) (entries es : List (ENode × ENode))
    (h : effEntries dup entries = some es) (hdup : dup ≠ .lastWins) :
    ∀ dup', effEntries dup' es = some es := by
  obtain ⟨hnm, hnd⟩ := eff_no_merge_no_dup dup entries es h hdup
  intro dup'
  rw [C03.effEntries_eq_some_iff, C03.splitEntries_of_no_merge es hnm]
  exact ⟨es, [], C04.applyPolicy_nodup dup' es [] hnd (by simp), by simp, by simp [dropSeen]⟩

/-- (T) own_overrides_merged: every own entry kept by the policy is delivered, before all merged ones, and
no merged entry repeats an own key — under every duplicate-key policy (no error, no override). -/
theorem own_overrides_merged (dup : DupPolicy) (entries es : List (ENode × ENode))
    (h : effEntries dup entries = some es) :
    ∃ ownKept merged, applyPolicy dup (splitEntries entries).1 [] = some ownKept ∧ es = ownKept ++ merged ∧
      (∀ m ∈ merged, ∀ o ∈ ownKept, fpOf m.1 ≠ fpOf o.1) := by
  obtain ⟨ownKept, batches, h1, h2, rfl⟩ := (C03.effEntries_eq_some_iff dup entries es).1 h
  exact ⟨ownKept, _, h1, rfl, (C03.eff_merged_props ownKept _ batches h2).2.2⟩

/-- (T) later_merge_overrides_earlier: with two merge entries, for a key present in both sources the entry
of the LATER `<<` is the one delivered. -/
theorem later_merge_overrides_earlier (dup : DupPolicy) (l1 l2 l3 l4 : Loc) (a b : Nat)
    (k1 v1 k2 v2 : ENode) (hk : fpOf k1 = fpOf k2) (hm1 : isMergeKeyNode k1 = false) (hm2 : isMergeKeyNode k2 = false) :
    effEntries dup
      [(.scalar ['<', '<'] 0 none .plain 0 l1, .map a l2 l2 [(k1, v1)]),
       (.scalar ['<', '<'] 0 none .plain 0 l3, .map b l4 l4 [(k2, v2)])] = some [(k2, v2)] := by
  have hb : (fpOf k2 == fpOf k1) = true := by rw [hk]; exact C04.fp_beq_self _
  have hmk : ∀ l, isMergeKeyNode (.scalar ['<', '<'] 0 none .plain 0 l) = true := fun _ => rfl
  have s1 : sourceEntries (.map a l2 l2 [(k1, v1)]) = some [(k1, v1)] := by
    simp [sourceEntries, mapSourceEntries, hm1]
  have s2 : sourceEntries (.map b l4 l4 [(k2, v2)]) = some [(k2, v2)] := by
    simp [sourceEntries, mapSourceEntries, hm2]
  simp [effEntries, splitEntries, hmk, applyPolicy, s1, s2, dropSeen, hb]

/-- (T) in a merge sequence a later element overrides an earlier one -/
theorem later_seq_element_overrides_earlier (dup : DupPolicy) (l1 l2 l3 l4 : Loc)
    (k1 v1 k2 v2 : ENode) (hk : fpOf k1 = fpOf k2) (hm1 : isMergeKeyNode k1 = false) (hm2 : isMergeKeyNode k2 = false) :
    effEntries dup
      [(.scalar ['<', '<'] 0 none .plain 0 l1,
        .seq 0 0 none l2 l2 [.map 0 l3 l3 [(k1, v1)], .map 0 l4 l4 [(k2, v2)]])] = some [(k2, v2)] := by
  have hb : (fpOf k2 == fpOf k1) = true := by rw [hk]; exact C04.fp_beq_self _
  have hmk : ∀ l, isMergeKeyNode (.scalar ['<', '<'] 0 none .plain 0 l) = true := fun _ => rfl
  have s1 : sourceEntries (.seq 0 0 none l2 l2 [.map 0 l3 l3 [(k1, v1)], .map 0 l4 l4 [(k2, v2)]]) =
      some [(k2, v2), (k1, v1)] := by
    simp [sourceEntries, seqSourceEntries, mapSourceEntries, hm1, hm2]
  simp [effEntries, splitEntries, hmk, applyPolicy, s1, dropSeen, hb]

/-- (T) collect_entries_spec: the model's expansion of a merge value (`pending_entries_from_events`, the
recursive `collect_entries_from_map`) yields exactly `sourceEntries`, entry by entry (fingerprints, recorded
events), or fails exactly when `sourceEntries` does. -/
theorem collect_entries_spec (src : ENode) (loc ref : Loc) :
    ∃ n, ∀ fuel, n ≤ fuel →
      match sourceEntries src, pendingFromEvents fuel (eflatten src) loc ref with
      | some es, .ok ps =>
        ps.map (fun p => (p.key.fp, p.key.events, p.value.fp, p.value.events)) =
          es.map (fun e => (fpOf e.1, eflatten e.1, fpOf e.2, eflatten e.2))
      | none, .error _ => True
      | _, _ => False := by
  refine ⟨2 * (eflatten src).length, fun fuel hf => ?_⟩
  obtain ⟨h1, h2⟩ := C03.pendingFromEvents_spec src loc ref hf
  cases hs : sourceEntries src with
  | some es =>
    obtain ⟨ps, hp, hps⟩ := h1 es hs
    rw [hp]
    exact hps
  | none =>
    obtain ⟨e, hp⟩ := h2 hs
    rw [hp]
    trivial

-- (E) non-vacuity
def sc (s : String) (l : Loc) : ENode := .scalar s.toList 0 none .plain 0 l
def mk (es : List (ENode × ENode)) : ENode := .map 0 0 0 es
/-- `{a: 1, <<: {a: 2, b: 3}, <<: [{b: 4}, {c: 5, b: 6}]}` ⇒ a: 1, then from the last `<<`: c: 5, b: 6 (later element first), then b from the first `<<` is already present -/
example :
    (effEntries .error [(sc "a" 1, sc "1" 2), (sc "<<" 3, mk [(sc "a" 4, sc "2" 5), (sc "b" 6, sc "3" 7)]),
      (sc "<<" 8, .seq 0 0 none 9 9 [mk [(sc "b" 10, sc "4" 11)], mk [(sc "c" 12, sc "5" 13), (sc "b" 14, sc "6" 15)]])]).map
      (fun es => es.map fun p => (p.1.loc, p.2.loc)) = some [(1, 2), (12, 13), (14, 15)] := by decide
example : (sourceEntries (sc "x" 1)).isSome = false := by decide
/-- a scalar with tag class `tag` -/
def tsc (s : String) (tag : Nat) (st : Style) : ENode := .scalar s.toList tag none st 0 1
-- `<<: !!str null` — the string "null": rejected
example : sourceEntries (tsc "null" tagString .plain) = none := by decide
-- `<<: ! null`, `<<: ! ~` — the non-specific tag forces a string: rejected
example : sourceEntries (tsc "null" tagNonSpecific .plain) = none := by decide
example : sourceEntries (tsc "~" tagNonSpecific .plain) = none := by decide
-- `<<: !!null x` — null by its tag: accepted, contributes nothing
example : (sourceEntries (tsc "x" tagNull .plain)).map List.length = some 0 := by decide
-- `<<: null`, `<<: ~`, `<<:` — plain null: accepted
example : (sourceEntries (tsc "null" tagNone .plain)).map List.length = some 0 := by decide
example : (sourceEntries (tsc "~" tagNone .plain)).map List.length = some 0 := by decide
example : (sourceEntries (tsc "" tagNone .plain)).map List.length = some 0 := by decide
-- `<<: "null"` — quoted: rejected
example : sourceEntries (tsc "null" tagNone .double) = none := by decide
-- `<<: !!int 3` rejected; `<<: !custom null` (unknown tag, plain null text) accepted
example : sourceEntries (tsc "3" 1 .plain) = none := by decide
example : (sourceEntries (tsc "null" tagOther .plain)).map List.length = some 0 := by decide
-- elements of a merge sequence: `<<: [!!str null]` rejected, `<<: [!!null x, {b: 1}]` gives b
example : sourceEntries (.seq 0 0 none 1 1 [tsc "null" tagString .plain]) = none := by decide
example : (sourceEntries (.seq 0 0 none 1 1 [tsc "x" tagNull .plain, mk [(sc "b" 2, sc "1" 3)]])).map
    (fun es => es.map fun p => (p.1.loc, p.2.loc)) = some [(2, 3)] := by decide
-- the same on the model: `<<: !!str null` fails with MergeValueNotMapOrSeqOfMaps at the scalar; `<<: !!null x` gives no entries
example : pendingFromEvents (4 + 1) [.scalar "null".toList tagString none .plain 0 7] 0 0 =
    .error ⟨"MergeValueNotMapOrSeqOfMaps", 7, 0⟩ := by
  rw [scalar_merge_value_model, if_neg (by decide)]
example : pendingFromEvents (4 + 1) [.scalar "x".toList tagNull none .plain 0 7] 0 0 = .ok [] := by
  rw [scalar_merge_value_model, if_pos (by decide)]

#print axioms merge_key_iff
#print axioms container_is_not_merge_key
#print axioms merge_value_kind_check
#print axioms scalar_merge_value_null_iff
#print axioms scalar_merge_value_model
#print axioms scalar_merge_value_live
#print axioms eff_no_merge_no_dup
#print axioms merge_eq_explicit
#print axioms own_overrides_merged
#print axioms later_merge_overrides_earlier
#print axioms later_seq_element_overrides_earlier
#print axioms collect_entries_spec

end SaphyrVerif.Props.C03
