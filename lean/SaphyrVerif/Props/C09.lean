import SaphyrVerif.Lemmas.C09
import SaphyrVerif.Model.IoCell
/-!
# C09 — all entry points agree: str, slice, reader (any chunking)

Theorems about the model of the reader glue (Model/Reader.lean) against the arithmetic UTF-8
specification (Spec/Utf8.lean).  The quantifier "every partition of the bytes into read calls" is
`∀ sched, chunked sched = true → flat sched = bytes` — every list of non-empty read results whose
concatenation is the input.  (The external layers in front of `ChunkedChars` — `encoding_rs_io`,
`BufReader` — re-chunk the user's partition; whatever they do is again such a schedule.)
-/
namespace SaphyrVerif.Props.C09
open SaphyrVerif SaphyrVerif.Reader SaphyrVerif.Spec.Utf8 SaphyrVerif.Spec.Lines SaphyrVerif.Lemmas.C09 SaphyrVerif.IoCell

/-- (T) chunked_chars_decode.  For EVERY byte list and EVERY schedule of non-empty read results: let `pre`
be the strict UTF-8 decoding of the longest well-formed prefix — the input is exactly
`encode pre ++ rest` and a non-empty `rest` begins with no well-formed encoded character (it is malformed
or truncated).  The characters `ChunkedChars` yields up to its first `None` are `pre`, followed — exactly
when the unterminated last line of `pre` starts with `%` — by ONE synthetic line break (and then
whatever a reader that goes on after the malformed sequence still delivers: `more`, empty when the input
simply ended).  No error is recorded iff `rest` is empty.  Never a wrong character, never a dropped
byte, independent of the schedule. -/
theorem chunked_chars_decode (sched : Sched) (hs : chunked sched = true) :
    let r := collectAll { reader := sched }
    ∃ pre rest more, flat sched = encode pre ++ rest ∧ (rest ≠ [] → ¬ StartsWithChar rest) ∧
      r.1 = pre ++ (if lastLineIsDirective pre then '\n' :: more else []) ∧
      (rest = [] → more = []) ∧ (rest = [] ↔ r.2.cell = none) := by
  intro r
  let F := 2 * Sched.bytes sched + 2
  let cc0 : CC := { reader := sched }
  have hfuel : (flat sched).length < F := by simp [F, Sched.bytes]; omega
  have h1 := collect_eq_flat F cc0 hs rfl rfl hfuel
  have h2 := flatDecode_spec F (flat sched) hfuel
  have hlen := collectRaw_len F cc0
  have hfin : (collectRaw F cc0).1.length < F := by
    have : (flat cc0.reader).length = (flat sched).length := rfl
    omega
  have hflags := collectRaw_flags F cc0
  rw [flags_spec] at hflags
  have hdir : (collectRaw F cc0).2.inDirectiveLine = lastLineIsDirective (collectRaw F cc0).1 :=
    congrArg Prod.snd hflags
  have hr : r = collect F cc0 := rfl
  have hpre : (collectRaw F cc0).1 = (flatDecode F (flat sched)).1 := h1.1
  have hcell : (collectRaw F cc0).2.cell = (flatDecode F (flat sched)).2.1 := h1.2
  by_cases hrest : (flatDecode F (flat sched)).2.2 = []
  · -- the input simply ended: the reader is drained
    have hce := collectRaw_clean_end F cc0 hs rfl hfuel hrest
    obtain ⟨c1, c2⟩ := collect_seg_clean F cc0 hfin hce.1
    refine ⟨(flatDecode F (flat sched)).1, (flatDecode F (flat sched)).2.2, [], h2.1, h2.2.2, ?_,
      fun _ => rfl, fun _ => ?_, fun _ => hrest⟩
    · rw [hr, c1, hdir, hpre]
    · rw [hr, c2, hce.2]
  · obtain ⟨more, c1, c2, c3⟩ := collect_seg_general F cc0 hfin
    have hsome : (collectRaw F cc0).2.cell.isSome = true := by
      rw [hcell]
      cases hk : (flatDecode F (flat sched)).2.1 with
      | none => exact absurd (h2.2.1.2 hk) hrest
      | some k => rfl
    refine ⟨(flatDecode F (flat sched)).1, (flatDecode F (flat sched)).2.2, more, h2.1, h2.2.2, ?_,
      fun h => absurd h hrest, fun h => absurd h hrest, fun hnone => ?_⟩
    · rw [hr, c1, hdir, hpre]
    · have := c2 hsome
      rw [hr] at hnone
      rw [hnone] at this
      simp at this

/-- (T) the result does not depend on the schedule: two partitions of the same bytes give the same
characters (synthetic break included, also past malformed sequences) and the same recorded error kind. -/
theorem chunked_chars_schedule_independent (s1 s2 : Sched) (h1 : chunked s1 = true) (h2 : chunked s2 = true)
    (hf : flat s1 = flat s2) :
    (collectAll { reader := s1 }).1 = (collectAll { reader := s2 }).1 ∧
    (collectAll { reader := s1 }).2.cell = (collectAll { reader := s2 }).2.cell := by
  have hb : Sched.bytes s1 = Sched.bytes s2 := by simp [Sched.bytes, hf]
  simp only [collectAll, hb]
  exact collect_indep _ { reader := s1 } { reader := s2 } ⟨h1, h2, hf, rfl, rfl, rfl, rfl, rfl⟩

theorem flatDecode_encode : ∀ (t : List Char) (fuel : Nat), (encode t).length < fuel →
    (flatDecode fuel (encode t)).1 = t ∧ (flatDecode fuel (encode t)).2.1 = none ∧
    (flatDecode fuel (encode t)).2.2 = [] := by
  intro t
  induction t with
  | nil =>
    intro fuel h
    cases fuel with
    | zero => omega
    | succ f => simp [encode, flatDecode, flatStep]
  | cons c cs ih =>
    intro fuel h
    cases fuel with
    | zero => omega
    | succ f =>
      obtain ⟨b, r, he, _, hn⟩ := encodeChar_shape c
      have hd := decode1_encodeChar c
      have hstep : flatStep (encode (c :: cs)) = .char c (encode cs) := by
        simp only [encode, he, List.cons_append, flatStep, hn]
        have : ¬ (r ++ encode cs).length < r.length + 1 - 1 := by simp
        rw [if_neg this]
        have ht : (r ++ encode cs).take (r.length + 1 - 1) = r := by simp
        rw [ht, ← he, hd]
        simp
      have hl : (encode cs).length < f := by
        have : (encode (c :: cs)).length = (encodeChar c).length + (encode cs).length := by simp [encode]
        rw [he] at this; simp at this; omega
      have := ih f hl
      simp only [flatDecode, hstep]
      exact ⟨by rw [this.1], this.2.1, this.2.2⟩

/-- (T) chunked_chars_valid.  For well-formed input: every partition of the UTF-8 encoding of a text yields
exactly `terminated text` — the text, plus ONE line break iff its unterminated last line starts with `%`
(what `from_str` would see for the same text ending in a line break) — and no error. -/
theorem chunked_chars_valid (text : List Char) (sched : Sched) (hs : chunked sched = true)
    (hf : flat sched = encode text) :
    (collectAll { reader := sched }).1 = terminated text ∧ (collectAll { reader := sched }).2.cell = none := by
  let F := 2 * Sched.bytes sched + 2
  have hfuel : (encode text).length < F := by rw [← hf]; simp [F, Sched.bytes]; omega
  have hk := flatDecode_encode text F hfuel
  let cc0 : CC := { reader := sched }
  have hfuel' : (flat sched).length < F := by rw [hf]; exact hfuel
  have e1 := collect_eq_flat F cc0 hs rfl rfl hfuel'
  have hlen := collectRaw_len F cc0
  have hfin : (collectRaw F cc0).1.length < F := by
    have : (flat cc0.reader).length = (flat sched).length := rfl
    omega
  have hflags := collectRaw_flags F cc0
  rw [flags_spec] at hflags
  have hdir : (collectRaw F cc0).2.inDirectiveLine = lastLineIsDirective (collectRaw F cc0).1 :=
    congrArg Prod.snd hflags
  have hpre : (collectRaw F cc0).1 = text := by
    have := e1.1
    simp only [cc0, hf] at this
    rw [this, hk.1]
  have hce := collectRaw_clean_end F cc0 hs rfl hfuel' (by simp only [cc0, hf]; exact hk.2.2)
  obtain ⟨c1, c2⟩ := collect_seg_clean F cc0 hfin hce.1
  have hr : collectAll { reader := sched } = collect F cc0 := rfl
  rw [hr, c1, c2, hdir, hpre, hce.2]
  refine ⟨?_, rfl⟩
  unfold terminated
  split <;> simp

/-! ### the synthetic line break (fix bfd6267), for every schedule, chunking and fault position -/

/-- (T) synthetic_break_iff.  For ANY schedule (faults, empty reads, caps included), from a fresh
`ChunkedChars`: let `cs` be the real characters delivered until `next_char` first reports the end (EOF,
I/O error, malformed sequence or size cap).  The sequence `next` yields is `cs` and then — EXACTLY when the
unterminated last line of `cs` starts with `%` (byte-order marks in front ignored) — the synthetic `\n`. -/
theorem synthetic_break_iff (cc : CC) (hfresh : cc.atLineStart = true ∧ cc.inDirectiveLine = false)
    (fuel : Nat) (hfin : (collectRaw fuel cc).1.length < fuel) :
    ∃ more, (collect fuel cc).1 =
      (collectRaw fuel cc).1 ++ (if lastLineIsDirective (collectRaw fuel cc).1 then '\n' :: more else []) := by
  have hflags := collectRaw_flags fuel cc
  rw [hfresh.1, hfresh.2, flags_spec] at hflags
  have hdir : (collectRaw fuel cc).2.inDirectiveLine = lastLineIsDirective (collectRaw fuel cc).1 :=
    congrArg Prod.snd hflags
  obtain ⟨more, c1, _, _⟩ := collect_seg_general fuel cc hfin
  exact ⟨more, by rw [c1, hdir]⟩

/-- (T) the break is emitted once: whenever `next` returns `None` the directive flag is down, and with the
flag down `next` returns `None` whenever `next_char` does — so after the first `None` every later call
returns `None` for as long as the reader delivers nothing more (always, for an exhausted or a persistently
failing reader); no second synthetic character can appear without a new `%` line being read. -/
theorem none_is_stable (cc : CC) :
    ((next cc).1 = none → (next cc).2.inDirectiveLine = false) ∧
    (cc.inDirectiveLine = false → (nextChar cc).1 = none → (next cc).1 = none ∧ (next cc).2.inDirectiveLine = false) := by
  have hf := nextChar_flags cc
  unfold next
  cases hn : nextChar cc with
  | mk r cc' =>
    rw [hn] at hf
    cases r with
    | some c => simp
    | none =>
      simp only []
      by_cases hd : cc'.inDirectiveLine = true
      · simp only [hd, if_true]
        refine ⟨fun h => by simp at h, fun h _ => ?_⟩
        have := hf.2
        simp only at this
        rw [this, h] at hd
        cases hd
      · simp only [hd, Bool.false_eq_true, if_false]
        simp [hd]

/-- (T) after the end: an exhausted reader with the flag down yields `None` forever and nothing changes -/
theorem exhausted_stays_none (cc : CC) (hr : cc.reader = []) (hd : cc.inDirectiveLine = false) (fuel : Nat) :
    next cc = (none, cc) ∧ collect fuel cc = ([], cc) :=
  ⟨next_exhausted cc hr hd, collect_exhausted fuel cc hr hd⟩

/-- (E) `%YAML` cut by EOF, by an I/O error, and by the size cap: one synthetic break each, then `None` -/
example : (collectAll { reader := [.data [0x25, 0x59], .data [0x41]] }).1 = ['%', 'Y', 'A', '\n'] := by decide
example : (runSteps 8 3 { reader := [.data [0x25, 0x59], .fail kOther] }).1 =
    [(some '%', none), (some 'Y', none), (some '\n', some kOther), (none, none), (none, none), (none, none)] := by decide
example : (collectAll { reader := [.data [0x25, 0x59, 0x41, 0x4D]], maxBytes := some 2 }).1 = ['%', 'Y', '\n'] := by
  decide
/-- (E) a terminated directive line, a `%` that is not at column 0, a leading BOM -/
example : (collectAll { reader := [.data [0x25, 0x59, 0x0A]] }).1 = ['%', 'Y', '\n'] := by decide
example : (collectAll { reader := [.data [0x61, 0x25]] }).1 = ['a', '%'] := by decide
example : (collectAll { reader := [.data [0xEF, 0xBB, 0xBF, 0x25, 0x59]] }).1 = [BOM, '%', 'Y', '\n'] := by decide
example : lastLineIsDirective ['a', '\n', '%', 'x'] = true ∧ lastLineIsDirective ['%', 'x', '\n'] = false ∧
    lastLineIsDirective ['a', '%'] = false := by decide

/-! ### the diagnostic ring buffer is transparent -/

/-- (T) ring_reader_transparent.  For EVERY inner reader (any schedule of read results, failing calls
included), every ring capacity / read-ahead cap and EVERY interleaving of `read(n)` and `get_recent()`:
the bytes returned by the `read` calls, in order, then the stash, then what the inner reader still holds
are exactly the inner stream — so the returned bytes are a prefix of it (nothing dropped, duplicated or
reordered by the read-ahead of `get_recent`) — and the read-ahead never exceeds `MAX_READ_AHEAD`.
Holds after every operation (take any prefix of `ops`). -/
theorem ring_reader_transparent (inner : Sched) (cap ahead : Nat) (ops : List RingOp) :
    let r0 : Ring := { cap := cap, ahead := ahead, inner := inner }
    returned (r0.run ops) ++ (r0.after ops).stash ++ flat (r0.after ops).inner = flat inner ∧
    (∃ rest, flat inner = returned (r0.run ops) ++ rest) ∧
    (r0.after ops).stash.length ≤ ahead := by
  intro r0
  have h0 : RInv (flat inner) r0 := ⟨rfl, rfl, Nat.zero_le _⟩
  obtain ⟨h1, ⟨a, b, c⟩, h3⟩ := run_returned ops r0 h0
  have ho : (r0.after ops).out = returned (r0.run ops) := by rw [h1]; rfl
  refine ⟨?_, ⟨(r0.after ops).stash ++ flat (r0.after ops).inner, ?_⟩, ?_⟩
  · rw [← ho, a]; exact b
  · rw [← ho, ← List.append_assoc, a]; exact b.symm
  · rw [h3] at c; exact c

/-- (T) with the constants of the crate (`RING_BUFFER_SIZE`, `MAX_READ_AHEAD` regenerated from the source) -/
theorem ring_reader_read_ahead_bounded (inner : Sched) (ops : List RingOp) :
    (Ring.after { inner := inner } ops).stash.length ≤ Gen.maxReadAhead :=
  (ring_reader_transparent inner Gen.ringBufferSize Gen.maxReadAhead ops).2.2

/-- (E) `read 2`, `get_recent` (reads ahead), `read 10`: the consumer still sees `hello` in order; tiny ring -/
example : returned (Ring.run { cap := 4, ahead := 2, inner := [.data [104, 101, 108], .data [108, 111]] }
    [.read 2, .recent, .read 10, .read 10]) = [104, 101, 108, 108, 111] := by decide
example : (Ring.after { cap := 4, ahead := 2, inner := [.data [104, 101, 108], .data [108, 111]] }
    [.read 2, .recent]).stash = [108, 108] := by decide

/-! ### byte-order mark -/

/-- (T) single_bom_ignored: one leading U+FEFF in front of a text that does not itself start with
U+FEFF is removed by every entry-point family, which then see the same text. -/
theorem single_bom_ignored (t : List Char) (h : t.head? ≠ some BOM) :
    strPathText (BOM :: t) = t ∧ closureStrPathText (BOM :: t) = t ∧ readerPathText (BOM :: t) = t ∧
    strPathText t = t ∧ readerPathText t = t := by
  cases t with
  | nil => simp [strPathText, closureStrPathText, readerPathText, stripBom]
  | cons c cs =>
    have hc : (c == BOM) = false := by
      simp at h
      simpa using h
    simp [strPathText, closureStrPathText, readerPathText, stripBom, hc]

/-- (T) bom_stripped_once (regression of the former (F) `double_bom_disagrees`, fixed by aed36af): every
entry-point family removes exactly one leading U+FEFF, so they hand the scanner the same text for EVERY
input — in particular for an input starting with two byte-order marks, where the string path used to remove
both (oracle id `C09-double-bom`). Since fix cbb7ef9 (C10) the remover on the reader path is the external decoder's BOM peeker (`strip_bom`), marked UTF-8 being
handed on raw; it still removes exactly one UTF-8 mark.  (UTF-16 input that begins with two UTF-16 marks now loses both —
peeker and decoder remove one each; no other entry point accepts UTF-16, so no disagreement: recorded in DESIGN.md.) -/
theorem bom_stripped_once (t : List Char) :
    strPathText t = readerPathText t ∧ closureStrPathText t = readerPathText t ∧
    strPathText (BOM :: BOM :: t) = BOM :: t ∧ readerPathText (BOM :: BOM :: t) = BOM :: t := by
  simp [strPathText, closureStrPathText, readerPathText, stripBom]

/-! ### the entry points are one pipeline -/

/-- (T) entry_points_same_pipeline.  In the model the str / slice / closure / reader entry points are the
same composition — the same protocol over the same pump over the items the scanner produces for the text
it is handed.  For every scanner function, every pump configuration, every consumer, EVERY text and EVERY
partition of its UTF-8 encoding into read results: the string, closure and slice entry points agree on the
text, and the reader entry point returns what they return for `terminated text` — the same text, with one
line break added iff it stops inside a `%` line (fix bfd6267).  What is assumed, not proved: that the
scanner is one function of the text for both of its input types. -/
theorem entry_points_same_pipeline (p : Pipeline) (text : List Char) (sched : Sched)
    (hs : chunked sched = true) (hf : flat sched = encode text) :
    p.fromReaderEntry sched = p.fromStr (terminated text) ∧ p.closureFromStr text = p.fromStr text ∧
    p.fromSlice (encode text) = p.fromStr text := by
  have hv := chunked_chars_valid text sched hs hf
  refine ⟨?_, rfl, ?_⟩
  · simp only [Pipeline.fromReaderEntry, Pipeline.fromStr, hv.1, strPathText, readerPathText]
  · have key : ∀ (t : List Char) (fuel : Nat), (encode t).length < fuel → utf8ValidateF fuel (encode t) = some t := by
      intro t
      induction t with
      | nil =>
        intro fuel h
        cases fuel with
        | zero => omega
        | succ f => simp [encode, utf8ValidateF]
      | cons c cs ih =>
        intro fuel h
        cases fuel with
        | zero => omega
        | succ f =>
          obtain ⟨b, r, he, _, hn⟩ := encodeChar_shape c
          have hd := decode1_encodeChar c
          have hl : (encode cs).length < f := by
            have : (encode (c :: cs)).length = (encodeChar c).length + (encode cs).length := by simp [encode]
            rw [he] at this; simp at this; omega
          simp only [encode, he, List.cons_append, utf8ValidateF, hn]
          have : ¬ (r ++ encode cs).length < r.length + 1 - 1 := by simp
          rw [if_neg this]
          have ht : (r ++ encode cs).take (r.length + 1 - 1) = r := by simp
          rw [ht, ← he, hd]
          simp [ih f hl]
    unfold Pipeline.fromSlice utf8Validate
    rw [key text _ (Nat.lt_succ_self _)]

/-- (T) the common case: a text that does not stop inside a `%` line — all four families agree -/
theorem entry_points_agree (p : Pipeline) (text : List Char) (sched : Sched)
    (hs : chunked sched = true) (hf : flat sched = encode text) (hd : lastLineIsDirective text = false) :
    p.fromReaderEntry sched = p.fromStr text := by
  have := (entry_points_same_pipeline p text sched hs hf).1
  simpa [terminated, hd] using this

/-- (T) borrow_iff_parser_borrowed (model level): a `&str` target succeeds exactly when the tag keeps the text
and the parser handed the scalar out as a slice of the input; whenever it succeeds it receives the same text
as a `String` target, and whenever the tag refuses a `String` it refuses a `&str` too (regression of the
former finding `C09-borrowed-str-ignores-tag`, fixed by 7f69297). -/
theorem borrow_iff_parser_borrowed (eff : TagEffect) (b : Bool) (t : List Char) :
    (((deserializeStr eff b t).bind visitStrRef).isSome = (b && eff == .keep)) ∧
    (∀ s, (deserializeStr eff b t).bind visitStrRef = some s → (deserializeString eff b t).bind visitString = some s) ∧
    ((deserializeString eff b t).bind visitString = none → (deserializeStr eff b t).bind visitStrRef = none) := by
  cases eff <;> cases b <;> simp [deserializeStr, deserializeString, visitStrRef, visitString]

/-- (T) reader_never_lends (model level): with the parser's `Cow` never `Borrowed` for reader input, a
borrowed target is always refused. -/
theorem reader_never_lends (eff : TagEffect) (t : List Char) :
    (deserializeStr eff readerParserBorrowed t).bind visitStrRef = none := by
  cases eff <;> simp [deserializeStr, deserializeString, visitStrRef, readerParserBorrowed]

/-- (E) `!!binary aGk=`: the tag transforms the text — `String` gets `hi`, `&str` is refused (it used to get
the raw `aGk=`); `!!float 007`: both refused -/
example : (deserializeString (.transformed ['h', 'i']) true ['a', 'G', 'k', '=']).bind visitString = some ['h', 'i'] ∧
    (deserializeStr (.transformed ['h', 'i']) true ['a', 'G', 'k', '=']).bind visitStrRef = none ∧
    (deserializeStr .refused true ['0', '0', '7']).bind visitStrRef = none := by decide

/-! ### non-vacuity -/

/-- (E) `€` split inside the code point, then `a`: decoded whatever the partition -/
example : (collectAll { reader := [.data [0xE2], .data [0x82], .data [0xAC, 0x61]] }).1 = ['€', 'a'] := by decide
example : (collectAll { reader := [.data [0xE2, 0x82, 0xAC, 0x61]] }).1 = ['€', 'a'] := by decide
/-- (E) truncated inside a code point: the complete characters are delivered, an error is recorded -/
example : (collectAll { reader := [.data [0x61, 0xE2], .data [0x82]] }).1 = ['a'] ∧
    (collectAll { reader := [.data [0x61, 0xE2], .data [0x82]] }).2.cell = some kUnexpectedEof := by decide
/-- (E) overlong / surrogate / invalid leading byte are refused -/
example : (collectAll { reader := [.data [0xC0, 0x80]] }).2.cell = some kInvalidData := by decide
example : (collectAll { reader := [.data [0xED, 0xA0, 0x80]] }).2.cell = some kInvalidData := by decide
example : (collectAll { reader := [.data [0xFF]] }).2.cell = some kInvalidData := by decide

end SaphyrVerif.Props.C09
