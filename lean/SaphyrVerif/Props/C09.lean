import SaphyrVerif.Lemmas.C09
import SaphyrVerif.Model.IoCell
/-!
# C09 — all entry points agree: str, slice, reader (any chunking)

Theorems about the model of the reader glue (Model/Reader.lean) against the arithmetic UTF-8
specification (Spec/Utf8.lean).  The quantifier "every partition of the bytes into read calls" is
`∀ sched, chunked sched = true → flat sched = bytes` — every list of non-empty read results whose
concatenation is the input.  (The external layers in front of `ChunkedChars` — `encoding_rs_io`,
`BufReader` — re-chunk the user's partition; whatever they do is again such a schedule.)
-/
namespace SaphyrVerif.Props.C09
open SaphyrVerif SaphyrVerif.Reader SaphyrVerif.Spec.Utf8 SaphyrVerif.Lemmas.C09 SaphyrVerif.IoCell

/-- (T) chunked_chars_decode.  For EVERY byte list and EVERY schedule of non-empty read results, the
characters produced by `ChunkedChars` up to its first `None` are a strict UTF-8 decoding of a prefix
of the input: the input is exactly `encode chars ++ rest` (no byte dropped, no wrong character), the
remainder is empty iff no error was recorded, and a non-empty remainder does not begin with any
well-formed encoded character (it is malformed or truncated). -/
theorem chunked_chars_decode (sched : Sched) (hs : chunked sched = true) :
    let r := collectAll { reader := sched }
    ∃ rest, flat sched = encode r.1 ++ rest ∧ (rest = [] ↔ r.2.cell = none) ∧
      (rest ≠ [] → ¬ StartsWithChar rest) := by
  intro r
  have hfuel : (flat sched).length < Sched.bytes sched + 1 := by simp [Sched.bytes]
  have h1 := collect_eq_flat (Sched.bytes sched + 1) { reader := sched } hs rfl rfl hfuel
  have h2 := flatDecode_spec (Sched.bytes sched + 1) (flat sched) hfuel
  refine ⟨(flatDecode (Sched.bytes sched + 1) (flat sched)).2.2, ?_, ?_, h2.2.2⟩
  · show flat sched = encode (collect _ _).1 ++ _
    rw [h1.1]; exact h2.1
  · show _ ↔ (collect _ _).2.cell = none
    rw [h1.2]; exact h2.2.1

/-- (T) the result does not depend on the schedule: two partitions of the same bytes give the same
characters and the same recorded error kind. -/
theorem chunked_chars_schedule_independent (s1 s2 : Sched) (h1 : chunked s1 = true) (h2 : chunked s2 = true)
    (hf : flat s1 = flat s2) :
    (collectAll { reader := s1 }).1 = (collectAll { reader := s2 }).1 ∧
    (collectAll { reader := s1 }).2.cell = (collectAll { reader := s2 }).2.cell := by
  have hb : Sched.bytes s1 = Sched.bytes s2 := by simp [Sched.bytes, hf]
  have a := collect_eq_flat (Sched.bytes s1 + 1) { reader := s1 } h1 rfl rfl (by simp [Sched.bytes])
  have b := collect_eq_flat (Sched.bytes s2 + 1) { reader := s2 } h2 rfl rfl (by simp [Sched.bytes])
  simp only [collectAll]
  rw [a.1, a.2, b.1, b.2, hf, hb]
  exact ⟨rfl, rfl⟩

/-- (T) corollary for well-formed input: every partition of the UTF-8 encoding of a text yields exactly
that text and no error — what the reader path hands to the scanner is what `from_str` hands to it. -/
theorem chunked_chars_valid (text : List Char) (sched : Sched) (hs : chunked sched = true)
    (hf : flat sched = encode text) :
    (collectAll { reader := sched }).1 = text ∧ (collectAll { reader := sched }).2.cell = none := by
  have hfuel : (flat sched).length < Sched.bytes sched + 1 := by simp [Sched.bytes]
  have h1 := collect_eq_flat (Sched.bytes sched + 1) { reader := sched } hs rfl rfl hfuel
  have key : ∀ (t : List Char) (fuel : Nat), (encode t).length < fuel →
      (flatDecode fuel (encode t)).1 = t ∧ (flatDecode fuel (encode t)).2.1 = none := by
    intro t
    induction t with
    | nil =>
      intro fuel h
      cases fuel with
      | zero => omega
      | succ f => simp [encode, flatDecode, flatStep]
    | cons c cs ih =>
      intro fuel h
      cases fuel with
      | zero => omega
      | succ f =>
        obtain ⟨b, r, he, _, hn⟩ := encodeChar_shape c
        have hd := decode1_encodeChar c
        have hstep : flatStep (encode (c :: cs)) = .char c (encode cs) := by
          simp only [encode, he, List.cons_append, flatStep, hn]
          have : ¬ (r ++ encode cs).length < r.length + 1 - 1 := by simp
          rw [if_neg this]
          have ht : (r ++ encode cs).take (r.length + 1 - 1) = r := by simp
          rw [ht, ← he, hd]
          simp
        have hl : (encode cs).length < f := by
          have : (encode (c :: cs)).length = (encodeChar c).length + (encode cs).length := by simp [encode]
          rw [he] at this; simp at this; omega
        have := ih f hl
        simp only [flatDecode, hstep]
        exact ⟨by rw [this.1], this.2⟩
  simp only [collectAll]
  rw [h1.1, h1.2, hf]
  exact key text _ (by rw [← hf]; exact hfuel)

/-! ### the diagnostic ring buffer is transparent -/

/-- (T) ring_reader_transparent.  For EVERY inner reader (any schedule of read results, failing calls
included), every ring capacity / read-ahead cap and EVERY interleaving of `read(n)` and `get_recent()`:
the bytes returned by the `read` calls, in order, then the stash, then what the inner reader still holds
are exactly the inner stream — so the returned bytes are a prefix of it (nothing dropped, duplicated or
reordered by the read-ahead of `get_recent`) — and the read-ahead never exceeds `MAX_READ_AHEAD`.
Holds after every operation (take any prefix of `ops`). -/
theorem ring_reader_transparent (inner : Sched) (cap ahead : Nat) (ops : List RingOp) :
    let r0 : Ring := { cap := cap, ahead := ahead, inner := inner }
    returned (r0.run ops) ++ (r0.after ops).stash ++ flat (r0.after ops).inner = flat inner ∧
    (∃ rest, flat inner = returned (r0.run ops) ++ rest) ∧
    (r0.after ops).stash.length ≤ ahead := by
  intro r0
  have h0 : RInv (flat inner) r0 := ⟨rfl, rfl, Nat.zero_le _⟩
  obtain ⟨h1, ⟨a, b, c⟩, h3⟩ := run_returned ops r0 h0
  have ho : (r0.after ops).out = returned (r0.run ops) := by rw [h1]; rfl
  refine ⟨?_, ⟨(r0.after ops).stash ++ flat (r0.after ops).inner, ?_⟩, ?_⟩
  · rw [← ho, a]; exact b
  · rw [← ho, ← List.append_assoc, a]; exact b.symm
  · rw [h3] at c; exact c

/-- (T) with the constants of the crate (`RING_BUFFER_SIZE`, `MAX_READ_AHEAD` regenerated from the source) -/
theorem ring_reader_read_ahead_bounded (inner : Sched) (ops : List RingOp) :
    (Ring.after { inner := inner } ops).stash.length ≤ Gen.maxReadAhead :=
  (ring_reader_transparent inner Gen.ringBufferSize Gen.maxReadAhead ops).2.2

/-- (E) `read 2`, `get_recent` (reads ahead), `read 10`: the consumer still sees `hello` in order; tiny ring -/
example : returned (Ring.run { cap := 4, ahead := 2, inner := [.data [104, 101, 108], .data [108, 111]] }
    [.read 2, .recent, .read 10, .read 10]) = [104, 101, 108, 108, 111] := by decide
example : (Ring.after { cap := 4, ahead := 2, inner := [.data [104, 101, 108], .data [108, 111]] }
    [.read 2, .recent]).stash = [108, 108] := by decide

/-! ### byte-order mark -/

/-- (T) single_bom_ignored: one leading U+FEFF in front of a text that does not itself start with
U+FEFF is removed by every entry-point family, which then see the same text. -/
theorem single_bom_ignored (t : List Char) (h : t.head? ≠ some BOM) :
    strPathText (BOM :: t) = t ∧ closureStrPathText (BOM :: t) = t ∧ readerPathText (BOM :: t) = t ∧
    strPathText t = t ∧ readerPathText t = t := by
  cases t with
  | nil => simp [strPathText, closureStrPathText, readerPathText, stripBom]
  | cons c cs =>
    have hc : (c == BOM) = false := by
      simp at h
      simpa using h
    simp [strPathText, closureStrPathText, readerPathText, stripBom, hc]

/-- (F) double_bom_disagrees: on an input that starts with TWO U+FEFF the string path removes both
(`from_str_with_options_impl` and `LiveEvents::from_str` each strip one) while the reader path removes
one: the scanner sees different texts (`a: 1` vs `\u{feff}a: 1`).  Replayed on the implementation by
the `reader` oracle (known finding `C09-double-bom`). -/
theorem double_bom_disagrees :
    strPathText [BOM, BOM, 'a', ':', ' ', '1'] = ['a', ':', ' ', '1'] ∧
    readerPathText [BOM, BOM, 'a', ':', ' ', '1'] = [BOM, 'a', ':', ' ', '1'] ∧
    strPathText [BOM, BOM, 'a', ':', ' ', '1'] ≠ readerPathText [BOM, BOM, 'a', ':', ' ', '1'] := by
  decide

/-! ### the entry points are one pipeline -/

/-- (T) entry_points_same_pipeline.  In the model the str / slice / closure / reader entry points are the
same composition — the same protocol over the same pump over the items the scanner produces for the text
it is handed.  For every scanner function, every pump configuration, every consumer, every text that does
not start with two byte-order marks and EVERY partition of its UTF-8 encoding into read results they
return the same outcome (value-or-error, error kind and location).  What is assumed, not proved: that the
scanner is one function of the text for both of its input types. -/
theorem entry_points_same_pipeline (p : Pipeline) (text : List Char) (sched : Sched)
    (hs : chunked sched = true) (hf : flat sched = encode text)
    (hb : strPathText text = readerPathText text) :
    p.fromReaderEntry sched = p.fromStr text ∧ p.closureFromStr text = p.fromStr text ∧
    p.fromSlice (encode text) = p.fromStr text := by
  have hv := chunked_chars_valid text sched hs hf
  refine ⟨?_, rfl, ?_⟩
  · simp only [Pipeline.fromReaderEntry, Pipeline.fromStr, hv.1, hb]
  · unfold Pipeline.fromSlice utf8Validate
    by_cases he : (encode text).isEmpty = true
    · simp only [he, if_true]
      have : text = [] := by
        cases text with
        | nil => rfl
        | cons c cs =>
          obtain ⟨b, r, hc, _⟩ := encodeChar_shape c
          simp [encode, hc] at he
      subst this; rfl
    · simp only [he]
      have hne : encode text ≠ [] := by simpa using he
      have hv2 := chunked_chars_valid text [.data (encode text)]
        (by cases h : encode text with
            | nil => exact absurd h hne
            | cons b bs => simp [chunked]) (by simp [flat])
      simp [hv2.1, hv2.2]

/-- (T) borrow_iff_parser_borrowed (model level): a `&str` target succeeds exactly when the parser handed the
scalar out as a slice of the input, and then it receives the same text as a `String` target. -/
theorem borrow_iff_parser_borrowed (b : Bool) (t : List Char) :
    ((visitStrRef (deserializeStr b t)).isSome = b) ∧
    (∀ s, visitStrRef (deserializeStr b t) = some s → visitString (deserializeStr b t) = some s) ∧
    visitString (deserializeStr b t) = some t := by
  cases b <;> simp [deserializeStr, visitStrRef, visitString]

/-- (T) reader_never_lends (model level): with the parser's `Cow` never `Borrowed` for reader input, a
borrowed target is always refused. -/
theorem reader_never_lends (t : List Char) : visitStrRef (deserializeStr readerParserBorrowed t) = none := by
  simp [deserializeStr, visitStrRef, readerParserBorrowed]

/-! ### non-vacuity -/

/-- (E) `€` split inside the code point, then `a`: decoded whatever the partition -/
example : (collectAll { reader := [.data [0xE2], .data [0x82], .data [0xAC, 0x61]] }).1 = ['€', 'a'] := by decide
example : (collectAll { reader := [.data [0xE2, 0x82, 0xAC, 0x61]] }).1 = ['€', 'a'] := by decide
/-- (E) truncated inside a code point: the complete characters are delivered, an error is recorded -/
example : (collectAll { reader := [.data [0x61, 0xE2], .data [0x82]] }).1 = ['a'] ∧
    (collectAll { reader := [.data [0x61, 0xE2], .data [0x82]] }).2.cell = some kUnexpectedEof := by decide
/-- (E) overlong / surrogate / invalid leading byte are refused -/
example : (collectAll { reader := [.data [0xC0, 0x80]] }).2.cell = some kInvalidData := by decide
example : (collectAll { reader := [.data [0xED, 0xA0, 0x80]] }).2.cell = some kInvalidData := by decide
example : (collectAll { reader := [.data [0xFF]] }).2.cell = some kInvalidData := by decide

end SaphyrVerif.Props.C09
