import SaphyrVerif.Lemmas.C18Rec
import SaphyrVerif.Lemmas.C18Tok
/-!
# C18 — validating entry points agree with plain ones and locate every failed field

Proved here, for ALL maps / paths / traversals / streams, about the model in `Model/PathMap.lean`
(tied to `src/path_map.rs`, the recorder blocks of `src/de.rs` and the loops of `src/lib.rs` by the
`pathmap` differential run):

* lookup (`PathMap::search`): `search_exact_first`, `search_unique_or_none` (+ `_ambiguous`,
  `search_answer_is_justified`), `find_unique_order_independent`, `search_order_independent`,
  `search_total`, `tokenize_no_index_panic`;
* recorder: `recorder_balanced`, `recorded_paths_are_tree_paths`, `recorded_paths_complete`,
  `ignored_values_leave_no_entry`, `search_answers_consumed_position`,
  `recorder_keeps_map_invariant`, `recorder_transparent_partial`;
* entry-point loops: `valid_eq_plain_when_passing`, `multi_reports_every_failing_doc`,
  `iter_valid_eq_plain_when_passing`, `iter_reports_every_failing_doc`;
* document isolation: `multi_document_isolation`, `multi_independent_of_stale_recorder`,
  `iter_document_isolation`, `multi_report_map_within_document`, `multi_reports_with_own_maps`.

Only validated at run time (oracle stream `pathmap.oracle.jsonl`), not proved: that the value returned
with a recorder equals the value returned without one (`recorder_transparent_Full`), that the locations
handed to the recorder are the use-site / definition-site of the node (`recorded_path_locations_Full`,
the C16 meaning), and everything the validation crates do (path formats of `garde` / `validator`).
-/
namespace SaphyrVerif.PathMap

variable {α : Type}

/-! ## lookup -/

/-- **search_exact_first** (clause "every reported field path is mapped to the position …": an exact
    hit always wins).  If the queried path is a key of the map, `search` answers with that entry —
    whatever else is in the map, however many other keys would match a fuzzy pass — together with the
    path's own last segment as resolved leaf. (For the empty path the implementation returns `None`
    even on a hit — `path.leaf_string()?` — which is what `leafString p = none` gives here.) -/
theorem search_exact_first {m : Map α} (hm : KeysNodup m) {p : Path} {loc : α} (h : (p, loc) ∈ m) :
    search m p = (leafString p).map (fun leaf => (loc, leaf)) := by
  unfold search
  rw [(get_eq_some_iff hm).mpr h]
  cases leafString p <;> rfl

/-- `search_exact_first` for a non-empty path: the answer is `some`. -/
theorem search_exact_first_nonempty {m : Map α} (hm : KeysNodup m) {p : Path} {loc : α}
    (h : (p, loc) ∈ m) (hp : p ≠ []) :
    search m p = some (loc, (p.getLast hp).name) := by
  rw [search_exact_first hm h]
  simp [leafString, List.getLast?_eq_some_getLast hp]

/-- **search_unique_or_none**, per pass: `find_unique_by` answers iff the target is non-empty and
    EXACTLY ONE entry of the map matches the comparison (and that entry has a leaf); the answer is that
    entry.  So an answer is never an arbitrary one of several candidates. -/
theorem search_unique_or_none (m : Map α) (t : Path) (f : Path → Path → Bool) (loc : α) (leaf : List Char) :
    findUniqueBy m t f = some (loc, leaf) ↔
      t ≠ [] ∧ ∃ c, candidates m t f = [(c, loc)] ∧ leafString c = some leaf := by
  rw [findUniqueBy_eq_spec]
  unfold findUniqueSpec
  by_cases ht : t = []
  · simp [ht]
  · simp only [ht, if_false, ne_eq, not_false_eq_true, true_and]
    exact uniqueOf_eq_some

/-- **search_unique_or_none**, ambiguity half: with two or more candidates a pass yields nothing. -/
theorem search_unique_or_none_ambiguous (m : Map α) (t : Path) (f : Path → Path → Bool)
    (h : 2 ≤ (candidates m t f).length) : findUniqueBy m t f = none := by
  rw [findUniqueBy_eq_spec]
  unfold findUniqueSpec
  split
  · rfl
  · exact uniqueOf_of_length_ne_one _ (by omega)

/-- the loop of `find_unique_by` computes the loop-free specification -/
theorem find_unique_eq_spec (m : Map α) (t : Path) (f : Path → Path → Bool) :
    findUniqueBy m t f = findUniqueSpec m t f := findUniqueBy_eq_spec m t f

/-- **search_unique_or_none**, whole `search`: every answer is justified.  Either it is the exact
    entry, or the exact key is absent and the answer is the UNIQUE candidate of the first pass (in the
    order case-insensitive, token sequence, collapsed, key-to-index) that has exactly one candidate;
    all earlier passes yielded nothing. -/
theorem search_answer_is_justified {m : Map α} {p : Path} {loc : α} {leaf : List Char}
    (h : search m p = some (loc, leaf)) :
    (get m p = some loc ∧ leafString p = some leaf) ∨
    (get m p = none ∧ p ≠ [] ∧ ∃ pre f post c, passes = pre ++ f :: post ∧
        (∀ g ∈ pre, findUniqueBy m p g = none) ∧
        candidates m p f = [(c, loc)] ∧ leafString c = some leaf) := by
  unfold search at h
  cases hg : get m p with
  | some l =>
    rw [hg] at h
    left
    cases hl : leafString p with
    | none => rw [hl] at h; simp at h
    | some lf =>
      rw [hl] at h
      simp only [Option.some.injEq, Prod.mk.injEq] at h
      exact ⟨by rw [h.1], by rw [h.2]⟩
  | none =>
    rw [hg] at h
    right
    obtain ⟨pre, f, post, h1, h2, h3⟩ := firstPass_eq_some h
    obtain ⟨hne, c, hc1, hc2⟩ := (search_unique_or_none m p f loc leaf).mp h3
    exact ⟨rfl, hne, pre, f, post, c, h1, h2, hc1, hc2⟩

/-- every answer of `search` is an entry of the map (no invented locations) -/
theorem search_answer_mem {m : Map α} {p : Path} {loc : α} {leaf : List Char}
    (hm : KeysNodup m) (h : search m p = some (loc, leaf)) :
    ∃ c, (c, loc) ∈ m ∧ leafString c = some leaf := by
  rcases search_answer_is_justified h with ⟨h1, h2⟩ | ⟨_, _, pre, f, post, c, _, _, h3, h4⟩
  · exact ⟨p, (get_eq_some_iff hm).mp h1, h2⟩
  · refine ⟨c, ?_, h4⟩
    have : (c, loc) ∈ candidates m p f := by rw [h3]; simp
    exact (List.mem_filter.mp this).1

/-- **find_unique_order_independent**: the result of a fuzzy pass is invariant under ANY permutation of
    the map's entries — the hash iteration order (`self.map.iter()`) is unobservable. -/
theorem find_unique_order_independent {m m' : Map α} (h : m.Perm m') (t : Path) (f : Path → Path → Bool) :
    findUniqueBy m t f = findUniqueBy m' t f := findUniqueBy_perm h t f

/-- **search_order_independent**: the whole `search` is invariant under permutation of the entries
    (for the direct lookup this needs what a `HashMap` guarantees: distinct keys). -/
theorem search_order_independent {m m' : Map α} (h : m.Perm m') (hm : KeysNodup m) (p : Path) :
    search m p = search m' p := by
  unfold search
  rw [get_perm h hm p, firstPass_perm h p passes]

/-- **search_total**: `search` is a total function (Lean's termination checker accepted the loop and the
    tokenizer as structural recursions) whose only outcomes are "nothing" or an entry of the map with the
    leaf of its key; there is no panic outcome in the model because the code has no panicking
    operation on this path (`chars[i-1]`, `chars[i]`, `chars[start..i]` are inside `1..len`). -/
theorem search_total (m : Map α) (hm : KeysNodup m) (p : Path) :
    search m p = none ∨ ∃ c loc leaf, search m p = some (loc, leaf) ∧ (c, loc) ∈ m ∧ leafString c = some leaf := by
  cases h : search m p with
  | none => exact Or.inl rfl
  | some r =>
    obtain ⟨loc, leaf⟩ := r
    obtain ⟨c, h1, h2⟩ := search_answer_mem hm h
    exact Or.inr ⟨c, loc, leaf, rfl, h1, h2⟩

/-- **search_total**, indexing half: the index-faithful transcription of the inner loop of
    `tokenize_segment` (`chars[i - 1]`, `chars[i]`, `chars.get(i + 1)`, `chars[start..i]`,
    `chars[start..]` as explicit bounds-checked operations, `none` = panic) never hits an out-of-range
    index and returns exactly what the structural `tokenizePiece` used by `search` returns. -/
theorem tokenize_no_index_panic (cs : List Char) : tokenizePieceIdx cs = some (tokenizePiece cs) :=
  tokenizePieceIdx_eq cs

/-- maps built by `insert` from the empty map (all the code ever does) satisfy the `HashMap` invariant -/
theorem insert_keeps_invariant {m : Map α} (hm : KeysNodup m) (p : Path) (v : α) : KeysNodup (insert m p v) :=
  insert_keysNodup hm p v

/-- the ancestor fallback of `Error::locations()` only ever returns entries of the map -/
theorem ancestor_fallback_mem {m : Map α} (hm : KeysNodup m) :
    ∀ (n : Nat) (p : Path) (loc : α), searchAncestors m n p = some loc → ∃ c, (c, loc) ∈ m
  | 0, p, loc, h => by
    unfold searchAncestors at h
    cases hs : search m p with
    | none => rw [hs] at h; simp at h
    | some r =>
      rw [hs] at h
      simp only [Option.map_some, Option.some.injEq] at h
      obtain ⟨c, hc, _⟩ := search_answer_mem (loc := r.1) (leaf := r.2) hm hs
      exact ⟨c, h ▸ hc⟩
  | n + 1, p, loc, h => by
    unfold searchAncestors at h
    cases hs : search m p with
    | some r =>
      rw [hs] at h
      simp only [Option.some.injEq] at h
      obtain ⟨c, hc, _⟩ := search_answer_mem (loc := r.1) (leaf := r.2) hm hs
      exact ⟨c, h ▸ hc⟩
    | none =>
      rw [hs] at h
      cases hp : parent p with
      | none => rw [hp] at h; simp at h
      | some q =>
        rw [hp] at h
        exact ancestor_fallback_mem hm n q loc h

/-! ## the path recorder -/

/-- **recorder_balanced**: after a sub-deserialization (element, mapping value, whole node) the current
    path is what it was before — also when the sub-deserialization failed (`recorder.current = prev`
    is executed before `return res`). -/
theorem recorder_balanced (v : Visit α) (r : Recorder α) : (record v r).2.current = r.current :=
  record_current v r

/-- `recorder_balanced` for the element loop and the entry loop -/
theorem recorder_balanced_items (items : List (α × Visit α)) (idx : Nat) (r : Recorder α) :
    (recordItems items idx r).2.current = r.current := recordItems_current items idx r

theorem recorder_balanced_entries (es : List (Option (List Char) × α × Visit α)) (r : Recorder α) :
    (recordEntries es r).2.current = r.current := recordEntries_current es r

/-- **recorded_paths_are_tree_paths**: every entry the recorder adds is `(current ++ q, locs)` where
    `q` is the tree path of a position of the traversal and `locs` are the locations handed over at
    that position — never a stale or shifted path (success or failure of the traversal). -/
theorem recorded_paths_are_tree_paths (v : Visit α) (r : Recorder α) :
    ∀ e ∈ (record v r).2.map, e ∈ r.map ∨ ∃ q, e.1 = r.current ++ q ∧ (q, e.2) ∈ positions v :=
  record_added v r

/-- a whole document (`PathRecorder::new()`): every recorded entry is a position of the tree -/
theorem recorded_paths_are_tree_paths_doc (v : Visit α) :
    ∀ e ∈ (record v { current := [], map := [] }).2.map, e ∈ positions v := by
  intro e he
  rcases record_added v _ e he with h | ⟨q, h1, h2⟩
  · simp at h
  · simp only [List.nil_append] at h1
    rw [← h1] at h2
    exact h2

/-- **recorded_paths_complete**: when the traversal succeeds, every position the target type consumes
    (and the recorder can see) has its path in the map, so an exact lookup of a validation path that
    spells the YAML keys cannot miss. `Consistent v` — no tree path is both consumed and handed to
    `IgnoredAny` — is what Serde guarantees (it decides by the key text); without it a later ignored
    value could forget the entry of an earlier consumed one with the same path. The location stored is
    that of the LAST position with this path (merges), see `recorded_paths_are_tree_paths`. -/
theorem recorded_paths_complete (v : Visit α) (r : Recorder α) (hok : (record v r).1 = true)
    (hcons : Consistent v) :
    ∀ q ∈ (positions v).map (·.1), r.current ++ q ∈ (record v r).2.map.map (·.1) :=
  record_complete v r hok hcons

/-- **ignored_values_leave_no_entry**: right after a value was handed to `IgnoredAny`, the map has no
    entry under its path — whatever was inserted for it by the enclosing mapping / sequence access (or
    was there before) is forgotten, and nothing below it is recorded. -/
theorem ignored_values_leave_no_entry (w : Visit α) (r : Recorder α) :
    r.current ∉ (record (.ignored w) r).2.map.map (·.1) ∧
    ∀ e ∈ (record (.ignored w) r).2.map, e ∈ r.map := by
  constructor
  · intro h
    obtain ⟨e, he, hcur⟩ := List.mem_map.mp h
    exact ignored_removes (v := .ignored w) rfl r e he hcur
  · intro e he
    rcases record_added (.ignored w) r e he with h | ⟨q, _, h2⟩
    · exact h
    · simp [positions] at h2

/-- **search_answers_consumed_position** (repaired behaviour behind the former decoy-key findings): on
    the map recorded for a whole document, every answer of `search` — exact or fuzzy — is the location
    of a position the target type CONSUMED. A key Serde ignored (unknown field, however it is spelt)
    can neither win the exact pass nor be the unique candidate of a fuzzy pass, because it is not in
    the map (`recorded_paths_are_tree_paths_doc`: `positions` excludes ignored values). -/
theorem search_answers_consumed_position (v : Visit α) (p : Path) (loc : α) (leaf : List Char)
    (h : search (record v { current := [], map := [] }).2.map p = some (loc, leaf)) :
    ∃ c, (c, loc) ∈ positions v ∧ leafString c = some leaf := by
  have hm : KeysNodup (record v { current := [], map := ([] : Map α) }).2.map :=
    record_keysNodup v _ (by simp [KeysNodup])
  obtain ⟨c, hc, hl⟩ := search_answer_mem hm h
  exact ⟨c, recorded_paths_are_tree_paths_doc v (c, loc) hc, hl⟩

/-- the recorder keeps the `HashMap` invariant, so the lookup theorems apply to what it produces -/
theorem recorder_keeps_map_invariant (v : Visit α) (r : Recorder α) (h : KeysNodup r.map) :
    KeysNodup (record v r).2.map := record_keysNodup v r h

/-- **recorder_transparent** (partial): whether the traversal succeeds does not depend on the recorder
    state. MISSING for the full statement: the model does not carry the deserialized value, so
    "the value with a recorder equals the value without" is validated by the oracle stream only. -/
theorem recorder_transparent_partial (v : Visit α) (r : Recorder α) : (record v r).1 = v.succeeds :=
  record_fst v r

/-- full statement, about the implementation's two deserializers (parameters here: the model does not
    carry values, so this is not provable on it; validated by the oracle stream): deserializing with a
    recorder returns what deserializing without one returns. -/
def recorder_transparent_Full (Val : Type) (deserPlain : Visit α → Option Val)
    (deserRecording : Visit α → Recorder α → Option Val × Recorder α) : Prop :=
  ∀ (v : Visit α) (r : Recorder α), (deserRecording v r).1 = deserPlain v

/-- full statement of DESIGN's `recorded_path_locations` (needs the C16 location model of the pump, which
    is a parameter here; validated by the oracle stream): the locations stored for a path are the
    use-site and the definition-site of the node at that path. -/
def recorded_path_locations_Full (useSite defSite : Visit (Nat × Nat) → Path → Option Nat) : Prop :=
  ∀ (v : Visit (Nat × Nat)), ∀ e ∈ (record v { current := [], map := [] }).2.map,
    useSite v e.1 = some e.2.1 ∧ defSite v e.1 = some e.2.2

/-! ## the validated entry-point loops -/

variable {V E R : Type}

theorem multiValid_char :
    ∀ (ds : List (Doc V E R)) (vs : List V) (es : List R), (∀ d ∈ ds, d.isDeErr = false) →
      multiValid ds vs es =
        if (es ++ reports ds).isEmpty then .ok (vs ++ passing ds) else .invalid (es ++ reports ds)
  | [], vs, es, _ => by simp [multiValid, reports, passing]
  | .skip :: ds, vs, es, h => by
    rw [multiValid, multiValid_char ds vs es (fun d hd => h d (List.mem_cons_of_mem _ hd))]
    simp [reports, passing]
  | .deErr e :: ds, vs, es, h => by
    have := h (.deErr e) (by simp)
    simp [Doc.isDeErr] at this
  | .value v none :: ds, vs, es, h => by
    rw [multiValid, multiValid_char ds _ es (fun d hd => h d (List.mem_cons_of_mem _ hd))]
    simp [reports, passing]
  | .value v (some r) :: ds, vs, es, h => by
    rw [multiValid, multiValid_char ds vs _ (fun d hd => h d (List.mem_cons_of_mem _ hd))]
    simp [reports]

/-- **multi_reports_every_failing_doc**: when every document of the stream deserializes, the batch
    function returns `Ok` with all values iff no validation failed, and otherwise an aggregate error
    with one entry per failing document, in document order — every one of them, not only the first. -/
theorem multi_reports_every_failing_doc (ds : List (Doc V E R)) (h : ∀ d ∈ ds, d.isDeErr = false) :
    multiValid ds [] [] = if (reports ds).isEmpty then .ok (passing ds) else .invalid (reports ds) := by
  simpa using multiValid_char ds [] [] h

/-- the aggregate has exactly as many entries as there are failing documents -/
theorem reports_length (ds : List (Doc V E R)) : (reports ds).length = failingCount ds := by
  unfold failingCount
  induction ds with
  | nil => rfl
  | cons d ds ih =>
    cases d with
    | skip => simp [reports, Doc.passes, ih]
    | deErr e => simp [reports, Doc.passes, ih]
    | value v rep =>
      cases rep with
      | none => simp [reports, Doc.passes, ih]
      | some r => simp [reports, Doc.passes, ih]

theorem multiValid_eq_plain_acc :
    ∀ (ds : List (Doc V E R)) (vs : List V), (∀ d ∈ ds, d.passes = true) →
      multiValid ds vs [] = multiPlain ds vs
  | [], vs, _ => by simp [multiValid, multiPlain]
  | .skip :: ds, vs, h => by
    rw [multiValid, multiPlain, multiValid_eq_plain_acc ds vs (fun d hd => h d (List.mem_cons_of_mem _ hd))]
  | .deErr e :: ds, vs, _ => by rw [multiValid, multiPlain]
  | .value v none :: ds, vs, h => by
    rw [multiValid, multiPlain, multiValid_eq_plain_acc ds _ (fun d hd => h d (List.mem_cons_of_mem _ hd))]
  | .value v (some r) :: ds, vs, h => by
    have := h (.value v (some r)) (by simp)
    simp [Doc.passes] at this

/-- **valid_eq_plain_when_passing** (stream form): if no document fails validation, the validated batch
    function returns exactly what the plain one returns — values and deserialization errors alike. -/
theorem valid_eq_plain_when_passing (ds : List (Doc V E R)) (h : ∀ d ∈ ds, d.passes = true) :
    multiValid ds [] [] = multiPlain ds [] := multiValid_eq_plain_acc ds [] h

/-- **valid_eq_plain_when_passing** (iterator form) -/
theorem iter_valid_eq_plain_when_passing :
    ∀ (ds : List (Doc V E R × Bool)), (∀ d ∈ ds, d.1.passes = true) → iterValid ds = iterPlain ds
  | [], _ => rfl
  | (.skip, b) :: ds, h => by
    rw [iterValid, iterPlain, iter_valid_eq_plain_when_passing ds (fun d hd => h d (List.mem_cons_of_mem _ hd))]
  | (.deErr e, b) :: ds, h => by
    rw [iterValid, iterPlain, iter_valid_eq_plain_when_passing ds (fun d hd => h d (List.mem_cons_of_mem _ hd))]
  | (.value v none, b) :: ds, h => by
    rw [iterValid, iterPlain, iter_valid_eq_plain_when_passing ds (fun d hd => h d (List.mem_cons_of_mem _ hd))]
  | (.value v (some r), b) :: ds, h => by
    have := h (.value v (some r), b) (by simp)
    simp [Doc.passes] at this

/-- the item a document contributes to the validated iterator -/
def itemOf : Doc V E R → Option (Item V E R)
  | .skip => none
  | .deErr e => some (.err e)
  | .value v none => some (.ok v)
  | .value _ (some r) => some (.invalid r)

/-- **multi_reports_every_failing_doc** (iterator form): as long as the iterator can recover after
    deserialization errors, it yields one item per non-null document, and a validation failure never
    ends or skips the iteration: every failing document is reported. -/
theorem iter_reports_every_failing_doc :
    ∀ (ds : List (Doc V E R × Bool)), (∀ d ∈ ds, d.1.isDeErr = true → d.2 = true) →
      iterValid ds = ds.filterMap (fun d => itemOf d.1)
  | [], _ => rfl
  | (.skip, b) :: ds, h => by
    rw [iterValid, iter_reports_every_failing_doc ds (fun d hd => h d (List.mem_cons_of_mem _ hd))]
    simp [itemOf]
  | (.deErr e, b) :: ds, h => by
    have hb : b = true := h (.deErr e, b) (by simp) rfl
    rw [iterValid, iter_reports_every_failing_doc ds (fun d hd => h d (List.mem_cons_of_mem _ hd))]
    simp [itemOf, hb]
  | (.value v none, b) :: ds, h => by
    rw [iterValid, iter_reports_every_failing_doc ds (fun d hd => h d (List.mem_cons_of_mem _ hd))]
    simp [itemOf]
  | (.value v (some r), b) :: ds, h => by
    rw [iterValid, iter_reports_every_failing_doc ds (fun d hd => h d (List.mem_cons_of_mem _ hd))]
    simp [itemOf]

/-- what the batch loop does when a LATER document fails to deserialize: the validation reports
    collected so far are dropped and only the deserialization error is returned (`return Err(..)` inside
    the loop).  Stated so that the limit of `multi_reports_every_failing_doc`'s hypothesis is explicit. -/
theorem multi_deser_error_drops_reports (v : V) (r : R) (e : E) :
    multiValid [Doc.value v (some r), Doc.deErr e] [] [] = (Batch.err e : Batch V E R) := rfl

/-! ## document isolation -/

/-- **multi_document_isolation** (batch loop): whatever recorder object is left over from earlier
    iterations (`stale`, arbitrary), the validating batch function computes exactly the abstract loop
    over `DocR.alone` — each document's contribution (its value, or its report together with the
    location map) is a function of that document alone. In particular the map handed to the error of
    document i is `docMap` of document i's traversal: a fresh recorder, nothing from documents < i. -/
theorem multi_document_isolation {P : Type} :
    ∀ (ds : List (DocR α V E P)) (stale : Recorder α) (vs : List V) (es : List (P × Map α)),
      multiValidRec ds stale vs es = multiValid (ds.map DocR.alone) vs es
  | [], _, vs, es => by simp [multiValidRec, multiValid]
  | .skip :: ds, stale, vs, es => by
    rw [multiValidRec, List.map_cons, DocR.alone, multiValid, multi_document_isolation ds]
  | .deErr e :: ds, stale, vs, es => by rw [multiValidRec, List.map_cons, DocR.alone, multiValid]
  | .value v visit none :: ds, stale, vs, es => by
    rw [multiValidRec, List.map_cons, DocR.alone, multiValid]
    exact multi_document_isolation ds _ _ _
  | .value v visit (some p) :: ds, stale, vs, es => by
    rw [multiValidRec, List.map_cons, DocR.alone, multiValid]
    exact multi_document_isolation ds _ _ _

/-- the result does not depend on the recorder state the loop is entered with -/
theorem multi_independent_of_stale_recorder {P : Type} (ds : List (DocR α V E P)) (r r' : Recorder α) :
    multiValidRec ds r [] [] = multiValidRec ds r' [] [] := by
  rw [multi_document_isolation, multi_document_isolation]

/-- **multi_document_isolation** (iterator loop) -/
theorem iter_document_isolation {P : Type} :
    ∀ (ds : List (DocR α V E P × Bool)) (stale : Recorder α),
      iterValidRec ds stale = iterValid (ds.map fun d => (d.1.alone, d.2))
  | [], _ => rfl
  | (.skip, b) :: ds, stale => by
    rw [iterValidRec]
    show _ = iterValid ((Doc.skip, b) :: ds.map fun d => (d.1.alone, d.2))
    rw [iterValid, iter_document_isolation ds]
  | (.deErr e, b) :: ds, stale => by
    rw [iterValidRec]
    show _ = iterValid ((Doc.deErr e, b) :: ds.map fun d => (d.1.alone, d.2))
    rw [iterValid, iter_document_isolation ds]
  | (.value v visit none, b) :: ds, stale => by
    rw [iterValidRec]
    show _ = iterValid ((Doc.value v none, b) :: ds.map fun d => (d.1.alone, d.2))
    rw [iterValid]
    exact congrArg _ (iter_document_isolation ds _)
  | (.value v visit (some p), b) :: ds, stale => by
    rw [iterValidRec]
    show _ = iterValid ((Doc.value v (some (p, docMap visit)), b) :: ds.map fun d => (d.1.alone, d.2))
    rw [iterValid]
    exact congrArg _ (iter_document_isolation ds _)

/-- every `(report, locations)` entry of the aggregate belongs to ONE document of the stream, and its
    map contains only positions of that document's own traversal -/
theorem multi_report_map_within_document {P : Type} :
    ∀ (ds : List (DocR α V E P)) (p : P) (m : Map α), (p, m) ∈ reports (ds.map DocR.alone) →
      ∃ v visit, DocR.value v visit (some p) ∈ ds ∧ m = docMap visit ∧ ∀ e ∈ m, e ∈ positions visit
  | [], p, m, h => by simp [reports] at h
  | d :: ds, p, m, h => by
    have tail : (p, m) ∈ reports (ds.map DocR.alone) →
        ∃ v visit, DocR.value v visit (some p) ∈ d :: ds ∧ m = docMap visit ∧ ∀ e ∈ m, e ∈ positions visit := by
      intro h'
      obtain ⟨v, visit, h1, h2, h3⟩ := multi_report_map_within_document ds p m h'
      exact ⟨v, visit, List.mem_cons_of_mem _ h1, h2, h3⟩
    cases d with
    | skip => exact tail (by simpa [DocR.alone, reports] using h)
    | deErr e => exact tail (by simpa [DocR.alone, reports] using h)
    | value v visit rep =>
      cases rep with
      | none => exact tail (by simpa [DocR.alone, reports] using h)
      | some q =>
        simp only [List.map_cons, DocR.alone, reports, List.mem_cons, Prod.mk.injEq] at h
        rcases h with ⟨rfl, rfl⟩ | h
        · exact ⟨v, visit, by simp, rfl, recorded_paths_are_tree_paths_doc visit⟩
        · exact tail h

/-- batch form used by the oracle: when every document deserializes, the aggregate lists, for each
    failing document in order, its report with the map of that document alone -/
theorem multi_reports_with_own_maps {P : Type} (ds : List (DocR α V E P)) (stale : Recorder α)
    (h : ∀ d ∈ ds, d.alone.isDeErr = false) :
    multiValidRec ds stale [] [] =
      if (reports (ds.map DocR.alone)).isEmpty then .ok (passing (ds.map DocR.alone))
      else .invalid (reports (ds.map DocR.alone)) := by
  rw [multi_document_isolation]
  apply multi_reports_every_failing_doc
  intro d hd
  obtain ⟨d', hd', rfl⟩ := List.mem_map.mp hd
  exact h d' hd'

/-- what the isolation theorems exclude: the same loop with ONE recorder created before the loop whose
    map is swapped out only when a document fails. -/
private def multiValidShared {P : Type} :
    List (DocR α V E P) → Recorder α → List V → List (P × Map α) → Batch V E (P × Map α)
  | [], _, values, errs => if errs.isEmpty then .ok values else .invalid errs
  | .skip :: ds, rec, values, errs => multiValidShared ds rec values errs
  | .deErr e :: _, _, _, _ => .err e
  | .value v visit report :: ds, rec, values, errs =>
    let recorder := (record visit rec).2
    match report with
    | none => multiValidShared ds recorder (values ++ [v]) errs
    | some p => multiValidShared ds { recorder with map := [] } values (errs ++ [(p, recorder.map)])

/-! ## non-vacuity examples -/

section Examples

private def K (s : String) : Seg := ⟨.key, s.toList⟩
private def I (s : String) : Seg := ⟨.index, s.toList⟩

/-- exact hit wins although two other keys match the case-insensitive pass -/
example : search [([K "AB"], 1), ([K "ab"], 2), ([K "Ab"], 3)] [K "ab"] = some (2, "ab".toList) := by decide
/-- case-insensitive pass, unique -/
example : search [([K "opwKinematics", K "a1"], 7)] [K "OPWKINEMATICS", K "A1"] = some (7, "a1".toList) := by decide
/-- case-insensitive pass ambiguous → falls through every pass → none -/
example : search [([K "FOO"], 1), ([K "foo"], 2)] [K "Foo"] = none := by decide
/-- token pass bridges snake_case and camelCase; the resolved leaf is the YAML spelling -/
example : search [([K "userId"], 5)] [K "user_id"] = some (5, "userId".toList) := by decide
example : tokenizeSegment "HTTPServer2Go".toList = ["http".toList, "server".toList, "2".toList, "go".toList] := by decide
/-- token pass separates what the collapsed pass would confuse -/
example : search [([K "ab_c"], 1), ([K "a_bc"], 2)] [K "abC"] = some (1, "ab_c".toList) := by decide
/-- collapsed pass ambiguous → none (never an arbitrary one of the two) -/
example : search [([K "ab_c"], 1), ([K "a_bc"], 2)] [K "abc"] = none := by decide
/-- the same with the entries swapped: same answer -/
example : search [([K "a_bc"], 2), ([K "ab_c"], 1)] [K "abc"] = none := by decide
example : tokenizePieceIdx "HTTPServer2Go".toList = some ["http".toList, "server".toList, "2".toList, "go".toList] := by decide
/-- raw identifier prefix -/
example : search [([K "type"], 9)] [K "r#type"] = some (9, "type".toList) := by decide
/-- key-to-index fallback (last pass) -/
example : search [([K "items", I "2", K "name"], 4)] [K "items", K "k", K "name"] = some (4, "name".toList) := by decide
/-- the root container is recorded under the empty path, but a lookup of the empty path answers none -/
example : search [(([] : Path), 1)] [] = none := by decide
/-- hypotheses of `search_exact_first` are satisfiable on a map with fuzzy competitors -/
example : KeysNodup [([K "AB"], 1), ([K "ab"], 2)] ∧ ([K "ab"], 2) ∈ [([K "AB"], 1), ([K "ab"], 2)] := by
  unfold KeysNodup; decide
/-- a pass with two candidates (hypothesis of `search_unique_or_none_ambiguous`) -/
example : (candidates [([K "FOO"], 1), ([K "foo"], 2)] [K "Foo"] (pathMatch segEqCI)).length = 2 := by decide

/-- recorder on `{a: [x, y], b: {c: z}}` where `y` fails: map entries and restored path -/
private def demo : Visit Nat :=
  .map 100 [(some "a".toList, 1, .seq [(2, .leaf true), (3, .leaf false)]),
            (some "b".toList, 4, .map 5 [(some "c".toList, 6, .leaf true)])]

example : (record demo { current := [], map := [] }).1 = false := by decide
example : (record demo { current := [], map := [] }).2.current = [] := by decide
example : (record demo { current := [], map := [] }).2.map =
    [([], 100), ([K "a"], 1), ([K "a", I "0"], 2), ([K "a", I "1"], 3)] := by decide
example : positions demo =
    [([], 100), ([K "a"], 1), ([K "a", I "0"], 2), ([K "a", I "1"], 3), ([K "b"], 4), ([K "b"], 5), ([K "b", K "c"], 6)] := by
  decide

/-- `{defs: {x: 1}, a: 2}` where `defs` is not a field: neither `defs` nor `defs.x` is recorded -/
private def demoIgnored : Visit Nat :=
  .map 100 [(some "defs".toList, 1, .ignored (.map 1 [(some "x".toList, 2, .leaf true)])),
            (some "a".toList, 3, .leaf true)]

example : (record demoIgnored { current := [], map := [] }).2.map = [([], 100), ([K "a"], 3)] := by decide
example : positions demoIgnored = [([], 100), ([K "a"], 3)] := by decide
example : ignoredAt demoIgnored = [[K "defs"]] := by decide
/-- hypothesis of `recorded_paths_complete` is satisfiable on a traversal with an ignored value -/
example : Consistent demoIgnored := by unfold Consistent; decide

/-- document isolation on `display_name: fine` / `---` / `displayName: x`: the second document's map has
    only its own key; with a shared recorder it would also hold the first document's `display_name` -/
private def isoStream : List (DocR Nat Nat Unit String) :=
  [.value 1 (.map 10 [(some "display_name".toList, 11, .leaf true)]) none,
   .value 2 (.map 30 [(some "displayName".toList, 31, .leaf true)]) (some "display_name too short")]

example : multiValidRec isoStream Recorder.new [] [] =
    .invalid [("display_name too short", [([], 30), ([K "displayName"], 31)])] := rfl
example : multiValidShared isoStream Recorder.new [] [] =
    .invalid [("display_name too short", [([], 30), ([K "display_name"], 11), ([K "displayName"], 31)])] := rfl
/-- … and the stale entry would win the exact pass for the reported path `display_name` -/
example : search [(([] : Path), 30), ([K "display_name"], 11), ([K "displayName"], 31)] [K "display_name"]
    = some (11, "display_name".toList) := by decide
example : search [(([] : Path), 30), ([K "displayName"], 31)] [K "display_name"]
    = some (31, "displayName".toList) := by decide

/-- a stream with two failing documents out of four: both are reported, in order -/
example : multiValid [Doc.value 1 none, .value 2 (some "r2"), .skip, .value 3 (some "r3"), .value 4 none] [] []
    = (Batch.invalid ["r2", "r3"] : Batch Nat Unit String) := rfl
example : multiValid [Doc.value 1 none, .skip, .value 4 none] [] []
    = (multiPlain [Doc.value 1 none, .skip, .value 4 none] [] : Batch Nat Unit String) := rfl

end Examples

end SaphyrVerif.PathMap
