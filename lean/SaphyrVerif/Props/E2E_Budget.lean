import SaphyrVerif.Props.E2E
import SaphyrVerif.Props.C07
import SaphyrVerif.Lemmas.E2EBudgetMain
import SaphyrVerif.Lemmas.E2EBudgetRun
import SaphyrVerif.Lemmas.E2EBudgetLim
import SaphyrVerif.Lemmas.E2EBudgetEntry
import SaphyrVerif.Lemmas.E2EBudgetUsage
/-!
# E2E with the budget enforcer — a budget can only reject, and within the limits it is invisible

`Props/E2E.lean` composes C02 (the pump delivers the expansion) and C05 (the typed deserializer over a replay
cursor computes `Spec.interp`) for a live pump WITHOUT a budget enforcer.  Here the enforcer (`Model/Budget.lean`,
called by the pump once per raw item and once per replayed event) is added.

Technique: a second simulation, between the SAME live cursor with and without its enforcer (`strip`).  Unlike
`Sim` of `Lemmas/CurSim.lean` the two pumps are in literally the same state up to the `budget` field, so
`reference_location` / `last_location` agree and results are compared by EQUALITY (values, errors, map-access
states) — until the first breach, which the typed deserializer (all functions of the mutual block; none of them
catches a cursor error) hands up unchanged except for `attach_alias_locations_if_missing`.  The pass over the
deserializer (`Lemmas/E2EBudgetMain.lean: bA`) is done once, parametrised by an invariant of the budgeted cursor
and by whether a breach may occur:

* `P1` (any pump, breaches allowed) gives `budget_only_rejects_typed`;
* `P2` (a pump whose run is breach-free, `BRun`) gives `budget_within_limits_transparent`.

Finding (statement (1) as first given is false): a breach does NOT always surface as `Error::Budget`.  When the
enforcer rejects a REPLAYED event inside a sequence element / mapping value / enum payload that started at an
alias, `attach_alias_locations_if_missing` (src/de.rs) wraps the error into `Error::AliasError` (the budget error
survives only in its message text): `budget_error_kind_counterexample`.  The kinds are `Budget` and `AliasError`.

"Within the limits" is stated in three ways (each of the first two implies the third):
* by the independent counts of `Spec/BudgetSpec.lean` over raw + replayed events (`usageWithReplay`: `Spec.usage` of
  the stream of the alias-free expansion, plus the alias items, with the anchors of the raw items; `Spec.within`
  and `Spec.ratioOk`) — `budget_within_usage_transparent`, `typed_alias_transparent_budgeted_usage`.  The bridge
  (`pumpAccepts_of_usage`) goes through `Props.C07.accepts_iff` for the expansion's stream and a simulation between
  the enforcer over the pump's observations and `Budget.run` over that stream (`Lemmas/E2EBudgetSim.lean`); it is a
  sufficient condition, exact except that a TAGGED raw `<<` key is counted as a merge key by the specification
  and not by the enforcer;
* through the usage report the enforcer itself measures (`PumpMeasures`, under ANY accepting limits): limits that
  bound this report are invisible (`budget_within_measured_usage_transparent`; this is where the monotonicity of the
  counters along prefixes is used: the typed deserializer may stop early, and a prefix of an accepted run is
  accepted);
* `PumpAccepts`: the pump ALONE, drained over the stream, reports no error and a silent `finish()` — a statement
  about pump + enforcer only, whatever the target type (`budget_within_limits_transparent`, both policies).
-/
namespace SaphyrVerif.Props.E2E_Budget
open SaphyrVerif SaphyrVerif.Scalars SaphyrVerif.Pump SaphyrVerif.Budget SaphyrVerif.De SaphyrVerif.Spec
open SaphyrVerif.Lemmas.E2EBudget
open SaphyrVerif.Lemmas.C02 (noFoldedIndent)
open SaphyrVerif.Props.C02 (initPump)
open SaphyrVerif.Props.C05 (deserTop)

set_option linter.unusedSimpArgs false

/-! ### definitions -/

/-- the run ended with an error that a budget breach surfaces as: `Error::Budget`, or the `Error::AliasError`
that `attach_alias_locations_if_missing` makes of it while an alias is replayed -/
def IsBudgetError (r : Except DErr Val) : Prop := ∃ e, r = .error e ∧ (e.kind = "Budget" ∨ e.kind = "AliasError")

/-- the pump of the single-document entry points with a budget enforcer (both enforcing policies) -/
def budgetPump (L : AliasLimits) (lim : Limits) (perDocument : Bool) : Pump :=
  { limits := L, budget := some (Enf.new lim perDocument) }

/-- the pump ALONE accepts the stream under the budget: draining it (every raw item and every replayed event is
shown to the enforcer) reports no error, and the final `finish()` (alias/anchor ratio) is silent -/
def PumpAccepts (p : Pump) (items : List RawItem) : Prop :=
  ∃ fuel evs p', pumpAll fuel p items [] = some (evs, none, p') ∧ (Pump.finish p').1 = none

/-- draining the budgeted pump ALONE over the stream reports no error, and the usage report handed to the budget
callback at the end (`finish()`) is `R` -/
def PumpMeasures (p : Pump) (items : List RawItem) (R : Report) : Prop :=
  ∃ fuel evs p', pumpAll fuel p items [] = some (evs, none, p') ∧ (Pump.finish p').2 = some R

/-- executable form of `PumpAccepts` (for examples) -/
def pumpAcceptsB (fuel : Nat) (p : Pump) (items : List RawItem) : Bool :=
  match pumpAll fuel p items [] with
  | some (_, none, p') => (Pump.finish p').1.isNone
  | _ => false

theorem pumpAccepts_of_B {fuel : Nat} {p : Pump} {items : List RawItem} (h : pumpAcceptsB fuel p items = true) :
    PumpAccepts p items := by
  unfold pumpAcceptsB at h
  split at h
  · rename_i evs p' heq
    exact ⟨fuel, evs, p', heq, by simpa using h⟩
  · cases h

/-! ### the simulation and its primitives -/

/-- (T) cursor level, `peek` / `next`: a budgeted cursor (any pump state whose synthesized-null flag obeys `J`)
and the same cursor without the enforcer answer alike and stay related — or the enforcer reports a breach. -/
theorem budgeted_cursor_primitives : Closed P1 := closed_P1

/-- (T) cursor level, lifted: for ALL target types, ALL fuel values and key flags the typed deserializer on a
budgeted cursor and on the same cursor without the enforcer return the SAME result (value, error, successor
cursor up to the enforcer) — or the budgeted side fails with a budget error. -/
theorem deser_budgeted_vs_free (fuel : Nat) (cfg : Cfg) (ty : Ty) (inKey kemn : Bool) {c : Cur} (h : P1.Inv c) :
    BR P1 (deser fuel cfg ty inKey kemn c) (deser fuel cfg ty inKey kemn (strip c)) :=
  (bA closed_P1 fuel).deser cfg ty inKey kemn h

/-- (T) … and for every cursor-reading function of the mutual block, for any comparison parameters closed
under the two cursor operations. -/
theorem block_budgeted_vs_free {P : BP} (hcl : Closed P) (fuel : Nat) : BA P fuel := bA hcl fuel

/-! ### (1) a budget can only reject -/

/-- (T) budget_only_rejects_typed (general form: ANY pump state that has not synthesized the null of an empty
stream, with ANY enforcer state — hence both policies —, ANY parser input, configuration, target type): the
entry point `from_str` / `from_reader` with the budget has the same VALUE outcome as without it, or it fails
with a budget error.  A budget never changes a value and never turns an error into a value. -/
theorem budget_only_rejects_typed (cfg : Cfg) (ty : Ty) (p : Pump) (items : List RawItem)
    (hs : p.synthesizedNull = false) :
    (Entry.fromSingle cfg ty p items).toOption = (Entry.fromSingle cfg ty (stripP p) items).toOption ∨
      IsBudgetError (Entry.fromSingle cfg ty p items) :=
  fromSingle_rejects cfg ty p items hs

/-- (T) budget_only_rejects_typed for documents (the setting of `fromSingle_alias_transparent`): for every
document whose expansion exists and stays within the alias limits, every `Budget.Limits`, both policies, every
configuration and target type: the budgeted run yields exactly the value the replay-cursor deserializer
computes over the expansion, or nothing where that one yields nothing — or it fails with a budget error. -/
theorem budget_only_rejects_typed_doc (L : AliasLimits) (t : LNode) (l0 l1 l2 l3 : Loc) (r : Exp)
    (hnf : noFoldedIndent t = true) (hexp : expand [] [] t = .ok r)
    (hL1 : 1 ≤ L.maxReplayStackDepth) (hL2 : r.replayed ≤ L.maxTotalReplayedEvents)
    (hL3 : ∀ id, aliasCount id t ≤ L.maxAliasExpansionsPerAnchor)
    (lim : Limits) (pd : Bool) (cfg : Cfg) (ty : Ty) :
    (Entry.fromSingle cfg ty (budgetPump L lim pd) (docStream t l0 l1 l2 l3)).toOption =
        deserTop (Entry.fuelFor (docStream t l0 l1 l2 l3).length) cfg ty r.evs ∨
      IsBudgetError (Entry.fromSingle cfg ty (budgetPump L lim pd) (docStream t l0 l1 l2 l3)) := by
  rcases budget_only_rejects_typed cfg ty (budgetPump L lim pd) (docStream t l0 l1 l2 l3) rfl with h | h
  · left
    rw [h]
    exact Props.E2E.fromSingle_alias_transparent L t l0 l1 l2 l3 r hnf hexp hL1 hL2 hL3 cfg ty
  · exact .inr h

/-- (1) as first stated: every error a budget adds has kind `Budget`.  FALSE, see the counterexample. -/
def budget_error_kind_Full : Prop :=
  ∀ (cfg : Cfg) (ty : Ty) (p : Pump) (items : List RawItem), p.synthesizedNull = false →
    (Entry.fromSingle cfg ty p items).toOption = (Entry.fromSingle cfg ty (stripP p) items).toOption ∨
      ∃ e, Entry.fromSingle cfg ty p items = .error e ∧ e.kind = "Budget"

/-- `[&1 [x, y], *1]` -/
def cexDoc : LNode :=
  .seq 0 none 10 19 [.seq 1 none 11 14 [.scalar ['x'] .plain 0 none 12, .scalar ['y'] .plain 0 none 13], .alias 1 15]
def cexL : AliasLimits := { maxTotalReplayedEvents := 10, maxReplayStackDepth := 1, maxAliasExpansionsPerAnchor := 10 }
/-- everything generous except `max_events = 9`: the 10th observation is the replayed `x` -/
def cexLim : Limits :=
  { maxEvents := 9, maxAliases := 100, maxAnchors := 100, maxDepth := 100, maxDocuments := 100, maxNodes := 100,
    maxTotalScalarBytes := 1000, maxMergeKeys := 100, enforceRatio := false, minAliases := 0, multiplier := 0 }

/-- the kind of the error of a run (`""` for a value) -/
def errKind (r : Except DErr Val) : String :=
  match r with
  | .error e => e.kind
  | .ok _ => ""

/-- (F) the counterexample: `[&1 [x, y], *1]` into `Vec<Vec<String>>` with `max_events = 9`.  The enforcer
rejects the second replayed event (`x`, observation number 10) while the second element of the outer sequence —
the alias — is being deserialized; the element access pairs the alias site (15) with the anchored node (11) and
the breach leaves `from_str` as `AliasError`.  Without the budget the document has a value.  (Confirmed on the
real code: `from_str_with_options::<Vec<Vec<String>>>("[&a [x, y], *a]", max_events = 9)` returns
`AliasError { msg: "budget breached: Events { events: 10 } …", locations: { reference 1:13, defined 1:5 } }`, while
`max_events = 5` — a breach on a raw event — returns `Error::Budget`.) -/
theorem budget_error_kind_counterexample :
    errKind (Entry.fromSingle {} (.seq (.seq .string)) (budgetPump cexL cexLim false) (docStream cexDoc 1 2 3 4)) =
        "AliasError" ∧
      (Entry.fromSingle {} (.seq (.seq .string)) (initPump cexL) (docStream cexDoc 1 2 3 4)).toOption.isSome = true := by
  decide +kernel

theorem budget_error_kind_Full_false : ¬ budget_error_kind_Full := by
  intro H
  have hc := budget_error_kind_counterexample
  rcases H {} (.seq (.seq .string)) (budgetPump cexL cexLim false) (docStream cexDoc 1 2 3 4) rfl with h | ⟨e, he, hk⟩
  · have h2 : stripP (budgetPump cexL cexLim false) = initPump cexL := rfl
    rw [h2] at h
    revert h hc
    generalize Entry.fromSingle {} (.seq (.seq .string)) (budgetPump cexL cexLim false) (docStream cexDoc 1 2 3 4) = x
    generalize Entry.fromSingle {} (.seq (.seq .string)) (initPump cexL) (docStream cexDoc 1 2 3 4) = y
    intro h hc
    cases x <;> cases y <;> simp [errKind, Except.toOption] at h hc
  · rw [he] at hc
    simp only [errKind] at hc
    rw [hk] at hc
    exact absurd hc.1 (by decide)

/-! ### (2) within the limits the budget is invisible -/

/-- (T) budget_within_limits_transparent (general form): if the budgeted pump runs without a breach over the
parser input and its `finish()` is silent (`BRun`), the entry point with the budget returns EXACTLY what it
returns without (same value, or the same error). -/
theorem budget_transparent_of_brun (cfg : Cfg) (ty : Ty) (p : Pump) (items : List RawItem) (es : List Ev)
    (hl : p.look = none) (hr : BRun p items es) :
    Entry.fromSingle cfg ty p items = Entry.fromSingle cfg ty (stripP p) items :=
  fromSingle_transparent_of_brun cfg ty p items es hl hr

/-- (T) budget_within_limits_transparent (documents): if the pump ALONE accepts the document under the budget
— no breach on any raw or replayed event of the whole stream, final ratio check passed —, then for every
configuration and target type `from_str` with the budget equals `from_str` without it.  (The typed
deserializer may stop early and then shows the enforcer only a prefix of what the pump alone shows it.) -/
theorem budget_within_limits_transparent (L : AliasLimits) (t : LNode) (l0 l1 l2 l3 : Loc) (r : Exp)
    (hnf : noFoldedIndent t = true) (hexp : expand [] [] t = .ok r)
    (hL1 : 1 ≤ L.maxReplayStackDepth) (hL2 : r.replayed ≤ L.maxTotalReplayedEvents)
    (hL3 : ∀ id, aliasCount id t ≤ L.maxAliasExpansionsPerAnchor)
    (lim : Limits) (pd : Bool) (hacc : PumpAccepts (budgetPump L lim pd) (docStream t l0 l1 l2 l3))
    (cfg : Cfg) (ty : Ty) :
    Entry.fromSingle cfg ty (budgetPump L lim pd) (docStream t l0 l1 l2 l3) =
      Entry.fromSingle cfg ty (initPump L) (docStream t l0 l1 l2 l3) := by
  obtain ⟨fuel, evs, p', hpa, hfin⟩ := hacc
  have hrun := Lemmas.CurSim.run_docStream L t l0 l1 l2 l3 r hnf hexp hL1 hL2 hL3
  have hbr := brun_of_pumpAll hrun (budgetPump L lim pd) rfl fuel [] evs p' hpa hfin
  exact budget_transparent_of_brun cfg ty _ _ _ rfl hbr

/-- (T) what the enforcer is shown: one `next_impl` call of a budgeted pump makes the step of the pump without
enforcer and folds the enforcer over `obsCall` (the raw items consumed, and the replayed event stripped of anchor
and tag) — or reports the breach the fold ends with. -/
theorem enforcer_sees_raw_and_replayed (q : Pump) (inp : List RawItem) (hq : q.budget = none) (b : Enf)
    {s : Step} {q' : Pump} {rest : List RawItem} (h : nextImpl q inp = (s, q', rest)) :
    match feedObs b (obsCall q inp) with
    | .ok b' => nextImpl (withBud q b) inp = (s, withBud q' b', rest)
    | .error br => ∃ l p' r', nextImpl (withBud q b) inp = (.error (.budget br l), p', r') :=
  nextImpl_obs q inp hq b h

/-- (T) monotonicity along prefixes: the counters of the enforcer only grow along a list of observations
(all-content policy), and an accepted list is accepted — with the same final state — under any limits that
bound the counters of the FINAL state. -/
theorem counters_monotone {e e' : Enf} {os : List Obs} (lim : Limits) (ho : EnfOk e) (h : feedObs e os = .ok e') :
    LeC e e' ∧ (Lemmas.C07.Within (withLim e' lim) → feedObs (withLim e lim) os = .ok (withLim e' lim)) :=
  ⟨(feedObs_leC ho h).1, feedObs_withLim lim ho h⟩

/-- (T) acceptance by the measured usage: if the pump alone accepts the document under SOME limits `lim0`
(all-content policy) and reports the usage `R`, it accepts under every `lim` with `R` within `lim` — every
counter and the alias/anchor ratio (`Spec.within`, `Spec.ratioOk`; the limits are `usize` values). -/
theorem pumpAccepts_of_measured_usage (L : AliasLimits) (t : LNode) (l0 l1 l2 l3 : Loc) (r : Exp)
    (hnf : noFoldedIndent t = true) (hexp : expand [] [] t = .ok r)
    (hL1 : 1 ≤ L.maxReplayStackDepth) (hL2 : r.replayed ≤ L.maxTotalReplayedEvents)
    (hL3 : ∀ id, aliasCount id t ≤ L.maxAliasExpansionsPerAnchor)
    (lim0 lim : Limits) (R : Report)
    (hm : PumpMeasures (budgetPump L lim0 false) (docStream t l0 l1 l2 l3) R)
    (hw : within lim R = true) (hr : ratioOk lim R = true) (hlim : lim.maxAliases ≤ USIZE_MAX) :
    PumpAccepts (budgetPump L lim false) (docStream t l0 l1 l2 l3) := by
  obtain ⟨fuel, evs, p', hpa, hR⟩ := hm
  have hrun := Lemmas.CurSim.run_docStream L t l0 l1 l2 l3 r hnf hexp hL1 hL2 hL3
  have hto := brunTo_of_pumpAll hrun (budgetPump L lim0 false) rfl fuel [] evs p' hpa
  obtain ⟨qf, bf, rfl, hqf, -, -, hall⟩ :=
    brunTo_withLim hto (initPump L) (Enf.new lim0 false) rfl rfl ⟨rfl, Nat.zero_le _⟩
  rw [finish_withBud] at hR
  simp only [Option.some.injEq] at hR
  subst hR
  have h2 := hall lim (within_withLim_of_report hw)
  refine ⟨_, _, _, h2.pumpAll, ?_⟩
  rw [finish_withBud, finalize_withLim_none hw hr hlim]
  rfl

/-- (T) budget_within_limits_transparent, by the measured usage: limits that bound the usage the enforcer
measures on the whole stream (raw + replayed events; measured under any accepting limits) are invisible to
`from_str`, for every configuration and target type. -/
theorem budget_within_measured_usage_transparent (L : AliasLimits) (t : LNode) (l0 l1 l2 l3 : Loc) (r : Exp)
    (hnf : noFoldedIndent t = true) (hexp : expand [] [] t = .ok r)
    (hL1 : 1 ≤ L.maxReplayStackDepth) (hL2 : r.replayed ≤ L.maxTotalReplayedEvents)
    (hL3 : ∀ id, aliasCount id t ≤ L.maxAliasExpansionsPerAnchor)
    (lim0 lim : Limits) (R : Report)
    (hm : PumpMeasures (budgetPump L lim0 false) (docStream t l0 l1 l2 l3) R)
    (hw : within lim R = true) (hr : ratioOk lim R = true) (hlim : lim.maxAliases ≤ USIZE_MAX)
    (cfg : Cfg) (ty : Ty) :
    Entry.fromSingle cfg ty (budgetPump L lim false) (docStream t l0 l1 l2 l3) =
      Entry.fromSingle cfg ty (initPump L) (docStream t l0 l1 l2 l3) :=
  budget_within_limits_transparent L t l0 l1 l2 l3 r hnf hexp hL1 hL2 hL3 lim false
    (pumpAccepts_of_measured_usage L t l0 l1 l2 l3 r hnf hexp hL1 hL2 hL3 lim0 lim R hm hw hr hlim) cfg ty

/-- (T) acceptance by the independent counts (`Spec/BudgetSpec.lean`, as in C07, over raw + replayed events):
if the usage `usageWithReplay` — `Spec.usage` of the stream of the alias-free expansion (every delivered node, raw
or replayed, counts for events, nodes, depth, scalar bytes, merge keys), plus one event and one alias per alias
item, with the anchors of the raw items — is within the limits, ratio included, then the pump alone accepts the
document under the budget (all-content policy; `hlen`, `hlimA` are physical: `usize`).  A sufficient condition:
the merge keys of the expansion are counted without looking at tags, the enforcer looks at the tag of a RAW `<<`
scalar (so `usageWithReplay` may exceed the measured usage by the tagged raw `<<` keys; elsewhere it is exact,
see the example). -/
theorem pumpAccepts_of_usage (L : AliasLimits) (t : LNode) (l0 l1 l2 l3 : Loc) (r : Exp) (n : ENode)
    (hnf : noFoldedIndent t = true) (hexp : expand [] [] t = .ok r)
    (hL1 : 1 ≤ L.maxReplayStackDepth) (hL2 : r.replayed ≤ L.maxTotalReplayedEvents)
    (hL3 : ∀ id, aliasCount id t ≤ L.maxAliasExpansionsPerAnchor)
    (hn : treeOf r.evs = some n)
    (lim : Limits) (hlen : (flattenStream [toNode n]).length < 2 ^ 64)
    (hw : within lim (usageWithReplay t n) = true) (hr : ratioOk lim (usageWithReplay t n) = true)
    (hlimA : lim.maxAliases ≤ USIZE_MAX) :
    PumpAccepts (budgetPump L lim false) (docStream t l0 l1 l2 l3) := by
  obtain ⟨n', hn', he⟩ := Props.E2E.expansion_tree t r hexp
  rw [hn] at hn'
  cases hn'
  have hbr := doc_brun_of_usage L t l0 l1 l2 l3 r n hnf hexp hL1 hL2 hL3 he lim hlen hw hr hlimA
  obtain ⟨pf, hto, hfin⟩ := BRun.to hbr
  exact ⟨_, _, _, hto.pumpAll, hfin⟩

/-- (T) budget_within_limits_transparent, as asked: if the usage of the whole stream — the independent counts of
`Spec/BudgetSpec.lean` over raw + replayed events, `usageWithReplay` — is within `lim`, the final alias/anchor
ratio check included, then `from_str` with the budget equals `from_str` without it (same value, or the same
error), for every configuration and target type. -/
theorem budget_within_usage_transparent (L : AliasLimits) (t : LNode) (l0 l1 l2 l3 : Loc) (r : Exp) (n : ENode)
    (hnf : noFoldedIndent t = true) (hexp : expand [] [] t = .ok r)
    (hL1 : 1 ≤ L.maxReplayStackDepth) (hL2 : r.replayed ≤ L.maxTotalReplayedEvents)
    (hL3 : ∀ id, aliasCount id t ≤ L.maxAliasExpansionsPerAnchor)
    (hn : treeOf r.evs = some n)
    (lim : Limits) (hlen : (flattenStream [toNode n]).length < 2 ^ 64)
    (hw : within lim (usageWithReplay t n) = true) (hr : ratioOk lim (usageWithReplay t n) = true)
    (hlimA : lim.maxAliases ≤ USIZE_MAX) (cfg : Cfg) (ty : Ty) :
    Entry.fromSingle cfg ty (budgetPump L lim false) (docStream t l0 l1 l2 l3) =
      Entry.fromSingle cfg ty (initPump L) (docStream t l0 l1 l2 l3) :=
  budget_within_limits_transparent L t l0 l1 l2 l3 r hnf hexp hL1 hL2 hL3 lim false
    (pumpAccepts_of_usage L t l0 l1 l2 l3 r n hnf hexp hL1 hL2 hL3 hn lim hlen hw hr hlimA) cfg ty

/-! ### (3) alias transparency of typed values under a budget -/

/-- (T) typed_alias_transparent_budgeted: within the limits, the value of a document with anchors and aliases
under a budget is the value the replay-cursor deserializer computes over its alias-free expansion (and there is
no value where that one fails). -/
theorem typed_alias_transparent_budgeted (L : AliasLimits) (t : LNode) (l0 l1 l2 l3 : Loc) (r : Exp)
    (hnf : noFoldedIndent t = true) (hexp : expand [] [] t = .ok r)
    (hL1 : 1 ≤ L.maxReplayStackDepth) (hL2 : r.replayed ≤ L.maxTotalReplayedEvents)
    (hL3 : ∀ id, aliasCount id t ≤ L.maxAliasExpansionsPerAnchor)
    (lim : Limits) (pd : Bool) (hacc : PumpAccepts (budgetPump L lim pd) (docStream t l0 l1 l2 l3))
    (cfg : Cfg) (ty : Ty) :
    (Entry.fromSingle cfg ty (budgetPump L lim pd) (docStream t l0 l1 l2 l3)).toOption =
      deserTop (Entry.fuelFor (docStream t l0 l1 l2 l3).length) cfg ty r.evs := by
  rw [budget_within_limits_transparent L t l0 l1 l2 l3 r hnf hexp hL1 hL2 hL3 lim pd hacc cfg ty]
  exact Props.E2E.fromSingle_alias_transparent L t l0 l1 l2 l3 r hnf hexp hL1 hL2 hL3 cfg ty

/-- (T) typed_alias_transparent_budgeted, specification form: within the limits, if `from_str` under the budget
returns `v`, then `v` is the position-faithful interpretation `Spec.interp` of the tree of the expansion. -/
theorem typed_alias_transparent_budgeted_sound (L : AliasLimits) (t : LNode) (l0 l1 l2 l3 : Loc) (r : Exp) (n : ENode)
    (hnf : noFoldedIndent t = true) (hexp : expand [] [] t = .ok r)
    (hL1 : 1 ≤ L.maxReplayStackDepth) (hL2 : r.replayed ≤ L.maxTotalReplayedEvents)
    (hL3 : ∀ id, aliasCount id t ≤ L.maxAliasExpansionsPerAnchor)
    (hn : treeOf r.evs = some n) (hk : Props.C05.noKemnKeys n = true)
    (lim : Limits) (pd : Bool) (hacc : PumpAccepts (budgetPump L lim pd) (docStream t l0 l1 l2 l3))
    (cfg : Cfg) (ty : Ty) (v : Val)
    (h : Entry.fromSingle cfg ty (budgetPump L lim pd) (docStream t l0 l1 l2 l3) = .ok v) :
    interp cfg ty n = some v := by
  have h1 := typed_alias_transparent_budgeted L t l0 l1 l2 l3 r hnf hexp hL1 hL2 hL3 lim pd hacc cfg ty
  rw [h] at h1
  obtain ⟨n', hn', he⟩ := Props.E2E.expansion_tree t r hexp
  rw [hn] at hn'
  cases hn'
  rw [he] at h1
  exact Props.C05.deser_top_sound cfg ty n hk _ v h1.symm

/-- (T) typed_alias_transparent_budgeted, as asked: with the usage over raw + replayed events within the limits,
the value of a document with anchors and aliases under the budget is the value of the replay-cursor deserializer
over its alias-free expansion. -/
theorem typed_alias_transparent_budgeted_usage (L : AliasLimits) (t : LNode) (l0 l1 l2 l3 : Loc) (r : Exp) (n : ENode)
    (hnf : noFoldedIndent t = true) (hexp : expand [] [] t = .ok r)
    (hL1 : 1 ≤ L.maxReplayStackDepth) (hL2 : r.replayed ≤ L.maxTotalReplayedEvents)
    (hL3 : ∀ id, aliasCount id t ≤ L.maxAliasExpansionsPerAnchor)
    (hn : treeOf r.evs = some n)
    (lim : Limits) (hlen : (flattenStream [toNode n]).length < 2 ^ 64)
    (hw : within lim (usageWithReplay t n) = true) (hr : ratioOk lim (usageWithReplay t n) = true)
    (hlimA : lim.maxAliases ≤ USIZE_MAX) (cfg : Cfg) (ty : Ty) :
    (Entry.fromSingle cfg ty (budgetPump L lim false) (docStream t l0 l1 l2 l3)).toOption =
      deserTop (Entry.fuelFor (docStream t l0 l1 l2 l3).length) cfg ty r.evs :=
  typed_alias_transparent_budgeted L t l0 l1 l2 l3 r hnf hexp hL1 hL2 hL3 lim false
    (pumpAccepts_of_usage L t l0 l1 l2 l3 r n hnf hexp hL1 hL2 hL3 hn lim hlen hw hr hlimA) cfg ty

/-! ### (E) non-vacuity: the document of `Props/E2E.lean` (one anchor, two aliases, one under a merge key) -/

open SaphyrVerif.Props.E2E (demo demoL demoR demoTy demoVal demo_expand demo_noFolded demo_replayed demo_aliases)

/-- generous limits -/
def demoLim : Limits :=
  { maxEvents := 100, maxAliases := 10, maxAnchors := 10, maxDepth := 10, maxDocuments := 10, maxNodes := 100,
    maxTotalScalarBytes := 1000, maxMergeKeys := 10, enforceRatio := true, minAliases := 2, multiplier := 10 }

theorem demo_accepts : PumpAccepts (budgetPump demoL demoLim false) (docStream demo 1 2 3 4) :=
  pumpAccepts_of_B (fuel := 40) (by decide +kernel)

/-- the usage the enforcer measures on `demo`: 20 raw items + 8 replayed events, 2 aliases, 1 anchor, depth 3,
17 nodes (raw and replayed), 26 scalar bytes, 1 merge key -/
def demoUsage : Report :=
  { events := 28, aliases := 2, anchors := 1, documents := 1, nodes := 17, maxDepth := 3, totalScalarBytes := 26,
    mergeKeys := 1 }

theorem demo_measures : PumpMeasures (budgetPump demoL demoLim false) (docStream demo 1 2 3 4) demoUsage := by
  have h : (pumpAll 40 (budgetPump demoL demoLim false) (docStream demo 1 2 3 4) []).map
      (fun x => (x.2.1, (Pump.finish x.2.2).2)) = some (none, some demoUsage) := by
    decide +kernel
  cases hp : pumpAll 40 (budgetPump demoL demoLim false) (docStream demo 1 2 3 4) [] with
  | none => rw [hp] at h; cases h
  | some x =>
    obtain ⟨evs, err, p'⟩ := x
    rw [hp] at h
    simp only [Option.map_some, Option.some.injEq, Prod.mk.injEq] at h
    obtain ⟨rfl, h3⟩ := h
    exact ⟨40, evs, p', hp, h3⟩

/-- (1) applies with a budget that is too small (`max_nodes = 12` < 17): the run is rejected, with `Budget` -/
example : errKind (Entry.fromSingle {} demoTy (budgetPump demoL { demoLim with maxNodes := 12 } false)
    (docStream demo 1 2 3 4)) = "Budget" := by decide +kernel

example : IsBudgetError (Entry.fromSingle {} demoTy (budgetPump demoL { demoLim with maxNodes := 12 } false)
    (docStream demo 1 2 3 4)) := by
  rcases budget_only_rejects_typed_doc demoL demo 1 2 3 4 demoR demo_noFolded demo_expand (by decide) demo_replayed
    demo_aliases { demoLim with maxNodes := 12 } false {} demoTy with h | h
  · exfalso
    have hk : errKind (Entry.fromSingle {} demoTy (budgetPump demoL { demoLim with maxNodes := 12 } false)
      (docStream demo 1 2 3 4)) = "Budget" := by decide +kernel
    have hv : (deserTop (Entry.fuelFor (docStream demo 1 2 3 4).length) {} demoTy demoR.evs).isSome = true := by
      decide +kernel
    rw [← h] at hv
    revert hv hk
    generalize Entry.fromSingle {} demoTy _ (docStream demo 1 2 3 4) = x
    intro hv hk
    cases x <;> simp [errKind, Except.toOption] at hv hk
  · exact h

/-- (2) applies: the pump alone accepts `demo` under `demoLim`, so `from_str` cannot see the budget … -/
example : Entry.fromSingle {} demoTy (budgetPump demoL demoLim false) (docStream demo 1 2 3 4) =
    Entry.fromSingle {} demoTy (initPump demoL) (docStream demo 1 2 3 4) :=
  budget_within_limits_transparent demoL demo 1 2 3 4 demoR demo_noFolded demo_expand (by decide) demo_replayed
    demo_aliases demoLim false demo_accepts {} demoTy

/-- … nor any budget whose limits are exactly the measured usage (28 events, 17 nodes, 1 merge key, …) -/
example : Entry.fromSingle {} demoTy
      (budgetPump demoL (Props.C07.limitsOf demoUsage demoLim) false) (docStream demo 1 2 3 4) =
    Entry.fromSingle {} demoTy (initPump demoL) (docStream demo 1 2 3 4) :=
  budget_within_measured_usage_transparent demoL demo 1 2 3 4 demoR demo_noFolded demo_expand (by decide)
    demo_replayed demo_aliases demoLim _ demoUsage demo_measures (by decide) (by decide) (by decide) {} demoTy

/-- (3) applies: under the budget the typed value is the one of the expansion (the merged `a: 1` comes from the
alias) -/
example : (Entry.fromSingle {} demoTy (budgetPump demoL demoLim false) (docStream demo 1 2 3 4)).toOption =
    some demoVal := by
  rw [typed_alias_transparent_budgeted demoL demo 1 2 3 4 demoR demo_noFolded demo_expand (by decide) demo_replayed
    demo_aliases demoLim false demo_accepts]
  decide +kernel

/-- the independent counts over raw + replayed events agree with what the enforcer measures on `demo` -/
example : usageWithReplay demo SaphyrVerif.Props.E2E.demoTree = demoUsage := by decide +kernel

/-- … so limits set exactly to these counts are invisible, by the theorem on counts -/
example : Entry.fromSingle {} demoTy
      (budgetPump demoL (Props.C07.limitsOf (usageWithReplay demo SaphyrVerif.Props.E2E.demoTree) demoLim) false)
      (docStream demo 1 2 3 4) =
    Entry.fromSingle {} demoTy (initPump demoL) (docStream demo 1 2 3 4) :=
  budget_within_usage_transparent demoL demo 1 2 3 4 demoR SaphyrVerif.Props.E2E.demoTree demo_noFolded demo_expand
    (by decide) demo_replayed demo_aliases SaphyrVerif.Props.E2E.demo_tree _ (by decide +kernel) (by decide +kernel)
    (by decide +kernel) (by decide) {} demoTy

/-- the one inexactness of the count: `{ !x <<: v }` — the raw key `<<` carries a tag, the enforcer does not count
it as a merge key (measured: 0), the count over the tag-free expansion does (1) -/
def tagDoc : LNode :=
  .map 0 none 10 19 [(.scalar ['<', '<'] .plain 0 (some ['!', 'x']) 11, .scalar ['v'] .plain 0 none 12)]
def tagTree : ENode := match expand [] [] tagDoc with
  | .ok r => (treeOf r.evs).getD default
  | .error _ => default
example : (usageWithReplay tagDoc tagTree).mergeKeys = 1 ∧
    (pumpAll 20 (budgetPump demoL demoLim false) (docStream tagDoc 1 2 3 4) []).map
      (fun x => ((Pump.finish x.2.2).2.map (·.mergeKeys))) = some (some 0) := by decide +kernel

/-- a breach-free run exists (hypothesis of the general form) -/
example : ∃ es, BRun (budgetPump demoL demoLim false) (docStream demo 1 2 3 4) es := by
  obtain ⟨fuel, evs, p', hpa, hfin⟩ := demo_accepts
  exact ⟨_, brun_of_pumpAll
    (Lemmas.CurSim.run_docStream demoL demo 1 2 3 4 demoR demo_noFolded demo_expand (by decide) demo_replayed
      demo_aliases)
    _ rfl fuel [] evs p' hpa hfin⟩

#print axioms budgeted_cursor_primitives
#print axioms deser_budgeted_vs_free
#print axioms block_budgeted_vs_free
#print axioms budget_only_rejects_typed
#print axioms budget_only_rejects_typed_doc
#print axioms budget_error_kind_counterexample
#print axioms budget_error_kind_Full_false
#print axioms budget_transparent_of_brun
#print axioms budget_within_limits_transparent
#print axioms enforcer_sees_raw_and_replayed
#print axioms counters_monotone
#print axioms pumpAccepts_of_measured_usage
#print axioms budget_within_measured_usage_transparent
#print axioms typed_alias_transparent_budgeted
#print axioms typed_alias_transparent_budgeted_sound
#print axioms pumpAccepts_of_usage
#print axioms budget_within_usage_transparent
#print axioms typed_alias_transparent_budgeted_usage

end SaphyrVerif.Props.E2E_Budget
