import SaphyrVerif.Spec.Snippet
import SaphyrVerif.Model.Snippet
/-!
# C17 — regression theorems on the witnesses of the repaired findings

Each theorem below was a counter-example theorem (the implementation violated the statement on the
witness) until the finding was repaired in /repo; it now states the good behaviour of the model on
the same witness. The model is tied to the repaired code by the differential run, and the same
witnesses are rendered by the real code in the oracle stream of `harness/src/snippet.rs` under the
unchanged oracle ids, so a regression shows up as a violation. The general (for-all) statements are in
Props/C17.lean (`window_output_clean`, `fmt_window_safe`, `region_lines_exact`,
`regions_cover_location`, `eof_line_terminated`, `reader_snippet_line_aligned`,
`window_contains_error_line_yaml`).
-/
namespace SaphyrVerif.Props.C17
open SaphyrVerif SaphyrVerif.Snippet
open SaphyrVerif.Spec.Snippet (clean)

/-- (R) `report_label_sanitized_regression` — finding `C17-message-control-chars`, fixed.
Document `"\e[31m": 1` into a struct with `deny_unknown_fields`: the message reflects the key
(`unknown field `<ESC>[31m``). Title and label handed to the external renderer are now sanitised
like the source window: ESC has become a space. -/
theorem report_label_sanitized_regression :
    (match snippetRequest "\"\\e[31m\": 1\n".toList ⟨1, 1⟩ (some 1) 64 "unknown field `\x1b[31m`".toList with
     | .ok (some r) =>
       clean r.source && clean r.label && clean r.title &&
       (r.label == "unknown field ` [31m`".toList) &&
       (r.title == "line 1 column 1: unknown field ` [31m`".toList)
     | _ => false) = true := by
  decide +kernel

/-- (R) the same with a C1 control (CSI, U+009B) and DEL in the reflected text -/
theorem report_label_sanitized_c1_regression :
    (match snippetRequest "k: 1\n".toList ⟨1, 1⟩ none 64 "unknown field `\u009b31m\x7f`".toList with
     | .ok (some r) => clean r.label && clean r.title && (r.label == "unknown field `\u00a031m `".toList)
     | _ => false) = true := by
  decide +kernel

/-- (R) `reader_window_mid_line_regression` — finding `C17-reader-window-starts-mid-line`, fixed.
Stream `key: AAAAAAAAAAAA⏎b: 1⏎` read to the end through a ring of 8 bytes (the real ring has
`RING_BUFFER_SIZE = 3072`; the logic does not depend on the size). The snapshot `AA⏎b: 1⏎` starts in
the middle of line 1, so the text attached for snippets leaves that partial line out: it is `b: 1⏎`
starting at line 2. An error located at line 1 column 1 gets no region (it is rendered without a
snippet instead of marking an `A`), and an error at line 2 column 1 is marked on the `b`. -/
theorem reader_window_mid_line_regression :
    (match ringRunAligned 8 0 (encode "key: AAAAAAAAAAAA\nb: 1\n".toList) 100 with
     | .ok (starts, fragment, startLine) =>
       !starts && (fragment == "b: 1\n".toList) && startLine == 2 &&
       (match withSnippetRegions fragment ⟨1, 1⟩ (some startLine) 64 with
        | .ok regions => regions.isEmpty
        | _ => false) &&
       (match withSnippetRegions fragment ⟨2, 1⟩ (some startLine) 64 with
        | .ok regions =>
          match renderPrepare regions ⟨2, 1⟩ 64 with
          | .ok (some p) =>
            p.displayStartRow == 2 &&
            (dropBytes p.windowText p.localStart).bind List.head? ==
              Spec.Snippet.charAtCol (Spec.Snippet.visibleLine "key: AAAAAAAAAAAA\nb: 1\n".toList 2) 1
          | _ => false
        | _ => false)
     | _ => false) = true := by
  decide +kernel

/-- (R) a snapshot that starts right after an evicted line break keeps its first line -/
theorem reader_window_line_start_regression :
    ringRunAligned 5 0 (encode "ab\nb: 1\n".toList) 100 = .ok (true, "b: 1\n".toList, 2) := by
  decide +kernel

/-- (R) `region_end_line_regression` — finding `C17-region-end-line-overcount`, fixed.
Text `a: x⏎b: 1⏎c: 2⏎d: y⏎e: 5⏎` with two located issues, at line 1 and at line 4. The region stored for
line 1 holds rows 1..3 and now ends at line 3: it no longer claims line 4, `pick_cropped_region` picks
the region that was stored for line 4, and the issue on line 4 is rendered with its snippet. A region
at the end of the input still covers the empty line after the final line break. -/
theorem region_end_line_regression :
    (match regionFor "a: x\nb: 1\nc: 2\nd: y\ne: 5\n".toList ⟨1, 4⟩ none 64,
           regionFor "a: x\nb: 1\nc: 2\nd: y\ne: 5\n".toList ⟨4, 4⟩ none 64,
           regionFor "a: x\nb: 1\nc: 2\nd: y\ne: 5\n".toList ⟨6, 1⟩ none 64 with
     | .ok (some a), .ok (some d), .ok (some e) =>
       a.text == "a: x\nb: 1\nc: 2\n".toList && a.startLine == 1 && a.endLine == 3 &&
       !a.covers ⟨4, 4⟩ &&
       (pickRegion [a, d] ⟨4, 4⟩).map (·.startLine) == some 2 &&
       d.startLine == 2 && d.endLine == 6 && d.covers ⟨4, 4⟩ &&
       (match renderPrepare [a, d] ⟨4, 4⟩ 64 with | .ok (some _) => true | _ => false) &&
       e.startLine == 4 && e.endLine == 6 && e.covers ⟨6, 1⟩
     | _, _, _ => false) = true := by
  decide +kernel

/-- (R) `eof_line_shown_regression` — finding `C17-location-on-empty-last-line`, fixed.
`name: 'unterminated⏎` reports line 2 column 1 (the empty line after the final line break). The
source handed to the external renderer now has that line terminated, with the span on it. -/
theorem eof_line_shown_regression :
    (match snippetRequest "name: 'unterminated\n".toList ⟨2, 1⟩ (some 1) 64 "msg".toList with
     | .ok (some r) =>
       (r.source == "name: 'unterminated\n\n".toList) && r.lineStart == 1 && r.spanStart == 20 && r.spanEnd == 20
     | _ => false) = true := by
  decide +kernel

/-- (R) `lone_cr_line_break_regression` — finding `C17-lone-cr-line-break`, fixed.
`name: x⏎count: zz␊flag: true` (⏎ = a lone CR, which is a YAML line break) fails with `line 2 column 8`.
Line 2 under the YAML rule is `count: zz`. The region stored by `with_snippet` now holds the three
lines `name: x` / `count: zz` / `flag: true` (the lone CR has become LF), records lines 1..3, and the
window rendered from it has `count: zz` as its second row with the span on the first `z` (byte 15 of the
window = column 8 of row 2). Before the fix the text had two rows, row 2 was `flag: true`, and the marker
stood under a character of the wrong line. -/
theorem lone_cr_line_break_regression :
    (match withSnippetRegions "name: x\rcount: zz\nflag: true".toList ⟨2, 8⟩ none 64 with
     | .ok [reg] =>
       (reg.text == "name: x\ncount: zz\nflag: true".toList) && reg.startLine == 1 && reg.endLine == 3 &&
       (match renderPrepare [reg] ⟨2, 8⟩ 64 with
        | .ok (some p) =>
          p.displayStartRow == 1 && p.row == 2 && p.localStart == 15 &&
          (dropBytes p.windowText p.localStart).bind List.head? ==
            (Spec.Snippet.yamlLine "name: x\rcount: zz\nflag: true".toList 2).bind (Spec.Snippet.charAtCol · 8) &&
          (dropBytes p.windowText p.localStart).bind List.head? == some 'z'
        | _ => false)
     | _ => false) = true := by
  decide +kernel

/-- (R) the same text ending with lone CRs only (`name: x⏎flag: true⏎count: zz⏎`, error on line 3): four
lines under the YAML rule, the last one empty; the region covers lines 1..4 -/
theorem lone_cr_only_regression :
    (match regionFor "name: x\rflag: true\rcount: zz\r".toList ⟨3, 8⟩ none 64 with
     | .ok (some reg) =>
       (reg.text == "name: x\nflag: true\ncount: zz\n".toList) && reg.startLine == 1 && reg.endLine == 4 &&
       (Spec.Snippet.yamlLines "name: x\rflag: true\rcount: zz\r".toList).length == 4
     | _ => false) = true := by
  decide +kernel

/-- (R) reader entry point: stream `ab⏎cd⏎␊ef␊` (⏎ = CR, ␊ = LF) read to the end through rings of 7, 6,
5, 4 and 3 bytes. Ring of 7: `ab⏎` evicted — the lone CR ended line 1, the snapshot `cd⏎␊ef␊` begins
line 2. Rings of 6 and 5: the snapshot starts inside line 2, the rest of that line up to and including the
CRLF pair is left out and the attached text `ef␊` starts at line 3. Ring of 4 (`ab⏎cd⏎` evicted): the CRLF
pair is split, its CR is not counted as a line, the snapshot `␊ef␊` still belongs to line 2 and the
attached text is again `ef␊` from line 3. Ring of 3: the pair's LF has been evicted too, the snapshot
`ef␊` begins line 3. -/
theorem lone_cr_ring_regression :
    ringRunAligned 7 0 (encode "ab\rcd\r\nef\n".toList) 100 = .ok (true, "cd\r\nef\n".toList, 2) ∧
    ringRunAligned 6 0 (encode "ab\rcd\r\nef\n".toList) 100 = .ok (false, "ef\n".toList, 3) ∧
    ringRunAligned 5 0 (encode "ab\rcd\r\nef\n".toList) 100 = .ok (false, "ef\n".toList, 3) ∧
    ringRunAligned 4 0 (encode "ab\rcd\r\nef\n".toList) 100 = .ok (false, "ef\n".toList, 3) ∧
    ringRunAligned 3 0 (encode "ab\rcd\r\nef\n".toList) 100 = .ok (true, "ef\n".toList, 3) := by
  decide +kernel

end SaphyrVerif.Props.C17
