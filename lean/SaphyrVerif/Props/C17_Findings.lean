import SaphyrVerif.Spec.Snippet
import SaphyrVerif.Model.Snippet
/-!
# C17 — counter-example theorems (the implementation violates the statement on these witnesses)

Each theorem is about the model as it is (faithful to the code, see the differential run); the
witness is also rendered by the real code in the oracle stream of `harness/src/snippet.rs` and listed
in `known_findings.json`.
-/
namespace SaphyrVerif.Props.C17
open SaphyrVerif SaphyrVerif.Snippet
open SaphyrVerif.Spec.Snippet (clean)

/-- (F) `report_label_unsanitized_witness` — finding `C17-message-control-chars`.
Document `"\e[31m": 1` into a struct with `deny_unknown_fields`: the message reflects the key
(`unknown field `<ESC>[31m``). The source window is sanitised, but title and label handed to the
external renderer contain the raw ESC (annotate-snippets was observed to rewrite C0 in the title only,
and C1 nowhere), so the rendered report is not terminal-safe. -/
theorem report_label_unsanitized_witness :
    (match snippetRequest "\"\\e[31m\": 1\n".toList ⟨1, 1⟩ (some 1) 64 "unknown field `\x1b[31m`".toList with
     | .ok (some r) => clean r.source && !clean r.label && !clean r.title
     | _ => false) = true := by
  decide +kernel

/-- (F) `reader_window_mid_line_witness` — finding `C17-reader-window-starts-mid-line`.
Stream `key: AAAAAAAAAAAA⏎b: 1⏎` read to the end through a ring of 8 bytes (the real ring has
`RING_BUFFER_SIZE = 3072`; the logic does not depend on the size): no line break has been evicted, so
the snapshot `AA⏎b: 1⏎` is attached as a fragment starting at line 1. An error located at line 1
column 1 (the `k`) is then rendered with the marker on the first `A` of the fragment: the window does
contain "line 1", but it is only the tail of that line and the column is applied to the tail. -/
theorem reader_window_mid_line_witness :
    (match ringRun 8 0 (encode "key: AAAAAAAAAAAA\nb: 1\n".toList) 100 with
     | .ok (_, _, startLine, bytes) =>
       match decode bytes with
       | some fragment =>
         match withSnippetRegions fragment ⟨1, 1⟩ (some startLine) 64 with
         | .ok regions =>
           match renderPrepare regions ⟨1, 1⟩ 64 with
           | .ok (some p) =>
             startLine == 1 && p.displayStartRow == 1 &&
             (dropBytes p.windowText p.localStart).bind List.head? == some 'A' &&
             Spec.Snippet.charAtCol (Spec.Snippet.visibleLine "key: AAAAAAAAAAAA\nb: 1\n".toList 1) 1 == some 'k'
           | _ => false
         | _ => false
       | none => false
     | _ => false) = true := by
  decide +kernel

/-- (F) `region_covers_line_after_window_witness` — finding `C17-region-end-line-overcount`.
Text `a: x⏎b: 1⏎c: 2⏎d: y⏎e: 5⏎` with two located issues (garde / validator report both), at line 1 and
at line 4. The region stored for line 1 holds rows 1..3, but `line_count_including_trailing_empty_line`
counts the empty line after the final line break, so its `end_line` is 4 and `covers` claims line 4.
`pick_cropped_region` therefore picks this first region for the issue on line 4, where row 4 is the
(empty) line after the last line break: column 4 does not exist there and the issue is rendered without
any snippet, although a region that really contains line 4 was stored second. -/
theorem region_covers_line_after_window_witness :
    (match regionFor "a: x\nb: 1\nc: 2\nd: y\ne: 5\n".toList ⟨1, 4⟩ none 64,
           regionFor "a: x\nb: 1\nc: 2\nd: y\ne: 5\n".toList ⟨4, 4⟩ none 64 with
     | .ok (some a), .ok (some d) =>
       a.text == "a: x\nb: 1\nc: 2\n".toList && a.startLine == 1 && a.endLine == 4 &&   -- 3 rows, "ends" at 4
       a.covers ⟨4, 4⟩ &&
       (pickRegion [a, d] ⟨4, 4⟩).map (·.startLine) == some 1 &&                          -- the wrong region
       d.startLine == 2 && d.covers ⟨4, 4⟩ &&                                              -- the right one exists
       (match renderPrepare [a, d] ⟨4, 4⟩ 64 with | .ok none => true | _ => false) &&       -- no snippet shown
       (match renderPrepare [d] ⟨4, 4⟩ 64 with | .ok (some _) => true | _ => false)          -- it could have been
     | _, _ => false) = true := by
  decide +kernel

end SaphyrVerif.Props.C17
