import SaphyrVerif.Lemmas.C14_Ser
import SaphyrVerif.Lemmas.C14_De
import SaphyrVerif.Lemmas.C14_Rec
import SaphyrVerif.Lemmas.C14_Flat3
import SaphyrVerif.Props.C02
/-!
# C14 — shared-pointer topology survives the round trip through anchors and aliases

Theorems about `Model/Anchors.lean` (serializer: `alloc_anchor_for` + `pending_anchor_id` + the
`__yaml_anchor` / `__yaml_weak_anchor` tuple arms; deserializer: the thread-local `AnchorState`, the
`__yaml_*` newtype arms, the wrapper `Deserialize` impls, the pump's alias arm).

Physical pointer identity (`Rc::ptr_eq`) is a run-time observation: here a pointer is a number (the
original address renamed / a fresh allocation counter), and the tie to the code is the differential run
(`harness/src/anchors.rs`).

State after the repairs of this round (see `known_findings.json`):
* repaired — the pending anchor is now written by `null` (`None`, `()`, dangling weak) and by enum
  variants with data (before the variant key); a wrapper directly inside a wrapper shares the id of the
  outer one (`anchor_on_null_variant_and_nested_wrapper`, `shared_none_roundtrip`);
* repaired — a dangling weak (`null`) reads back as a dangling weak, and a weak wrapper never sees the
  anchor of an enclosing wrapper (`dangling_weak_reads_back`, `unanchored_weak_is_dangling_or_error`);
* repaired — `ArcRecursive` locks its cell only while it writes the definition: the serializer never
  locks a mutex it holds (`ser_never_deadlocks`);
* repaired (63913c0) — a block scalar cannot carry an anchor: the block-scalar path of `serialize_str`
  drops the pending anchor and forgets the pointer, so a block-scalar payload is written in full at every
  occurrence and no later node ever receives a foreign anchor (`no_anchor_left_pending`,
  `block_scalar_payload_written_in_full`);
* repaired (afd0262) — every wrapper, strong or weak, gets an anchor context of its own: a wrapper whose
  node has no anchor builds a fresh, unshared pointer and never takes the id of an enclosing wrapper
  (`unanchored_strong_is_fresh`, `nested_unanchored_wrappers_are_independent`,
  `block_payload_inside_anchored_wrapper`);
* still known — the sharing of a block-scalar payload is lost on the round trip (values are right):
  `block_scalar_roundtrip_loses_sharing`, `ser_defines_once_counterexample`;
* limitations (errors, never wrong sharing): a weak edge met before its strong owner
  (`weak_before_strong_fails`), an inner wrapper that is already anchored when its outer wrapper is first
  written (`nested_wrapper_alias_is_refused`), same-kind wrappers directly inside each other.
-/
namespace SaphyrVerif.Props.C14
open SaphyrVerif SaphyrVerif.Anchors SaphyrVerif.Spec.Anchors SaphyrVerif.Lemmas.C14

/-! ## Serializer side -/

/-- more fuel never changes a finished serialization -/
theorem ser_fuel_mono (H : Heap) (fuel k : Nat) (s : SerSt) (v : Val) (r : Out × SerSt)
    (h : serVal fuel H s v = .ok r) : serVal (fuel + k) H s v = .ok r := by
  induction k with
  | zero => exact h
  | succ k ih => exact ser_fuel_succ H (fuel + k) s v r ih

/-- (T, all graphs, no hypothesis) every anchor mark and every alias of the output carries an id in
`1 … next_anchor_id - 1`, and the pointer table only holds such ids. -/
theorem ser_ids_in_range (fuel : Nat) (H : Heap) (v : Val) (o : Out) (s' : SerSt)
    (h : serialize fuel H v = .ok (o, s')) :
    idsBelow s'.next o = true ∧ TableOK s' := by
  have := ser_range H fuel {} v o s' h
    (by intro p id hp; simp at hp) (by intro id hid; simp at hid) (Nat.le_refl 1)
  exact ⟨this.ids, this.tab⟩

/-- (T, C01 panic-site obligation) `write_anchor_name`'s `id as usize - 1` never underflows for an id
in range, and the index is inside `custom_anchor_names` (one name per allocated id), so the
"out of sync" fallback is dead code. With `ser_ids_in_range` this covers every id the serializer writes. -/
theorem anchor_name_index_in_range (s : SerSt) (id : Nat) (h1 : 1 ≤ id) (h2 : id < s.next) :
    anchorNameIndex s id = some (id - 1, true) := by
  have h0 : id ≠ 0 := by omega
  have h3 : id - 1 < s.next - 1 := by omega
  simp [anchorNameIndex, h0, h3]

/-- (T, all graphs, no hypothesis; C01 totality) **ser_never_deadlocks**: the serializer never locks an
`ArcRecursive` mutex that an enclosing `Serialize` call of the same thread still holds — a cell is locked
only while its definition is written, and a cell being defined is already in the pointer table, so every
further occurrence is an alias. (Before the repair the graph `dlH`/`dlV` below never returned.) -/
theorem ser_never_deadlocks (fuel : Nat) (H : Heap) (v : Val) : serialize fuel H v ≠ .error .deadlock :=
  (ser_nodl H fuel {} v (by intro q hq; cases hq) (by intro p id hp; simp at hp)
    (by intro id hid; simp at hid) (Nat.le_refl 1)).1

/-- (T, all graphs, all states, no hypothesis) **no_anchor_left_pending**: whenever a value has been
written, `pending_anchor_id` is empty — scalars, `null`, sequences, maps and variants take it, a block
scalar drops it (and forgets the pointer), an alias is only written when nothing is pending.  So no
anchor can ever land on a later, unrelated node: the invariant all the repairs of this property
establish. -/
theorem no_anchor_left_pending (fuel : Nat) (H : Heap) (s : SerSt) (v : Val) (o : Out) (s' : SerSt)
    (h : serVal fuel H s v = .ok (o, s')) : s'.pending = none :=
  ser_clear H fuel s v o s' h

/-- (T) **ser_defines_once**: when no payload of a shared allocation is a block scalar (which cannot
carry an anchor: its pointer is forgotten and its id never written, so the ids are not dense) or another
wrapper (which shares node and id with its outer wrapper), the document is well scoped: the anchor marks are `&1, &2, … &n` in order of appearance — each
id defined exactly once, ids dense from 1 — every alias `*i` appears after `&i`, nothing is left in
`pending_anchor_id`, and distinct pointers got distinct ids (so: one definition per shared node, an
alias at every other occurrence). -/
theorem ser_defines_once (fuel : Nat) (H : Heap) (hH : AnchorTaking H) (v : Val) (o : Out) (s' : SerSt)
    (h : serialize fuel H v = .ok (o, s')) :
    wellScoped o 0 = some (s'.next - 1) ∧ s'.pending = none ∧ TableInj s' := by
  have p := ser_scoped H hH fuel {} v o s' h (Or.inl rfl)
    (by intro p id hp; simp at hp) (by intro p q id hp; simp [List.lookup] at hp)
    (Nat.le_refl 1)
  have e : emitted ({} : SerSt) = 0 := by simp [emitted]
  have q := p.wsc
  rw [e] at q
  exact ⟨q, p.pend, p.inj⟩

/-- the statement without the hypothesis on payloads -/
def ser_defines_once_Full : Prop :=
  ∀ (fuel : Nat) (H : Heap) (v : Val) (o : Out) (s' : SerSt),
    serialize fuel H v = .ok (o, s') → wellScoped o 0 = some (s'.next - 1)

def outToks (r : Except SerErr (Out × SerSt)) : Option (List Tok) :=
  match r with
  | .ok (o, _) => some (render o)
  | .error _ => none

/-- witness: `{x: p, z: 7, w: p}` where `*p` is a multi-line `String` (block scalar) -/
def lostH : Heap := [(1, .leaf .block)]
def lostV : Val := .node true [.strong .rc 3 1, .leaf (.int 7), .strong .rc 3 1]

/-- (T, behaviour after 63913c0) the block-scalar payload is written in full at both occurrences,
without anchor or alias, and the plain field `z` carries no anchor: `x: |…`, `z: 7`, `w: |…`. -/
theorem block_scalar_payload_written_in_full :
    outToks (serialize 5 lostH lostV) =
      some [.key, .block, .key, .int 7, .key, .block] := by decide +kernel

def scopedOk (r : Except SerErr (Out × SerSt)) : Bool :=
  match r with
  | .ok (o, s') => wellScoped o 0 == some (s'.next - 1)
  | .error _ => true

/-- (F) counterexample to `ser_defines_once_Full`: the id allocated for a block-scalar payload is never
written, so the anchors of the document are not `&1 … &n` -/
theorem ser_defines_once_counterexample : ¬ ser_defines_once_Full := by
  intro h
  -- a single shared block scalar: its id is allocated and never written
  have hk : scopedOk (serialize 5 lostH (.node true [.strong .rc 3 1])) = false := by decide +kernel
  cases hs : serialize 5 lostH (.node true [.strong .rc 3 1]) with
  | error e => rw [hs] at hk; cases hk
  | ok r =>
    obtain ⟨o, s'⟩ := r
    rw [hs] at hk
    have := h 5 lostH _ o s' hs
    simp [scopedOk, this] at hk

/-- (T, regression of the repaired defect) a shared `None`, a shared enum variant with data and a wrapper
directly inside a wrapper now carry their anchor: `x: &a1 null`, `y: *a1`, `z: 7`;
`x: &a1` / `New: 3`; `&a1 5` for both pointers of the nested pair. -/
theorem anchor_on_null_variant_and_nested_wrapper :
    outToks (serialize 5 [(1, .leaf .null)] (.node true [.strong .rc 4 1, .strong .rc 4 1, .leaf (.int 7)])) =
      some [.key, .anchor 1, .null, .key, .alias 1, .key, .int 7] ∧
    outToks (serialize 5 [(1, .node true [.leaf (.int 3)])] (.node true [.strong .rc 5 1, .strong .rc 5 1])) =
      some [.key, .anchor 1, .key, .int 3, .key, .alias 1] ∧
    outToks (serialize 5 [(1, .strong .arc 2 2), (2, .leaf (.int 5))]
        (.node true [.strong .rc 7 1, .strong .rc 7 1, .strong .arc 2 2])) =
      some [.key, .anchor 1, .int 5, .key, .alias 1, .key, .alias 1] := by decide +kernel

def serCode (r : Except SerErr (Out × SerSt)) : Nat :=
  match r with
  | .ok _ => 0
  | .error .fuel => 1
  | .error .deadStrong => 2
  | .error .deadlock => 3
  | .error .aliasNeedsAnchor => 4

/-- (limitation, an error) the inner pointer of a nested pair is already anchored when the outer wrapper
is first written: the node would have to be `*a1` and define `&a2` at once — refused -/
theorem nested_wrapper_alias_is_refused :
    serCode (serialize 5 [(1, .strong .arc 2 2), (2, .leaf (.int 5))]
      (.node true [.strong .arc 2 2, .strong .rc 7 1])) = 4 := by decide +kernel

/-- the former deadlock witness: `ArcRecursive` cells c0 → c2 ← c1 (a DAG of strong edges) and one weak
edge c2 ⇢ c1; serializing `[c0, c1]` defines c1 at the weak site while c2 is locked and then meets the
strong edge c1 → c2 -/
def dlH : Heap :=
  [(10, .node true [.leaf (.int 1), .node false [.strong .arcRec 10 12]]),
   (11, .node true [.leaf (.int 2), .node false [.strong .arcRec 10 12]]),
   (12, .node true [.leaf (.int 3), .node false [.weak .arcRec 10 11]])]
def dlV : Val := .node false [.strong .arcRec 10 10, .strong .arcRec 10 11]

/-- (T, regression) it now serializes: c2 inside c1 is the alias `*a2` -/
theorem arc_recursive_relock_serializes : outToks (serialize 20 dlH dlV) =
    some [.dash, .anchor 1, .key, .int 1, .key, .dash, .anchor 2, .key, .int 3, .key, .dash, .anchor 3,
          .key, .int 2, .key, .dash, .alias 2, .dash, .alias 3] := by decide +kernel

/-! ## Deserializer side -/

/-- (T) **replay_keeps_definition_id** (C02): the events an alias delivers are the recorded buffer of
its anchor — copies of the definition's events, carrying the definition's anchor ids.  This is what
lets `peek_anchor_id` find the same id at the alias site as at the definition. -/
theorem replay_keeps_definition_id (σ : Spec.Tab) (opn : List Nat) (id : Nat) (loc : Loc) (r : Spec.Exp)
    (h : Spec.expand σ opn (.alias id loc) = .ok r) : Pump.lookupAnchor σ id = some r.evs ∧ r.tab = σ :=
  Props.C02.alias_expansion_is_buffer σ opn id loc r h

/-- in the model of this property: what an alias delivers is the recorded node of that id, or — for an
anchor still open under a recursive wrapper — the null placeholder carrying the id -/
theorem alias_delivers_recorded (s : DeSt) (id : Nat) (sub : Out) (h : resolveAlias s id = .ok sub) :
    s.defs.lookup id = some sub ∨ (sub = .leaf id .null ∧ s.opn.contains id = true) := by
  unfold resolveAlias at h
  split at h
  · rename_i ho
    split at h
    · simp only [Except.ok.injEq] at h
      exact Or.inr ⟨h.symm, ho⟩
    · cases h
  · split at h
    · cases h
    · rename_i sub' hl
      simp only [Except.ok.injEq] at h
      subst h
      exact Or.inl hl

/-- (T) a weak wrapper never invents a pointer: whenever it succeeds, the result is either a dangling
weak or the pointer the store holds for the anchor id of its own node, under the same `TypeId` — "weak
edges upgrade to the rebuilt owner" — and the store is left as it was. -/
theorem weak_upgrades_to_stored_owner (k : Kind) (tid : Nat) (o : Out) (s : DeSt) (v : RVal) (e : Out)
    (s' : DeSt) (h : de (.weak k tid) o s = .ok (v, e, s')) :
    (v = .weakNull k ∨ ∃ id q, s.store.lookup (k, id) = some (q, tid) ∧ v = .weak k q) ∧
      s'.store = s.store := by
  have fin : ∀ (onAlias : Ty → Nat → DeSt → DeRes) (live : Bool) (o : Out), (∀ j, o ≠ .alias j) →
      deCore onAlias live (.weak k tid) o s = .ok (v, e, s') →
      (v = .weakNull k ∨ ∃ id q, s.store.lookup (k, id) = some (q, tid) ∧ v = .weak k q) ∧
        s'.store = s.store := by
    intro onAlias live o hna h
    rcases weak_node_ok onAlias live k tid o hna s v e s' h with ⟨_, _, hv, _, hs⟩ | ⟨_, i, q, _, h2, h3, h4⟩
    · exact ⟨Or.inl hv, by rw [hs]⟩
    · exact ⟨Or.inr ⟨i, q, h2, h3⟩, h4⟩
  cases o with
  | alias id =>
    simp only [de, deCore, onAliasLive] at h
    split at h
    · cases h
    · rename_i sub _
      cases sub with
      | alias j => simp [deE, deCore, noAlias] at h
      | leaf a lk => exact fin noAlias false _ (by intro j; simp) h
      | node a m items => exact fin noAlias false _ (by intro j; simp) h
  | leaf a lk => exact fin onAliasLive true _ (by intro j; simp) h
  | node a m items => exact fin onAliasLive true _ (by intro j; simp) h

/-- (T, regression of the repaired defect) **dangling_weak_reads_back**: `null` without an anchor reads
back as a dangling weak through every weak wrapper type, in every state — also nested inside an
anchored wrapper — and leaves the state untouched. -/
theorem dangling_weak_reads_back (k : Kind) (tid : Nat) (s : DeSt) :
    de (.weak k tid) (.leaf 0 .null) s = .ok (.weakNull k, .leaf 0 .null, s) :=
  de_weak_dangling k tid s

/-- (T) a weak wrapper on a node without an anchor never takes the anchor of an enclosing wrapper: it
succeeds only on `null`, as a dangling weak (the former behaviour "an unanchored weak inside an anchored
wrapper silently points to that wrapper" is gone). -/
theorem unanchored_weak_is_dangling_or_error (k : Kind) (tid : Nat) (o : Out) (hna : ∀ id, o ≠ .alias id)
    (ha : o.rootAnchor = 0) (s : DeSt) (v : RVal) (e : Out) (s' : DeSt)
    (h : de (.weak k tid) o s = .ok (v, e, s')) : o.isNull = true ∧ v = .weakNull k ∧ s' = s := by
  rcases weak_node_ok onAliasLive true k tid o hna s v e s' h with ⟨_, hn, hv, _, hs⟩ | ⟨hne, _⟩
  · exact ⟨hn, hv, hs⟩
  · exact absurd ha hne

def rtCode : RtRes → Nat
  | .ok .. => 0
  | .serErr _ => 1
  | .deErr .weakNoAnchor => 10
  | .deErr .weakUnknown => 11
  | .deErr .recNeedsWeak => 12
  | .deErr .unknownAnchor => 13
  | .deErr .typeReuse => 14
  | .deErr .shape => 15
  | .deErr .internal => 16
  | .noType => 2

def rtVal (r : RtRes) : Option (List Nat × List (Ptr × Option (List Nat))) :=
  match r with
  | .ok v s => some (v.code, s.heap.map fun (q, c) => (q, c.map RVal.code))
  | _ => none

/-- (F, the remaining known finding `C14-anchor-not-on-block-scalar`) reading the document of
`block_scalar_payload_written_in_full` back: both fields hold the block scalar (values right, `z` is 7),
but `x` and `w` are two allocations — the sharing of a block-scalar payload is lost. -/
theorem block_scalar_roundtrip_loses_sharing :
    rtVal (roundtrip 5 lostH lostV) =
      some ([3, 3, 4, 0, 1, 0, 7, 4, 0, 2], [(2, some [2]), (1, some [2])]) := by decide +kernel

/-- witness: an anchored wrapper whose payload holds two *different* pointers to block scalars:
`o: &a1 {a: |…, b: |…, n: 1}` -/
def blkInH : Heap :=
  [(1, .node true [.strong .rc 3 2, .strong .rc 3 3, .leaf (.int 1)]), (2, .leaf .block), (3, .leaf .block)]

/-- (T, regression of the defect repaired by afd0262; before it `b` read back as the allocation and the
text of `a`, and the aliased case failed with "anchor id 1 reused with incompatible Rc type") the two
unanchored inner wrappers are two fresh allocations (1 and 2) inside the outer one (3); with the outer
wrapper referenced twice (`p: *a1`) both fields are allocation 3. -/
theorem block_payload_inside_anchored_wrapper :
    rtVal (roundtrip 6 blkInH (.node true [.strong .rc 1 1])) =
      some ([3, 1, 4, 0, 3], [(3, some [3, 3, 4, 0, 1, 4, 0, 2, 0, 1]), (2, some [2]), (1, some [2])]) ∧
    rtVal (roundtrip 6 blkInH (.node true [.strong .rc 1 1, .strong .rc 1 1])) =
      some ([3, 2, 4, 0, 3, 4, 0, 3],
        [(5, some [2]), (4, some [2]), (3, some [3, 3, 4, 0, 1, 4, 0, 2, 0, 1]), (2, some [2]), (1, some [2])]) := by
  decide +kernel

/-- (T, regression) round trip of `[strong p, dangling weak]`: the weak comes back dangling -/
theorem dangling_weak_roundtrip :
    rtVal (roundtrip 6 [(1, .node true [.leaf (.int 5)])]
      (.node false [.strong .rc 1 1, .weak .rc 1 9])) =
      some ([3, 2, 4, 0, 1, 6, 0], [(1, some [3, 1, 0, 5])]) := by decide +kernel

/-- (T, regression) round trip of `{x: p, z: 7, w: p}` with `*p == None` (the former silent corruption
`w = Some(7)`): `x` and `w` are one allocation holding `null`, `z` is 7 -/
theorem shared_none_roundtrip :
    rtVal (roundtrip 5 [(1, .leaf .null)] (.node true [.strong .rc 4 1, .leaf (.int 7), .strong .rc 4 1])) =
      some ([3, 3, 4, 0, 1, 0, 7, 4, 0, 1], [(1, some [1])]) := by decide +kernel

/-- (T) a weak wrapper positioned on an anchored node whose id has no store entry never succeeds —
the general form of the documented limitation "the strong anchor must be defined before the weak". -/
theorem weak_needs_defined_owner (k : Kind) (tid : Nat) (o : Out) (hna : ∀ id, o ≠ .alias id)
    (ha : o.rootAnchor ≠ 0) (s : DeSt) (hs : s.store.lookup (k, o.rootAnchor) = none)
    (r : RVal × Out × DeSt) : de (.weak k tid) o s ≠ .ok r := by
  intro h
  obtain ⟨v, e, s'⟩ := r
  rcases weak_node_ok onAliasLive true k tid o hna s v e s' h with ⟨h0, _⟩ | ⟨_, i, q, h1, h2, _, _⟩
  · exact ha h0
  · rw [current_after_push _ _ _ ha] at h1
    simp only [Option.some.injEq] at h1
    subst h1
    rw [hs] at h2
    cases h2

/-- (F, documented limitation) **weak_before_strong_fails**: `{w: weak → p, s: strong p}` is written
`w: &a1 {…}`, `s: *a1` (the definition lands on the weak field) and reading it back is an error, not
wrong sharing. -/
theorem weak_before_strong_fails :
    outToks (serialize 6 [(1, .node true [.leaf (.int 5)])]
      (.node true [.weak .rc 1 1, .strong .rc 1 1])) =
        some [.key, .anchor 1, .key, .int 5, .key, .alias 1] ∧
    rtCode (roundtrip 6 [(1, .node true [.leaf (.int 5)])]
      (.node true [.weak .rc 1 1, .strong .rc 1 1])) = 11 := by decide +kernel

def deCode (r : DeRes) : Option (List Nat × List (Ptr × Option (List Nat))) :=
  match r with
  | .ok (v, _, s) => some (v.code, s.heap.map fun (q, c) => (q, c.map RVal.code))
  | .error _ => none

/-- `o: &a1 {a: {v: 1}, b: {v: 2}}` read as `RcAnchor<O>` with `O {a: RcAnchor<V>, b: RcAnchor<V>}` -/
def nestedTy : Ty :=
  .node [.strong .rc 2 (.node [.strong .rc 1 (.node [.leaf false]), .strong .rc 1 (.node [.leaf false])])]
def nestedDoc : Out :=
  .node 0 true [.node 1 true [.node 0 true [.leaf 0 (.int 1)], .node 0 true [.leaf 0 (.int 2)]]]

/-- (T, all types, nodes and states) **unanchored_strong_is_fresh**: a strong wrapper on a node without an
anchor never consults the store or an enclosing context: it reads its payload, allocates a fresh pointer
holding it, and stores nothing. -/
theorem unanchored_strong_is_fresh (k : Kind) (tid : Nat) (inner : Ty) (o : Out) (hna : ∀ id, o ≠ .alias id)
    (ha : o.rootAnchor = 0) (s : DeSt) (v : RVal) (e : Out) (s' : DeSt)
    (h : de (.strong k tid inner) o s = .ok (v, e, s')) :
    ∃ v0 s2, de inner o (pushCtx s k 0) = .ok (v0, e, s2) ∧ v = .strong k s2.nextPtr ∧
      s'.store = s2.store ∧ s'.cell s2.nextPtr = some v0 ∧ s'.stack = s2.stack.tail := by
  unfold de at h
  rw [strong_case_split _ _ _ _ _ _ hna] at h
  simp only [ha, if_true] at h
  split at h
  · cases h
  · rename_i v0 e0 s2 hin
    simp only [alloc, Except.ok.injEq, Prod.mk.injEq] at h
    obtain ⟨rfl, rfl, rfl⟩ := h
    exact ⟨v0, s2, hin, rfl, rfl, by simp [DeSt.cell, popCtx], rfl⟩

/-- (T, regression of the defect repaired by afd0262; before it `b` was the allocation of `a` and the
value 2 was dropped) **nested_unanchored_wrappers_are_independent**: in `o: &a1 {a: {v: 1}, b: {v: 2}}`
the unanchored inner wrappers are two fresh allocations holding 1 and 2. -/
theorem nested_unanchored_wrappers_are_independent :
    deCode (deserialize nestedTy nestedDoc) =
      some ([3, 1, 4, 0, 3],
        [(3, some [3, 2, 4, 0, 1, 4, 0, 2]), (2, some [3, 1, 0, 2]), (1, some [3, 1, 0, 1])]) := by decide +kernel

/-- with the inner nodes anchored the two fields are distinct allocations -/
example :
    deCode (deserialize nestedTy
      (.node 0 true [.node 1 true [.node 2 true [.leaf 0 (.int 1)], .node 3 true [.leaf 0 (.int 2)]]])) =
      some ([3, 1, 4, 0, 3],
        [(3, some [3, 2, 4, 0, 1, 4, 0, 2]), (2, some [3, 1, 0, 2]), (1, some [3, 1, 0, 1])]) := by decide +kernel

/-- (T) **recursive_placeholder_filled**: a cell `&a { plain scalars and back references *a }` read
through `RcRecursive` / `ArcRecursive` (payload fields through `RcRecursion` / `ArcRecursion`), for
every list of fields and from every state in which the id is fresh: the result is a new allocation `q`;
every back reference upgrades to `q` itself; after the call the cell is filled with the payload; the
pointer is stored under the id (so later aliases `*a` find it); the context stack is restored; the pump
recorded the node with the back references as null placeholders carrying the id. -/
theorem recursive_placeholder_filled (kind : Kind) (hk : kind.isRec = true) (tid a : Nat) (ha : a ≠ 0)
    (items : List RecItem) (s : DeSt) (hfresh : s.store.lookup (kind, a) = none)
    (hstack : (kind, a) ∉ s.stack) :
    ∃ s', de (.strong kind tid (.node (items.map (recTy kind tid)))) (.node a true (items.map (recDoc a))) s =
        .ok (.strong kind s.nextPtr, .node a true (items.map (recExp a)), s') ∧
      s'.cell s.nextPtr = some (.node true (items.map (recVal kind s.nextPtr))) ∧
      s'.store.lookup (kind, a) = some (s.nextPtr, tid) ∧ s'.stack = s.stack ∧
      s'.defs.lookup a = some (.node a true (items.map (recExp a))) :=
  rec_cell kind hk tid a ha items s hfresh hstack

/-- (T) **plain_fields_independent_copies**: an alias read into a wrapper-free type yields the recorded
node without its marks (`plainVal`) — so any two such reads of the same anchor are equal — contains no
pointer, allocates nothing and leaves the anchor store untouched: the copies are independent values. -/
theorem plain_fields_independent_copies (ty : Ty) (hp : plainTy ty = true) (id : Nat) (s : DeSt)
    (v : RVal) (e : Out) (s' : DeSt) (h : de ty (.alias id) s = .ok (v, e, s')) :
    resolveAlias s id = .ok e ∧ v = plainVal e ∧ pointerFree v = true ∧ SameStore s s' := by
  have h' : onAliasLive ty id s = .ok (v, e, s') := by
    cases ty with
    | leaf p => simpa [de, deCore] using h
    | node tys => simpa [de, deCore] using h
    | strong k t i => simp [plainTy] at hp
    | weak k t => simp [plainTy] at hp
  simp only [onAliasLive] at h'
  split at h'
  · cases h'
  · rename_i sub hs
    obtain ⟨a1, a2, a3, _, _, a6⟩ := plain_replay ty sub s v e s' hp h'
    subst a2
    exact ⟨hs, a1, a6, a3⟩

/-! ## The round trip -/

/-- **sharing_roundtrip, full strength** (FALSE of the code, see the counterexample): every object
graph that serializes is rebuilt with the same sharing — same pointer-equality classes, weak edges
upgrading to the rebuilt owner, dangling weak edges dangling, cells holding the rebuilt payloads. -/
def sharing_roundtrip_Full : Prop :=
  ∀ (fuel : Nat) (H : Heap) (v : Val) (o : Out) (S : SerSt), serialize fuel H v = .ok (o, S) →
    (∃ ty, tyOf fuel H v = some ty) →
    ∃ rv s, roundtrip fuel H v = .ok rv s ∧ SameSharing H v s rv

def serOk (r : Except SerErr (Out × SerSt)) : Bool :=
  match r with
  | .ok _ => true
  | .error _ => false

/-- (F) counterexample to `sharing_roundtrip_Full`: the documented limitation — a live weak field
before the strong field of its pointer serializes, but reading it back is the error `weakUnknown`. -/
theorem sharing_roundtrip_counterexample : ¬ sharing_roundtrip_Full := by
  intro h
  have h1 : serOk (serialize 6 [(1, .node true [.leaf (.int 5)])]
      (.node true [.weak .rc 1 1, .strong .rc 1 1])) = true := by decide +kernel
  have h2 : (tyOf 6 [(1, .node true [.leaf (.int 5)])]
      (.node true [.weak .rc 1 1, .strong .rc 1 1])).isSome = true := by decide +kernel
  cases hs : serialize 6 [(1, .node true [.leaf (.int 5)])]
      (.node true [.weak .rc 1 1, .strong .rc 1 1]) with
  | error e => rw [hs] at h1; cases h1
  | ok r =>
    obtain ⟨o, S⟩ := r
    obtain ⟨ty, hty⟩ := Option.isSome_iff_exists.mp h2
    obtain ⟨rv, s, hr, _⟩ := h 6 _ _ o S hs ⟨ty, hty⟩
    have := weak_before_strong_fails.2
    rw [hr] at this
    cases this

/-- (T) **sharing_roundtrip_partial** — records with one level of sharing.  For every record (sequence,
map, struct) whose fields are wrapper-free values or `RcAnchor` / `ArcAnchor` / `RcRecursive` /
`ArcRecursive` / weak wrappers around wrapper-free payloads other than a block scalar, with any sharing
pattern among the fields, any mix of kinds, any order and any number of dangling weak fields — provided
every *live* weak field comes after a strong field of the same pointer (`weaksAfterStrong`) — the round
trip succeeds and the rebuilt record has the same sharing (`SameSharing`): there is an injective renaming
of the original pointers such that each field is the renamed original (so two fields are one allocation
afterwards exactly if they were before, each live weak field upgrades to the allocation of its strong
owner, each dangling weak field is dangling), and each rebuilt allocation holds the original payload.
Missing for the full statement: wrappers nested inside payloads (covered by the differential run and by
`recursive_placeholder_filled`, `weak_upgrades_to_stored_owner`, `ser_defines_once`). -/
theorem sharing_roundtrip_partial (H : Heap) (kindOf : Ptr → Kind × Nat) (fuel : Nat) (m : Bool)
    (items : List Val) (hflat : ∀ it ∈ items, FlatItem H kindOf it)
    (hws : weaksAfterStrong H [] items = true)
    (o : Out) (S : SerSt) (hser : serialize fuel H (.node m items) = .ok (o, S))
    (ty : Ty) (hty : tyOf fuel H (.node m items) = some ty) :
    ∃ rv s, roundtrip fuel H (.node m items) = .ok rv s ∧ SameSharing H (.node m items) s rv := by
  obtain ⟨rv, s, hr⟩ := roundtrip_flat_ok H kindOf fuel m items hflat hws o S hser ty hty
  obtain ⟨vs, S', rfl, inv, hrel⟩ := roundtrip_flat H kindOf fuel m items hflat rv s hr
  exact ⟨_, s, hr, same_sharing_of_inv H kindOf S' s inv m items vs hflat hrel⟩

/-- (T) soundness without the ordering hypothesis: whenever the round trip of such a record succeeds at
all, the sharing is the same — a live weak field before its owner makes the round trip fail (an error),
it never produces wrong sharing. -/
theorem sharing_roundtrip_sound (H : Heap) (kindOf : Ptr → Kind × Nat) (fuel : Nat) (m : Bool)
    (items : List Val) (hflat : ∀ it ∈ items, FlatItem H kindOf it) (rv : RVal) (s : DeSt)
    (h : roundtrip fuel H (.node m items) = .ok rv s) : SameSharing H (.node m items) s rv := by
  obtain ⟨vs, S', rfl, inv, hrel⟩ := roundtrip_flat H kindOf fuel m items hflat rv s h
  exact same_sharing_of_inv H kindOf S' s inv m items vs hflat hrel

/-! ## Non-vacuity and behaviour on sample graphs -/

/-- a DAG over Rc and Arc with a weak edge after its owner: `{x: p, y: [p, q], w: weak p, z: q}` -/
def dagH : Heap := [(1, .node true [.leaf (.int 5), .strong .arc 8 3]), (2, .leaf (.int 6)),
                    (3, .node true [.leaf (.int 7)])]
def dagV : Val := .node true [.strong .rc 1 1, .node false [.strong .rc 1 1, .strong .rc 2 2],
                              .weak .rc 1 1, .strong .rc 2 2]

example : AnchorTaking dagH := by
  intro p v h
  simp only [dagH, List.lookup] at h
  split at h
  · cases h; rfl
  · split at h
    · cases h; rfl
    · split at h
      · cases h; rfl
      · cases h

example : outToks (serialize 8 dagH dagV) =
    some [.key, .anchor 1, .key, .int 5, .key, .anchor 2, .key, .int 7, .key, .dash, .alias 1, .dash,
          .anchor 3, .int 6, .key, .alias 1, .key, .alias 3] := by decide +kernel

/-- the rebuilt graph: the three occurrences of `p` (two strong, one weak) are allocation 2, the two
occurrences of `q` allocation 3, the Arc child allocation 1 -/
example : rtVal (roundtrip 8 dagH dagV) =
    some ([3, 4, 4, 0, 2, 3, 2, 4, 0, 2, 4, 0, 3, 5, 0, 2, 4, 0, 3],
      [(3, some [0, 6]), (2, some [3, 2, 0, 5, 4, 1, 1]), (1, some [3, 1, 0, 7])]) := by decide +kernel

/-- a self-referential cell through the recursive wrappers, referenced three more times -/
example : rtVal (roundtrip 8 [(1, .node true [.leaf (.int 5), .weak .rcRec 9 1])]
      (.node true [.strong .rcRec 9 1, .strong .rcRec 9 1, .weak .rcRec 9 1])) =
    some ([3, 3, 4, 2, 1, 4, 2, 1, 5, 2, 1], [(1, some [3, 2, 0, 5, 5, 2, 1]), (1, none)]) := by decide +kernel

/-- a record that satisfies the hypotheses of `sharing_roundtrip_partial`: Rc and Arc pointers, a weak
field after its owner, a dangling weak field first, repeated fields, plain fields, a `None` payload -/
def flatH : Heap := [(1, .node true [.leaf (.int 5), .leaf .null]), (2, .leaf .null)]
def flatKind : Ptr → Kind × Nat := fun p => if p = 1 then (.rc, 1) else if p = 2 then (.arc, 2) else (.rc, 1)
def flatItems : List Val :=
  [.weak .rc 1 9, .strong .rc 1 1, .strong .arc 2 2, .weak .rc 1 1, .strong .rc 1 1, .leaf (.int 7),
   .node false [.leaf .null], .strong .arc 2 2]

example : ∀ it ∈ flatItems, FlatItem flatH flatKind it := by
  intro it h
  simp only [flatItems, List.mem_cons, List.not_mem_nil, or_false] at h
  rcases h with rfl | rfl | rfl | rfl | rfl | rfl | rfl | rfl <;>
    simp [FlatItem, flatKind, flatH, List.lookup, plainV, plainVList, takesRoot, LeafKind.takesAnchor]

example : weaksAfterStrong flatH [] flatItems = true := by decide +kernel
example : serOk (serialize 6 flatH (.node true flatItems)) = true := by decide +kernel
example : (tyOf 6 flatH (.node true flatItems)).isSome = true := by decide +kernel
example : rtVal (roundtrip 6 flatH (.node true flatItems)) =
    some ([3, 8, 6, 0, 4, 0, 1, 4, 1, 2, 5, 0, 1, 4, 0, 1, 0, 7, 3, 1, 1, 4, 1, 2],
      [(2, some [1]), (1, some [3, 2, 0, 5, 1])]) := by decide +kernel

example : wellScoped (.node 0 true [.node 1 true [.leaf 0 (.int 5), .alias 1], .alias 1]) 0 = some 1 := by
  decide +kernel

#print axioms ser_fuel_mono
#print axioms ser_ids_in_range
#print axioms anchor_name_index_in_range
#print axioms ser_never_deadlocks
#print axioms ser_defines_once
#print axioms no_anchor_left_pending
#print axioms block_scalar_payload_written_in_full
#print axioms ser_defines_once_counterexample
#print axioms anchor_on_null_variant_and_nested_wrapper
#print axioms nested_wrapper_alias_is_refused
#print axioms arc_recursive_relock_serializes
#print axioms replay_keeps_definition_id
#print axioms alias_delivers_recorded
#print axioms weak_upgrades_to_stored_owner
#print axioms dangling_weak_reads_back
#print axioms unanchored_weak_is_dangling_or_error
#print axioms block_scalar_roundtrip_loses_sharing
#print axioms block_payload_inside_anchored_wrapper
#print axioms dangling_weak_roundtrip
#print axioms shared_none_roundtrip
#print axioms weak_needs_defined_owner
#print axioms weak_before_strong_fails
#print axioms unanchored_strong_is_fresh
#print axioms nested_unanchored_wrappers_are_independent
#print axioms recursive_placeholder_filled
#print axioms plain_fields_independent_copies
#print axioms sharing_roundtrip_counterexample
#print axioms sharing_roundtrip_partial
#print axioms sharing_roundtrip_sound

end SaphyrVerif.Props.C14
