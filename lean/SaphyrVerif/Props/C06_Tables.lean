import SaphyrVerif.Gen.Tables
import SaphyrVerif.Model.Scalars
/-!
Tie between the constants regenerated from `/repo/src` (Gen/Tables.lean) and the literals the
hand-written scalar model uses.  If the source changes a literal table, these obligations break.
-/
namespace SaphyrVerif.Props.C06_Tables
open SaphyrVerif

theorem bool_lits_match_source :
    Gen.boolTrueLits = ["true", "yes", "y", "on"] ∧ Gen.boolFalseLits = ["false", "no", "n", "off"] := by
  decide

theorem null_lits_match_source : Gen.nullTilde = "~" ∧ Gen.nullWord = "null" := by decide

end SaphyrVerif.Props.C06_Tables
