import SaphyrVerif.Spec.Interp
import SaphyrVerif.Lemmas.C04
import SaphyrVerif.Lemmas.C04_Capture
/-!
# C04 — duplicate-key policy is applied exactly, for keys of every YAML kind

Key identity (fingerprints), exactness of key capture / value skipping on the event stream, and the
three policies on the own entries of a mapping (`applyPolicy` in Spec/Interp.lean is what the typed
refinement theorem of C05 shows the map access to deliver).
-/
namespace SaphyrVerif.Props.C04
open SaphyrVerif SaphyrVerif.Scalars SaphyrVerif.Pump SaphyrVerif.De SaphyrVerif.Spec
open SaphyrVerif.Lemmas

mutual
/-- forget presentation: anchors, locations, styles, raw tag text — keep structure, scalar text, tag class -/
def erasePresentation : ENode → ENode
  | .scalar v tag _ _ _ _ => .scalar v tag none .plain 0 0
  | .seq _ _ _ _ _ items => .seq 0 0 none 0 0 (erasePresentationL items)
  | .map _ _ _ entries => .map 0 0 0 (erasePresentationE entries)
def erasePresentationL : List ENode → List ENode
  | [] => []
  | n :: ns => erasePresentation n :: erasePresentationL ns
def erasePresentationE : List (ENode × ENode) → List (ENode × ENode)
  | [] => []
  | (k, v) :: es => (erasePresentation k, erasePresentation v) :: erasePresentationE es
end

/-- (T) the executable fingerprint comparison is equality of fingerprints -/
theorem fp_beq_iff (a b : FP) : FP.beq a b = true ↔ a = b := by
  exact C04.beq_iff a b

mutual
theorem erase_eq_unfp : ∀ t : ENode, erasePresentation t = C04.unfp (fpOf t)
  | .scalar .. => by simp [erasePresentation, C04.unfp, fpOf]
  | .seq _ _ _ _ _ items => by simp [erasePresentation, C04.unfp, fpOf, eraseL_eq_unfpL items]
  | .map _ _ _ es => by simp [erasePresentation, C04.unfp, fpOf, eraseE_eq_unfpE es]
theorem eraseL_eq_unfpL : ∀ ts : List ENode, erasePresentationL ts = C04.unfpL (fpOfL ts)
  | [] => by simp [erasePresentationL, C04.unfpL, fpOfL]
  | t :: ts => by simp [erasePresentationL, C04.unfpL, fpOfL, erase_eq_unfp t, eraseL_eq_unfpL ts]
theorem eraseE_eq_unfpE : ∀ es : List (ENode × ENode), erasePresentationE es = C04.unfpE (fpOfE es)
  | [] => by simp [erasePresentationE, C04.unfpE, fpOfE]
  | (k, v) :: es => by
    simp [erasePresentationE, C04.unfpE, fpOfE, erase_eq_unfp k, erase_eq_unfp v, eraseE_eq_unfpE es]
end

/-- (T) fingerprint_eq_iff: two key nodes have equal fingerprints exactly when they have the same
structure, scalar text and tag class (style, anchors, locations, raw tag spelling are ignored; the
sequence tag class is not part of the identity). -/
theorem fingerprint_eq_iff (a b : ENode) :
    fpOf a = fpOf b ↔ erasePresentation a = erasePresentation b := by
  constructor
  · intro h; rw [erase_eq_unfp, erase_eq_unfp, h]
  · intro h
    have := congrArg fpOf h
    rwa [erase_eq_unfp, erase_eq_unfp, C04.fpOf_unfp, C04.fpOf_unfp] at this

/-- (T) capture_node_exact: on `pre ++ eflatten t ++ rest` the key capture consumes exactly the events of
`t`, returns them verbatim together with the fingerprint of `t` and its start location. -/
theorem capture_node_exact (t : ENode) (pre rest : List Ev) (ref : Option Loc) :
    ∃ n, ∀ fuel, n ≤ fuel →
      capture fuel (.replay (pre ++ eflatten t ++ rest) pre.length ref) =
        .ok ⟨fpOf t, eflatten t, t.loc⟩ (.replay (pre ++ eflatten t ++ rest) (pre.length + (eflatten t).length) ref) := by
  refine ⟨(eflatten t).length, fun fuel hf => ?_⟩
  exact C04.capture_exact_drop t ref (Cursor.drop_length_append_append pre (eflatten t) rest) hf

/-- (T) skip_one_node_exact: FirstWins discards exactly the value node of a repeated key -/
theorem skip_one_node_exact (t : ENode) (pre rest : List Ev) (ref : Option Loc) :
    ∃ n, ∀ fuel, n ≤ fuel →
      skipOneNode fuel (.replay (pre ++ eflatten t ++ rest) pre.length ref) =
        .ok () (.replay (pre ++ eflatten t ++ rest) (pre.length + (eflatten t).length) ref) := by
  refine ⟨(eflatten t).length + 1, fun fuel hf => ?_⟩
  exact C04.skipOneNode_exact_drop t ref (Cursor.drop_length_append_append pre (eflatten t) rest) hf

/-- keys of an entry list -/
def keyFps (es : List (ENode × ENode)) : List FP := es.map fun p => fpOf p.1

/-- (T) nodup_policy_irrelevant: without repeated keys all three policies keep every entry in order -/
theorem nodup_policy_irrelevant (p : DupPolicy) (own : List (ENode × ENode)) (h : (keyFps own).Nodup) :
    applyPolicy p own [] = some own := by
  exact C04.applyPolicy_nodup p own [] h (by simp)

/-- (T) error_policy_first_repeat: the Error policy fails exactly when some key repeats -/
theorem error_policy_iff (own : List (ENode × ENode)) :
    applyPolicy .error own [] = none ↔ ¬ (keyFps own).Nodup := by
  simpa [keyFps] using C04.applyPolicy_error_none_iff own []

/-- (T) last_wins_delivers_all_in_order -/
theorem last_wins_delivers_all (own : List (ENode × ENode)) : applyPolicy .lastWins own [] = some own := by
  exact C04.applyPolicy_lastWins own []

/-- (T) first_wins_is_delete_later: FirstWins returns the entry list with every later entry for an
already-seen key deleted: a sublist of the original, without repeated keys, containing the first entry
of every key; and the document with those entries deleted reads identically under every policy. -/
theorem first_wins_is_delete_later (own : List (ENode × ENode)) :
    ∃ r, applyPolicy .firstWins own [] = some r ∧ r.Sublist own ∧ (keyFps r).Nodup ∧
      (∀ e ∈ own, ∃ e' ∈ r, fpOf e'.1 = fpOf e.1) ∧
      (∀ p, applyPolicy p r [] = some r) := by
  obtain ⟨r, h1, h2⟩ := C04.applyPolicy_firstWins own []
  have hnd := (C04.applyPolicy_nodup_of_ne_lastWins .firstWins (by decide) own [] r h1).1
  refine ⟨r, h1, C04.applyPolicy_sublist _ own [] r h1, hnd, fun e he => ?_, fun p => ?_⟩
  · rcases h2 e he with h | h
    · cases h
    · exact h
  · exact C04.applyPolicy_nodup p r [] hnd (by simp)

/-- first occurrence of each key is the one kept -/
theorem first_wins_keeps_first (k v : ENode) (rest : List (ENode × ENode)) :
    ∃ r, applyPolicy .firstWins ((k, v) :: rest) [] = some ((k, v) :: r) := by
  obtain ⟨r, h1, _⟩ := C04.applyPolicy_firstWins rest [fpOf k]
  exact ⟨r, by simp [applyPolicy, h1]⟩

-- (E) non-vacuity: a sequence key, a mapping key and a quoted/plain pair collide as stated
def kSeq (st : Style) (l : Loc) : ENode := .seq 0 0 none l l [.scalar ['a'] 0 none st 0 l]
example : applyPolicy .error [(kSeq .plain 1, .scalar ['1'] 0 none .plain 0 2), (kSeq .double 3, .scalar ['2'] 0 none .plain 0 4)] [] = none := by
  decide
example : (applyPolicy .firstWins [(kSeq .plain 1, .scalar ['1'] 0 none .plain 0 2), (kSeq .double 3, .scalar ['2'] 0 none .plain 0 4)] []).map List.length = some 1 := by
  decide
example : fpOf (.scalar ['a'] 0 none .plain 0 1) = fpOf (.scalar ['a'] 0 none .double 7 9) := rfl
example : (fpOf (.scalar ['a'] 0 none .plain 0 1) == fpOf (.scalar ['a'] 9 (some ['!','!','s','t','r']) .plain 0 1)) = false := by decide

#print axioms fp_beq_iff
#print axioms fingerprint_eq_iff
#print axioms capture_node_exact
#print axioms skip_one_node_exact
#print axioms nodup_policy_irrelevant
#print axioms error_policy_iff
#print axioms last_wins_delivers_all
#print axioms first_wins_is_delete_later
#print axioms first_wins_keeps_first

end SaphyrVerif.Props.C04
