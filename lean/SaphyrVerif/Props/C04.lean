import SaphyrVerif.Spec.Interp
import SaphyrVerif.Lemmas.C04
import SaphyrVerif.Lemmas.C04_Capture
import SaphyrVerif.Lemmas.C04_Loc
/-!
# C04 — duplicate-key policy is applied exactly, for keys of every YAML kind

Key identity (fingerprints), exactness of key capture / value skipping on the event stream, and the
three policies on the own entries of a mapping (`applyPolicy` in Spec/Interp.lean is what the typed
refinement theorem of C05 shows the map access to deliver).
-/
namespace SaphyrVerif.Props.C04
open SaphyrVerif SaphyrVerif.Scalars SaphyrVerif.Pump SaphyrVerif.De SaphyrVerif.Spec
open SaphyrVerif.Lemmas

mutual
/-- forget presentation: anchors, locations, styles, raw tag text — keep structure, scalar text, tag class -/
def erasePresentation : ENode → ENode
  | .scalar v tag _ _ _ _ => .scalar v tag none .plain 0 0
  | .seq _ _ _ _ _ items => .seq 0 0 none 0 0 (erasePresentationL items)
  | .map _ _ _ entries => .map 0 0 0 (erasePresentationE entries)
def erasePresentationL : List ENode → List ENode
  | [] => []
  | n :: ns => erasePresentation n :: erasePresentationL ns
def erasePresentationE : List (ENode × ENode) → List (ENode × ENode)
  | [] => []
  | (k, v) :: es => (erasePresentation k, erasePresentation v) :: erasePresentationE es
end

/-- (T) the executable fingerprint comparison is equality of fingerprints -/
theorem fp_beq_iff (a b : FP) : FP.beq a b = true ↔ a = b := by
  exact C04.beq_iff a b

mutual
theorem erase_eq_unfp : ∀ t : ENode, erasePresentation t = C04.unfp (fpOf t)
  | .scalar .. => by simp [erasePresentation, C04.unfp, fpOf]
  | .seq _ _ _ _ _ items => by simp [erasePresentation, C04.unfp, fpOf, eraseL_eq_unfpL items]
  | .map _ _ _ es => by simp [erasePresentation, C04.unfp, fpOf, eraseE_eq_unfpE es]
theorem eraseL_eq_unfpL : ∀ ts : List ENode, erasePresentationL ts = C04.unfpL (fpOfL ts)
  | [] => by simp [erasePresentationL, C04.unfpL, fpOfL]
  | t :: ts => by simp [erasePresentationL, C04.unfpL, fpOfL, erase_eq_unfp t, eraseL_eq_unfpL ts]
theorem eraseE_eq_unfpE : ∀ es : List (ENode × ENode), erasePresentationE es = C04.unfpE (fpOfE es)
  | [] => by simp [erasePresentationE, C04.unfpE, fpOfE]
  | (k, v) :: es => by
    simp [erasePresentationE, C04.unfpE, fpOfE, erase_eq_unfp k, erase_eq_unfp v, eraseE_eq_unfpE es]
end

/-- (T) fingerprint_eq_iff: two key nodes have equal fingerprints exactly when they have the same
structure, scalar text and tag class (style, anchors, locations, raw tag spelling are ignored; the
sequence tag class is not part of the identity). -/
theorem fingerprint_eq_iff (a b : ENode) :
    fpOf a = fpOf b ↔ erasePresentation a = erasePresentation b := by
  constructor
  · intro h; rw [erase_eq_unfp, erase_eq_unfp, h]
  · intro h
    have := congrArg fpOf h
    rwa [erase_eq_unfp, erase_eq_unfp, C04.fpOf_unfp, C04.fpOf_unfp] at this

/-- (T) capture_node_exact: on `pre ++ eflatten t ++ rest` the key capture consumes exactly the events of
`t`, returns them verbatim together with the fingerprint of `t` and its start location. -/
theorem capture_node_exact (t : ENode) (pre rest : List Ev) (ref : Option Loc) :
    ∃ n, ∀ fuel, n ≤ fuel →
      capture fuel (.replay (pre ++ eflatten t ++ rest) pre.length ref) =
        .ok ⟨fpOf t, eflatten t, t.loc⟩ (.replay (pre ++ eflatten t ++ rest) (pre.length + (eflatten t).length) ref) := by
  refine ⟨(eflatten t).length, fun fuel hf => ?_⟩
  exact C04.capture_exact_drop t ref (Cursor.drop_length_append_append pre (eflatten t) rest) hf

/-- (T) skip_one_node_exact: FirstWins discards exactly the value node of a repeated key -/
theorem skip_one_node_exact (t : ENode) (pre rest : List Ev) (ref : Option Loc) :
    ∃ n, ∀ fuel, n ≤ fuel →
      skipOneNode fuel (.replay (pre ++ eflatten t ++ rest) pre.length ref) =
        .ok () (.replay (pre ++ eflatten t ++ rest) (pre.length + (eflatten t).length) ref) := by
  refine ⟨(eflatten t).length + 1, fun fuel hf => ?_⟩
  exact C04.skipOneNode_exact_drop t ref (Cursor.drop_length_append_append pre (eflatten t) rest) hf

/-- keys of an entry list -/
def keyFps (es : List (ENode × ENode)) : List FP := es.map fun p => fpOf p.1

/-- (T) nodup_policy_irrelevant: without repeated keys all three policies keep every entry in order -/
theorem nodup_policy_irrelevant (p : DupPolicy) (own : List (ENode × ENode)) (h : (keyFps own).Nodup) :
    applyPolicy p own [] = some own := by
  exact C04.applyPolicy_nodup p own [] h (by simp)

/-- (T) error_policy_first_repeat: the Error policy fails exactly when some key repeats -/
theorem error_policy_iff (own : List (ENode × ENode)) :
    applyPolicy .error own [] = none ↔ ¬ (keyFps own).Nodup := by
  simpa [keyFps] using C04.applyPolicy_error_none_iff own []

/-- (T) last_wins_delivers_all_in_order -/
theorem last_wins_delivers_all (own : List (ENode × ENode)) : applyPolicy .lastWins own [] = some own := by
  exact C04.applyPolicy_lastWins own []

/-- (T) first_wins_is_delete_later: FirstWins returns the entry list with every later entry for an
already-seen key deleted: a sublist of the original, without repeated keys, containing the first entry
of every key; and the document with those entries deleted reads identically under every policy. -/
theorem first_wins_is_delete_later (own : List (ENode × ENode)) :
    ∃ r, applyPolicy .firstWins own [] = some r ∧ r.Sublist own ∧ (keyFps r).Nodup ∧
      (∀ e ∈ own, ∃ e' ∈ r, fpOf e'.1 = fpOf e.1) ∧
      (∀ p, applyPolicy p r [] = some r) := by
  obtain ⟨r, h1, h2⟩ := C04.applyPolicy_firstWins own []
  have hnd := (C04.applyPolicy_nodup_of_ne_lastWins .firstWins (by decide) own [] r h1).1
  refine ⟨r, h1, C04.applyPolicy_sublist _ own [] r h1, hnd, fun e he => ?_, fun p => ?_⟩
  · rcases h2 e he with h | h
    · cases h
    · exact h
  · exact C04.applyPolicy_nodup p r [] hnd (by simp)

/-- first occurrence of each key is the one kept -/
theorem first_wins_keeps_first (k v : ENode) (rest : List (ENode × ENode)) :
    ∃ r, applyPolicy .firstWins ((k, v) :: rest) [] = some ((k, v) :: r) := by
  obtain ⟨r, h1, _⟩ := C04.applyPolicy_firstWins rest [fpOf k]
  exact ⟨r, by simp [applyPolicy, h1]⟩

-- (E) non-vacuity: a sequence key, a mapping key and a quoted/plain pair collide as stated
def kSeq (st : Style) (l : Loc) : ENode := .seq 0 0 none l l [.scalar ['a'] 0 none st 0 l]
example : applyPolicy .error [(kSeq .plain 1, .scalar ['1'] 0 none .plain 0 2), (kSeq .double 3, .scalar ['2'] 0 none .plain 0 4)] [] = none := by
  decide
example : (applyPolicy .firstWins [(kSeq .plain 1, .scalar ['1'] 0 none .plain 0 2), (kSeq .double 3, .scalar ['2'] 0 none .plain 0 4)] []).map List.length = some 1 := by
  decide
example : fpOf (.scalar ['a'] 0 none .plain 0 1) = fpOf (.scalar ['a'] 0 none .double 7 9) := rfl
example : (fpOf (.scalar ['a'] 0 none .plain 0 1) == fpOf (.scalar ['a'] 9 (some ['!','!','s','t','r']) .plain 0 1)) = false := by decide

/-! ## Where the duplicate-key error of the Error policy is located

`MA::next_key_seed`, live path (fix: the location used to be `key_node.location()`, which for a key written
as an alias `*k` is the mark of the ANCHORED node — an earlier entry).  Now: `key_is_alias = ev.at_alias()`
right after the look-ahead, and the error carries `ev.reference_location()` (read after the capture: the
exhausted replay frame of the alias is still on the stack) when the flag is set, `key_node.location()`
otherwise.  `Cur.atAlias` / `Cur.refLoc` transcribe the two `Events` methods. -/

/-- the mark of the node the look-ahead shows AS WRITTEN at this position: the alias token when the position is
written as an alias (`c1` = cursor after the look-ahead, `c2` = cursor after the node has been captured), the
node's own mark (location of its first event) otherwise -/
def keyWrittenAt (c1 c2 : Cur) (ev : Ev) : Loc := if c1.atAlias then c2.refLoc else ev.loc

/-- (T) duplicate_error_at_use_site — clause "the Error policy fails with a duplicate-key error located at
the repeated key".  For EVERY cursor (live pump in any state, recorded buffer), every map-access state with
nothing pending and not flushing (`seen` = the keys of any number of earlier entries, any merges collected so
far), every key shape (whatever `capture` returns: scalar, sequence, mapping), every key seed: when the
look-ahead shows a node that is captured as a key which is not `<<` and whose fingerprint has been seen, the
call fails with `DuplicateMappingKey` located at the key as written at THIS position (`keyWrittenAt`) and
nowhere else — in particular not at `key.loc` of an alias key, which is the mark of the anchored node. What
`keyWrittenAt` is on the cursors of the model is stated by `key_written_at_alias` (alias token),
`key_written_at_parser_node` / `key_written_at_replayed` / `key_written_at_recorded` (own mark). -/
theorem duplicate_error_at_use_site (fuel : Nat) (cfg : Cfg) (hpol : cfg.dup = .error) (ks : Ty ⊕ Unit)
    (c c1 c2 : Cur) (m : MA) (hp : m.pending = []) (hf : m.flushingMerges = false)
    (ev : Ev) (hpk : c.peek = .ok (some ev) c1) (hne : ∀ l, ev ≠ .mapEnd l)
    (key : KeyNode) (hcap : capture fuel c1 = .ok key c2) (hmk : isMergeKey key = false)
    (hdup : m.seenContains key.fp = true) :
    nextKey (fuel + 1) cfg ks c m = .err ⟨"DuplicateMappingKey", keyWrittenAt c1 c2 ev, 0⟩ c2 := by
  rw [C04Loc.nextKey_dup_error fuel cfg hpol ks c c1 c2 m hp hf ev hpk hne key hcap hmk hdup,
    C04Loc.capture_loc_of_peek hpk hcap]
  rfl

/-- (T) the key position is written as an alias `*x` (token at `aloc`; nothing is being replayed, `x` is not
being defined, its recorded buffer is the event list of a node `t` — C02 `alias_expansion_is_buffer`; any
budget, any limits): if the look-ahead yields an event and the key is captured, `keyWrittenAt` is the ALIAS
TOKEN `aloc`, while the captured key itself carries the anchored node's mark `t.loc`. -/
theorem key_written_at_alias (p : Pump) (id : Nat) (aloc : Loc) (rest : List RawItem) (t : ENode)
    (ev : Ev) (p' : Pump) (r : List RawItem)
    (hl : p.look = none) (hi : p.inject = [])
    (hrec : p.recStack.any (fun f => f.id == id) = false)
    (hbuf : lookupAnchor p.anchors id = some (eflatten t))
    (h : Pump.peek p (.ev (.alias id) aloc :: rest) = (.event ev, p', r))
    (fuel : Nat) (key : KeyNode) (c2 : Cur) (hcap : capture fuel (.live p' r) = .ok key c2) :
    keyWrittenAt (.live p' r) c2 ev = aloc ∧ key.loc = t.loc := by
  obtain ⟨h0, hat, hfr⟩ := C04Loc.peek_alias p id aloc rest (eflatten t) ev p' r hl hi hrec hbuf
    (C04.eflatten_length_pos t) h
  refine ⟨?_, ?_⟩
  · simp only [keyWrittenAt, hat, if_true]
    exact C04Loc.capture_alias_refLoc t hfr hcap
  · rw [C04Loc.capture_loc_of_peek (C16.live_peek_of _ _ _ _ _ h) hcap]
    cases t <;> (simp only [eflatten, List.getElem?_cons_zero, Option.some.injEq] at h0; subst h0; rfl)

/-- (T) the key position holds a node item of the parser (scalar / sequence start / mapping start at `loc`,
nothing being replayed; any budget): `keyWrittenAt` is the node's own mark, which is the item's location. -/
theorem key_written_at_parser_node (p : Pump) (raw : Raw) (loc : Loc) (rest : List RawItem)
    (ev : Ev) (p' : Pump) (r : List RawItem) (hl : p.look = none) (hi : p.inject = [])
    (hraw : (∃ v st a t, raw = .scalar v st a t) ∨ (∃ a t, raw = .seqStart a t) ∨ (∃ a t, raw = .mapStart a t))
    (h : Pump.peek p (.ev raw loc :: rest) = (.event ev, p', r)) (c2 : Cur) :
    keyWrittenAt (.live p' r) c2 ev = loc := by
  have hnil : p'.inject = [] := by
    have := C04Loc.peek_node_inject_nil p raw loc rest hl hi hraw
    rw [h] at this; exact this
  simp only [keyWrittenAt, C04Loc.atAlias_live_nil p' r hnil, Bool.false_eq_true, if_false]
  exact C04Loc.peek_node_loc p raw loc rest ev p' r hl hi hraw h

/-- (T) the key position lies INSIDE a subtree that is being replayed (top frame `fr` over the recorded buffer
`buf`, not exhausted; `1 ≤ fr.idx` holds between any two pump calls, `C04Loc.peek_idxPos` / `next_idxPos`):
`keyWrittenAt` is the own mark of the recorded event `buf[fr.idx]` — the definition-site mark of the key, not
the alias token of the enclosing replay (which is what `reference_location()` answers there). -/
theorem key_written_at_replayed (p : Pump) (inp : List RawItem) (fr : InjectFrame) (frs : List InjectFrame)
    (buf : List Ev) (ev : Ev) (p' : Pump) (r : List RawItem)
    (hl : p.look = none) (hi : p.inject = fr :: frs)
    (hb : lookupAnchor p.anchors fr.anchorId = some buf) (hidx : fr.idx < buf.length) (hpos : 1 ≤ fr.idx)
    (h : Pump.peek p inp = (.event ev, p', r)) (c2 : Cur) :
    keyWrittenAt (.live p' r) c2 ev = ev.loc ∧ buf[fr.idx]? = some ev ∧ (Cur.live p' r).refLoc = fr.refLoc := by
  obtain ⟨h1, h2, h3⟩ := C04Loc.peek_in_frame p inp fr frs buf ev p' r hl hi hb hidx hpos h
  exact ⟨by simp [keyWrittenAt, h2], h1, h3⟩

/-- (T) on a recorded buffer (keys of merged mappings, nested mappings inside a recorded key or a buffered /
merged value; with or without use-site override): `keyWrittenAt` is the node's own mark. -/
theorem key_written_at_recorded (buf : List Ev) (idx : Nat) (ref : Option Loc) (c2 : Cur) (ev : Ev) :
    keyWrittenAt (.replay buf idx ref) c2 ev = ev.loc := rfl

/-- (T) duplicate_error_at_written_token_partial — the two theorems above put together for a key TOKEN READ
FROM THE PARSER (excluding hypothesis, visible: `p.inject = []`, the mapping is not itself inside a subtree
that is being replayed): whether the repeated key is written out (`raw` a scalar / sequence / mapping start) or
written as an alias `*x` of an earlier node, the error is located at `loc`, the location of that token. -/
theorem duplicate_error_at_written_token_partial (fuel : Nat) (cfg : Cfg) (hpol : cfg.dup = .error) (ks : Ty ⊕ Unit)
    (p : Pump) (raw : Raw) (loc : Loc) (rest : List RawItem) (m : MA)
    (hp : m.pending = []) (hf : m.flushingMerges = false)
    (hl : p.look = none) (hi : p.inject = [])
    (hraw : (∃ v st a t, raw = .scalar v st a t) ∨ (∃ a t, raw = .seqStart a t) ∨ (∃ a t, raw = .mapStart a t) ∨
      (∃ id t, raw = .alias id ∧ p.recStack.any (fun f => f.id == id) = false ∧
        lookupAnchor p.anchors id = some (eflatten t)))
    (ev : Ev) (p' : Pump) (r : List RawItem) (h : Pump.peek p (.ev raw loc :: rest) = (.event ev, p', r))
    (hne : ∀ l, ev ≠ .mapEnd l)
    (key : KeyNode) (c2 : Cur) (hcap : capture fuel (.live p' r) = .ok key c2) (hmk : isMergeKey key = false)
    (hdup : m.seenContains key.fp = true) :
    nextKey (fuel + 1) cfg ks (.live p (.ev raw loc :: rest)) m = .err ⟨"DuplicateMappingKey", loc, 0⟩ c2 := by
  rw [duplicate_error_at_use_site fuel cfg hpol ks _ _ c2 m hp hf ev (C16.live_peek_of _ _ _ _ _ h) hne key hcap hmk hdup]
  have hw : keyWrittenAt (.live p' r) c2 ev = loc := by
    rcases hraw with hs | hs | hs | ⟨id, t, rfl, hrec, hbuf⟩
    · exact key_written_at_parser_node p raw loc rest ev p' r hl hi (Or.inl hs) h c2
    · exact key_written_at_parser_node p raw loc rest ev p' r hl hi (Or.inr (Or.inl hs)) h c2
    · exact key_written_at_parser_node p raw loc rest ev p' r hl hi (Or.inr (Or.inr hs)) h c2
    · exact (key_written_at_alias p id loc rest t ev p' r hl hi hrec hbuf h fuel key c2 hcap).1
  rw [hw]

/-- (T) the buffered path of `next_key_seed` (`if let Some(entry) = self.pending.pop_front()`, location
`key.location()` of the recorded key) never reports an OWN entry: outside flushing the queue only ever holds the
one entry the live path has just buffered for a one-entry-null-key mapping key, AFTER that key passed the
duplicate check of the live path (`seen` is unchanged in between); for such an entry (`seenContains = false`,
any policy) every error of the call is an error of deserializing the key itself.  (Entries that come from
merges are delivered while flushing, where a repeated key is skipped, never reported.)  Hence the location rule
of `duplicate_error_at_use_site` is the only one in force for duplicate reports. -/
theorem pending_path_never_reports_fresh_entry (fuel : Nat) (cfg : Cfg) (ks : Ty ⊕ Unit) (c : Cur) (m : MA)
    (entry : PendingEntry) (rest : List PendingEntry) (hp : m.pending = entry :: rest)
    (hf : m.flushingMerges = false) (hnd : m.seenContains entry.key.fp = false)
    (e : DErr) (c' : Cur) (h : nextKey (fuel + 1) cfg ks c m = .err e c') :
    ∃ kev kemn, deserKey fuel cfg ks kev kemn = .error e := by
  rw [nextKey] at h
  simp only [hp] at h
  have hnd' : m.seen.any (· == entry.key.fp) = false := hnd
  simp only [hf, MA.seenContains, hnd', Bool.false_eq_true, if_false] at h
  cases hd : cfg.dup <;> simp only [hd] at h <;>
  (split at h
   · rename_i x e0 hk
     simp only [R.err.injEq] at h
     exact ⟨_, _, by rw [hk, h.1]⟩
   · cases h)

/-- digest of a run: kind and the two locations of the error -/
def errOf (r : R Val) : Option (String × Loc × Loc) :=
  match r with
  | .ok _ _ => none
  | .err e _ => some (e.kind, e.loc, e.loc2)

def locPump : Pump := { limits := ⟨1000, 8, 100⟩ }

-- (E) non-vacuity, alias key whose anchor sits in an EARLIER entry, one entry in between:
-- `&k a: 1` (key at 11) / `b: 2` / `*k : 3` (alias token at 15): the error is at 15, not at 11
example : errOf (deser 40 {} (.map .string (.int true 32)) false false (.live locPump
    [.ev .streamStart 10, .ev (.docStart false) 10, .ev (.mapStart 0 none) 10,
     .ev (.scalar ['a'] .plain 1 none) 11, .ev (.scalar ['1'] .plain 0 none) 12,
     .ev (.scalar ['b'] .plain 0 none) 13, .ev (.scalar ['2'] .plain 0 none) 14,
     .ev (.alias 1) 15, .ev (.scalar ['3'] .plain 0 none) 16,
     .ev .mapEnd 17, .ev .docEnd 17, .ev .streamEnd 17])) = some ("DuplicateMappingKey", 15, 0) := by
  decide +kernel
-- the anchor in an earlier entry's VALUE (`x: &k a` at 12), the first occurrence written out (`a: 1` at 13), the
-- repeat written as the alias (`*k : 2` at 15); and the other way round (`*k : 1` at 13 first, `a: 2` at 15 repeats)
example : errOf (deser 40 {} (.map .string .any) false false (.live locPump
    [.ev .streamStart 10, .ev (.docStart false) 10, .ev (.mapStart 0 none) 10,
     .ev (.scalar ['x'] .plain 0 none) 11, .ev (.scalar ['a'] .plain 1 none) 12,
     .ev (.scalar ['a'] .plain 0 none) 13, .ev (.scalar ['1'] .plain 0 none) 14,
     .ev (.alias 1) 15, .ev (.scalar ['2'] .plain 0 none) 16,
     .ev .mapEnd 17, .ev .docEnd 17, .ev .streamEnd 17])) = some ("DuplicateMappingKey", 15, 0) := by
  decide +kernel
example : errOf (deser 40 {} (.map .string .any) false false (.live locPump
    [.ev .streamStart 10, .ev (.docStart false) 10, .ev (.mapStart 0 none) 10,
     .ev (.scalar ['x'] .plain 0 none) 11, .ev (.scalar ['a'] .plain 1 none) 12,
     .ev (.alias 1) 13, .ev (.scalar ['1'] .plain 0 none) 14,
     .ev (.scalar ['a'] .plain 0 none) 15, .ev (.scalar ['2'] .plain 0 none) 16,
     .ev .mapEnd 17, .ev .docEnd 17, .ev .streamEnd 17])) = some ("DuplicateMappingKey", 15, 0) := by
  decide +kernel
-- a composite alias key: `&k [1, 2]: x` (sequence at 11) / `*k : z` (alias token at 16)
example : errOf (deser 40 {} (.map (.tuple [.int true 32, .int true 32]) .string) false false (.live locPump
    [.ev .streamStart 10, .ev (.docStart false) 10, .ev (.mapStart 0 none) 10,
     .ev (.seqStart 1 none) 11, .ev (.scalar ['1'] .plain 0 none) 12, .ev (.scalar ['2'] .plain 0 none) 13, .ev .seqEnd 14,
     .ev (.scalar ['x'] .plain 0 none) 15,
     .ev (.alias 1) 16, .ev (.scalar ['z'] .plain 0 none) 17,
     .ev .mapEnd 18, .ev .docEnd 18, .ev .streamEnd 18])) = some ("DuplicateMappingKey", 16, 0) := by
  decide +kernel
-- a written-out repeat keeps its own mark, and a written-out repeat INSIDE a replayed subtree keeps its
-- definition-site mark: `<<: &m {a: 1, a: 2}` (second `a` at 15; merged, so not reported there) / `e: {V: *m}`
-- (alias token at 21, struct-variant payload: no enclosing access rewrites the error): located at 15, not at 21
example : errOf (deser 60 {} (.struct [("e", .enum "E" [("V", .struct [("a", .int true 32)])])] false) false false
    (.live locPump
    [.ev .streamStart 10, .ev (.docStart false) 10, .ev (.mapStart 0 none) 10,
     .ev (.scalar "<<".toList .plain 0 none) 11, .ev (.mapStart 1 none) 12,
     .ev (.scalar ['a'] .plain 0 none) 13, .ev (.scalar ['1'] .plain 0 none) 14,
     .ev (.scalar ['a'] .plain 0 none) 15, .ev (.scalar ['2'] .plain 0 none) 16, .ev .mapEnd 17,
     .ev (.scalar ['e'] .plain 0 none) 18, .ev (.mapStart 0 none) 19, .ev (.scalar ['V'] .plain 0 none) 20,
     .ev (.alias 1) 21, .ev .mapEnd 22, .ev .mapEnd 23, .ev .docEnd 23, .ev .streamEnd 23])) =
    some ("DuplicateMappingKey", 15, 0) := by
  decide +kernel

/-- (F) the remainder, on a witness: an alias key INSIDE a replayed subtree is still reported at the ANCHOR.
`<<: &m {&k a: 1, *k : 2}` (anchored key `a` at 13, the alias token `*k` at 15; a merge source, so nothing is
reported while it is read) / `e: {V: *m}` (alias token `*m` at 21).  While `*m` is replayed the recorded buffer
of `m` holds the already expanded events of `*k` — the alias item is never recorded — so the second key arrives
as the scalar `a` at 13 with `at_alias() = false`: the error is located at 13, the mark of the FIRST entry's key,
neither at the token `*k` (15) nor at the use site (21).  (Same outcome in the implementation:
`<<: &m {&k a: 1, *k : 2}\ne: {V: *m}\n` into a struct with an enum field reports line 1 column 12.) -/
theorem duplicate_error_alias_key_in_replayed_subtree_counterexample :
    errOf (deser 60 {} (.struct [("e", .enum "E" [("V", .struct [("a", .int true 32)])])] false) false false
      (.live locPump
      [.ev .streamStart 10, .ev (.docStart false) 10, .ev (.mapStart 0 none) 10,
       .ev (.scalar "<<".toList .plain 0 none) 11, .ev (.mapStart 1 none) 12,
       .ev (.scalar ['a'] .plain 2 none) 13, .ev (.scalar ['1'] .plain 0 none) 14,
       .ev (.alias 2) 15, .ev (.scalar ['2'] .plain 0 none) 16, .ev .mapEnd 17,
       .ev (.scalar ['e'] .plain 0 none) 18, .ev (.mapStart 0 none) 19, .ev (.scalar ['V'] .plain 0 none) 20,
       .ev (.alias 1) 21, .ev .mapEnd 22, .ev .mapEnd 23, .ev .docEnd 23, .ev .streamEnd 23])) =
      some ("DuplicateMappingKey", 13, 0) := by
  decide +kernel

#print axioms fp_beq_iff
#print axioms fingerprint_eq_iff
#print axioms capture_node_exact
#print axioms skip_one_node_exact
#print axioms nodup_policy_irrelevant
#print axioms error_policy_iff
#print axioms last_wins_delivers_all
#print axioms first_wins_is_delete_later
#print axioms first_wins_keeps_first
#print axioms duplicate_error_at_use_site
#print axioms key_written_at_alias
#print axioms key_written_at_parser_node
#print axioms key_written_at_replayed
#print axioms key_written_at_recorded
#print axioms duplicate_error_at_written_token_partial
#print axioms pending_path_never_reports_fresh_entry
#print axioms duplicate_error_alias_key_in_replayed_subtree_counterexample

end SaphyrVerif.Props.C04
