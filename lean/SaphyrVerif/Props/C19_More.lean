import SaphyrVerif.Props.C19
import SaphyrVerif.Lemmas.C19StepsBound
import SaphyrVerif.Lemmas.C19Sexa
/-!
# C19 — further clauses: bounded work, bounded recursion, tag handling for both widths

* "no unbounded work / no unbounded recursion" as COUNTED quantities of an instrumented copy of the
  evaluator model (`Lemmas/C19Steps.lean`; `eval_instrumented_is_model` ties the copy to the model).
* what `parse_yaml12_float` returns on every scalar of the grammar, for `f64` and `f32`, for every tag
  (`!degrees`, `!radians`, others).
-/
namespace SaphyrVerif.Props.C19
open SaphyrVerif SaphyrVerif.F64 SaphyrVerif.Robotics SaphyrVerif.Spec.Robotics
open SaphyrVerif.Lemmas.C19S (evalExprT)

/-! ## bounded work, bounded recursion -/

/-- (T) the instrumented evaluator computes exactly what the model computes (every byte string, every tag). -/
theorem eval_instrumented_is_model (tag : Nat) (s : List Nat) : (evalExprT tag s).val = evalExpr tag s :=
  Lemmas.C19S.evalExprT_val tag s

/-- (T) `work_linear` — "no super-linear work": for EVERY byte string (accepted or not, UTF-8 or not) and
every tag, the evaluation takes at most `48 · length + 48` steps, where a step is a function call or one
iteration of any loop of `robotics.rs` (white-space skip, sign loop, the three digit loops, identifier
scan, sexagesimal look-ahead, the field readers, the `loop`s of `expr` and `term`), `starts_ci` counts 4,
the keyword comparisons 6, and the final `f64::from_str(buf)` counts the length of `buf`. -/
theorem work_linear (tag : Nat) (s : List Nat) :
    (evalExprT tag s).val = evalExpr tag s ∧ (evalExprT tag s).steps ≤ 48 * s.length + 48 :=
  ⟨Lemmas.C19S.evalExprT_val tag s, Lemmas.C19S.evalExprT_steps tag s⟩

/-- (T) `recursion_bounded`: for EVERY byte string and every tag the call tree of the evaluation is at most
`5 · (MAX_EXPR_DEPTH + 1) + 4` frames deep (`MAX_EXPR_DEPTH` = `Gen.roboticsMaxExprDepth`, regenerated
from the source): per nesting level `expr → term → unary → primary → parse_ident_or_special`, below the
deepest level `parse_number_or_special → try_parse_sexagesimal → read_uint_unders_to_u32 → …_to_f64`. -/
theorem recursion_bounded (tag : Nat) (s : List Nat) :
    (evalExprT tag s).frames ≤ 5 * (Gen.roboticsMaxExprDepth + 1) + 4 :=
  Lemmas.C19S.evalExprT_frames tag s

/-- (E) the instrumented run of `1 + 2*(3 - 4/5)` (15 bytes): 153 steps, 11 frames, value 5.4. -/
example : (evalExprT 0 (bytes "1 + 2*(3 - 4/5)")).steps = 153 ∧ (evalExprT 0 (bytes "1 + 2*(3 - 4/5)")).frames = 11 ∧
    (evalExprT 0 (bytes "1 + 2*(3 - 4/5)")).val = .ok (ofBits binary64 0x401599999999999A) := by decide

/-- (E) five frames per nesting level are really used by `deg(`: three nested calls around a sexagesimal
form reach 24 = 5·4 + 4 frames; parentheses use four per level. -/
example : (evalExprT 0 (bytes "deg(deg(deg(1:30:20.5)))")).frames = 24 := by decide +kernel
example : (evalExprT 0 (bytes "(((1:30:20.5)))")).frames = 21 := by decide +kernel

/-! ## what `parse_yaml12_float` returns on a scalar of the grammar -/

/-- (T) tag handling, reference side: `!radians` (and every tag other than `!degrees`) never converts and
never rejects; `!degrees` converts a unit-free value by ONE multiplication, leaves a fully unitized value
alone, and rejects the mix. -/
theorem topValue_other (tag : Nat) (htag : tag ≠ TAG_DEGREES) (ev : Eval) : topValue tag ev = some ev.1 := by
  have : (tag == TAG_DEGREES) = false := by simpa using htag
  unfold topValue
  cases ev.2.1 <;> simp [this]

theorem topValue_radians (ev : Eval) : topValue TAG_RADIANS ev = some ev.1 :=
  topValue_other TAG_RADIANS (by decide) ev

theorem topValue_degrees (ev : Eval) :
    topValue TAG_DEGREES ev =
      if ev.2.1 = false then some (mul F ev.1 DEG2RAD) else if ev.2.2 = true then none else some ev.1 := by
  unfold topValue
  cases ev.2.1 <;> cases ev.2.2 <;> simp

/-- (T) `float_of_tree`, both widths, every tag: on a scalar of the grammar that is not an ordinary float
literal (or under `!degrees`, where the evaluator always runs), `parse_yaml12_float` with the option on
returns the reference evaluation of the tree, finished by the tag rule — as it is for `f64`, narrowed
ONCE (`v as f32`) for `f32` — or the `ambiguous mix` error. -/
theorem float_of_tree (f32 : Bool) (s : List Char) (tag : Nat) (e : Expr) (hp : Parses tag (utf8 s) e)
    (hplain : parsePlain (fmtOf f32) s = .invalid ∨ tag = TAG_DEGREES) :
    parseYaml12Float f32 s tag true =
      match topValue tag e.eval with
      | some v => .ok (fromF64 f32 v)
      | none => .hook .ambiguousMix := by
  have hc := eval_complete tag (utf8 s) e hp
  unfold parseYaml12Float
  simp only [↓reduceIte]
  rw [hc]
  rcases hplain with h | h
  · rw [h]
    cases topValue tag e.eval <;> rfl
  · subst h
    cases parsePlain (fmtOf f32) s <;> cases topValue TAG_DEGREES e.eval <;> simp

/-- (T) `!radians`, both widths: an accepted expression keeps the value of its tree (no conversion, no
rejection); an ordinary literal is returned as parsed. -/
theorem radians_tag (f32 : Bool) (s : List Char) (e : Expr) (hp : Parses TAG_RADIANS (utf8 s) e) :
    parseYaml12Float f32 s TAG_RADIANS true =
      match parsePlain (fmtOf f32) s with
      | .ok v => .ok v
      | _ => .ok (fromF64 f32 e.eval.1) := by
  cases hpl : parsePlain (fmtOf f32) s with
  | ok v =>
    have := plain_literal_unchanged f32 s TAG_RADIANS (by decide) v (by rw [option_off_unchanged]; exact hpl)
    simpa using this
  | invalid =>
    have := float_of_tree f32 s TAG_RADIANS e hp (Or.inl hpl)
    rw [topValue_radians] at this
    simpa using this
  | hook x =>
    exfalso
    unfold parsePlain at hpl
    simp only [] at hpl
    split at hpl
    · cases hpl
    · split at hpl
      · cases hpl
      · split at hpl
        · cases hpl
        · split at hpl <;> cases hpl
  | panic x =>
    exfalso
    unfold parsePlain at hpl
    simp only [] at hpl
    split at hpl
    · cases hpl
    · split at hpl
      · cases hpl
      · split at hpl
        · cases hpl
        · split at hpl <;> cases hpl
  | fuel =>
    exfalso
    unfold parsePlain at hpl
    simp only [] at hpl
    split at hpl
    · cases hpl
    · split at hpl
      · cases hpl
      · split at hpl
        · cases hpl
        · split at hpl <;> cases hpl

/-- (T) `!degrees`, both widths: the evaluator always runs; a unit-free tree is converted by one
multiplication (in binary64, then narrowed once for `f32`), a unitized tree without bare terms is left
alone, the mix is rejected. -/
theorem degrees_tag (f32 : Bool) (s : List Char) (e : Expr) (hp : Parses TAG_DEGREES (utf8 s) e) :
    parseYaml12Float f32 s TAG_DEGREES true =
      if e.usesUnit = false then .ok (fromF64 f32 (mul F e.value DEG2RAD))
      else if e.hasBare = true then .hook .ambiguousMix
      else .ok (fromF64 f32 e.value) := by
  have := float_of_tree f32 s TAG_DEGREES e hp (Or.inr rfl)
  rw [topValue_degrees] at this
  rw [this]
  unfold Expr.usesUnit Expr.hasBare Expr.value
  cases e.eval.2.1 <;> cases e.eval.2.2 <;> simp

/-- (T) an ordinary literal under `!degrees` as `f32`: the binary64 value in degrees times `DEG2RAD`,
narrowed once. -/
theorem degrees_tag_literal_f32 (l : PlainLit) (hwf : l.WF) (hcap : l.digitCount ≤ MAX_NUM_DIGITS) :
    parseYaml12Float true (l.render.map Char.ofNat) TAG_DEGREES true =
      .ok (convert binary32 (mul F (l.value binary64) DEG2RAD)) := by
  have hoff := Lemmas.C19L.parsePlain_lit binary32 l hwf
  unfold parseYaml12Float
  simp only [↓reduceIte, fmtOf]
  rw [hoff]
  simp only [bne_self_eq_false, Bool.false_eq_true, ↓reduceIte]
  rw [Lemmas.C19L.utf8_chars _ (Lemmas.C19L.allowed_render l hwf), Lemmas.C19L.evalExpr_lit_any TAG_DEGREES l hwf hcap]
  simp [fromF64]

/-- (E) `deg(90) + 90` (a scalar of the grammar, not a plain literal): `π/2 + 90` without a tag and under
`!radians`, rejected under `!degrees`; as `f32` the same value narrowed once. -/
example : parseYaml12Float false "deg(90) + 90".toList TAG_RADIANS true = .ok (fromF64 false exMixed.eval.1) := by
  have := radians_tag false "deg(90) + 90".toList exMixed (by
    have : utf8 "deg(90) + 90".toList = bytes "deg(90) + 90" := by decide
    rw [this]; exact exMixed_parses _)
  have hpl : parsePlain (fmtOf false) "deg(90) + 90".toList = .invalid := by decide
  rw [hpl] at this
  exact this
example : parseYaml12Float true "deg(90) + 90".toList TAG_DEGREES true = .hook .ambiguousMix := by decide

/-! ## sexagesimal forms -/

open SaphyrVerif.Lemmas.C19X (SexaTok hornerF fracF)

/-- (T) `sexagesimal_token_value`: a token `D:M`, `D:M:S` or `D:M:S.frac` (every field digit groups with
single underscores strictly between digits, minutes and seconds at most 59, at most `MAX_NUM_DIGITS`
digits), followed by bytes that do not continue it, is scanned as exactly that token, in both
sexagesimal modes and under every tag, and denotes `SexaTok.value`: the fields evaluated by Horner's rule
in binary64 and combined as `D + M/60 + S/3600` degrees or `D·3600 + M·60 + S` seconds — radians
(`· DEG2RAD`, ONCE: the value is flagged as unitized, so `topValue` does not convert again) at top level
under `!degrees`/`!radians`, seconds at top level otherwise, degrees inside `deg(..)`/`rad(..)` (seconds
under `!timestamp`).  This discharges `TokenOk` for the sexagesimal leaves of `eval_eq_ast` /
`eval_complete`. -/
theorem sexagesimal_token_value (tag : Nat) (tm : Bool) (t : SexaTok) (hwf : t.WF) (k : List Nat) (hk : t.Ends k) :
    TokenOk tag tm t.render k (t.value tag tm, true, false) := by
  obtain ⟨c, r, h, hc⟩ := Lemmas.C19X.sexa_head t hwf k
  refine ⟨⟨c, r, h, Or.inl hc⟩, [], 0, ?_⟩
  exact Lemmas.C19X.sexa_token tag tm t hwf k hk [] 0

/-- the token `12:30` -/
def tok1230 : SexaTok := ⟨[[49, 50]], [[51, 48]], none⟩

theorem tok1230_wf : tok1230.WF := by
  refine ⟨⟨by simp [tok1230, Groups.WF, isDigit], by simp [tok1230]⟩,
    ⟨by simp [tok1230, Groups.WF, isDigit], by simp [tok1230], by decide +kernel, by decide +kernel⟩, ?_, by decide⟩
  intro s fr h
  simp [tok1230] at h

/-- (E) `12:30` is such a token; it denotes 45000 s at top level without an angle tag, 12.5° = 12.5·DEG2RAD
radians under `!degrees` and `!radians`, and 12.5 inside `deg(..)` (which then converts once). -/
example : tok1230.render = bytes "12:30" := by decide +kernel
example : tok1230.value 0 true = ofNat F 45000 := by decide +kernel
example : tok1230.value TAG_DEGREES true = mul F (ofBits binary64 0x4029000000000000) DEG2RAD := by decide +kernel
example : tok1230.value TAG_RADIANS true = mul F (ofBits binary64 0x4029000000000000) DEG2RAD := by decide +kernel
example : tok1230.value 0 false = ofBits binary64 0x4029000000000000 := by decide +kernel
example : TokenOk TAG_DEGREES true (bytes "12:30") [] (tok1230.value TAG_DEGREES true, true, false) :=
  sexagesimal_token_value TAG_DEGREES true tok1230 tok1230_wf [] (by intro c r h; cases h)
/-- (E) … converted exactly once: the evaluator returns the same radians under `!degrees`, with or without
`deg(..)` around it. -/
example : evalExpr TAG_DEGREES (bytes "12:30") = .ok (tok1230.value TAG_DEGREES true) := by decide +kernel
example : evalExpr TAG_DEGREES (bytes "deg(12:30)") = .ok (tok1230.value TAG_DEGREES true) := by decide +kernel
example : evalExpr 0 (bytes "deg(12:30)") = .ok (tok1230.value TAG_DEGREES true) := by decide +kernel

/-! ## `deg(..)` / `rad(..)`: exactly once on the function path -/

/-- (T) `deg_call_once`: a scalar that is one call `deg( e )` / `rad( e )` (any accepted argument `e`, with
or without units of its own, any white space) evaluates under EVERY tag — `!degrees` included — to
`e · DEG2RAD` (one multiplication) resp. to `e` itself: the function converts, the tag does not convert
again, and nothing is rejected. -/
theorem deg_call_once (tag : Nat) (s : List Nat) (wsu ws : List Nat) (isDeg : Bool) (name ws1 : List Nat)
    (e : Expr) (ws' : List Nat)
    (hp : Parses tag s (.term (.un (.mk wsu [] (.fn ws isDeg name ws1 e ws'))))) :
    evalExpr tag s = .ok (if isDeg then mul F e.value DEG2RAD else e.value) := by
  have hc := eval_complete tag s _ hp
  obtain ⟨wsL, wsR, _, _, _, hlex, _⟩ := hp
  have hin : e.lexOk tag false (ws' ++ 41 :: wsR) := by
    simp only [Expr.lexOk, Term.lexOk, Unary.lexOk, Primary.lexOk] at hlex
    exact hlex.2.2.2.2.2
  have hwf : WF binary64 (if isDeg then mul F e.value DEG2RAD else e.value) := by
    cases isDeg
    · exact values_wellformed tag false e _ hin
    · exact (ops_wellformed e.value DEG2RAD).2.2.1
  have hone : mul F (signValue []) (if isDeg then mul F e.value DEG2RAD else e.value) =
      if isDeg then mul F e.value DEG2RAD else e.value := (unary_sign_exact _ hwf).1
  rw [hc]
  simp only [Expr.eval, Term.eval, Unary.eval, Primary.eval, topValue, Bool.not_true, Bool.false_eq_true, ↓reduceIte,
    Bool.and_false]
  have : (if isDeg = true then mul F e.eval.1 DEG2RAD else e.eval.1) =
      (if isDeg then mul F e.value DEG2RAD else e.value) := rfl
  rw [this, hone]

/-- the tree of `deg(90)` -/
def exDeg : Expr := .term (.un (.mk [] [] (.fn [] true [100, 101, 103] [] (.term (.un (.mk [] [] (n90 [])))) [])))

theorem exDeg_parses (tag : Nat) : Parses tag (bytes "deg(90)") exDeg := by
  refine ⟨[], [], by decide, by decide, by decide, ?_, by decide⟩
  simp only [exDeg, n90, Expr.lexOk, Term.lexOk, Unary.lexOk, Primary.lexOk]
  exact ⟨by decide, by decide, by decide, by decide, by decide, by decide, by decide,
    tok90 _ _ _ (by simp [StopsToken, isDigit])⟩

/-- (E) `deg(90)` under `!degrees`: 90 · DEG2RAD, once (by the theorem). -/
example : evalExpr TAG_DEGREES (bytes "deg(90)") =
    .ok (mul F (Expr.term (.un (.mk [] [] (n90 [])))).value DEG2RAD) := by
  simpa using deg_call_once TAG_DEGREES _ [] [] true _ [] _ [] (exDeg_parses _)
example : (Expr.term (.un (.mk [] [] (n90 [])))).value = ofNat F 90 := by decide

/-! ## ordinary literals: the YAML special forms -/

/-- (T) the YAML forms `.nan`, `.inf` with optional sign, in any letter case, surrounded by any (Unicode)
white space: the same value with the option off and on, either width, every tag but `!degrees`. -/
theorem dot_specials_unchanged (f32 : Bool) (s : List Char) (tag : Nat) (htag : tag ≠ TAG_DEGREES) (angle : Bool) :
    ((lowerAscii (trim s) = ".nan".toList ∨ lowerAscii (trim s) = "+.nan".toList ∨
        lowerAscii (trim s) = "-.nan".toList) → parseYaml12Float f32 s tag angle = .ok .nan) ∧
    ((lowerAscii (trim s) = ".inf".toList ∨ lowerAscii (trim s) = "+.inf".toList) →
        parseYaml12Float f32 s tag angle = .ok (.inf false)) ∧
    (lowerAscii (trim s) = "-.inf".toList → parseYaml12Float f32 s tag angle = .ok (.inf true)) := by
  have key : ∀ v, parsePlain (fmtOf f32) s = .ok v → parseYaml12Float f32 s tag angle = .ok v := by
    intro v hv
    cases angle with
    | false => rw [option_off_unchanged]; exact hv
    | true => exact plain_literal_unchanged f32 s tag htag v (by rw [option_off_unchanged]; exact hv)
  refine ⟨?_, ?_, ?_⟩
  · intro h
    apply key
    unfold parsePlain
    simp only []
    rcases h with h | h | h <;> simp [h]
  · intro h
    apply key
    unfold parsePlain
    simp only []
    rcases h with h | h <;> rw [h] <;> rw [if_neg (by decide), if_pos (by decide)]
  · intro h
    apply key
    unfold parsePlain
    simp only []
    rw [h]
    rw [if_neg (by decide), if_neg (by decide), if_pos (by decide)]

/-- (E) signs, exponents, the special forms, Unicode white space: option on = option off. -/
example : parseYaml12Float false " -.INF ".toList 0 true = .ok (.inf true) ∧
    parseYaml12Float false " -.INF ".toList 0 false = .ok (.inf true) ∧
    parseYaml12Float true "+.NaN".toList TAG_RADIANS true = .ok .nan ∧
    parseYaml12Float false "-1.5e-3".toList 0 true = parseYaml12Float false "-1.5e-3".toList 0 false ∧
    parseYaml12Float true "+12E+3".toList TAG_RADIANS true = parseYaml12Float true "+12E+3".toList 0 false ∧
    parseYaml12Float false "-0".toList 0 true = .ok (zero binary64 true) := by decide +kernel

/-! ## the recursion bound is attained -/

/-- (E) 256 nested `deg(` around a sexagesimal form reach exactly `5 · (MAX_EXPR_DEPTH + 1) + 4` frames:
`recursion_bounded` is tight (in particular `4 · MAX_EXPR_DEPTH + c` holds only for `c ≥ 265`). -/
theorem recursion_bound_attained :
    (evalExprT 0 ((List.replicate 256 (bytes "deg(")).flatten ++ bytes "1:30" ++ List.replicate 256 41)).frames =
      5 * (Gen.roboticsMaxExprDepth + 1) + 4 := by decide +kernel

end SaphyrVerif.Props.C19
