import SaphyrVerif.Lemmas.C15
import SaphyrVerif.Lemmas.C15Seen
/-!
# C15 — a call's result depends only on its arguments, not on earlier or nested calls

Model: `Model/Tls.lean` (the two thread-locals as explicit state; a call = a program `Prog` of scopes,
guards, wrapper visitors, probes, a failure point and nested calls; `runCall p t` = the call as a function
of its arguments `p` and the thread-locals `t` it is entered with). The model follows the code AFTER the
repairs b68ea91 (`with_document_scope` saves / restores the enclosing call's anchor state instead of
resetting it) and 4aaf328 (`FallbackScopeGuard`: the fallback location is cleared for the scope and restored).

Hypotheses used below, both facts about the code (and exercised by the differential run on every script):
* `isEntry p` (`TopCall`) — a top-level call touches the thread-locals only inside `with_document_scope`,
  one scope per document (`lib.rs`, `de/with_deserializer.rs`: all 12 call sites read);
* `tight false p` (only for `fallback_restored`, which is about SUB-deserializations) — a key is only
  delivered by a map access, and a *leaked* map access (visitor calls `mem::forget`) sits under the container
  guard of `deserialize_map` (`de.rs`: the `MA` value is built only there, after the guard). Guards that are
  NOT leaked need no hypothesis: RAII is the semantics of `exec`.

Results (all FULL over the model: every program, every entry state, every history):
* `toplevel_call_state_clean`, `history_leaves_initial_state`, `toplevel_call_history_independent`,
  `call_is_function_of_arguments`, `fallback_restored`, `fallback_restored_in_map_access`;
* `nested_call_independent` — a call nested anywhere inside another call returns the fresh result;
* `nested_call_is_noop`, `nested_call_transparent` — for the enclosing call a nested call is a no-op
  (thread-locals, outcome, sharing); all it leaves is the record of its own (fresh) result;
* `seen_membership_only`, `seen_order_irrelevant` — over `Model/De.lean`;
* `no_other_state` is a code-reading fact (see the end of this file), tied to the code by the oracle;
* the three former findings are regression theorems in `Props/C15_Findings.lean`.
-/
namespace SaphyrVerif.Tls
open SaphyrVerif.De

/-! ## Top-level calls -/

/-- what the code guarantees about a top-level call (see the module comment) -/
abbrev TopCall (p : Prog) : Prop := isEntry p = true

/-- C15, clause "no anchor table, error-location fallback … survives a call": after ANY completed
top-level call — succeeded, failed at any point, or unwound by a panicking visitor (all three are
programs `p`: an `err`/`serr`/`panic` at any position; leaked guards included) — both thread-locals are
exactly as the call found them, whatever that was. -/
theorem toplevel_call_state_clean (p : Prog) (h : TopCall p) (t : Tls) : (runCall p t).2 = t :=
  runCall_restores p h t

/-- thread-locals after any history of completed top-level calls on a fresh thread: initial -/
theorem history_leaves_initial_state (hs : List Prog) (h : ∀ q ∈ hs, TopCall q) :
    runHistory hs Tls.init = Tls.init := by
  induction hs with
  | nil => rfl
  | cons q rest ih =>
    have hq := toplevel_call_state_clean q (h q (List.mem_cons_self ..)) Tls.init
    simp only [runHistory, hq]
    exact ih (fun r hr => h r (List.mem_cons_of_mem _ hr))

/-- C15, main clause: for EVERY history of completed top-level calls, the next call (any program `p`
whatsoever) gives the result — outcome, sharing pattern, everything user code can observe during the
call — and leaves the state that it gives as the first call on a fresh thread. -/
theorem toplevel_call_history_independent (hs : List Prog) (h : ∀ q ∈ hs, TopCall q) (p : Prog) :
    runCall p (runHistory hs Tls.init) = runCall p Tls.init := by
  rw [history_leaves_initial_state hs h]

/-- Independently of histories: from ANY entry value of the thread-locals (garbage in the anchor stack,
stores, in-progress counts, any fallback location) a top-level call returns its fresh-thread result and
hands the thread-locals back untouched. -/
theorem call_is_function_of_arguments (p : Prog) (h : TopCall p) (t : Tls) :
    runCall p t = ((runCall p Tls.init).1, t) :=
  Prod.ext (runCall_result_indep p h t) (runCall_restores p h t)

/-- C15, `fallback_restored`: every (sub-)deserialization leaves the fallback cell as it found it, on every
exit path — guards are well nested, including the lazily created guard of the map access (also when the
visitor leaks the map access: the container guard of `deserialize_map` restores). -/
theorem fallback_restored (p : Prog) (h : tight false p = true) (st : St) :
    (exec p none st).2.2.fallback = st.fallback :=
  (exec_keeps p false h).body st

/-- the same for a mapping: whatever happens between two keys — and whether the visitor drops or LEAKS the
map access — once `deserialize_map` returns the cell holds what it held before. (The map access owns no
guard of its own: it points the cell at each key inside the scope of the container's guard.) -/
theorem fallback_restored_in_map_access (leak : Bool) (loc : Loc) (body : Prog) (st : St) :
    (exec (.guard loc (.ma leak body .done) .done) none st).2.2.fallback = st.fallback :=
  fallback_restored _ (by simp [tight]) st

/-! ## Nested calls (a user `Deserialize` impl calls `from_str`) -/

/-- C15, nested clause (FULL): a call nested anywhere — whatever anchor state and fallback location the
enclosing call has at that moment — returns what it returns on a fresh thread. -/
theorem nested_call_independent (p : Prog) (h : TopCall p) (t : Tls) :
    (runCall p t).1 = (runCall p Tls.init).1 :=
  runCall_result_indep p h t

/-- what user code records about a nested call: its (fresh-thread) result -/
def nestRecord (inner : Prog) : List Item :=
  [.nestBegin] ++ (runCall inner Tls.init).1.trace ++
    [.nestEnd (runCall inner Tls.init).1.out (runCall inner Tls.init).1.ptrs]

/-- C15, nested clause, the enclosing side (FULL): executing a nested call in the middle of a
deserialization is the same as not executing it, except that user code now holds the nested call's result
(which is the fresh-thread result). In particular both thread-locals of the enclosing call are untouched. -/
theorem nested_call_is_noop (inner k : Prog) (s : Slot) (st : St) (h : TopCall inner) :
    exec (.nest inner k) s st = exec k s { st with trace := st.trace ++ nestRecord inner } := by
  have e := exec_entry_tls inner h none ({} : St) st.anchors st.fallback
  have e' : exec inner none { anchors := st.anchors, fallback := st.fallback } =
      ((exec inner none {}).1, (exec inner none {}).2.1, (exec inner none {}).2.2.withTls st.anchors st.fallback) := e
  rw [exec]
  simp only [e', nestRecord, runCall, Tls.init, St.withTls, List.append_assoc]

/-- … hence outcome, pointer sharing and final thread-locals of the enclosing computation are those of the
computation without the nested call. -/
theorem nested_call_transparent (inner k : Prog) (s : Slot) (st : St) (h : TopCall inner) :
    (exec (.nest inner k) s st).1 = (exec k s st).1 ∧
    (exec (.nest inner k) s st).2.2.ptrs = (exec k s st).2.2.ptrs ∧
    (exec (.nest inner k) s st).2.2.anchors = (exec k s st).2.2.anchors ∧
    (exec (.nest inner k) s st).2.2.fallback = (exec k s st).2.2.fallback := by
  rw [nested_call_is_noop inner k s st h]
  have a := exec_trace_irrelevant k s st (st.trace ++ nestRecord inner)
  have b := exec_trace_irrelevant k s st st.trace
  rw [show ({ st with trace := st.trace } : St) = st from rfl] at b
  exact ⟨a.1.trans b.1.symm, a.2.1.trans b.2.1.symm, a.2.2.1.trans b.2.2.1.symm, a.2.2.2.trans b.2.2.2.symm⟩

/-! ## The value guard of `MA::next_value_seed` (repair of `C16-static-error-at-map-value-reported-at-key`) -/

/-- a static Serde error raised while a mapping VALUE is read — directly, i.e. not under a deeper guard —
carries the value's use-site location `vloc`: not the key location `kloc`, and nothing of what the container
guard, an earlier key or any enclosing deserialization had put into the cell (`s`, `st` arbitrary), whatever
the visitor did between `next_key` and `next_value` (`pre`: any number of probes). -/
theorem static_error_in_value_at_value (kloc vloc : Loc) (n : Nat) (k : Prog) (s : Slot) (st : St) :
    (exec (.entry kloc (Nat.repeat .probe n) vloc .serr k) s st).1 = .err vloc := by
  have hp : ∀ (n : Nat) (s : Slot) (st : St),
      (exec (Nat.repeat .probe n (.guard vloc .serr k)) s st).1 = .err vloc := by
    intro n
    induction n with
    | zero => intro s st; simp [Nat.repeat, exec, andThen, effLoc]
    | succ n ih => intro s st; simpa [Nat.repeat, exec] using ih s _
  cases s <;> simpa [Prog.entry, exec] using hp n _ _

/-- … and the same error raised in a SEQUENCE element (guard of `SA::next_element_seed`), for comparison: the
element's location. Mapping values and sequence elements now follow one rule. -/
theorem static_error_in_element_at_element (eloc : Loc) (k : Prog) (s : Slot) (st : St) :
    (exec (.guard eloc .serr k) s st).1 = .err eloc := by
  simp [exec, andThen, effLoc]

/-- the repair leaves every OTHER use of the cell alone: once the value has been read (any `body` that
succeeds; no well-nestedness hypothesis is needed, the guard's `Drop` writes back what it saved), the cell
holds the key location again — a static error raised after the entry (`missing_field` after the last key,
`unknown_field` / `duplicate_field`-style errors of the visitor) is located at the key, as before. -/
theorem static_error_after_value_at_key (kloc vloc : Loc) (body : Prog) (s : Slot) (st : St)
    (hb : (exec body none { st with fallback := some vloc }).1 = .ok) :
    (exec (.entry kloc (fun k => k) vloc body .serr) s st).1 = .err kloc := by
  cases s <;> simp [Prog.entry, exec, andThen, hb, effLoc]

/-- the cell seen by whatever follows the value (the next key, the visitor's tail, the `Drop` of the map
access) is the one the key guard had set: the value guard is invisible outside the value, on every exit path
of the value. -/
theorem value_guard_invisible_outside (vloc : Loc) (body : Prog) (s : Slot) (st : St) :
    (exec (.guard vloc body .done) s st).2.2.fallback = st.fallback ∧
    (exec (.guard vloc body .done) s st).2.1 = s := by
  simp only [exec, andThen]
  cases (exec body none { st with fallback := some vloc }).1 <;> simp

/-! ## Example programs (the witnesses of the former findings) -/

/-- `from_str::<NonZeroU8>("0")`: `deserialize_u8` → `visit_u8(0)` → `Error::invalid_value` (a static
constructor) with no guard of the call's own -/
def callNonZero : Prog := .scope false .serr .done

def loc (line col : Nat) : Loc := line * 1048576 + col

/-- a struct field `RcAnchor<{v: P}>` on a node with anchor `id`: container guard, key `v` at `vkey`, its value
(one probe) under the value guard at `vval` (the scalar's own start; through an alias the alias token) -/
def rcField (id : Nat) (container vkey vval : Loc) (k : Prog) : Prog :=
  .ctx .rc (some id) (.strong .rc
    (.guard container (.ma false (.entry vkey (fun k => k) vval (.probe .done) .done) .done) .done) .done) k

/-- `x: &a {v: 1}` / `n: …` / `y: *a` deserialized into `struct { x: RcAnchor<_>, n: N, y: RcAnchor<_> }`;
`middle` = what `N::deserialize` does (it runs under the value guard of `n`, at line 2 column 4) -/
def outerDoc (middle : Prog → Prog) : Prog :=
  .scope false
    (.guard (loc 1 1) (.ma false
      (.entry (loc 1 1) (fun k => k) (loc 1 7) (rcField 1 (loc 1 7) (loc 1 8) (loc 1 11) .done)
      (.entry (loc 2 1) (fun k => k) (loc 2 4) (middle .done)
      (.entry (loc 3 1) (fun k => k) (loc 3 4) (rcField 1 (loc 3 4) (loc 1 8) (loc 3 4) .done) .done))) .done) .done) .done

/-- `N::deserialize` calls `from_str` -/
def withNestedCall : Prog := outerDoc fun k => .nest callNonZero k
/-- `N::deserialize` does not parse -/
def withoutNestedCall : Prog := outerDoc fun k => k

/-- `foo: &a {k1: 1, h: …, k3: *a}` into `struct { foo: RcRecursive<{k1: P, h: N, k3: RcRecursion<_>}> }` -/
def recDoc (middle : Prog → Prog) : Prog :=
  .scope false
    (.guard (loc 1 1) (.ma false
      (.entry (loc 1 1) (fun k => k) (loc 2 3) (.ctx .rcRec (some 1) (.strong .rcRec
        (.guard (loc 2 3) (.ma false
          (.entry (loc 2 3) (fun k => k) (loc 2 7) (.probe .done)
          (.entry (loc 3 3) (fun k => k) (loc 3 6) (middle .done)
          -- the alias is met by the look-ahead of `next_value_seed`, before the value guard
          (.entry (loc 4 3) (.recAlias 1 (loc 4 7)) (loc 4 7)
            (.ctx .rcRec (some 1) (.weak .rcRec .done .done) .done) .done))) .done) .done)
        .done) .done) .done) .done) .done) .done

/-! ## Non-vacuity: the hypotheses hold on the programs the differential run uses -/

/-- `k:   0` into `struct { k: NonZeroU8 }` (the witness of the finding): key at 1:1, value at 1:6 — the static
error is reported at the value; with a second, missing field the error after the entry is at the key -/
example : (runCall (.scope false (.guard (loc 1 1) (.ma false
    (.entry (loc 1 1) (fun k => k) (loc 1 6) .serr .done) .done) .done) .done) Tls.init).1.out = .err (loc 1 6) := by decide
example : (runCall (.scope false (.guard (loc 1 1) (.ma false
    (.entry (loc 1 1) (fun k => k) (loc 1 6) (.probe .done) .serr) .done) .done) .done) Tls.init).1.out = .err (loc 1 1) := by decide
/-- hypothesis of `static_error_after_value_at_key` on a value with its own map access and probes -/
example : (exec (rcField 1 (loc 1 7) (loc 1 8) (loc 1 11) .done) none { fallback := some (loc 1 7) }).1 = .ok := by decide

example : TopCall withNestedCall ∧ TopCall withoutNestedCall ∧ TopCall (recDoc fun k => k) ∧ TopCall callNonZero := by decide
example : tight false withNestedCall = true ∧ tight false (recDoc fun k => .nest callNonZero k) = true := by decide
/-- a failing call, a panicking call, an iterator call with a failing document, a leaked map access
(even one that is under no guard: the document scope restores the cell) -/
example : TopCall (outerDoc fun _ => .err (loc 2 4)) ∧ TopCall (outerDoc fun _ => .panic) ∧
    TopCall (.scope true (.guard 5 (.ma false (.key 6 .serr) .done) .done) (.scope true (.probe .done) .done)) ∧
    TopCall (.scope false (.ma true (.key 6 (.probe .done)) .done) .done) := by decide
/-- the three kinds of calls in one history, then the witness: same result as on a fresh thread (instance of
`toplevel_call_history_independent`, evaluated) -/
example : runCall withoutNestedCall
    (runHistory [outerDoc fun _ => .err (loc 2 4), outerDoc fun _ => .panic, withNestedCall] Tls.init) =
    runCall withoutNestedCall Tls.init := by decide
/-- a map access under no guard (leaked or not) leaves the cell at its last key INSIDE the call: `tight` (every
map access sits in a guard body) is needed for `fallback_restored` … -/
example : (exec (.ma true (.key 6 .done) .done) none {}).2.2.fallback = some 6 ∧
    (exec (.ma false (.key 6 .done) .done) none {}).2.2.fallback = some 6 ∧
    (exec (.guard 3 (.ma false (.key 6 .done) .done) .done) none {}).2.2.fallback = none := by decide
/-- … but not for a whole call: the document scope puts the entry value back -/
example : (runCall (.scope false (.ma true (.key 6 .done) .done) .done) ⟨.empty, some 9⟩).2.fallback = some 9 := by decide

/-! ## Hash order / hash seed -/

/-- C15, clause "no … hash seed survives a call in a way that can be observed" for the duplicate-key set:
`MA::next_key_seed` run with two representations `s'`, `m.seen` of the same SET of fingerprints (same
membership function — any order, any multiplicity, any hashing) takes the same branch, returns the same
key / error / cursor, and leaves map-access states that differ only in the representation of the set
(`reSeen`: the new set is `fp :: s'` resp. `fp :: m.seen`). All uses of `seen` in `de.rs` are
`contains` and `insert` (lines 2166, 2271, 2314, 2413). -/
theorem seen_membership_only (fuel : Nat) (cfg : Cfg) (ks : Ty ⊕ Unit) (c : Cur) (m : MA) (s' : List FP)
    (h : ∀ fp, s'.any (· == fp) = m.seen.any (· == fp)) :
    nextKey fuel cfg ks c { m with seen := s' } = reSeen s' (nextKey fuel cfg ks c m) :=
  nextKey_reSeen fuel cfg ks c m s' h

/-- in particular the result of `nextKey` is invariant under any permutation of `m.seen` (iteration
order of the hash set) -/
theorem seen_order_irrelevant (fuel : Nat) (cfg : Cfg) (ks : Ty ⊕ Unit) (c : Cur) (m : MA) (s' : List FP)
    (h : s'.Perm m.seen) :
    nextKey fuel cfg ks c { m with seen := s' } = reSeen s' (nextKey fuel cfg ks c m) :=
  nextKey_reSeen fuel cfg ks c m s' (SeenEq.of_perm h)

/-!
## `no_other_state` (code-reading fact, not a theorem)

Read completely for this: the only `thread_local!` / mutable `static` items of the crate are
`anchor_store::STATE` and `de_error::MISSING_FIELD_FALLBACK` (the other statics — `TAG_LOOKUP_MAP`
(`LazyLock<BTreeMap>`), the `OnceLock<Regex>` of `ser_quoting.rs`, `DEFAULT_ENGLISH_LOCALIZER`, `DEFAULT_FMT` —
are immutable after initialisation). Every entry point of `lib.rs` / `de/with_deserializer.rs` constructs
its own `LiveEvents` (`from_str` / `from_reader`), which owns the budget enforcer (`BudgetEnforcer::new`:
counters 0, `defined_anchors: FastHashSet::with_capacity(256)`), the alias counters
(`per_anchor_expansions`, `total_replayed_events`, `rec_stack`, `inject`) and the anchor event buffers; the
map access constructs `seen: FastHashSet::with_capacity(8)` per mapping; the serializer constructs its
pointer→anchor map (`HashMap<usize, AnchorId, BuildNoHashHasher>`) per `YamlSerializer`. The hash sets are
used for `contains`/`insert`/`len`/`clear` only (never iterated); `ahash::RandomState` seeds therefore
cannot influence results (`seen_membership_only`; `PathMap` is covered by C18
`find_unique_order_independent`). The oracle of the `calls` area ties this to the code: every call of the
alphabet gives, after every history of length <= 3 (thorough 4) and after random histories of length
5..12, the byte-identical canonical result it gives on a fresh thread, and the probes of both
thread-locals read "clean" after every call; nested at 4 host positions every call still gives that result,
and the enclosing call gives the result it gives with a non-parsing `Deserialize` in that place.
-/

#print axioms static_error_in_value_at_value
#print axioms static_error_in_element_at_element
#print axioms static_error_after_value_at_key
#print axioms value_guard_invisible_outside

end SaphyrVerif.Tls
