import SaphyrVerif.Lemmas.C15
import SaphyrVerif.Lemmas.C15Seen
/-!
# C15 — a call's result depends only on its arguments, not on earlier or nested calls

Model: `Model/Tls.lean` (the two thread-locals as explicit state; a call = a program `Prog` of scopes,
guards, wrapper visitors, probes, a failure point and nested calls; `runCall p t` = the call as a function
of its arguments `p` and the thread-locals `t` it is entered with).

Hypotheses used below, both facts about the code (and exercised by the differential run on every script):
* `isEntry p` — a top-level call touches the thread-locals only inside `with_document_scope`, one scope per
  document (`lib.rs`, `de/with_deserializer.rs`: all 12 call sites read);
* `tight false p` — a key is only delivered by a map access, and a *leaked* map access (visitor calls
  `mem::forget`) sits under the container guard of `deserialize_map` (`de.rs`: the `MA` value is built only
  there, after the guard). Guards that are NOT leaked need no hypothesis: RAII is the semantics of `exec`.

Results:
* (T, full over the model) `toplevel_call_history_independent`, `toplevel_call_state_clean`,
  `call_ignores_entry_anchors`, `fallback_restored`, `fallback_restored_in_map_access`.
* (T, partial) `nested_call_independent_partial` — a nested call returns the fresh result PROVIDED every
  place where it reads the fallback cell is under one of its own guards; the full statement
  `nested_call_independent_Full` is FALSE: (F) `nested_call_inherits_outer_fallback` (Props/C15_Findings.lean).
* (T, partial) `nested_call_only_resets_anchors` — all a nested call does to the enclosing call is to reset
  the anchor state; the full statement `nested_call_transparent_Full` is FALSE:
  (F) `nested_call_clobbers_outer_anchors`, (F) `nested_call_breaks_recursive_anchor` (Props/C15_Findings.lean).
* (T) `seen_membership_only`, `seen_order_irrelevant` — over `Model/De.lean`.
* `no_other_state` is a code-reading fact (see the end of this file), tied to the code by the oracle.
-/
namespace SaphyrVerif.Tls
open SaphyrVerif.De

/-! ## Top-level calls -/

/-- what the code guarantees about a top-level call (see the module comment) -/
abbrev TopCall (p : Prog) : Prop := isEntry p = true ∧ tight false p = true

/-- C15, clause "no anchor table, error-location fallback … survives a call": after ANY completed
top-level call — succeeded, failed at any point, or unwound by a panicking visitor (all three are
programs `p`: an `err`/`serr`/`panic` at any position) — both thread-locals are as the call found them;
from a clean thread that is the initial state. -/
theorem toplevel_call_state_clean (p : Prog) (h : TopCall p) (t : Tls) (ha : t.anchors = .empty) :
    (runCall p t).2 = t :=
  runCall_clean p h.1 h.2 t ha

/-- thread-locals after any history of completed top-level calls on a fresh thread: initial -/
theorem history_leaves_initial_state (hs : List Prog) (h : ∀ q ∈ hs, TopCall q) :
    runHistory hs Tls.init = Tls.init := by
  induction hs with
  | nil => rfl
  | cons q rest ih =>
    have hq := toplevel_call_state_clean q (h q (List.mem_cons_self ..)) Tls.init rfl
    simp only [runHistory, hq]
    exact ih (fun r hr => h r (List.mem_cons_of_mem _ hr))

/-- C15, main clause: for EVERY history of completed top-level calls, the next call (any program `p`
whatsoever) gives the result — outcome, sharing pattern, everything user code can observe during the
call — and leaves the state that it gives as the first call on a fresh thread. -/
theorem toplevel_call_history_independent (hs : List Prog) (h : ∀ q ∈ hs, TopCall q) (p : Prog) :
    runCall p (runHistory hs Tls.init) = runCall p Tls.init := by
  rw [history_leaves_initial_state hs h]

/-- Independently of histories: a call that begins with a document scope does not even look at the anchor
state it is entered with (ANY garbage: stack, stores, in-progress counts). -/
theorem call_ignores_entry_anchors (cont : Bool) (b k : Prog) (a : Anchors) (f : Option Loc) :
    runCall (.scope cont b k) ⟨a, f⟩ = runCall (.scope cont b k) ⟨.empty, f⟩ := by
  have := exec_scope_entry_anchors cont b k none { anchors := .empty, fallback := f } a
  simp only [runCall]
  rw [show ({ anchors := a, fallback := f } : St) =
      { ({ anchors := .empty, fallback := f } : St) with anchors := a } from rfl, this]

/-- C15, `fallback_restored`: every (sub-)deserialization leaves the fallback cell as it found it, on every
exit path — guards are well nested, including the lazily created guard of the map access (also when the
visitor leaks the map access: the container guard of `deserialize_map` restores). -/
theorem fallback_restored (p : Prog) (h : tight false p = true) (st : St) :
    (exec p none st).2.2.fallback = st.fallback :=
  (exec_keeps p false h).body st

/-- the same inside a map access: whatever happens between two keys, once the map access is dropped the
cell holds what it held when the map access was created -/
theorem fallback_restored_in_map_access (leak : Bool) (body : Prog)
    (h : tight false (.ma leak body .done) = true) (st : St) :
    (exec (.ma leak body .done) none st).2.2.fallback = st.fallback :=
  fallback_restored _ h st

/-! ## Nested calls (a user `Deserialize` impl calls `from_str`) -/

/-- FULL statement (false): a call nested anywhere returns what it returns on a fresh thread. -/
def nested_call_independent_Full : Prop :=
  ∀ (p : Prog) (t : Tls), TopCall p → (runCall p t).1 = (runCall p Tls.init).1

/-- C15, nested clause, what is true: a call returns the fresh result from ANY entry state (arbitrary
anchor state of an enclosing call, arbitrary value of the fallback cell) provided every point where it
reads the fallback cell lies under a guard of its own (`covered`). What is missing for the full statement:
the entry points never clear the cell, see `nested_call_inherits_outer_fallback`. -/
theorem nested_call_independent_partial (p : Prog) (h : TopCall p) (hc : covered false p = true) (t : Tls) :
    (runCall p t).1 = (runCall p Tls.init).1 := by
  obtain ⟨he, ht⟩ := h
  have key : ∀ f : Option Loc, (runCall p ⟨t.anchors, f⟩).1 = (runCall p Tls.init).1 := by
    intro f
    -- the entry value of the cell does not matter
    have e := (erase_eq_iff _ _).1
      (exec_covered p false false ht hc none none { anchors := t.anchors, fallback := none } f (by simp))
    -- nor does the entry anchor state
    have a : (exec p none ({ anchors := t.anchors, fallback := none } : St)).1 = (exec p none ({} : St)).1 ∧
        (exec p none ({ anchors := t.anchors, fallback := none } : St)).2.2.ptrs = (exec p none ({} : St)).2.2.ptrs ∧
        (exec p none ({ anchors := t.anchors, fallback := none } : St)).2.2.trace = (exec p none ({} : St)).2.2.trace := by
      cases p with
      | done => simp [exec]
      | err l => simp [exec]
      | scope cont b k =>
        have := exec_scope_entry_anchors cont b k none ({} : St) t.anchors
        rw [show ({ anchors := t.anchors, fallback := none } : St) = { ({} : St) with anchors := t.anchors } from rfl, this]
        exact ⟨rfl, rfl, rfl⟩
      | probe | ctx | strong | weak | guard | ma | key | serr | panic | nest | recAlias => simp [isEntry] at he
    simp only [runCall, Tls.init]
    rw [show ({ anchors := t.anchors, fallback := f } : St) =
        { ({ anchors := t.anchors, fallback := none } : St) with fallback := f } from rfl]
    rw [e.2, ← e.1]
    simp only [a.1, a.2.1, a.2.2]
  cases t with
  | mk a f => exact key f

/-- `from_str::<NonZeroU8>("0")`: `deserialize_u8` → `visit_u8(0)` → `Error::invalid_value` (a static
constructor) with no guard of the call's own -/
def callNonZero : Prog := .scope false .serr .done

def loc (line col : Nat) : Loc := line * 1048576 + col

/-- FULL statement (false): for the enclosing call a nested call is a no-op. -/
def nested_call_transparent_Full : Prop :=
  ∀ (inner k : Prog) (s : Slot) (st : St), TopCall inner →
    (exec (.nest inner k) s st).1 = (exec k s st).1 ∧ (exec (.nest inner k) s st).2.2.ptrs = (exec k s st).2.2.ptrs

/-- What is true: the nested call gives back the fallback cell as it was and touches nothing local to the
enclosing call; ALL it does to the enclosing call is `reset()` of the anchor state (stack, stores,
in-progress counts) — and the record of its own result. -/
theorem nested_call_only_resets_anchors (cont : Bool) (b k' k : Prog) (s : Slot) (st : St)
    (h : TopCall (.scope cont b k')) :
    exec (.nest (.scope cont b k') k) s st =
      exec k s { st with
        anchors := .empty
        trace := st.trace ++ [.nestBegin] ++
          (exec (.scope cont b k') none { anchors := st.anchors, fallback := st.fallback }).2.2.trace ++
          [.nestEnd (exec (.scope cont b k') none { anchors := st.anchors, fallback := st.fallback }).1
            (exec (.scope cont b k') none { anchors := st.anchors, fallback := st.fallback }).2.2.ptrs] } := by
  have hf := fallback_restored _ h.2 { anchors := st.anchors, fallback := st.fallback }
  have ha : (exec (.scope cont b k') none { anchors := st.anchors, fallback := st.fallback }).2.2.anchors = .empty := by
    have := exec_scope_entry_anchors cont b k' none ({ anchors := .empty, fallback := st.fallback } : St) st.anchors
    rw [show ({ anchors := st.anchors, fallback := st.fallback } : St) =
        { ({ anchors := .empty, fallback := st.fallback } : St) with anchors := st.anchors } from rfl, this]
    exact entry_final_anchors _ h.1 _ _ rfl
  generalize Prog.scope cont b k' = inner at hf ha ⊢
  rw [exec]
  simp only [hf, ha]

/-- a struct field `RcAnchor<{v: P}>` on a node with anchor `id` -/
def rcField (id : Nat) (container vkey : Loc) (k : Prog) : Prog :=
  .ctx .rc (some id) (.strong .rc (.guard container (.ma false (.key vkey (.probe .done)) .done) .done) .done) k

/-- `x: &a {v: 1}` / `n: …` / `y: *a` deserialized into `struct { x: RcAnchor<_>, n: N, y: RcAnchor<_> }`;
`middle` = what `N::deserialize` does -/
def outerDoc (middle : Prog → Prog) : Prog :=
  .scope false
    (.guard (loc 1 1) (.ma false
      (.key (loc 1 1) (rcField 1 (loc 1 7) (loc 1 8)
      (.key (loc 2 1) (middle
      (.key (loc 3 1) (rcField 1 (loc 3 4) (loc 1 8) .done)))))) .done) .done) .done

/-- `N::deserialize` calls `from_str` -/
def withNestedCall : Prog := outerDoc fun k => .nest callNonZero k
/-- `N::deserialize` does not parse -/
def withoutNestedCall : Prog := outerDoc fun k => k

/-- `foo: &a {k1: 1, h: …, k3: *a}` into `struct { foo: RcRecursive<{k1: P, h: N, k3: RcRecursion<_>}> }` -/
def recDoc (middle : Prog → Prog) : Prog :=
  .scope false
    (.guard (loc 1 1) (.ma false
      (.key (loc 1 1) (.ctx .rcRec (some 1) (.strong .rcRec
        (.guard (loc 2 3) (.ma false
          (.key (loc 2 3) (.probe
          (.key (loc 3 3) (middle
          (.key (loc 4 3) (.recAlias 1 (loc 4 7) (.ctx .rcRec (some 1) (.weak .rcRec .done .done) .done))))))) .done) .done)
        .done) .done)) .done) .done) .done

/-! ## Non-vacuity: the hypotheses hold on the programs the differential run uses -/

example : TopCall withNestedCall ∧ TopCall withoutNestedCall ∧ TopCall (recDoc fun k => k) := by decide
example : covered false withoutNestedCall = true := by decide
example : covered false callNonZero = false := by decide
/-- a failing call, a panicking call, an iterator call with a failing document, a leaked map access -/
example : TopCall (outerDoc fun _ => .err (loc 2 4)) ∧ TopCall (outerDoc fun _ => .panic) ∧
    TopCall (.scope true (.guard 5 (.ma false (.key 6 .serr) .done) .done) (.scope true (.probe .done) .done)) ∧
    TopCall (.scope false (.guard 5 (.ma true (.key 6 (.probe .done)) .done) (.probe .done)) .done) := by decide
/-- the three kinds of calls in one history, then the witness: same result as on a fresh thread (instance of
`toplevel_call_history_independent`, evaluated) -/
example : runCall withoutNestedCall
    (runHistory [outerDoc fun _ => .err (loc 2 4), outerDoc fun _ => .panic, withNestedCall] Tls.init) =
    runCall withoutNestedCall Tls.init := by decide
/-- a leaked map access NOT under a guard would leave the cell dirty: the hypothesis `tight` is needed -/
example : (runCall (.scope false (.ma true (.key 6 .done) .done) .done) Tls.init).2.fallback = some 6 := by decide

/-! ## Hash order / hash seed -/

/-- C15, clause "no … hash seed survives a call in a way that can be observed" for the duplicate-key set:
`MA::next_key_seed` run with two representations `s'`, `m.seen` of the same SET of fingerprints (same
membership function — any order, any multiplicity, any hashing) takes the same branch, returns the same
key / error / cursor, and leaves map-access states that differ only in the representation of the set
(`reSeen`: the new set is `fp :: s'` resp. `fp :: m.seen`). All uses of `seen` in `de.rs` are
`contains` and `insert` (lines 2166, 2271, 2314, 2413). -/
theorem seen_membership_only (fuel : Nat) (cfg : Cfg) (ks : Ty ⊕ Unit) (c : Cur) (m : MA) (s' : List FP)
    (h : ∀ fp, s'.any (· == fp) = m.seen.any (· == fp)) :
    nextKey fuel cfg ks c { m with seen := s' } = reSeen s' (nextKey fuel cfg ks c m) :=
  nextKey_reSeen fuel cfg ks c m s' h

/-- in particular the result of `nextKey` is invariant under any permutation of `m.seen` (iteration
order of the hash set) -/
theorem seen_order_irrelevant (fuel : Nat) (cfg : Cfg) (ks : Ty ⊕ Unit) (c : Cur) (m : MA) (s' : List FP)
    (h : s'.Perm m.seen) :
    nextKey fuel cfg ks c { m with seen := s' } = reSeen s' (nextKey fuel cfg ks c m) :=
  nextKey_reSeen fuel cfg ks c m s' (SeenEq.of_perm h)

/-!
## `no_other_state` (code-reading fact, not a theorem)

Read completely for this: the only `thread_local!` / mutable `static` items of the crate are
`anchor_store::STATE` and `de_error::MISSING_FIELD_FALLBACK` (the other statics — `TAG_LOOKUP_MAP`
(`LazyLock<BTreeMap>`), the `OnceLock<Regex>` of `ser_quoting.rs`, `DEFAULT_ENGLISH_LOCALIZER`, `DEFAULT_FMT` —
are immutable after initialisation). Every entry point of `lib.rs` / `de/with_deserializer.rs` constructs
its own `LiveEvents` (`from_str` / `from_reader`), which owns the budget enforcer (`BudgetEnforcer::new`:
counters 0, `defined_anchors: FastHashSet::with_capacity(256)`), the alias counters
(`per_anchor_expansions`, `total_replayed_events`, `rec_stack`, `inject`) and the anchor event buffers; the
map access constructs `seen: FastHashSet::with_capacity(8)` per mapping; the serializer constructs its
pointer→anchor map (`HashMap<usize, AnchorId, BuildNoHashHasher>`) per `YamlSerializer`. The hash sets are
used for `contains`/`insert`/`len`/`clear` only (never iterated); `ahash::RandomState` seeds therefore
cannot influence results (`seen_membership_only`; `PathMap` is covered by C18
`find_unique_order_independent`). The oracle of the `calls` area ties this to the code: every call of the
alphabet gives, after every history of length <= 3 (thorough 4) and after random histories of length
5..12, the byte-identical canonical result it gives on a fresh thread, and the probes of both
thread-locals read "clean" after every call.
-/

end SaphyrVerif.Tls
