import SaphyrVerif.Props.C15
/-!
# C15 — former findings, now regression theorems

Both defects found by this property were repaired in /repo:
* b68ea91 — `with_document_scope` takes the enclosing call's `AnchorState` out of the thread-local and puts
  it back afterwards (was: `reset()` before and after), oracle id `C15-nested-call-clobbers-anchors`;
* 4aaf328 — `FallbackScopeGuard`: the fallback location is cleared for a document scope and restored
  afterwards (was: never cleared), oracle id `C15-nested-call-inherits-fallback-location`.

The theorems below evaluate the model (which follows the repaired code) on the former witnesses; the
oracle of the `calls` area replays the same witnesses on the implementation under the same ids and reports
a violation if one of them fails again. The general statements are `nested_call_independent`,
`nested_call_is_noop` and `nested_call_transparent` in `Props/C15.lean`.
-/
namespace SaphyrVerif.Tls

/-- former finding `C15-nested-call-clobbers-anchors`: `x: &a {v: 1}` / `n: <N::deserialize calls from_str>` /
`y: *a` with `RcAnchor` fields — `x` and `y` share one pointer again, exactly as without the nested call. -/
theorem nested_call_preserves_outer_anchors :
    (runCall withNestedCall Tls.init).1.out = .ok ∧ (runCall withNestedCall Tls.init).1.ptrs = [0, 0] ∧
    (runCall withoutNestedCall Tls.init).1.out = .ok ∧ (runCall withoutNestedCall Tls.init).1.ptrs = [0, 0] := by
  decide

/-- second manifestation of the same former finding: the self reference of an `RcRecursive` node survives a
nested call made while the node is being built (`in_progress` is no longer cleared): the cycle is built. -/
theorem nested_call_preserves_recursive_anchor :
    (runCall (recDoc fun k => .nest callNonZero k) Tls.init).1.out = .ok ∧
    (runCall (recDoc fun k => .nest callNonZero k) Tls.init).1.ptrs = [0, 0] ∧
    (runCall (recDoc fun k => k) Tls.init).1.out = .ok ∧
    (runCall (recDoc fun k => k) Tls.init).1.ptrs = [0, 0] := by decide

/-- former finding `C15-nested-call-inherits-fallback-location`: `from_str::<NonZeroU8>("0")` entered while the
cell holds `line 2, column 1` of an enclosing document fails WITHOUT a location, as on a fresh thread, and
hands the cell back; nested in the witness document its recorded outcome is `err 0` too. -/
theorem nested_call_reports_no_inherited_location :
    runCall callNonZero ⟨.empty, some (loc 2 1)⟩ = (⟨.err 0, [], []⟩, ⟨.empty, some (loc 2 1)⟩) ∧
    (runCall callNonZero Tls.init).1.out = .err 0 ∧
    Item.nestEnd (.err 0) [] ∈ (runCall withNestedCall Tls.init).1.trace := by decide

end SaphyrVerif.Tls
