import SaphyrVerif.Props.C15
/-!
# C15 — findings: counter-example theorems (negations of the full statements, with concrete witnesses)

Model and implementation AGREE on these (the oracle of the `calls` area reproduces each of them on the real
code under the stable ids `C15-nested-call-clobbers-anchors` and
`C15-nested-call-inherits-fallback-location`); it is the property that fails.
-/
namespace SaphyrVerif.Tls

/-- (F) FINDING (oracle id `C15-nested-call-inherits-fallback-location`): the nested call
`from_str::<NonZeroU8>("0")` made while the enclosing call's cell holds `line 2, column 1` fails with THAT
location (of the enclosing document); on a fresh thread the error has no location. -/
theorem nested_call_inherits_outer_fallback :
    (runCall callNonZero ⟨.empty, some (loc 2 1)⟩).1.out = .err (loc 2 1) ∧
    (runCall callNonZero Tls.init).1.out = .err 0 := by decide

theorem nested_call_independent_Full_false : ¬ nested_call_independent_Full := by
  intro h
  have := h callNonZero ⟨.empty, some (loc 2 1)⟩ (by decide)
  revert this
  decide

/-- (F) FINDING (DESIGN.md section 6, oracle id `C15-nested-call-clobbers-anchors`): with the nested call
the fields `x` and `y` get two different pointers although `y` is an alias of `x`'s anchor; without it they
share one. -/
theorem nested_call_clobbers_outer_anchors :
    (runCall withNestedCall Tls.init).1.out = .ok ∧ (runCall withNestedCall Tls.init).1.ptrs = [0, 1] ∧
    (runCall withoutNestedCall Tls.init).1.out = .ok ∧ (runCall withoutNestedCall Tls.init).1.ptrs = [0, 0] := by
  decide

theorem nested_call_transparent_Full_false : ¬ nested_call_transparent_Full := by
  intro h
  -- the state reached after `x`, then `n` (nested call), then `y`
  have := (h callNonZero (rcField 1 (loc 3 4) (loc 1 8) .done) none
    { anchors := { store := [((.rc, 1), 0)] }, next := 1, ptrs := [0] } (by decide)).2
  revert this
  decide

/-- (F) second manifestation of the same defect: the nested call also clears `in_progress`, which the event
source consults for an alias to the node being built — the self reference of a recursive anchor then fails
with `RecursiveReferencesRequireWeakTypes` instead of building the cycle. -/
theorem nested_call_breaks_recursive_anchor :
    (runCall (recDoc fun k => .nest callNonZero k) Tls.init).1.out = .err (loc 4 7) ∧
    (runCall (recDoc fun k => k) Tls.init).1.out = .ok ∧
    (runCall (recDoc fun k => k) Tls.init).1.ptrs = [0, 0] := by decide

end SaphyrVerif.Tls
