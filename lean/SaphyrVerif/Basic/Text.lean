/-!
Text basics shared by all models: strings are `List Char`; Rust `str::trim` (Unicode
White_Space), ASCII case folding, prefix stripping.  Import-free (core only) so the driver links.
-/
namespace SaphyrVerif

/-- Rust `char::is_whitespace` = Unicode `White_Space`. -/
def isWhitespace (c : Char) : Bool :=
  let n := c.toNat
  (0x9 ≤ n && n ≤ 0xD) || n == 0x20 || n == 0x85 || n == 0xA0 || n == 0x1680 ||
  (0x2000 ≤ n && n ≤ 0x200A) || n == 0x2028 || n == 0x2029 || n == 0x202F ||
  n == 0x205F || n == 0x3000

/-- Rust `u8::is_ascii_whitespace` (space, \t, \n, \x0C, \r — *not* \x0B). -/
def isAsciiWhitespace (c : Char) : Bool :=
  c == ' ' || c == '\t' || c == '\n' || c.toNat == 0x0C || c == '\r'

def trimStart (s : List Char) : List Char := s.dropWhile isWhitespace
def trimEnd (s : List Char) : List Char := (s.reverse.dropWhile isWhitespace).reverse
/-- Rust `str::trim`. -/
def trim (s : List Char) : List Char := trimEnd (trimStart s)

def asciiLower (c : Char) : Char :=
  if 'A'.toNat ≤ c.toNat && c.toNat ≤ 'Z'.toNat then Char.ofNat (c.toNat + 32) else c

def lowerAscii (s : List Char) : List Char := s.map asciiLower

/-- Rust `str::eq_ignore_ascii_case`. -/
def eqIgnoreAsciiCase (a b : List Char) : Bool := lowerAscii a == lowerAscii b

/-- Rust `str::strip_prefix`. -/
def stripPrefix? : List Char → List Char → Option (List Char)
  | [], s => some s
  | _ :: _, [] => none
  | p :: ps, c :: cs => if p == c then stripPrefix? ps cs else none

def startsWith (p s : List Char) : Bool := (stripPrefix? p s).isSome

end SaphyrVerif
