/-! UTF-8 encoding / strict decoding between `List Char` and byte lists (`List Nat`, each < 256). -/
namespace SaphyrVerif

def utf8EncodeChar (c : Char) : List Nat :=
  let n := c.toNat
  if n < 0x80 then [n]
  else if n < 0x800 then [0xC0 + n / 64, 0x80 + n % 64]
  else if n < 0x10000 then [0xE0 + n / 4096, 0x80 + (n / 64) % 64, 0x80 + n % 64]
  else [0xF0 + n / 262144, 0x80 + (n / 4096) % 64, 0x80 + (n / 64) % 64, 0x80 + n % 64]

/-- Rust `str::as_bytes` -/
def utf8Bytes (s : List Char) : List Nat := s.flatMap utf8EncodeChar

/-- Rust `String::from_utf8`: strict (shortest form, no surrogates, ≤ U+10FFFF) -/
def utf8DecodeBytes : List Nat → Option (List Char)
  | [] => some []
  | b0 :: rest =>
    if b0 < 0x80 then (utf8DecodeBytes rest).map (Char.ofNat b0 :: ·)
    else if 0xC2 ≤ b0 ∧ b0 < 0xE0 then
      match rest with
      | b1 :: r =>
        if 0x80 ≤ b1 ∧ b1 < 0xC0 then (utf8DecodeBytes r).map (Char.ofNat ((b0 - 0xC0) * 64 + (b1 - 0x80)) :: ·) else none
      | _ => none
    else if 0xE0 ≤ b0 ∧ b0 < 0xF0 then
      match rest with
      | b1 :: b2 :: r =>
        let cp := (b0 - 0xE0) * 4096 + (b1 - 0x80) * 64 + (b2 - 0x80)
        if 0x80 ≤ b1 ∧ b1 < 0xC0 ∧ 0x80 ≤ b2 ∧ b2 < 0xC0 ∧ cp ≥ 0x800 ∧ ¬ (0xD800 ≤ cp ∧ cp < 0xE000)
        then (utf8DecodeBytes r).map (Char.ofNat cp :: ·) else none
      | _ => none
    else if 0xF0 ≤ b0 ∧ b0 < 0xF5 then
      match rest with
      | b1 :: b2 :: b3 :: r =>
        let cp := (b0 - 0xF0) * 262144 + (b1 - 0x80) * 4096 + (b2 - 0x80) * 64 + (b3 - 0x80)
        if 0x80 ≤ b1 ∧ b1 < 0xC0 ∧ 0x80 ≤ b2 ∧ b2 < 0xC0 ∧ 0x80 ≤ b3 ∧ b3 < 0xC0 ∧ cp ≥ 0x10000 ∧ cp ≤ 0x10FFFF
        then (utf8DecodeBytes r).map (Char.ofNat cp :: ·) else none
      | _ => none
    else none

end SaphyrVerif
