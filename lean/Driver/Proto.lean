/-!
Line protocol helpers: tokens are separated by single spaces; every string is `x` followed by the
lowercase hex of its UTF-8 bytes (the empty string is `x`).
-/
namespace Driver

def hexVal (c : Char) : Option Nat :=
  if '0' ≤ c ∧ c ≤ '9' then some (c.toNat - '0'.toNat)
  else if 'a' ≤ c ∧ c ≤ 'f' then some (c.toNat - 'a'.toNat + 10)
  else none

def hexBytes : List Char → Option (List Nat)
  | [] => some []
  | a :: b :: rest =>
    match hexVal a, hexVal b, hexBytes rest with
    | some x, some y, some r => some ((x * 16 + y) :: r)
    | _, _, _ => none
  | _ => none

/-- decode `x<hex>` into bytes -/
def tokBytes (t : String) : Option (List Nat) :=
  match t.toList with
  | 'x' :: h => hexBytes h
  | _ => none

/-- strict UTF-8 decoding of a byte list (shortest form, no surrogates, ≤ U+10FFFF) -/
def utf8Decode : List Nat → Option (List Char)
  | [] => some []
  | b0 :: rest =>
    if b0 < 0x80 then (utf8Decode rest).map (Char.ofNat b0 :: ·)
    else if 0xC2 ≤ b0 ∧ b0 < 0xE0 then
      match rest with
      | b1 :: r =>
        if 0x80 ≤ b1 ∧ b1 < 0xC0 then (utf8Decode r).map (Char.ofNat ((b0 - 0xC0) * 64 + (b1 - 0x80)) :: ·) else none
      | _ => none
    else if 0xE0 ≤ b0 ∧ b0 < 0xF0 then
      match rest with
      | b1 :: b2 :: r =>
        let cp := (b0 - 0xE0) * 4096 + (b1 - 0x80) * 64 + (b2 - 0x80)
        if 0x80 ≤ b1 ∧ b1 < 0xC0 ∧ 0x80 ≤ b2 ∧ b2 < 0xC0 ∧ cp ≥ 0x800 ∧ ¬ (0xD800 ≤ cp ∧ cp < 0xE000)
        then (utf8Decode r).map (Char.ofNat cp :: ·) else none
      | _ => none
    else if 0xF0 ≤ b0 ∧ b0 < 0xF5 then
      match rest with
      | b1 :: b2 :: b3 :: r =>
        let cp := (b0 - 0xF0) * 262144 + (b1 - 0x80) * 4096 + (b2 - 0x80) * 64 + (b3 - 0x80)
        if 0x80 ≤ b1 ∧ b1 < 0xC0 ∧ 0x80 ≤ b2 ∧ b2 < 0xC0 ∧ 0x80 ≤ b3 ∧ b3 < 0xC0 ∧ cp ≥ 0x10000 ∧ cp ≤ 0x10FFFF
        then (utf8Decode r).map (Char.ofNat cp :: ·) else none
      | _ => none
    else none

def tokChars (t : String) : Option (List Char) := (tokBytes t).bind utf8Decode

def hexDigit (n : Nat) : Char := if n < 10 then Char.ofNat (48 + n) else Char.ofNat (87 + n)

def bytesTok (bs : List Nat) : String :=
  String.ofList ('x' :: bs.flatMap (fun b => [hexDigit (b / 16), hexDigit (b % 16)]))

def utf8Encode (cs : List Char) : List Nat :=
  cs.flatMap fun c =>
    let n := c.toNat
    if n < 0x80 then [n]
    else if n < 0x800 then [0xC0 + n / 64, 0x80 + n % 64]
    else if n < 0x10000 then [0xE0 + n / 4096, 0x80 + (n / 64) % 64, 0x80 + n % 64]
    else [0xF0 + n / 262144, 0x80 + (n / 4096) % 64, 0x80 + (n / 64) % 64, 0x80 + n % 64]

def charsTok (cs : List Char) : String := bytesTok (utf8Encode cs)

def optTok {α} (f : α → String) : Option α → String
  | none => "none"
  | some a => "some " ++ f a

def boolTok (b : Bool) : String := if b then "1" else "0"

def tokBool (t : String) : Bool := t == "1"

end Driver
