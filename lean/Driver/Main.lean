import Driver.C06
import Driver.C07
import Driver.PumpDrv
import Driver.E2E
import Driver.PathMap
import Driver.Robotics
import Driver.Reader
import Driver.IoFault
import Driver.Snippet
import Driver.ScalarRt
import Driver.Calls
import Driver.Locs
import Driver.Anchors
import Driver.Emit
/-!
`modeldrv`: one request per line on stdin (`<area> <op> <args…>`), one answer per line on stdout.
-/
open Driver

def dispatch (line : String) : String :=
  match line.trimAscii.toString.splitOn " " with
  | "c06" :: rest => C06.handle rest
  | "c07" :: rest => C07.handle rest
  | "pump" :: rest => PumpDrv.handle rest
  | "e2e" :: rest => E2E.handle rest
  | "pathmap" :: rest => PathMap.handle rest
  | "robotics" :: rest => Robotics.handle rest
  | "reader" :: rest => Reader.handle rest
  | "iofault" :: rest => IoFault.handle rest
  | "snippet" :: rest => Snippet.handle rest
  | "scalarrt" :: rest => ScalarRt.handle rest
  | "calls" :: rest => Calls.handle rest
  | "locs" :: rest => Locs.handle rest
  | "anchors" :: rest => Anchors.handle rest
  | "emit" :: rest => Emit.handle rest
  | _ => "bad-op"

partial def loop (h : IO.FS.Stream) (out : IO.FS.Stream) : IO Unit := do
  let line ← h.getLine
  if line.isEmpty then return ()
  out.putStrLn (dispatch line)
  loop h out

def main : IO Unit := do
  let stdin ← IO.getStdin
  let stdout ← IO.getStdout
  loop stdin stdout
