import Driver.Proto
import SaphyrVerif.Model.EmitQuote
import SaphyrVerif.Spec.EmitReader
/-!
Driver for area `emit` (C13 / C20).

Ops:
* `emit ser <opts> | <value>`   → `ok x<hex of emitted text>` / `err <kind>`  (emitter model, instantiated
  with the crate's scalar-text functions `implFns`)
* `emit read x<hex text>`       → `some <tree>` / `none`   (reference reader `readDoc`)
* `emit erase <value>`          → `<tree>`                 (`erase`)

`<opts>` = `indent minFold foldWrap tagged braces compact preferBlock quoteAll yaml12`.
`<value>` is prefix notation with explicit child counts (see harness/src/emit.rs `SV::tokens`).
-/
namespace Driver.Emit
open Driver SaphyrVerif SaphyrVerif.Emit

mutual
partial def parseVal : List String → Option (SVal × List String)
  | "U" :: r => some (.unit, r)
  | "B0" :: r => some (.bool false, r)
  | "B1" :: r => some (.bool true, r)
  | "I" :: i :: r => i.toInt?.map fun i => (.int i, r)
  | "S" :: s :: r => (tokChars s).map fun s => (.str s, r)
  | "N" :: r => some (.none, r)
  | "O" :: r => (parseVal r).map fun (v, r) => (.some v, r)
  | "NS" :: r => (parseVal r).map fun (v, r) => (.newtypeStruct v, r)
  | "L" :: n :: r => (parseVals n.toNat! r).map fun (vs, r) => (.seq vs, r)
  | "T" :: n :: r => (parseVals n.toNat! r).map fun (vs, r) => (.tuple vs, r)
  | "TS" :: n :: r => (parseVals n.toNat! r).map fun (vs, r) => (.tupleStruct vs, r)
  | "M" :: k :: n :: r => (parseEntries n.toNat! r).map fun (es, r) => (.map (k == "1") es, r)
  | "ST" :: n :: r => (parseFields n.toNat! r).map fun (fs, r) => (SVal.struct fs, r)
  | "UV" :: e :: v :: r =>
    match tokChars e, tokChars v with
    | some e, some v => some (.unitVariant e v, r)
    | _, _ => none
  | "NV" :: v :: r =>
    match tokChars v, parseVal r with
    | some v, some (x, r) => some (.newtypeVariant v x, r)
    | _, _ => none
  | "TV" :: v :: n :: r =>
    match tokChars v, parseVals n.toNat! r with
    | some v, some (xs, r) => some (.tupleVariant v xs, r)
    | _, _ => none
  | "SV" :: v :: n :: r =>
    match tokChars v, parseFields n.toNat! r with
    | some v, some (fs, r) => some (SVal.structVariantOf v fs, r)
    | _, _ => none
  | "FS" :: r => (parseVal r).map fun (v, r) => (.flowSeq v, r)
  | "FM" :: r => (parseVal r).map fun (v, r) => (.flowMap v, r)
  | "C" :: c :: r =>
    match tokChars c, parseVal r with
    | some c, some (v, r) => some (.commented v c, r)
    | _, _ => none
  | "SA" :: r => (parseVal r).map fun (v, r) => (.spaceAfter v, r)
  | "LS" :: s :: r => (tokChars s).map fun s => (.litStr s, r)
  | "FO" :: s :: r => (tokChars s).map fun s => (.foldStr s, r)
  | _ => none
partial def parseVals : Nat → List String → Option (List SVal × List String)
  | 0, r => some ([], r)
  | n + 1, r =>
    match parseVal r with
    | some (v, r) => (parseVals n r).map fun (vs, r) => (v :: vs, r)
    | none => none
partial def parseEntries : Nat → List String → Option (List (SVal × SVal) × List String)
  | 0, r => some ([], r)
  | n + 1, r =>
    match parseVal r with
    | some (k, r) =>
      match parseVal r with
      | some (v, r) => (parseEntries n r).map fun (es, r) => ((k, v) :: es, r)
      | none => none
    | none => none
partial def parseFields : Nat → List String → Option (List (List Char × SVal) × List String)
  | 0, r => some ([], r)
  | n + 1, name :: r =>
    match tokChars name, parseVal r with
    | some nm, some (v, r) => (parseFields n r).map fun (fs, r) => ((nm, v) :: fs, r)
    | _, _ => none
  | _, _ => none
end

def parseOpts : List String → Option (Opts × List String)
  | ind :: mf :: fw :: tg :: br :: cp :: pb :: qa :: y12 :: r =>
    match ind.toNat?, mf.toNat?, fw.toNat? with
    | some ind, some mf, some fw =>
      some ({ indentStep := ind, minFoldChars := mf, foldedWrapCol := fw, taggedEnums := tokBool tg,
              emptyAsBraces := tokBool br, compactListIndent := tokBool cp, preferBlockScalars := tokBool pb,
              quoteAll := tokBool qa, yaml12 := tokBool y12 }, r)
    | _, _, _ => none
  | _ => none

partial def pvalTok : PVal → String
  | .null => "N"
  | .bool b => if b then "B1" else "B0"
  | .int i => s!"I{i}"
  | .str s => "S" ++ charsTok s
  | .seq xs => s!"L {xs.length}" ++ String.join (xs.map fun x => " " ++ pvalTok x)
  | .map es => s!"M {es.length}" ++ String.join (es.map fun e => " " ++ pvalTok e.1 ++ " " ++ pvalTok e.2)

def errTok : EmitErr → String
  | .invalidOptions => "err invalid_options"
  | .nonScalarKey => "err non_scalar_key"

def handle : List String → String
  | "ser" :: rest =>
    match parseOpts rest with
    | some (o, "|" :: r) =>
      match parseVal r with
      | some (v, []) =>
        match emit o implFns v with
        | .ok out => "ok " ++ charsTok out
        | .error e => errTok e
      | _ => "bad-op"
    | _ => "bad-op"
  | ["read", t] =>
    match tokChars t with
    | some cs => optTok pvalTok (readDoc cs)
    | none => "bad-op"
  | "erase" :: r =>
    match parseVal r with
    | some (v, []) => pvalTok (erase v)
    | _ => "bad-op"
  | _ => "bad-op"

end Driver.Emit
