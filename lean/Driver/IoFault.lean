import Driver.PumpDrv
import Driver.Reader
import SaphyrVerif.Model.IoCell
import SaphyrVerif.Model.RawGate
/-!
Driver for the `iofault` area (C10).

  iofault single <fires> <budget…> <a> <b> <c> <items…>   → `ok` | `err <kind>`
  iofault iter   <fires> <budget…> <a> <b> <c> <items…>   → items joined by `,` then ` end=<0|1>`
  iofault writer <own 0|1> <wsched> <chunks>               → `<ok|io k|format|own> <written hex>`
  iofault gate   <cap|-> <base 0|1|-> <items>              → `<eof|io k> <ok|err|?>`
  iofault gatepull <cap|-> <items>                         → `pulled=<n>`

`gate`: the raw-byte gate (`Model/RawGate.lean`) over the caller's reader `items` (`-` | `d<hex>`/`f<kind>` joined by
`,`, as in the `reader` area), drained by a consumer that reads 8 KiB buffers to the first end of input or hard error:
how it ended and the outcome class of the entry point (`gate`), the bytes taken from the reader (`gatepull`) — `err` after any fault,
otherwise `base` (the class of `from_str` on the decoded text: `0` = ok, `1` = err, `-` = unknown).

`fires` = `-` or `n:k` joined by `,`; budget as in the `pump` area (`-` or `<perdoc> <11 limits>`);
`wsched` = `-` or `a<n>`/`f<k>` joined by `,`; `chunks` = `-` or hex strings joined by `,`.
-/
namespace Driver.IoFault
open Driver SaphyrVerif SaphyrVerif.Pump SaphyrVerif.Reader SaphyrVerif.IoCell

def parseFire (t : String) : Option (Nat × IoKind) :=
  match t.splitOn ":" with
  | [n, k] => match n.toNat?, k.toNat? with
    | some n, some k => some (n, k)
    | _, _ => none
  | _ => none

def parseFires (t : String) : Option (List (Nat × IoKind)) :=
  if t == "-" then some [] else (t.splitOn ",").mapM parseFire

def pumpKind : PErr → String
  | .scan _ => "scan"
  | .unknownAnchor _ => "unknown_anchor"
  | .budget _ _ => "budget"
  | .foldedIndent _ => "folded_indent"
  | .aliasExpansionLimit .. => "alias_expansion"
  | .replayStackDepth .. => "replay_depth"
  | .recursiveRef _ => "recursive"
  | .replayLimit .. => "replay_limit"
  | .depthUnderflow _ => "depth_underflow"
  | .multipleDocuments _ => "multi_doc"

def errKind : Err → String
  | .io k => s!"io{k}"
  | .pump e => pumpKind e
  | .eof => "eof"
  | .eofSynth => "eof"
  | .unexpectedEnd => "unexpected_end"
  | .multiDoc => "multi_doc"
  | .client => "client"
  | .fuel => "fuel"

def mkSrc (fires : List (Nat × IoKind)) (p : Pump) (items : List RawItem) : Src :=
  { pump := p, input := items, total := items.length, fires := fires }

def parseWItem (t : String) : Option WItem :=
  match t.toList with
  | 'a' :: n => (String.ofList n).toNat?.map .accept
  | 'f' :: k => (String.ofList k).toNat?.map .fail
  | _ => none

def parseList {α} (f : String → Option α) (t : String) : Option (List α) :=
  if t == "-" then some [] else (t.splitOn ",").mapM f

def withSrc (rest : List String) (k : Src → String) : String :=
  match rest with
  | fires :: rest =>
    match parseFires fires, PumpDrv.parseBudget rest with
    | some fires, some (bud, a :: b :: c :: itemToks) =>
      let (items, left) := PumpDrv.parseItems itemToks #[]
      if !left.isEmpty then "bad-op items" else
      k (mkSrc fires (PumpDrv.mkPump false bud a.toNat! b.toNat! c.toNat!) items.toList)
    | _, _ => "bad-op"
  | _ => "bad-op"

/-- the gate over the caller's reader `sched`, drained by a consumer that reads 8 KiB buffers to the first end of input
or hard error (`Gate.drain`; `raw_gate_drained` in Props/C10.lean states what it returns) -/
def drainGate (cap : String) (sched : Sched) : List Nat × Option IoKind × Gate :=
  let limit : Option Nat := if cap == "-" then none else cap.toNat?
  Gate.drain 8192 ((flat sched).length + sched.length + 2) { inner := sched, limit := limit }

def handle : List String → String
  | "single" :: rest =>
    withSrc rest fun s =>
      match (fromReader consumeNode 1000000 s).1 with
      | .ok => "ok"
      | .err e => "err " ++ errKind e
  | "iter" :: rest =>
    withSrc rest fun s =>
      let r := iterAll consumeNode 1000000 100000 { src := s }
      let items := r.1.map fun
        | .ok => "ok"
        | .err e => "err:" ++ errKind e
      (if items.isEmpty then "-" else String.intercalate "," items) ++ s!" end={boolTok r.2.1}"
  | ["writer", own, wsched, chunks] =>
    match parseList parseWItem wsched, parseList (fun t => hexBytes t.toList) chunks with
    | some ws, some cs =>
      let (res, w) := toIoWriter cs (own == "1") { sched := ws }
      (match res with
       | .ok => "ok"
       | .io k => s!"io{k}"
       | .format => "format"
       | .own => "own") ++ " " ++ bytesTok w.written
    | _, _ => "bad-op"
  | ["gate", cap, base, items] =>
    match Driver.Reader.parseItems items with
    | some sched =>
      let (_, e, _) := drainGate cap sched
      let endTok := match e with
        | none => "eof"
        | some k => s!"io{k}"
      let cls := match e with
        | some _ => "err"
        | none => if base == "0" then "ok" else if base == "1" then "err" else "?"
      s!"{endTok} {cls}"
    | none => "bad-op"
  | ["gatepull", cap, items] =>
    match Driver.Reader.parseItems items with
    | some sched => s!"pulled={(drainGate cap sched).2.2.taken}"
    | none => "bad-op"
  | _ => "bad-op"

end Driver.IoFault
