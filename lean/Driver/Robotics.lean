import Driver.Proto
import SaphyrVerif.Model.Robotics
/-!
Driver for area `robotics` (C19): the evaluator model, its call site, and the IEEE-754 model itself
(so that `Model/F64.lean` is validated against the hardware by the same differential).
Floats cross the protocol as decimal bit patterns; NaN is canonical.
-/
namespace Driver.Robotics
open Driver SaphyrVerif SaphyrVerif.F64 SaphyrVerif.Robotics

def resTok (f : Fmt) (conv : Fl → Fl) : Res Fl → String
  | .ok v => "ok " ++ toString (toBits f (conv v))
  | .err e _ => "err " ++ toString e.code
  | .panic s => "panic " ++ s.name
  | .fuel => "fuel"

def fresTok (f : Fmt) : FRes → String
  | .ok v => "some " ++ toString (toBits f v)
  | .invalid => "none"
  | .hook _ => "none"
  | .panic s => "panic " ++ s.name
  | .fuel => "fuel"

def bin (op : Fl → Fl → Fl) (a b : String) : String :=
  match a.toNat?, b.toNat? with
  | some x, some y => toString (toBits binary64 (op (ofBits binary64 x) (ofBits binary64 y)))
  | _, _ => "bad-op"

def bin32 (op : Fl → Fl → Fl) (a b : String) : String :=
  match a.toNat?, b.toNat? with
  | some x, some y => toString (toBits binary32 (op (ofBits binary32 x) (ofBits binary32 y)))
  | _, _ => "bad-op"

def handle : List String → String
  | ["eval", tag, s] =>
    match tag.toNat?, tokBytes s with
    | some t, some bs => resTok binary64 id (evalExpr t bs)
    | _, _ => "bad-op"
  | ["eval32", tag, s] =>
    match tag.toNat?, tokBytes s with
    | some t, some bs => resTok binary32 (convert binary32) (evalExpr t bs)
    | _, _ => "bad-op"
  | ["f64", tag, angle, s] =>
    match tag.toNat?, tokChars s with
    | some t, some cs => fresTok binary64 (parseYaml12Float false cs t (tokBool angle))
    | _, _ => "bad-op"
  | ["f32", tag, angle, s] =>
    match tag.toNat?, tokChars s with
    | some t, some cs => fresTok binary32 (parseYaml12Float true cs t (tokBool angle))
    | _, _ => "bad-op"
  | ["fadd", a, b] => bin (add binary64) a b
  | ["fsub", a, b] => bin (sub binary64) a b
  | ["fmul", a, b] => bin (mul binary64) a b
  | ["fdiv", a, b] => bin (div binary64) a b
  | ["fadd32", a, b] => bin32 (add binary32) a b
  | ["fsub32", a, b] => bin32 (sub binary32) a b
  | ["fmul32", a, b] => bin32 (mul binary32) a b
  | ["fdiv32", a, b] => bin32 (div binary32) a b
  | ["fneg", a] =>
    match a.toNat? with
    | some x => toString (toBits binary64 (neg (ofBits binary64 x)))
    | _ => "bad-op"
  | ["narrow", a] =>
    match a.toNat? with
    | some x => toString (toBits binary32 (convert binary32 (ofBits binary64 x)))
    | _ => "bad-op"
  | ["widen", a] =>
    match a.toNat? with
    | some x => toString (toBits binary64 (convert binary64 (ofBits binary32 x)))
    | _ => "bad-op"
  | ["gt", a, b] =>
    match a.toNat?, b.toNat? with
    | some x, some y => boolTok (gt (ofBits binary64 x) (ofBits binary64 y))
    | _, _ => "bad-op"
  | ["tou32", a] =>
    match a.toNat? with
    | some x => toString (toU32 (ofBits binary64 x))
    | _ => "bad-op"
  | ["u32tof", a] =>
    match a.toNat? with
    | some x => toString (toBits binary64 (ofNat binary64 x))
    | _ => "bad-op"
  | ["dec64", s] =>
    match tokBytes s with
    | some bs => optTok (fun v => toString (toBits binary64 v)) (fromStr binary64 bs)
    | _ => "bad-op"
  | ["dec32", s] =>
    match tokBytes s with
    | some bs => optTok (fun v => toString (toBits binary32 v)) (fromStr binary32 bs)
    | _ => "bad-op"
  | _ => "bad-op"

end Driver.Robotics
