import Driver.Proto
import SaphyrVerif.Spec.Scalars
import SaphyrVerif.Model.Float
namespace Driver.C06
open Driver SaphyrVerif SaphyrVerif.Scalars

def handle : List String → String
  | ["int_s", w, legacy, s] =>
    match w.toNat?, tokChars s with
    | some w, some cs => optTok toString (parseIntSigned w (tokBool legacy) cs)
    | _, _ => "bad-op"
  | ["int_u", w, legacy, s] =>
    match w.toNat?, tokChars s with
    | some w, some cs => optTok toString (parseIntUnsigned w (tokBool legacy) cs)
    | _, _ => "bad-op"
  | ["spec_int_s", w, legacy, s] =>
    match w.toNat?, tokChars s with
    | some w, some cs =>
      optTok toString ((Spec.intNotation (tokBool legacy) cs).bind fun v => if fitsSigned w v then some v else none)
    | _, _ => "bad-op"
  | ["spec_int_u", w, legacy, s] =>
    match w.toNat?, tokChars s with
    | some w, some cs =>
      optTok toString ((Spec.uintNotation (tokBool legacy) cs).bind fun v => if fitsUnsigned w v then some v else none)
    | _, _ => "bad-op"
  | ["bool11", s] =>
    match tokChars s with
    | some cs => optTok boolTok (parseYaml11Bool cs)
    | _ => "bad-op"
  | ["boolstrict", s] =>
    match tokChars s with
    | some cs => optTok boolTok (parseStrictBool cs)
    | _ => "bad-op"
  | ["nullish", st, s] =>
    match st.toNat?, tokChars s with
    | some st, some cs => boolTok (scalarIsNullish cs (Style.ofCode st))
    | _, _ => "bad-op"
  | ["nullish_opt", st, s] =>
    match st.toNat?, tokChars s with
    | some st, some cs => boolTok (scalarIsNullishForOption cs (Style.ofCode st))
    | _, _ => "bad-op"
  | ["lzd", s] =>
    match tokChars s with
    | some cs => boolTok (leadingZeroDecimal cs)
    | _ => "bad-op"
  | ["float", w, s] =>
    match w.toNat?, tokChars s with
    | some w, some cs =>
      (match Float.parseYaml12Float w cs with
       | none => "none"
       | some .nan => "some nan"
       | some (.bits b) => s!"some {b}")
    | _, _ => "bad-op"
  | ["b64", s] =>
    match tokBytes s with
    | some bs => optTok bytesTok (Base64.decode bs)
    | _ => "bad-op"
  | ["b64enc", s] =>
    match tokBytes s with
    | some bs => bytesTok (Spec.b64encode bs)
    | _ => "bad-op"
  | _ => "bad-op"

end Driver.C06
