import Driver.Proto
import SaphyrVerif.Model.Snippet
/-!
Driver for area `snippet` (C17): one op per helper of `src/de/snippet.rs`, the region bookkeeping of
`src/de_error.rs` and the ring-reader trimming. A modelled Rust panic is answered as `panic`.
-/
namespace Driver.Snippet
open Driver SaphyrVerif SaphyrVerif.Snippet

def res {α} (f : α → String) : Res α → String
  | .ok a => f a
  | .panic _ => "panic"

def natsTok (xs : List Nat) : String :=
  if xs.isEmpty then "-" else ",".intercalate (xs.map toString)

def mapTok (t : String) : Option Mapping :=
  if t == "id" then some none else t.toNat?.map some

def handle : List String → String
  | ["sanitize", s] =>
    match tokChars s with
    | some cs => res (fun r => "ok " ++ charsTok r) (sanitize cs)
    | _ => "bad-op"
  | ["clean", s] =>
    match tokChars s with
    | some cs => boolTok (isClean cs)
    | _ => "bad-op"
  | ["starts", s] =>
    match tokChars s with
    | some cs => natsTok (lineStarts cs)
    | _ => "bad-op"
  | ["col2byte", s, col] =>
    match tokChars s, col.toNat? with
    | some cs, some c => optTok toString (colToByte cs c)
    | _, _ => "bad-op"
  | ["lc2byte", s, row, col] =>
    match tokChars s, row.toNat?, col.toNat? with
    | some cs, some r, some c => res (optTok toString) (lineColToByte cs (lineStarts cs) r c)
    | _, _, _ => "bad-op"
  | ["nextb", s, start] =>
    match tokChars s, start.toNat? with
    | some cs, some st => res (optTok toString) (nextCharBoundary cs st)
    | _, _ => "bad-op"
  | ["cropline", s, l, r] =>
    match tokChars s, l.toNat?, r.toNat? with
    | some cs, some l, some r =>
      res (fun (o, c) => s!"ok {charsTok o} {c.startByte} {c.prefixBytes}") (cropLineByCols cs l r)
    | _, _, _ => "bad-op"
  | ["cropwin", s, wsr, erow, ecol, rad, ls, le] =>
    match tokChars s, wsr.toNat?, erow.toNat?, ecol.toNat?, rad.toNat?, ls.toNat?, le.toNat? with
    | some cs, some wsr, some erow, some ecol, some rad, some ls, some le =>
      res (fun (o, a, b) => s!"ok {charsTok o} {a} {b}") (cropWindowText cs wsr erow ecol rad ls le)
    | _, _, _, _, _, _, _ => "bad-op"
  | ["cropsrc", s, line, col, m, rad] =>
    match tokChars s, line.toNat?, col.toNat?, mapTok m, rad.toNat? with
    | some cs, some line, some col, some m, some rad =>
      res (fun (o, sl) => s!"ok {charsTok o} {sl}") (cropSourceWindow cs ⟨line, col⟩ m rad)
    | _, _, _, _, _ => "bad-op"
  | ["fmtwin", s, line, col, sl, msg, rad] =>
    match tokChars s, line.toNat?, col.toNat?, sl.toNat?, tokChars msg, rad.toNat? with
    | some cs, some line, some col, some sl, some msg, some rad =>
      res (fun o => "ok " ++ charsTok o) (fmtWindow cs ⟨line, col⟩ (some sl) msg rad)
    | _, _, _, _, _, _ => "bad-op"
  | ["regions", s, line, col, m, rad] =>
    match tokChars s, line.toNat?, col.toNat?, mapTok m, rad.toNat? with
    | some cs, some line, some col, some m, some rad =>
      res (fun rs => s!"ok {rs.length}" ++
            String.join (rs.map fun r => s!" {charsTok r.text} {r.startLine} {r.endLine}"))
        (withSnippetRegions cs ⟨line, col⟩ m rad)
    | _, _, _, _, _ => "bad-op"
  | ["ringtrim", bs, so, sl] =>
    match tokBytes bs, so.toNat?, sl.toNat? with
    | some bs, some so, some sl =>
      res (fun (a, b, c) => s!"ok {a} {b} {bytesTok c}") (ringTrim bs so sl)
    | _, _, _ => "bad-op"
  | ["ringrun", bs, consumed, _readSize, _innerChunk] =>
    match tokBytes bs, consumed.toNat? with
    | some bs, some c =>
      res (fun (a, b, l, d) => s!"ok {a} {b} {l} {bytesTok d}") (ringRun ringCap maxReadAhead bs c)
    | _, _ => "bad-op"
  | ["ringaligned", bs, consumed, _readSize, _innerChunk] =>
    match tokBytes bs, consumed.toNat? with
    | some bs, some c =>
      res (fun (a, t, l) => s!"ok {boolTok a} {charsTok t} {l}") (ringRunAligned ringCap maxReadAhead bs c)
    | _, _ => "bad-op"
  | _ => "bad-op"

end Driver.Snippet
