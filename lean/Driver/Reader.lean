import Driver.Proto
import SaphyrVerif.Model.Reader
/-!
Driver for the `reader` area (C09): `ChunkedChars` over a schedule of read results, `RingReader`
operation sequences.

  reader cc <cap|-> <maxnone> <maxcalls> <items>     items = `-` | `d<hex>`/`f<kind>` joined by `,`
  reader ring <items> <ops>                           ops = `r<n>` / `g` joined by `,`
-/
namespace Driver.Reader
open Driver SaphyrVerif SaphyrVerif.Reader

def parseItem (t : String) : Option RItem :=
  match t.toList with
  | 'd' :: h => (hexBytes h).map .data
  | 'f' :: k => (String.ofList k).toNat?.map .fail
  | _ => none

def parseItems (t : String) : Option Sched :=
  if t == "-" then some [] else (t.splitOn ",").mapM parseItem

def stepTok (st : Option Char × Option IoKind) : String :=
  (match st.1 with
   | some c => "c" ++ charsTok [c]
   | none => "n") ++
  (match st.2 with
   | some k => s!"/e{k}"
   | none => "")

def parseOp (t : String) : Option RingOp :=
  match t.toList with
  | ['g'] => some .recent
  | 'r' :: n => (String.ofList n).toNat?.map .read
  | _ => none

def readResTok : ReadRes → String
  | .ok bs => "r:" ++ bytesTok bs
  | .err k => s!"r!{k}"

def ringOutTok (o : RingOut × Ring) : String :=
  (match o.1 with
   | .read r => readResTok r
   | .recent (.ok s) => s!"g:{s.startOffset}:{s.endOffset}:{s.startLine}:{bytesTok s.bytes}"
   | .recent (.error k) => s!"g!{k}") ++ s!"@{o.2.returnedTotal}+{o.2.stash.length}"

def handle : List String → String
  | ["cc", cap, maxNone, maxCalls, items] =>
    match parseItems items, maxNone.toNat?, maxCalls.toNat? with
    | some sched, some mn, some mc =>
      let capv : Option Nat := if cap == "-" then none else cap.toNat?
      let (steps, cc) := runSteps mc mn { reader := sched, maxBytes := capv }
      String.intercalate " " (steps.map stepTok) ++ s!" pulled={cc.pulled}"
    | _, _, _ => "bad-op"
  | ["ring", items, ops] =>
    match parseItems items, (ops.splitOn ",").mapM parseOp with
    | some sched, some ops =>
      let outs := Ring.run { inner := sched } ops
      String.intercalate " " (outs.map ringOutTok)
    | _, _ => "bad-op"
  | _ => "bad-op"

end Driver.Reader
