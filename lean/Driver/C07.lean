import Driver.Events
import SaphyrVerif.Model.Budget
namespace Driver.C07
open Driver SaphyrVerif SaphyrVerif.Budget

def breachTok : Breach → String
  | .events n => s!"events {n}"
  | .aliases n => s!"aliases {n}"
  | .anchors n => s!"anchors {n}"
  | .depth n => s!"depth {n}"
  | .documents n => s!"documents {n}"
  | .nodes n => s!"nodes {n}"
  | .scalarBytes n => s!"scalarbytes {n}"
  | .mergeKeys n => s!"mergekeys {n}"
  | .ratio a b => s!"ratio {a} {b}"
  | .unbalanced => "unbalanced"

def reportTok (r : Report) : String :=
  s!"{r.events} {r.aliases} {r.anchors} {r.documents} {r.nodes} {r.maxDepth} {r.totalScalarBytes} {r.mergeKeys}"

def parseLimits : List String → Option (Limits × List String)
  | a :: b :: c :: d :: e :: f :: g :: h :: i :: j :: k :: rest =>
    some ({ maxEvents := a.toNat!, maxAliases := b.toNat!, maxAnchors := c.toNat!, maxDepth := d.toNat!,
            maxDocuments := e.toNat!, maxNodes := f.toNat!, maxTotalScalarBytes := g.toNat!,
            maxMergeKeys := h.toNat!, enforceRatio := i == "1", minAliases := j.toNat!, multiplier := k.toNat! }, rest)
  | _ => none

/-- `run <perdoc> <11 limits> <events…>` → `ok <report> <none|ratio a b>` | `err <i> <breach>` -/
def handle : List String → String
  | "run" :: pd :: rest =>
    match parseLimits rest with
    | none => "bad-op"
    | some (lim, evToks) =>
      let (evs, left) := parseRaws evToks #[]
      if !left.isEmpty then "bad-op" else
      match run lim (pd == "1") evs.toList with
      | .error (i, b) => s!"err {i} {breachTok b}"
      | .ok e =>
        let (r, br) := e.finalize
        s!"ok {reportTok r} " ++ (match br with | none => "none" | some b => breachTok b)
  | _ => "bad-op"

end Driver.C07
