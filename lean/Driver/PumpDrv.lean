import Driver.Events
import Driver.C07
import SaphyrVerif.Model.Pump
namespace Driver.PumpDrv
open Driver SaphyrVerif SaphyrVerif.Scalars SaphyrVerif.Budget SaphyrVerif.Pump

/-- parse parser items: `@<loc> <event tokens>` | `!<0|1>@<loc>` -/
partial def parseItems (toks : List String) (acc : Array RawItem) : Array RawItem × List String :=
  match toks with
  | [] => (acc, [])
  | t :: rest =>
    if t.startsWith "@" then
      match (t.drop 1).toNat? with
      | none => (acc, toks)
      | some loc =>
        -- parse exactly one event
        let one : Option (Raw × List String) :=
          match rest with
          | "no" :: r => some (.nothing, r)
          | "S" :: r => some (.streamStart, r)
          | "E" :: r => some (.streamEnd, r)
          | "D0" :: r => some (.docStart false, r)
          | "D1" :: r => some (.docStart true, r)
          | "d" :: r => some (.docEnd, r)
          | "se" :: r => some (.seqEnd, r)
          | "me" :: r => some (.mapEnd, r)
          | "al" :: id :: r => some (.alias id.toNat!, r)
          | "sc" :: st :: a :: tg :: v :: r =>
            match tokTag tg, tokChars v with
            | some tg, some v => some (.scalar v (Style.ofCode st.toNat!) a.toNat! tg, r)
            | _, _ => none
          | "ss" :: a :: tg :: r => (tokTag tg).map fun tg => (.seqStart a.toNat! tg, r)
          | "ms" :: a :: tg :: r => (tokTag tg).map fun tg => (.mapStart a.toNat! tg, r)
          | _ => none
        match one with
        | some (ev, r) => parseItems r (acc.push (.ev ev loc))
        | none => (acc, toks)
    else if t.startsWith "!" then
      match (t.drop 3).toNat? with
      | some loc => parseItems rest (acc.push (.err ((t.drop 1).take 1 == "1") loc))
      | none => (acc, toks)
    else (acc, toks)

def rawTagTok : Option (List Char) → String
  | none => "-"
  | some t => charsTok t

def styleCode : Style → Nat
  | .plain => 0 | .single => 1 | .double => 2 | .literal => 3 | .folded => 4

def evTok (e : Ev) (r : Loc) : String :=
  match e with
  | .scalar v tag rt st a l => s!"s:{tag}:{rawTagTok rt}:{styleCode st}:{a}:{l}:{r}:{charsTok v}"
  | .seqStart a tag rt l => s!"[:{tag}:{rawTagTok rt}:{a}:{l}:{r}"
  | .seqEnd l => s!"]:{l}:{r}"
  | .mapStart a l => "{:" ++ s!"{a}:{l}:{r}"
  | .mapEnd l => "}:" ++ s!"{l}:{r}"

def errTok : PErr → String
  | .scan l => s!"scan {l}"
  | .unknownAnchor l => s!"unknown_anchor {l}"
  | .budget b l => s!"budget {C07.breachTok b} @{l}"
  | .foldedIndent l => s!"folded_indent {l}"
  | .aliasExpansionLimit id c m l => s!"alias_expansion {id} {c} {m} {l}"
  | .replayStackDepth d m l => s!"replay_depth {d} {m} {l}"
  | .recursiveRef l => s!"recursive {l}"
  | .replayLimit t m l => s!"replay_limit {t} {m} {l}"
  | .depthUnderflow l => s!"depth_underflow {l}"
  | .multipleDocuments l => s!"multi_doc {l}"

/-- parse `- ` or `<perdoc> <11 limits>` -/
def parseBudget : List String → Option (Option Enf × List String)
  | "-" :: rest => some (none, rest)
  | pd :: rest =>
    match C07.parseLimits rest with
    | some (lim, r) => some (some (Enf.new lim (pd == "1")), r)
    | none => none
  | [] => none

def mkPump (stop : Bool) (bud : Option Enf) (a b c : Nat) : Pump :=
  { limits := { maxTotalReplayedEvents := a, maxReplayStackDepth := b, maxAliasExpansionsPerAnchor := c },
    budget := bud, stopAtDocEnd := stop }

def handle : List String → String
  | "drain" :: stop :: rest =>
    match parseBudget rest with
    | none => "bad-op"
    | some (bud, a :: b :: c :: itemToks) =>
      let (items, left) := parseItems itemToks #[]
      if !left.isEmpty then "bad-op items" else
      let p := mkPump (stop == "1") bud a.toNat! b.toNat! c.toNat!
      let (evs, step, p', _) := drain 1000000 p items.toList []
      let evToks := String.intercalate " " (evs.map fun (e, r) => evTok e r)
      let endTok := match step with
        | .eof => "eof"
        | .error e => "err " ++ errTok e
        | .event _ => "eof"
      let finTok := match step with
        | .error _ => "skipped"
        | _ => match (finish p').1 with
          | none => "ok"
          | some e => "err " ++ errTok e
      s!"n={evs.length} {evToks} end={endTok} fin={finTok} sde={boolTok p'.seenDocEnd} syn={boolTok p'.synthesizedNull} last={p'.lastLoc}"
    | some _ => "bad-op"
  -- the budget report handed to the callback by `finish()` after a drain without error
  | "report" :: stop :: rest =>
    match parseBudget rest with
    | none => "bad-op"
    | some (bud, a :: b :: c :: itemToks) =>
      let (items, left) := parseItems itemToks #[]
      if !left.isEmpty then "bad-op items" else
      let p := mkPump (stop == "1") bud a.toNat! b.toNat! c.toNat!
      let (_, step, p', _) := drain 1000000 p items.toList []
      match step with
      | .error _ => "rep=none"
      | _ => match (finish p').2 with
        | none => "rep=none"
        | some r => "rep=" ++ C07.reportTok r
    | some _ => "bad-op"
  | _ => "bad-op"

end Driver.PumpDrv
