import Driver.Proto
import SaphyrVerif.Model.SerScalar
import SaphyrVerif.Model.FloatDec
import SaphyrVerif.Spec.ScalarRead
namespace Driver.ScalarRt
open Driver SaphyrVerif SaphyrVerif.SerScalar SaphyrVerif.Scalars

def resTok : Res (List Char) → String
  | .ok t => "ok " ++ charsTok t
  | .err => "err"
  | .panic => "panic"

def posRead : SerScalar.Pos → Spec.Read.Pos
  | .root => .root | .mapValue => .mapValue | .mapKey => .mapKey | .seqItem => .seqItem
  | .flowSeq => .flowSeq | .flowMapValue => .flowMapValue | .flowMapKey => .flowMapKey
  | .variant => .variant | .nestedMapValue => .nestedMapValue | .seqInMap => .seqInMap
  | .seqInSeq => .seqInSeq

def styleCode : Style → Nat
  | .plain => 0 | .single => 1 | .double => 2 | .literal => 3 | .folded => 4

def readTok (p : Spec.Read.Pos) (doc : List Char) : String :=
  match Spec.Read.readDoc p doc with
  | some (st, v) => toString (styleCode st) ++ ":" ++ charsTok v
  | none => "none"

def resolvedCode : Spec.Read.Resolved → Nat
  | .str => 0 | .null => 1 | .bool => 2 | .int => 3 | .float => 4

def mkOpts (step wrap prefer qa y12 compact : String) : Option Opts :=
  match step.toNat?, wrap.toNat? with
  | some st, some w =>
    some { indentStep := st, foldedWrap := w, preferBlock := tokBool prefer, quoteAll := tokBool qa,
           yaml12 := tokBool y12, compactList := tokBool compact }
  | _, _ => none

def floatClass (mant ebits bits : Nat) : Nat :=
  let e := (bits / 2 ^ mant) % 2 ^ ebits
  let m := bits % 2 ^ mant
  if e == 2 ^ ebits - 1 then (if m != 0 then 1 else if bits / 2 ^ (mant + ebits) == 0 then 2 else 3) else 0

/-- text → parse-back token: `nan`, or the bits of the value `parse_yaml12_float` returns -/
def parseBack (mant ebits : Nat) (text : List Char) : String :=
  let low := lowerAscii (trim text)
  if low == ".nan".toList || low == "+.nan".toList || low == "-.nan".toList then "nan"
  else if low == ".inf".toList || low == "+.inf".toList then toString ((2 ^ ebits - 1) * 2 ^ mant)
  else if low == "-.inf".toList then toString (2 ^ (mant + ebits) + (2 ^ ebits - 1) * 2 ^ mant)
  else match FloatDec.decToBits mant ebits (trim text) with
    | some b => toString b
    | none => "err"

def floatOp (mant ebits : Nat) (bits : String) (z : String) : String :=
  match bits.toNat?, (if z == "-" then some [] else tokChars z) with
  | some b, some zs =>
    let text := pushFloatString (floatClass mant ebits b) zs
    charsTok text ++ " " ++ parseBack mant ebits text
  | _, _ => "bad-op"

def handle : List String → String
  | ["pred", s] =>
    match tokChars s with
    | some cs =>
      " ".intercalate [
        boolTok (isPlainSafe cs),
        boolTok (isPlainValueSafe cs false false), boolTok (isPlainValueSafe cs false true),
        boolTok (isPlainValueSafe cs true false), boolTok (isPlainValueSafe cs true true),
        boolTok (needsDoubleQuotes cs), boolTok (isNumericLooking cs), boolTok (isAmbiguous cs),
        boolTok (isAmbiguousValue cs false), boolTok (isAmbiguousValue cs true),
        toString (resolvedCode (Spec.Read.resolve cs)), boolTok (Spec.Read.isYamlFloatText cs)]
    | none => "bad-op"
  | ["esc", s] =>
    match tokChars s with
    | some cs =>
      " ".intercalate [
        charsTok (writeQuoted cs), charsTok (writeSingleQuoted cs),
        charsTok (keySinkStr cs false), charsTok (keySinkStr cs true),
        charsTok (writePlainOrQuoted cs false), charsTok (writePlainOrQuoted cs true)]
    | none => "bad-op"
  | ["wqv", qa, y12, flow, s] =>
    match tokChars s with
    | some cs => charsTok (writePlainOrQuotedValue cs (tokBool qa) (tokBool y12) (tokBool flow))
    | none => "bad-op"
  | ["fls", s] =>
    match tokChars s with
    | some cs => toString (firstLineLeadingSpaces cs)
    | none => "bad-op"
  | ["fold", indent, step, wrap, s] =>
    match indent.toNat?, step.toNat?, wrap.toNat?, tokChars s with
    | some i, some st, some w, some cs => resTok (writeFoldedBlock cs i st w)
    | _, _, _, _ => "bad-op"
  | ["doc", step, wrap, prefer, qa, y12, compact, pos, s] =>
    match mkOpts step wrap prefer qa y12 compact, pos.toNat?, tokChars s with
    | some o, some p, some cs => resTok (emitDoc o (SerScalar.Pos.ofCode p) cs)
    | _, _, _ => "bad-op"
  | ["docs", step, wrap, prefer, qa, y12, compact, s] =>
    match mkOpts step wrap prefer qa y12 compact, tokChars s with
    | some o, some cs =>
      " ".intercalate ((List.range 11).map fun p =>
        match emitDoc o (SerScalar.Pos.ofCode p) cs with
        | .ok t => charsTok t ++ ":" ++ readTok (Spec.Read.Pos.ofCode p) t
        | .err => "err"
        | .panic => "panic")
    | _, _ => "bad-op"
  | ["rd", pos, t] =>
    match pos.toNat?, tokChars t with
    | some p, some cs => readTok (Spec.Read.Pos.ofCode p) cs
    | _, _ => "bad-op"
  | ["f64", bits, z] => floatOp 52 11 bits z
  | ["f32", bits, z] => floatOp 23 8 bits z
  | ["int", w, v] =>
    match w.toNat?, v.toInt? with
    | some w, some v =>
      let t := showInt v
      charsTok t ++ " " ++ optTok toString (parseIntSigned w false t)
    | _, _ => "bad-op"
  | ["uint", w, v] =>
    match w.toNat?, v.toNat? with
    | some w, some v =>
      let t := natDigits v
      charsTok t ++ " " ++ optTok toString (parseIntUnsigned w false t)
    | _, _ => "bad-op"
  | _ => "bad-op"

end Driver.ScalarRt
