import Driver.Proto
import SaphyrVerif.Model.Tls
/-!
Driver for the `calls` area (C15): `calls seq <n> <prog_1> … <prog_n>` runs the `n` top-level calls one
after the other on the explicit thread-local state (starting from a fresh thread) and prints, per call,
outcome, pointer-sharing pattern, the thread-locals seen at every probe point and the thread-locals after
the call — in the format of `harness/src/calls.rs`.

Program tokens (prefix, continuation form): `D` | `P k` | `S cont body k` | `X kind id|- body k` |
`W kind body k` | `V kind body k` | `G loc body k` | `M leak body k` | `K loc k` | `SE` | `E loc` | `PA` |
`N body k` | `RA id loc k`.
-/
namespace Driver.Calls
open Driver SaphyrVerif SaphyrVerif.Tls

def kindOf : Nat → Kind
  | 0 => .rc
  | 1 => .arc
  | 2 => .rcRec
  | _ => .arcRec

def parseProg : Nat → List String → Option (Prog × List String)
  | 0, _ => none
  | fuel + 1, toks =>
    match toks with
    | "D" :: r => some (.done, r)
    | "SE" :: r => some (.serr, r)
    | "PA" :: r => some (.panic, r)
    | "E" :: l :: r => some (.err l.toNat!, r)
    | "P" :: r => (parseProg fuel r).map fun (k, r) => (.probe k, r)
    | "K" :: l :: r => (parseProg fuel r).map fun (k, r) => (.key l.toNat! k, r)
    | "RA" :: i :: l :: r => (parseProg fuel r).map fun (k, r) => (.recAlias i.toNat! l.toNat! k, r)
    | "S" :: c :: r =>
      (parseProg fuel r).bind fun (b, r) => (parseProg fuel r).map fun (k, r) => (.scope (c == "1") b k, r)
    | "X" :: kd :: i :: r =>
      (parseProg fuel r).bind fun (b, r) => (parseProg fuel r).map fun (k, r) =>
        (.ctx (kindOf kd.toNat!) (if i == "-" then none else some i.toNat!) b k, r)
    | "W" :: kd :: r =>
      (parseProg fuel r).bind fun (b, r) => (parseProg fuel r).map fun (k, r) => (.strong (kindOf kd.toNat!) b k, r)
    | "V" :: kd :: r =>
      (parseProg fuel r).bind fun (b, r) => (parseProg fuel r).map fun (k, r) => (.weak (kindOf kd.toNat!) b k, r)
    | "G" :: l :: r =>
      (parseProg fuel r).bind fun (b, r) => (parseProg fuel r).map fun (k, r) => (.guard l.toNat! b k, r)
    | "M" :: lk :: r =>
      (parseProg fuel r).bind fun (b, r) => (parseProg fuel r).map fun (k, r) => (.ma (lk == "1") b k, r)
    | "N" :: r =>
      (parseProg fuel r).bind fun (b, r) => (parseProg fuel r).map fun (k, r) => (.nest b k, r)
    | _ => none

def maxId : Nat := 12

def kinds : List (Nat × Kind) := [(0, .rc), (1, .arc), (2, .rcRec), (3, .arcRec)]

def optNat : Option Nat → String
  | none => "-"
  | some n => toString n

/-- what `verif_hooks::tls` shows of the state (ids `0..=12`) -/
def obsTok (a : Anchors) (f : Option Loc) : String :=
  let ids := List.range (maxId + 1)
  let cur := ",".intercalate (kinds.map fun (_, k) => optNat (a.current k))
  let stored := ",".intercalate (kinds.flatMap fun (n, k) => (ids.filter fun id => (a.get (k, id)).isSome).map fun id => s!"{n}:{id}")
  let prog := ",".intercalate ((ids.filter fun id => a.recInProgress id).map toString)
  let re := ",".intercalate (kinds.flatMap fun (n, k) => (ids.filter fun id => a.reentrant (k, id)).map fun id => s!"{n}:{id}")
  s!"c{cur}/s{stored}/p{prog}/r{re}/f{effLoc f}"

def outTok : Out → String
  | .ok => "ok"
  | .err l => s!"err:{l}"
  | .panic => "panic"

/-- pointers renumbered by first occurrence (only a successful call hands values to its caller) -/
def patTok (o : Out) (ptrs : List Nat) : String :=
  match o with
  | .ok =>
    let rec go (ps : List Nat) (seen : List Nat) (acc : List String) : List String :=
      match ps with
      | [] => acc.reverse
      | p :: rest =>
        match seen.idxOf? p with
        | some i => go rest seen (toString i :: acc)
        | none => go rest (seen ++ [p]) (toString seen.length :: acc)
    ",".intercalate (go ptrs [] [])
  | _ => ""

def itemTok : Item → String
  | .obs a f => obsTok a f
  | .nestBegin => "NB"
  | .nestEnd o ptrs => s!"NE:{outTok o}:p{patTok o ptrs}"

def resultTok (r : Result) (t : Tls) : String :=
  s!"{outTok r.out} p{patTok r.out r.ptrs} t{";".intercalate (r.trace.map itemTok)} e{obsTok t.anchors t.fallback}"

def runSeq : Nat → List String → Tls → List String → Option (List String)
  | 0, _, _, acc => some acc.reverse
  | n + 1, toks, t, acc =>
    match parseProg (toks.length + 1) toks with
    | none => none
    | some (p, rest) =>
      let (r, t') := runCall p t
      runSeq n rest t' (resultTok r t' :: acc)

def handle : List String → String
  | "seq" :: n :: rest =>
    match runSeq n.toNat! rest Tls.init [] with
    | some rs => " | ".intercalate rs
    | none => "bad-op"
  | _ => "bad-op"

end Driver.Calls
