import Driver.Proto
import SaphyrVerif.Model.Event
/-! Parsing of raw-event token streams (see harness `yamlgen::raw_tokens`). -/
namespace Driver
open SaphyrVerif SaphyrVerif.Scalars

def tokTag (t : String) : Option (Option (List Char)) :=
  if t == "-" then some none else (tokChars t).map some

/-- parse raw events from a token list; returns the events and the unconsumed tokens at the first
token that is not an event token -/
partial def parseRaws (toks : List String) (acc : Array Raw) : Array Raw × List String :=
  match toks with
  | "no" :: r => parseRaws r (acc.push .nothing)
  | "S" :: r => parseRaws r (acc.push .streamStart)
  | "E" :: r => parseRaws r (acc.push .streamEnd)
  | "D0" :: r => parseRaws r (acc.push (.docStart false))
  | "D1" :: r => parseRaws r (acc.push (.docStart true))
  | "d" :: r => parseRaws r (acc.push .docEnd)
  | "se" :: r => parseRaws r (acc.push .seqEnd)
  | "me" :: r => parseRaws r (acc.push .mapEnd)
  | "al" :: id :: r => parseRaws r (acc.push (.alias id.toNat!))
  | "sc" :: st :: a :: tg :: v :: r =>
    match tokTag tg, tokChars v with
    | some tg, some v => parseRaws r (acc.push (.scalar v (Style.ofCode st.toNat!) a.toNat! tg))
    | _, _ => (acc, toks)
  | "ss" :: a :: tg :: r =>
    match tokTag tg with
    | some tg => parseRaws r (acc.push (.seqStart a.toNat! tg))
    | none => (acc, toks)
  | "ms" :: a :: tg :: r =>
    match tokTag tg with
    | some tg => parseRaws r (acc.push (.mapStart a.toNat! tg))
    | none => (acc, toks)
  | _ => (acc, toks)

end Driver

namespace Driver
open SaphyrVerif SaphyrVerif.Scalars

/-- split `@123` / `!1@123` -/
def locOfTok (t : String) : Option Nat := (t.drop 1).toNat?

end Driver
