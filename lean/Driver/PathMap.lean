import Driver.Proto
import SaphyrVerif.Model.PathMap
/-!
Driver for the `pathmap` area.

    pathmap search <n> (<path> <ref> <def>)^n <path>     → none | some <ref> <def> <leaf>
    pathmap len <n> <path>^n                             → number of distinct keys
    pathmap rec <visit>                                  → ok|err <current-after> <n> (<path> <ref> <def>)^n   (sorted)
    <path>  ::= <k> (K|I <hexname>)^k
    <visit> ::= L 0|1 | G <visit> | S <n> (<ref> <def> <visit>)^n | M <ref> <def> <n> (- | <hexkey>) <ref> <def> <visit>)^n
-/
namespace Driver.PathMap
open Driver SaphyrVerif SaphyrVerif.PathMap

abbrev Locs := Nat × Nat

def pSeg : List String → Option (Seg × List String)
  | "K" :: h :: rest => (tokChars h).map fun cs => (⟨.key, cs⟩, rest)
  | "I" :: h :: rest => (tokChars h).map fun cs => (⟨.index, cs⟩, rest)
  | _ => none

def pSegs : Nat → List String → Option (Path × List String)
  | 0, ts => some ([], ts)
  | n + 1, ts =>
    match pSeg ts with
    | some (s, ts') => (pSegs n ts').map fun (p, r) => (s :: p, r)
    | none => none

def pPath : List String → Option (Path × List String)
  | k :: rest => k.toNat?.bind fun n => pSegs n rest
  | _ => none

def pLocs : List String → Option (Locs × List String)
  | a :: b :: rest =>
    match a.toNat?, b.toNat? with
    | some x, some y => some ((x, y), rest)
    | _, _ => none
  | _ => none

def pEntries : Nat → List String → Option (List (Path × Locs) × List String)
  | 0, ts => some ([], ts)
  | n + 1, ts =>
    match pPath ts with
    | some (p, ts1) =>
      match pLocs ts1 with
      | some (l, ts2) => (pEntries n ts2).map fun (es, r) => ((p, l) :: es, r)
      | none => none
    | none => none

def pPaths : Nat → List String → Option (List Path × List String)
  | 0, ts => some ([], ts)
  | n + 1, ts =>
    match pPath ts with
    | some (p, ts1) => (pPaths n ts1).map fun (ps, r) => (p :: ps, r)
    | none => none

def build (es : List (Path × Locs)) : Map Locs := es.foldl (fun m e => insert m e.1 e.2) []

def segTok (s : Seg) : String :=
  (match s.kind with | .key => "K " | .index => "I ") ++ charsTok s.name

def pathTok (p : Path) : String :=
  String.intercalate " " (toString p.length :: p.map segTok)

/-- visit trees; the fuel is the number of tokens (every node consumes at least one) -/
def pVisit : Nat → List String → Option (Visit Locs × List String)
  | 0, _ => none
  | fuel + 1, ts =>
    match ts with
    | "L" :: ok :: rest => some (.leaf (tokBool ok), rest)
    | "G" :: rest => (pVisit fuel rest).map fun (v, r) => (.ignored v, r)
    | "S" :: n :: rest =>
      match n.toNat? with
      | some n => (pItems fuel n rest).map fun (is, r) => (.seq is, r)
      | none => none
    | "M" :: rest =>
      match pLocs rest with
      | some (c, n :: rest') =>
        match n.toNat? with
        | some n => (pEnts fuel n rest').map fun (es, r) => (.map c es, r)
        | none => none
      | _ => none
    | _ => none
where
  pItems : Nat → Nat → List String → Option (List (Locs × Visit Locs) × List String)
    | _, 0, ts => some ([], ts)
    | fuel, n + 1, ts =>
      match pLocs ts with
      | some (l, ts1) =>
        match pVisit fuel ts1 with
        | some (v, ts2) => (pItems fuel n ts2).map fun (is, r) => ((l, v) :: is, r)
        | none => none
      | none => none
  pEnts : Nat → Nat → List String → Option (List (Option (List Char) × Locs × Visit Locs) × List String)
    | _, 0, ts => some ([], ts)
    | fuel, n + 1, ts =>
      match ts with
      | k :: ts0 =>
        let key : Option (Option (List Char)) := if k == "-" then some none else (tokChars k).map some
        match key, pLocs ts0 with
        | some key, some (l, ts1) =>
          match pVisit fuel ts1 with
          | some (v, ts2) => (pEnts fuel n ts2).map fun (es, r) => ((key, l, v) :: es, r)
          | none => none
        | _, _ => none
      | [] => none

/-- total order on rendered entries, only used to print the map canonically -/
def insertSorted (x : String) : List String → List String
  | [] => [x]
  | y :: ys => if x < y then x :: y :: ys else y :: insertSorted x ys

def sortStrings (xs : List String) : List String := xs.foldr insertSorted []

def handle : List String → String
  | "search" :: n :: rest =>
    match n.toNat? with
    | some n =>
      match pEntries n rest with
      | some (es, ts) =>
        match pPath ts with
        | some (q, []) =>
          match search (build es) q with
          | none => "none"
          | some ((r, d), leaf) => s!"some {r} {d} {charsTok leaf}"
        | _ => "bad-op"
      | none => "bad-op"
    | none => "bad-op"
  | "len" :: n :: rest =>
    match n.toNat? with
    | some n =>
      match pPaths n rest with
      | some (ps, []) => toString (build (ps.map fun p => (p, ((0, 0) : Locs)))).length
      | _ => "bad-op"
    | none => "bad-op"
  | "rec" :: rest =>
    match pVisit (rest.length + 1) rest with
    | some (v, []) =>
      let (ok, r) := record v { current := [], map := ([] : Map Locs) }
      let ents := sortStrings (r.map.map fun (p, (a, b)) => s!"{pathTok p} {a} {b}")
      String.intercalate " " ((if ok then "ok" else "err") :: pathTok r.current :: toString ents.length :: ents)
    | _ => "bad-op"
  | _ => "bad-op"

end Driver.PathMap
