import Driver.Proto
import SaphyrVerif.Model.Anchors
/-!
Driver for the C14 models: `ser` (serializer token stream of an object graph), `rt` (serialize, then
deserialize at the value's own type: pointer-equality classes of the rebuilt graph or the error class),
`de` (typed deserialization of a hand-made document with the probe trace).
-/
namespace Driver.Anchors
open Driver SaphyrVerif.Anchors

abbrev P (α : Type) := List String → Option (α × List String)

def pNat : P Nat
  | t :: rest => t.toNat?.map (·, rest)
  | [] => none

def pLeafKind : P LeafKind
  | "i" :: n :: rest => n.toNat?.map (fun n => (.int n, rest))
  | "w" :: rest => some (.word, rest)
  | "n" :: rest => some (.null, rest)
  | "b" :: rest => some (.block, rest)
  | _ => none

def pMany {α : Type} (p : P α) : Nat → P (List α)
  | 0, ts => some ([], ts)
  | n + 1, ts =>
    match p ts with
    | none => none
    | some (x, rest) => (pMany p n rest).map fun (xs, r) => (x :: xs, r)

/-- `fuel` bounds the nesting depth of the encoded term -/
def pVal : Nat → P Val
  | 0, _ => none
  | fuel + 1, ts =>
    match ts with
    | "L" :: rest => (pLeafKind rest).map fun (k, r) => (.leaf k, r)
    | "N" :: isMap :: n :: rest =>
      match n.toNat? with
      | none => none
      | some n => (pMany (pVal fuel) n rest).map fun (items, r) => (.node (tokBool isMap) items, r)
    | "S" :: k :: tid :: p :: rest =>
      match k.toNat?, tid.toNat?, p.toNat? with
      | some k, some tid, some p => some (.strong (Kind.ofCode k) tid p, rest)
      | _, _, _ => none
    | "W" :: k :: tid :: p :: rest =>
      match k.toNat?, tid.toNat?, p.toNat? with
      | some k, some tid, some p => some (.weak (Kind.ofCode k) tid p, rest)
      | _, _, _ => none
    | _ => none

def pCell (fuel : Nat) : P (Ptr × Val) := fun ts =>
  match pNat ts with
  | none => none
  | some (p, rest) => (pVal fuel rest).map fun (v, r) => ((p, v), r)

def pGraph (ts : List String) : Option (Heap × Val) :=
  let fuel := ts.length + 1
  match pNat ts with
  | none => none
  | some (n, rest) =>
    match pMany (pCell fuel) n rest with
    | none => none
    | some (cells, rest) =>
      match pVal fuel rest with
      | some (v, []) => some (cells, v)
      | _ => none

def pTy : Nat → P Ty
  | 0, _ => none
  | fuel + 1, ts =>
    match ts with
    | "l" :: probe :: rest => some (.leaf (tokBool probe), rest)
    | "n" :: n :: rest =>
      match n.toNat? with
      | none => none
      | some n => (pMany (pTy fuel) n rest).map fun (items, r) => (.node items, r)
    | "s" :: k :: tid :: rest =>
      match k.toNat?, tid.toNat? with
      | some k, some tid => (pTy fuel rest).map fun (inner, r) => (.strong (Kind.ofCode k) tid inner, r)
      | _, _ => none
    | "w" :: k :: tid :: rest =>
      match k.toNat?, tid.toNat? with
      | some k, some tid => some (.weak (Kind.ofCode k) tid, rest)
      | _, _ => none
    | _ => none

def pOut : Nat → P Out
  | 0, _ => none
  | fuel + 1, ts =>
    match ts with
    | "L" :: a :: rest =>
      match a.toNat? with
      | none => none
      | some a => (pLeafKind rest).map fun (k, r) => (.leaf a k, r)
    | "N" :: a :: isMap :: n :: rest =>
      match a.toNat?, n.toNat? with
      | some a, some n => (pMany (pOut fuel) n rest).map fun (items, r) => (.node a (tokBool isMap) items, r)
      | _, _ => none
    | "A" :: id :: rest => id.toNat?.map fun id => (.alias id, rest)
    | _ => none

def tokStr : Tok → String
  | .anchor id => s!"D{id}"
  | .alias id => s!"A{id}"
  | .int n => s!"I{n}"
  | .word => "W"
  | .null => "N"
  | .block => "B"
  | .key => "K"
  | .dash => "-"
  | .emptySeq => "E"
  | .emptyMap => "M"

def leafStr : LeafKind → String
  | .int n => s!"I{n}"
  | .word => "W"
  | .null => "N"
  | .block => "B"

/-- pointer-equality classes of a rebuilt graph: classes numbered in walk order, a cell is expanded at
its first strong occurrence (same walk as `harness/src/anchors.rs::canon`) -/
structure CanonSt where
  cls : List (Ptr × Nat) := []
  expanded : List Ptr := []
  out : List String := []

def CanonSt.classOf (c : CanonSt) (q : Ptr) : Nat × CanonSt :=
  match c.cls.lookup q with
  | some n => (n, c)
  | none => (c.cls.length + 1, { c with cls := (q, c.cls.length + 1) :: c.cls })

def canonR (s : DeSt) : Nat → RVal → CanonSt → CanonSt
  | 0, _, c => { c with out := "FUEL" :: c.out }
  | _ + 1, .leaf k, c => { c with out := leafStr k :: c.out }
  | fuel + 1, .node _ items, c =>
    let c := { c with out := "(" :: c.out }
    let c := items.foldl (fun c x => canonR s fuel x c) c
    { c with out := ")" :: c.out }
  | fuel + 1, .strong _ q, c =>
    let (n, c) := c.classOf q
    if c.expanded.contains q then { c with out := s!"S{n}" :: c.out }
    else
      let c := { c with expanded := q :: c.expanded, out := s!"S{n}<" :: c.out }
      let c := match s.heap.lookup q with
        | some (some payload) => canonR s fuel payload c
        | some none => { c with out := "U" :: c.out }
        | none => { c with out := "?" :: c.out }
      { c with out := ">" :: c.out }
  | _ + 1, .weak _ q, c =>
    let (n, c) := c.classOf q
    { c with out := s!"W{n}" :: c.out }
  | _ + 1, .weakNull _, c => { c with out := "Wx" :: c.out }

def canon (s : DeSt) (v : RVal) : String :=
  ",".intercalate ((canonR s 10000 v {}).out.reverse)

def errStr : DeErr → String
  | .weakNoAnchor => "weak_no_anchor"
  | .weakUnknown => "weak_unknown"
  | .recNeedsWeak => "rec_needs_weak"
  | .unknownAnchor => "unknown_anchor"
  | .typeReuse => "type_reuse"
  | .shape => "shape"
  | .internal => "internal"

def insertSorted (x : Nat × Nat) : List (Nat × Nat) → List (Nat × Nat)
  | [] => [x]
  | y :: ys => if x.1 < y.1 || (x.1 == y.1 && x.2 < y.2) then x :: y :: ys
               else if x == y then y :: ys else y :: insertSorted x ys

def keysStr (ks : List (Nat × Nat)) : String :=
  ".".intercalate (ks.map fun (k, id) => s!"{k}:{id}")

def traceStr (tr : List (List (Kind × Nat) × List (Kind × Nat))) : String :=
  String.join (tr.reverse.map fun (stack, stored) =>
    let st := stack.reverse.map fun (k, id) => (k.code, id)
    let ks := (stored.map fun (k, id) => (k.code, id)).foldl (fun acc x => insertSorted x acc) []
    s!"[{keysStr st}|{keysStr ks}]")

def handle : List String → String
  | "ser" :: rest =>
    match pGraph rest with
    | none => "bad-op"
    | some (H, v) =>
      match serialize (rest.length + 2) H v with
      | .ok (o, _) => ",".intercalate ((render o).map tokStr)
      | .error .fuel => "fuel"
      | .error .deadStrong => "dead-strong"
      | .error .deadlock => "deadlock"
      | .error .aliasNeedsAnchor => "sererr"
  | "rt" :: rest =>
    match pGraph rest with
    | none => "bad-op"
    | some (H, v) =>
      match roundtrip (rest.length + 2) H v with
      | .ok rv s => "ok " ++ canon s rv
      | .deErr e => "err " ++ errStr e
      | .serErr _ => "sererr"
      | .noType => "notype"
  | "de" :: rest =>
    let fuel := rest.length + 1
    match pTy fuel rest with
    | none => "bad-op"
    | some (ty, rest) =>
      match pOut fuel rest with
      | some (o, []) =>
        match deserialize ty o with
        | .ok (rv, _, s) => "ok " ++ canon s rv ++ " " ++ traceStr s.trace
        | .error e => "err " ++ errStr e
      | _ => "bad-op"
  | _ => "bad-op"

end Driver.Anchors
