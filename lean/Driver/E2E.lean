import Driver.PumpDrv
import SaphyrVerif.Model.Entry
import SaphyrVerif.Spec.Interp
namespace Driver.E2E
open Driver SaphyrVerif SaphyrVerif.Scalars SaphyrVerif.Budget SaphyrVerif.Pump SaphyrVerif.De SaphyrVerif.Entry

mutual
partial def parseTy : List String → Option (Ty × List String)
  | "bool" :: r => some (.bool, r)
  | "i" :: w :: r => some (.int true w.toNat!, r)
  | "u" :: w :: r => some (.int false w.toNat!, r)
  | "f" :: w :: r => some (.float w.toNat!, r)
  | "char" :: r => some (.char, r)
  | "string" :: r => some (.string, r)
  | "unit" :: r => some (.unit, r)
  | "bytes" :: r => some (.bytes, r)
  | "any" :: r => some (.any, r)
  | "opt" :: r => (parseTy r).map fun (t, r) => (.option t, r)
  | "seq" :: r => (parseTy r).map fun (t, r) => (.seq t, r)
  | "newtype" :: r => (parseTy r).map fun (t, r) => (.newtype t, r)
  | "tup" :: n :: r => (parseTys n.toNat! r).map fun (ts, r) => (.tuple ts, r)
  | "map" :: r =>
    match parseTy r with
    | some (k, r) => (parseTy r).map fun (v, r) => (.map k v, r)
    | none => none
  | "struct" :: deny :: n :: r => (parseFields n.toNat! r).map fun (fs, r) => (.struct fs (deny == "1"), r)
  | "enum" :: name :: n :: r =>
    match tokChars name with
    | some nm => (parseVariants n.toNat! r).map fun (vs, r) => (.enum (String.ofList nm) vs, r)
    | none => none
  | _ => none
partial def parseTys : Nat → List String → Option (List Ty × List String)
  | 0, r => some ([], r)
  | n + 1, r =>
    match parseTy r with
    | some (t, r) => (parseTys n r).map fun (ts, r) => (t :: ts, r)
    | none => none
partial def parseFields : Nat → List String → Option (List (String × Ty) × List String)
  | 0, r => some ([], r)
  | n + 1, name :: r =>
    match tokChars name, parseTy r with
    | some nm, some (t, r) => (parseFields n r).map fun (fs, r) => ((String.ofList nm, t) :: fs, r)
    | _, _ => none
  | _, _ => none
partial def parseVariants : Nat → List String → Option (List (String × VTy) × List String)
  | 0, r => some ([], r)
  | n + 1, name :: kind :: r =>
    match tokChars name with
    | none => none
    | some nm =>
      let v? : Option (VTy × List String) :=
        match kind with
        | "vu" => some (.unit, r)
        | "vn" => (parseTy r).map fun (t, r) => (.newtype t, r)
        | "vt" => match r with
          | k :: r => (parseTys k.toNat! r).map fun (ts, r) => (.tuple ts, r)
          | _ => none
        | "vs" => match r with
          | k :: r => (parseFields k.toNat! r).map fun (fs, r) => (.struct fs, r)
          | _ => none
        | _ => none
      match v? with
      | some (v, r) => (parseVariants n r).map fun (vs, r) => ((String.ofList nm, v) :: vs, r)
      | none => none
  | _, _ => none
end

def fvalTok : Float.FVal → String
  | .nan => "nan"
  | .bits b => toString b

partial def valTok : Val → String
  | .unit => "U"
  | .bool b => if b then "B1" else "B0"
  | .int i => s!"I{i}"
  | .float w f => s!"F{w}:{fvalTok f}"
  | .char c => s!"C{c.toNat}"
  | .str s => "S" ++ charsTok s
  | .bytes bs => "Y" ++ bytesTok bs
  | .none => "N"
  | .some v => "O " ++ valTok v
  | .seq vs => s!"L {vs.length}" ++ String.join (vs.map fun v => " " ++ valTok v)
  | .map es => s!"M {es.length}" ++ String.join (es.map fun (k, v) => " " ++ valTok k ++ " " ++ valTok v)
  | .struct fs => s!"T {fs.length}" ++ String.join (fs.map fun (n, v) => " " ++ charsTok n.toList ++ " " ++ valTok v)
  | .variant n p => "V " ++ charsTok n.toList ++ " " ++ valTok p

/-- kinds whose location is the thread-local fallback of the Serde error hooks (not modelled) -/
def serdeHookKinds : List String := ["invalid_type", "invalid_value", "unknown_variant", "unknown_field", "missing_field"]

def errTok (e : DErr) : String :=
  if serdeHookKinds.contains e.kind then s!"err {e.kind} 0 0" else s!"err {e.kind} {e.loc} {e.loc2}"

def parseCfg : List String → Option (Cfg × List String)
  | dup :: a :: b :: c :: d :: e :: r =>
    let dp := if dup == "first" then DupPolicy.firstWins else if dup == "last" then .lastWins else .error
    some ({ dup := dp, legacyOctal := a == "1", strictBooleans := b == "1", angleConversions := c == "1",
            ignoreBinaryTagForString := d == "1", noSchema := e == "1" }, r)
  | _ => none

/-- common prefix: `<cfg 6> <budget: - | pd + 11> <alias 3> <ty…> | <items…>` -/
def parseCommon (toks : List String) : Option (Cfg × Pump × Ty × List RawItem) :=
  match parseCfg toks with
  | none => none
  | some (cfg, r) =>
    match PumpDrv.parseBudget r with
    | some (bud, a :: b :: c :: r) =>
      match parseTy r with
      | some (ty, "|" :: itemToks) =>
        let (items, left) := PumpDrv.parseItems itemToks #[]
        if !left.isEmpty then none
        else some (cfg, PumpDrv.mkPump false bud a.toNat! b.toNat! c.toNat!, ty, items.toList)
      | _ => none
    | _ => none

def resTok : Except DErr Val → String
  | .ok v => "ok " ++ valTok v
  | .error e => errTok e

def handle : List String → String
  | "single" :: rest =>
    match parseCommon rest with
    | none => "bad-op"
    | some (cfg, p, ty, items) => resTok (fromSingle cfg ty p items)
  | "spec" :: rest =>
    -- the specification's answer for a single-document stream: pump everything, rebuild the tree, interpret it
    match parseCommon rest with
    | none => "bad-op"
    | some (cfg, p, ty, items) =>
      let (evs, step, p', _) := Pump.drain 1000000 p items []
      match step with
      | .error _ => "n/a"
      | _ =>
        if (Pump.finish p').1.isSome then "n/a" else
        match Spec.treeOf (evs.map (·.1)) with
        | none => "n/a"
        | some t =>
          match Spec.interp cfg ty t with
          | some v => "ok " ++ valTok v
          | none => "err"
  | "multi" :: rest =>
    match parseCommon rest with
    | none => "bad-op"
    | some (cfg, p, ty, items) =>
      match fromMultiple cfg ty p items with
      | .ok vs => s!"ok {vs.length}" ++ String.join (vs.map fun v => " ; " ++ valTok v)
      | .error e => errTok e
  | "iter" :: rest =>
    match parseCommon rest with
    | none => "bad-op"
    | some (cfg, p, ty, items) =>
      let rs := readIter cfg ty p items
      s!"items {rs.length}" ++ String.join (rs.map fun r => " ; " ++ resTok r)
  | _ => "bad-op"

end Driver.E2E
