import Driver.E2E
import SaphyrVerif.Model.Locs
/-! Driver for the C16 operations (`locs …`), see harness `locs.rs`. -/
namespace Driver.Locs
open Driver SaphyrVerif SaphyrVerif.Scalars SaphyrVerif.Pump SaphyrVerif.De SaphyrVerif.Locs

def posTok (p : Pos) : String := s!"{p.line}.{p.col}.{p.byte}"

def parseMark (t : String) : Option Mark :=
  match t.splitOn "." with
  | [i, l, c, b] =>
    match i.toNat?, l.toNat?, c.toNat? with
    | some i, some l, some c =>
      if b == "-" then some ⟨i, l, c, none⟩ else b.toNat?.map fun b => ⟨i, l, c, some b⟩
    | _, _, _ => none
  | _ => none

def optNat : Option Nat → String
  | none => "-"
  | some n => toString n

def locTok (l : Location) : String :=
  s!"L{l.line}.{l.column}.{l.span.offset}.{l.span.len}.{optNat l.span.byteOffset}.{optNat l.span.byteLen}"

def codeTok (c : Loc) : String := locTok (Location.ofCode c)

/-- rewrite the item tokens with marks into the `@<code>` / `!<ua>@<code>` tokens of `PumpDrv.parseItems`,
applying the model's conversions; `none` = a conversion panics or a mark does not parse -/
def rewriteItems (input : Option (List Char)) : List String → Option (List String)
  | [] => some []
  | t :: rest =>
    let t' : Option String :=
      if t.startsWith "@" then
        match (t.drop 1).toString.splitOn ":" with
        | [s, e] =>
          match parseMark s, parseMark e with
          | some s, some e =>
            match locationFromSpanIn input s e with
            | .ok l => some s!"@{l.code}"
            | .panic _ => none
          | _, _ => none
        | _ => none
      else if t.startsWith "!" then
        match (t.drop 3).toString |> parseMark with
        | some m =>
          match fromScanErrorIn input m with
          | .ok l => some s!"{t.take 2}@{l.code}"
          | .panic _ => none
        | none => none
      else some t
    match t', rewriteItems input rest with
    | some a, some r => some (a :: r)
    | _, _ => none

mutual
partial def parseSTy : List String → Option (STy × List String)
  | "L" :: r => (E2E.parseTy r).map fun (t, r) => (.leaf t, r)
  | "P" :: r => (parseSTy r).map fun (t, r) => (.spanned t, r)
  | "O" :: r => (parseSTy r).map fun (t, r) => (.option t, r)
  | "Q" :: r => (parseSTy r).map fun (t, r) => (.seq t, r)
  | "M" :: r => (parseSTy r).map fun (t, r) => (.map t, r)
  | "R" :: r => some (.treeInner, r)
  | "Z" :: sg :: bits :: r => some (.nonzero (sg == "1") bits.toNat!, r)
  | "T" :: n :: r => (parseSFields n.toNat! r).map fun (fs, r) => (.struct fs, r)
  | _ => none
partial def parseSFields : Nat → List String → Option (List (String × STy) × List String)
  | 0, r => some ([], r)
  | n + 1, name :: r =>
    match tokChars name, parseSTy r with
    | some nm, some (t, r) => (parseSFields n r).map fun (fs, r) => ((String.ofList nm, t) :: fs, r)
    | _, _ => none
  | _, _ => none
end

partial def svalTok : SVal → String
  | .leaf v => "l " ++ E2E.valTok v
  | .spanned r d v => s!"p {codeTok r} {codeTok d} " ++ svalTok v
  | .none => "n"
  | .some v => "o " ++ svalTok v
  | .seq vs => s!"q {vs.length}" ++ String.join (vs.map fun v => " " ++ svalTok v)
  | .map es => s!"m {es.length}" ++ String.join (es.map fun (k, v) => " " ++ E2E.valTok k ++ " " ++ svalTok v)
  | .struct fs => s!"t {fs.length}" ++ String.join (fs.map fun (n, v) => " " ++ charsTok n.toList ++ " " ++ svalTok v)

/-- `invalid_value` is raised by the `nonzero` consumer of `Model/Locs.lean` only, with the modelled fallback
location: compared in full.  The other static kinds come from the leaf types of `Model/De.lean` (cell not
tracked there): compared without location. -/
def errTok (e : DErr) : String :=
  if e.kind != "invalid_value" && E2E.serdeHookKinds.contains e.kind then s!"err {e.kind} {codeTok 0} {codeTok 0}"
  else s!"err {e.kind} {codeTok e.loc} {codeTok e.loc2}"

/-- `-` = no in-memory input (reader), otherwise the hex text -/
def optText (t : String) : Option (List Char) := if t == "-" then none else tokChars t

def handle : List String → String
  | "pos" :: _cls :: text :: idx =>
    match tokChars text with
    | none => "bad-op"
    | some t => String.intercalate " " (idx.map fun i => posTok (posOf t i.toNat!))
  | ["posall", text] =>
    match tokChars text with
    | none => "bad-op"
    | some t => String.intercalate " " ((List.range (t.length + 1)).map fun i => posTok (posOf t i))
  | ["endmark", _cls, text] =>
    match tokChars text with
    | none => "bad-op"
    | some t => let p := streamEndMark t; s!"{p.index}.{p.line}.{p.col}.{p.byte}"
  | ["conv", text, s, e] =>
    match parseMark s, parseMark e with
    | some s, some e =>
      match locationFromSpanIn (optText text) s e with
      | .ok l => locTok l
      | .panic _ => "panic"
    | _, _ => "bad-op"
  | ["scanerr", ua, text, m] =>
    match parseMark m with
    | some m =>
      match fromScanErrorIn (optText text) m with
      | .ok l => (if ua == "1" then "UnknownAnchor " else "ExternalMessage ") ++ locTok l
      | .panic _ => "panic"
    | none => "bad-op"
  | "sp" :: rest =>
    match E2E.parseCfg rest with
    | none => "bad-op"
    | some (cfg, r) =>
      match PumpDrv.parseBudget r with
      | some (bud, a :: b :: c :: r) =>
        match parseSTy r with
        | some (sty, text :: "|" :: itemToks) =>
          match rewriteItems (optText text) itemToks with
          | none => "panic"
          | some toks =>
            let (items, left) := PumpDrv.parseItems toks #[]
            if !left.isEmpty then "bad-op items" else
            match fromSingleS cfg sty (PumpDrv.mkPump false bud a.toNat! b.toNat! c.toNat!) items.toList with
            | .ok v => "ok " ++ svalTok v
            | .error e => errTok e
        | _ => "bad-op sty"
      | _ => "bad-op"
  | _ => "bad-op"

end Driver.Locs
