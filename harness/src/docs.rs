//! C11: multi-document streams — all short sequences over a family of document kinds, for the batch
//! function, the streaming iterator and the single-document entry point; model differential (e2e ops)
//! plus implementation-only oracle "stream = list of its documents, each on its own".
use crate::e2e::{run_iter, run_multi, run_single, Cfg};
use crate::proto::*;
use crate::tyseed::*;
use crate::Args;
use serde_saphyr::budget::Budget;
use serde_saphyr::options::AliasLimits;

pub fn run(mode: &str, a: &Args) -> i32 {
    match mode {
        "gen" => generate(a),
        _ => 2,
    }
}

const KINDS: [(&str, &str); 22] = [
    ("map", "a: 1\n"),
    ("seq", "[1, 2]\n"),
    ("scalar", "hello\n"),
    ("empty", ""),
    ("tilde", "~\n"),
    ("anchor", "a: &x 7\nb: *x\n"),
    ("alias_prev", "a: *x\n"),
    ("type_err_early", "a: [1]\nb: 2\n"),
    ("unterminated", "a: [1\n"),
    ("with_end", "a: 2\n...\n"),
    ("comment", "a: 3 # c\n"),
    ("null", "null\n"),
    ("syntax", "a: b: c\n"),
    ("dup", "a: 1\na: 2\n"),
    // an earlier document that anchors ONLY containers (no anchored scalar)
    ("anchor_container", "l: &x [1, 2]\nb: 1\n"),
    // errors raised on an event that was only peeked (unit given a value, unit variant given a payload)
    ("unit_given_value", "u: 5\nb: 1\n"),
    ("variant_given_payload", "e: {B: 5}\nb: 1\n"),
    // a second document that fails before it produces any event
    ("stray_close", "]\n"),
    ("bare_alias", "*nowhere\n"),
    // a type error AFTER alias replay used up the whole (tightened) replay allowance: the next document starts afresh
    ("alias_then_type_err", "a: &x 7\nq: [*x, *x, *x]\nb: [1]\n"),
    // a failing document closed by `...` and followed by a document WITHOUT its own `---` (two documents in one kind):
    // the recovery must resynchronise on the implicit document start too
    ("type_err_end_then_bare", "a: [1]\nb: 2\n...\na: 5\n"),
    ("ok_end_then_bare", "a: 4\n... # c\nb: 6\n"),
];

fn stream_of(seq: &[usize], explicit_first: bool) -> String {
    let mut s = String::new();
    for (i, k) in seq.iter().enumerate() {
        if i > 0 || explicit_first {
            s.push_str("---\n");
        }
        s.push_str(KINDS[*k].1);
    }
    s
}

fn generate(a: &Args) -> i32 {
    let mut rng = Rng::new(a.seed);
    let mut sink = Sink::new(&a.out, "docs");
    let maxlen = if a.thorough { 4 } else { 3 };
    let tys = [
        Ty::Any,
        Ty::Struct(vec![("a", Ty::Option(Box::new(Ty::Int(true, 32)))), ("b", Ty::Option(Box::new(Ty::Int(true, 32))))], false),
        Ty::Struct(vec![("u", Ty::Option(Box::new(Ty::Unit))), ("e", Ty::Option(Box::new(Ty::Enum("E", vec![("A", VTy::Newtype(Ty::Int(true, 32))), ("B", VTy::Unit)])))),
                        ("b", Ty::Option(Box::new(Ty::Int(true, 32))))], false),
    ];
    let mut seqs: Vec<Vec<usize>> = vec![vec![]];
    let mut all: Vec<Vec<usize>> = vec![vec![]];
    for _ in 0..maxlen {
        let mut next = Vec::new();
        for s in &seqs {
            for k in 0..KINDS.len() {
                let mut t = s.clone();
                t.push(k);
                next.push(t);
            }
        }
        all.extend(next.iter().cloned());
        seqs = next;
    }
    let mut fails: Vec<serde_json::Value> = Vec::new();
    let mut n = 0u64;
    for seq in &all {
        // quick tier: all sequences up to length 2, a third of length 3
        if !a.thorough && seq.len() == 3 && rng.below(3) != 0 { continue; }
        if a.thorough && seq.len() == 4 && rng.below(4) != 0 { continue; }
        for explicit_first in [false, true] {
            if explicit_first && rng.below(2) == 0 { continue; }
            let text = stream_of(seq, explicit_first);
            let (items, _nev, _) = crate::pump::items_tokens(&text);
            for (ti, ty) in tys.iter().enumerate() {
                let cfg = Cfg { dup: 0, legacy_octal: false, strict_bool: false, ignore_binary: false, no_schema: false,
                                // default budget / no budget / a depth limit that one document may reach but two together exceed
                                budget: match (n + ti as u64) % 4 { 0 | 3 => Some(Budget::default()), 1 => None, _ => Some(Budget { max_depth: 3, ..Budget::default() }) },
                                // … / a replay allowance that one document may use up but two together exceed
                                limits: if (n + ti as u64) % 4 == 3 { AliasLimits { max_total_replayed_events: 3, ..AliasLimits::default() } } else { AliasLimits::default() } };
                n += 1;
                let multi = run_multi(&text, ty, &cfg);
                let iter = run_iter(&text, ty, &cfg);
                let single = run_single(&text, ty, &cfg);
                sink.count(&format!("multi.{}", multi.split(' ').next().unwrap()));
                sink.count(&format!("single.{}", single.split(' ').take(2).collect::<Vec<_>>().join(".")));
                sink.case(&format!("e2e multi {} {} | {}", cfg.tokens(false), ty.tokens(), items), &multi);
                sink.case(&format!("e2e iter {} {} | {}", cfg.tokens(true), ty.tokens(), items), &iter);
                sink.case(&format!("e2e single {} {} | {}", cfg.tokens(false), ty.tokens(), items), &single);
                if seq.len() > 1 { sink.count("distinct_nontrivial"); }
                // per-document event accounting (C07), also on the recovery path: tight `max_events`, so that documents of
                // 3..8 events sit on either side of the limit — a document is charged its own DocumentStart … DocumentEnd
                // wherever it stands, also right after an abandoned document (skip_to_next_document)
                if ti == (((n - 1) / 3) % 3) as usize {
                    for me in [4usize, 6, 7] {
                        let cfg2 = Cfg { budget: Some(Budget { max_events: me, ..Budget::default() }), limits: AliasLimits::default(), ..cfg.clone() };
                        let iter2 = run_iter(&text, ty, &cfg2);
                        sink.count(&format!("iter.max_events.{}", iter2.split(' ').take(2).collect::<Vec<_>>().join(".")));
                        sink.case(&format!("e2e iter {} {} | {}", cfg2.tokens(true), ty.tokens(), items), &iter2);
                    }
                    // the alias/anchor ratio is a per-document quantity too (C07): judged at every DocumentEnd, so a
                    // document that violates it is rejected at every position (multiplier 0: any document with an alias;
                    // min_aliases 0: any document without an anchor)
                    for (min_aliases, mult) in [(1usize, 0usize), (1, 1), (0, 1)] {
                        let cfg3 = Cfg { budget: Some(Budget { enforce_alias_anchor_ratio: true, alias_anchor_min_aliases: min_aliases,
                                                              alias_anchor_ratio_multiplier: mult, ..Budget::default() }),
                                         limits: AliasLimits::default(), ..cfg.clone() };
                        let iter3 = run_iter(&text, ty, &cfg3);
                        sink.count(&format!("iter.ratio.{}", iter3.split(' ').take(2).collect::<Vec<_>>().join(".")));
                        sink.case(&format!("e2e iter {} {} | {}", cfg3.tokens(true), ty.tokens(), items), &iter3);
                    }
                }

                // ---- implementation-only oracle
                // per-document results, each document parsed on its own
                let per_doc: Vec<String> = seq.iter().map(|k| run_single(&format!("{}{}", if explicit_first { "---\n" } else { "" }, KINDS[*k].1), ty, &cfg)).collect();
                let is_nullish = |k: usize| matches!(KINDS[k].0, "empty" | "tilde" | "null");
                let clean = seq.iter().all(|k| !matches!(KINDS[*k].0, "unterminated" | "syntax" | "with_end" | "alias_prev" | "stray_close" | "bare_alias" | "type_err_end_then_bare" | "ok_end_then_bare"));
                if clean && seq.iter().zip(&per_doc).all(|(k, r)| is_nullish(*k) || r.starts_with("ok")) {
                    // every non-null document succeeds on its own => batch = list of them, iterator = batch
                    let want: Vec<String> = seq.iter().zip(&per_doc).filter(|(k, _)| !is_nullish(**k)).map(|(_, r)| r[3..].to_string()).collect();
                    let want_multi = format!("ok {}{}", want.len(), want.iter().map(|v| format!(" ; {v}")).collect::<String>());
                    if multi != want_multi {
                        fails.push(serde_json::json!({"id": "C11-batch-not-list-of-documents", "what": "from_multiple differs from the list of per-document results", "input": text, "type": ty.tokens(), "observed": multi, "expected": want_multi}));
                    }
                    let want_iter = format!("items {}{}", want.len(), want.iter().map(|v| format!(" ; ok {v}")).collect::<String>());
                    if iter != want_iter {
                        fails.push(serde_json::json!({"id": "C11-iterator-differs-from-batch", "what": "read iterator differs from the batch result although no document fails", "input": text, "type": ty.tokens(), "observed": iter, "expected": want_iter}));
                    }
                }
                // each document on its own, also after failing documents: when no document of the stream is of a kind that
                // ends the iteration (syntax-level errors), item i is the result of document i parsed alone (value, or an
                // error of the same kind)
                if clean {
                    let want: Vec<String> = seq.iter().zip(&per_doc).filter(|(k, _)| !is_nullish(**k))
                        .map(|(_, r)| if r.starts_with("ok") { r.clone() } else { r.split(' ').take(2).collect::<Vec<_>>().join(" ") }).collect();
                    let got: Vec<String> = iter.split(" ; ").skip(1)
                        .map(|r| if r.starts_with("ok") { r.to_string() } else { r.split(' ').take(2).collect::<Vec<_>>().join(" ") }).collect();
                    if want != got {
                        fails.push(serde_json::json!({"id": "C11-document-not-on-its-own", "what": "an item of the read iterator differs from the result of that document parsed on its own", "input": text, "type": ty.tokens(), "options": cfg.tokens(true), "observed": iter, "expected": want.join(" ; ")}));
                    }
                }
                // single-document entry point rejects a stream with a second (non-empty) document
                let non_null: Vec<usize> = seq.iter().copied().filter(|k| KINDS[*k].0 != "empty").collect();
                if non_null.len() >= 2 && single.starts_with("ok") {
                    fails.push(serde_json::json!({"id": "C11-single-accepts-second-document", "what": "single-document entry point accepted a stream with a second document", "input": text, "type": ty.tokens(), "observed": single, "expected": "an error"}));
                }
                // anchors of an earlier document are never visible
                if let Some(pos) = seq.iter().position(|k| KINDS[*k].0 == "alias_prev") {
                    let items_before_ok = iter.matches(" ; ok").count();
                    let docs_in = |k: usize| if matches!(KINDS[k].0, "type_err_end_then_bare" | "ok_end_then_bare") { 2 } else { 1 };
                    if multi.starts_with("ok") || items_before_ok > seq[..pos].iter().filter(|k| !is_nullish(**k)).map(|k| docs_in(*k)).sum::<usize>() + seq[pos + 1..].iter().map(|k| docs_in(*k)).sum::<usize>() {
                        fails.push(serde_json::json!({"id": "C11-anchor-visible-across-documents", "what": "an alias to an anchor of an earlier document was accepted", "input": text, "type": ty.tokens(), "observed": multi, "expected": "an error for that document"}));
                    }
                }
                // iterator continues after a type-level error: a trailing valid map document must still be delivered
                if seq.len() >= 2 && KINDS[seq[seq.len() - 1]].0 == "map" && seq[..seq.len() - 1].iter().all(|k| !matches!(KINDS[*k].0, "unterminated" | "syntax" | "with_end" | "stray_close" | "bare_alias" | "ok_end_then_bare")) {
                    let last_ok = iter.rsplit(" ; ").next().map(|s| s.starts_with("ok")).unwrap_or(false);
                    if !last_ok {
                        fails.push(serde_json::json!({"id": "C11-iterator-does-not-resume", "what": "the iterator did not deliver the valid document that follows a type-level error", "input": text, "type": ty.tokens(), "observed": iter, "expected": "last item ok"}));
                    }
                }
            }
        }
    }
    // a target type that reads NOTHING (legal): a stream of k well-formed, non-null documents is still a list of k
    // items for the batch function and for the iterator (each document is skipped, none is handed out twice)
    {
        struct Nop;
        impl<'de> serde::Deserialize<'de> for Nop {
            fn deserialize<D: serde::Deserializer<'de>>(_d: D) -> Result<Self, D::Error> { Ok(Nop) }
        }
        let docs = ["a: 1\n", "[1, [2, {x: y}]]\n", "x\n", "k: &a [1]\nl: *a\n", "? [c]\n: d\n", "--- >\n folded\n"];
        for k in 1..=4usize {
            for start in 0..docs.len() {
                let mut text = String::new();
                for i in 0..k { if i > 0 || start % 2 == 0 { text.push_str("---\n"); } text.push_str(docs[(start + i) % docs.len()].trim_start_matches("--- ")); }
                sink.count("nonconsuming_target.streams");
                // the iterator first (bounded by `take`): if it does not end, the batch function would not return either
                let mut rd = std::io::Cursor::new(text.as_bytes().to_vec());
                let items = serde_saphyr::read::<_, Nop>(&mut rd).take(50).filter(|r| r.is_ok()).count();
                let batch = if items >= 50 { Ok(Err("not called: the iterator does not end".to_string())) }
                            else { crate::proto::catch(|| serde_saphyr::from_multiple::<Nop>(&text).map(|v| v.len()).map_err(|e| e.to_string())) };
                if batch != Ok(Ok(k)) || items != k {
                    fails.push(serde_json::json!({"id": "C11-nonconsuming-target-item-count", "what": "a target type that reads nothing: the number of items is not the number of documents", "input": text, "observed": format!("batch {batch:?}, iterator {items}"), "expected": format!("{k} and {k}")}));
                }
            }
        }
    }
    let lines: Vec<String> = fails.iter().map(|f| f.to_string()).collect();
    std::fs::write(format!("{}/docs.oracle.jsonl", a.out), lines.join("\n")).unwrap();
    let nt = sink.stats.get("distinct_nontrivial").copied().unwrap_or(0);
    sink.finish(&a.out, "docs", serde_json::json!({
        "distinct_nontrivial": nt,
        "rule": "every sequence of document kinds up to length 2 (quick: plus a third of length 3; thorough: all of length 3 and a quarter of length 4) over 22 kinds (two-document kinds whose second document has no `---` after a `...` (after a type error / after a valid document), a type error after alias replay used up a tightened replay allowance, valid map/seq/scalar, empty, ~, null, anchor-defining (scalar anchor; container-only anchor), aliasing an earlier document's anchor, type error after consumed events, type errors raised on a merely PEEKED event (unit given a value, unit variant given a payload), unterminated flow, with `...`, trailing comment, syntax error, duplicate key, documents that fail before producing an event (stray `]`, alias to nothing)), with and without a leading `---`, x {untyped, struct, struct with unit / enum fields} target x {default budget, no budget, max_depth 3, max_total_replayed_events 3}: batch (from_multiple), iterator (read) and single-document entry point vs the model; plus the iterator under max_events 4 / 6 / 7 and under the alias/anchor ratio budgets (min_aliases, multiplier) = (1,0) / (1,1) / (0,1) for one target per stream (per-document accounting on the normal and on the recovery path; the ratio is judged at every DocumentEnd); oracle: batch = list of per-document results, iterator = batch when nothing fails, single rejects a second document, anchors invisible across documents, iterator resumes after a type-level error. Non-trivial = streams with more than one document.",
    }));
    0
}
