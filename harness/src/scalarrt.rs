//! C12: every scalar survives serialization + deserialization.
//!
//! (i)  emitter fragments and whole documents vs the Lean writer model (`pred`, `esc`, `wqv`, `fold`, `fls`, `docs`)
//! (ii) the Lean YAML reader vs the real parser on exactly the emitted texts (`docs`) and on adversarial texts (`rd`)
//! (iii) floats: `push_float_string` text and parse-back bits (`f64`, `f32`), integers (`int`, `uint`)
//! (iv) implementation-only ORACLE stream `scalarrt.oracle.jsonl`: from_str(to_string_with_options(v)) == v
use crate::proto::*;
use crate::yamlgen::raw_events;
use crate::Args;
use saphyr_parser::{Event, ScalarStyle};
use serde::{Deserialize, Serialize};
use serde_saphyr::verif_hooks::scalars as hs;
use serde_saphyr::verif_hooks::serq as h;
use serde_saphyr::{from_str, to_string_with_options, FlowMap, FlowSeq, SerializerOptions};
use std::collections::BTreeMap;
use std::io::Write;

pub const ALPHA: [char; 40] = [
    ' ', '\t', '\n', '\r', ':', '#', '-', '?', ',', '[', ']', '{', '}', '&', '*', '!', '|', '>', '\'', '"', '%', '@',
    '`', '<', '~', '0', '1', 'e', '.', 'a', 'n', 'y', '\u{feff}', '\u{85}', '\u{2028}', 'é', '\u{1}', '\u{7f}', '\\', '_',
];
/// sub-alphabet for the longer exhaustive document enumeration
const SUB: [char; 15] = [' ', '\n', '\r', ':', '#', '-', '\'', '"', '<', '.', 'a', '\u{feff}', '\\', '1', '\0'];
/// alphabet for the numeric-looking regex / float grammar
const NUM: [char; 13] = ['0', '1', '9', '.', 'e', 'E', '+', '-', '_', 'x', 'o', 'b', 'f'];

#[derive(Clone, Copy, Debug, PartialEq)]
pub struct O {
    pub step: usize,
    pub wrap: usize,
    pub prefer: bool,
    pub qa: bool,
    pub y12: bool,
    pub compact: bool,
}
impl O {
    const DEFAULT: O = O { step: 2, wrap: 80, prefer: true, qa: false, y12: false, compact: false };
    fn so(&self) -> SerializerOptions {
        SerializerOptions {
            indent_step: self.step,
            folded_wrap_chars: self.wrap,
            prefer_block_scalars: self.prefer,
            quote_all: self.qa,
            yaml_12: self.y12,
            compact_list_indent: self.compact,
            ..SerializerOptions::default()
        }
    }
    fn toks(&self) -> String {
        format!("{} {} {} {} {} {}", self.step, self.wrap, b(self.prefer), b(self.qa), b(self.y12), b(self.compact))
    }
}

#[derive(Serialize, Deserialize, PartialEq, Debug, Clone)]
enum EV<T> {
    V(T),
}

pub const NPOS: usize = 11;
const POS_NAMES: [&str; NPOS] = [
    "root", "map-value", "map-key", "seq-item", "flow-seq", "flow-map-value", "flow-map-key", "enum-newtype-payload",
    "nested-map-value", "seq-in-map", "seq-in-seq",
];

fn bm<K: Ord, V>(k: K, v: V) -> BTreeMap<K, V> {
    let mut m = BTreeMap::new();
    m.insert(k, v);
    m
}

/// `to_string_with_options(shape(pos, v))`
fn emit<T: Serialize + Clone + Ord>(pos: usize, v: &T, o: &O) -> Result<String, String> {
    let so = o.so();
    let r = match pos {
        0 => to_string_with_options(v, so),
        1 => to_string_with_options(&bm("k".to_string(), v.clone()), so),
        2 => to_string_with_options(&bm(v.clone(), 1u8), so),
        3 => to_string_with_options(&vec![v.clone()], so),
        4 => to_string_with_options(&FlowSeq(vec![v.clone()]), so),
        5 => to_string_with_options(&FlowMap(bm("k".to_string(), v.clone())), so),
        6 => to_string_with_options(&FlowMap(bm(v.clone(), 1u8)), so),
        7 => to_string_with_options(&EV::V(v.clone()), so),
        8 => to_string_with_options(&bm("a".to_string(), bm("k".to_string(), v.clone())), so),
        9 => to_string_with_options(&bm("a".to_string(), vec![v.clone()]), so),
        _ => to_string_with_options(&vec![vec![v.clone()]], so),
    };
    r.map_err(|e| e.to_string())
}

/// `from_str::<shape type>(doc)` projected back to the scalar
fn read_back<T: for<'de> Deserialize<'de> + Ord + Clone>(pos: usize, doc: &str) -> Result<T, String> {
    fn one<K, V>(m: BTreeMap<K, V>) -> Result<(K, V), String> {
        if m.len() != 1 {
            return Err(format!("map has {} entries", m.len()));
        }
        Ok(m.into_iter().next().unwrap())
    }
    fn one_v<V>(mut v: Vec<V>) -> Result<V, String> {
        if v.len() != 1 {
            return Err(format!("sequence has {} items", v.len()));
        }
        Ok(v.pop().unwrap())
    }
    let e = |e: serde_saphyr::Error| {
        let s = e.to_string();
        s.lines().next().unwrap_or("").chars().take(120).collect::<String>()
    };
    match pos {
        0 => from_str::<T>(doc).map_err(e),
        1 | 5 => {
            let (k, v) = one(from_str::<BTreeMap<String, T>>(doc).map_err(e)?)?;
            if k != "k" { return Err(format!("key {k:?}")); }
            Ok(v)
        }
        2 | 6 => {
            let (k, v) = one(from_str::<BTreeMap<T, u8>>(doc).map_err(e)?)?;
            if v != 1 { return Err(format!("value {v}")); }
            Ok(k)
        }
        3 | 4 => one_v(from_str::<Vec<T>>(doc).map_err(e)?),
        7 => from_str::<EV<T>>(doc).map(|EV::V(x)| x).map_err(e),
        8 => {
            let (k, m) = one(from_str::<BTreeMap<String, BTreeMap<String, T>>>(doc).map_err(e)?)?;
            let (k2, v) = one(m)?;
            if k != "a" || k2 != "k" { return Err(format!("keys {k:?} {k2:?}")); }
            Ok(v)
        }
        9 => {
            let (k, v) = one(from_str::<BTreeMap<String, Vec<T>>>(doc).map_err(e)?)?;
            if k != "a" { return Err(format!("key {k:?}")); }
            one_v(v)
        }
        _ => one_v(one_v(from_str::<Vec<Vec<T>>>(doc).map_err(e)?)?),
    }
}

fn style_code(s: &ScalarStyle) -> u8 {
    match s {
        ScalarStyle::Plain => 0,
        ScalarStyle::SingleQuoted => 1,
        ScalarStyle::DoubleQuoted => 2,
        ScalarStyle::Literal => 3,
        ScalarStyle::Folded => 4,
    }
}

/// The real parser on `doc` (after the crate's own stream-start normalisation: one leading U+FEFF is
/// dropped by `from_str`): does the event stream have exactly the shape of position `pos` with ONE free
/// scalar (no anchors, no tags, implicit document start, a single document)? Then (style, value).
pub fn parse_shape(pos: usize, doc: &str) -> Option<(u8, String)> {
    // U+0000 ends the stream for the scanner: such documents are outside the reader's dialect
    if doc.contains('\0') {
        return None;
    }
    let text = doc.strip_prefix('\u{feff}').unwrap_or(doc);
    let (evs, err) = raw_events(text);
    if err.is_some() {
        return None;
    }
    // S = the free scalar, k/a/V/1 fixed plain scalars, [ ] seq, { } map
    let pat: &str = match pos {
        0 => "S",
        1 | 5 => "{kS}",
        2 | 6 => "{S1}",
        3 | 4 => "[S]",
        7 => "{VS}",
        8 => "{a{kS}}",
        9 => "{a[S]}",
        _ => "[[S]]",
    };
    let mut it = evs.iter();
    if !matches!(it.next(), Some((Event::StreamStart, _))) {
        return None;
    }
    // the document start is implicit, except after the writer's `%YAML 1.2` + `---` preamble
    let explicit = text.starts_with("%YAML 1.2\n---\n");
    if !matches!(it.next(), Some((Event::DocumentStart(e), _)) if *e == explicit) {
        return None;
    }
    let mut found: Option<(u8, String)> = None;
    for p in pat.chars() {
        let (ev, span) = it.next()?;
        match (p, ev) {
            ('[', Event::SequenceStart(0, None)) | (']', Event::SequenceEnd) => {}
            ('{', Event::MappingStart(0, None)) | ('}', Event::MappingEnd) => {}
            // an empty node (zero-length span; the parser reports it as a plain `~`) is not a scalar token
            ('S', Event::Scalar(v, st, 0, None)) => {
                if span.is_empty() && matches!(st, ScalarStyle::Plain) {
                    return None;
                }
                found = Some((style_code(st), v.to_string()))
            }
            ('V', Event::Scalar(v, _, 0, None)) if v.as_ref() == "V" => {}
            (c @ ('k' | 'a' | 'V' | '1'), Event::Scalar(v, ScalarStyle::Plain, 0, None)) => {
                if v.as_ref() != c.to_string() {
                    return None;
                }
            }
            _ => return None,
        }
    }
    if !matches!(it.next(), Some((Event::DocumentEnd, _))) {
        return None;
    }
    if !matches!(it.next(), Some((Event::StreamEnd, _))) {
        return None;
    }
    found
}

fn read_tok(pos: usize, doc: &str) -> String {
    match parse_shape(pos, doc) {
        Some((st, v)) => format!("{st}:{}", hex(&v)),
        None => "none".to_string(),
    }
}

// ------------------------------------------------------------------------------------------------
// untyped reader (deserialize_any) for the "reads back as a number / bool / null" clause
#[derive(Debug, PartialEq, Clone)]
enum U {
    Null,
    Bool(bool),
    I(i64),
    Un(u64),
    F(u64),
    S(String),
    Seq(Vec<U>),
    Map(Vec<(U, U)>),
}
impl<'de> Deserialize<'de> for U {
    fn deserialize<D: serde::Deserializer<'de>>(d: D) -> Result<U, D::Error> {
        struct V;
        impl<'de> serde::de::Visitor<'de> for V {
            type Value = U;
            fn expecting(&self, f: &mut std::fmt::Formatter) -> std::fmt::Result {
                write!(f, "any")
            }
            fn visit_unit<E>(self) -> Result<U, E> { Ok(U::Null) }
            fn visit_none<E>(self) -> Result<U, E> { Ok(U::Null) }
            fn visit_bool<E>(self, v: bool) -> Result<U, E> { Ok(U::Bool(v)) }
            fn visit_i64<E>(self, v: i64) -> Result<U, E> { Ok(U::I(v)) }
            fn visit_u64<E>(self, v: u64) -> Result<U, E> { Ok(U::Un(v)) }
            fn visit_f64<E>(self, v: f64) -> Result<U, E> { Ok(U::F(v.to_bits())) }
            fn visit_str<E>(self, v: &str) -> Result<U, E> { Ok(U::S(v.to_string())) }
            fn visit_string<E>(self, v: String) -> Result<U, E> { Ok(U::S(v)) }
            fn visit_seq<A: serde::de::SeqAccess<'de>>(self, mut a: A) -> Result<U, A::Error> {
                let mut v = Vec::new();
                while let Some(x) = a.next_element::<U>()? { v.push(x); }
                Ok(U::Seq(v))
            }
            fn visit_map<A: serde::de::MapAccess<'de>>(self, mut a: A) -> Result<U, A::Error> {
                let mut v = Vec::new();
                while let Some(x) = a.next_entry::<U, U>()? { v.push(x); }
                Ok(U::Map(v))
            }
        }
        d.deserialize_any(V)
    }
}

fn untyped_scalar(pos: usize, doc: &str) -> Result<U, String> {
    let u = from_str::<U>(doc).map_err(|e| e.to_string().lines().next().unwrap_or("").chars().take(100).collect::<String>())?;
    let key = |s: &str| U::S(s.to_string());
    let r = match (pos, u) {
        (0, u) => Some(u),
        (1 | 5, U::Map(mut m)) if m.len() == 1 && m[0].0 == key("k") => Some(m.pop().unwrap().1),
        (3 | 4, U::Seq(mut v)) if v.len() == 1 => v.pop(),
        (7, U::Map(mut m)) if m.len() == 1 && m[0].0 == key("V") => Some(m.pop().unwrap().1),
        _ => None,
    };
    r.ok_or_else(|| "shape".to_string())
}

// ------------------------------------------------------------------------------------------------
// byte arrays through serialize_bytes / deserialize_bytes (serde_bytes is not available)
#[derive(Debug, PartialEq, Clone, PartialOrd, Ord, Eq)]
struct Bytes(Vec<u8>);
impl Serialize for Bytes {
    fn serialize<S: serde::Serializer>(&self, s: S) -> Result<S::Ok, S::Error> {
        s.serialize_bytes(&self.0)
    }
}
impl<'de> Deserialize<'de> for Bytes {
    fn deserialize<D: serde::Deserializer<'de>>(d: D) -> Result<Bytes, D::Error> {
        struct V;
        impl<'de> serde::de::Visitor<'de> for V {
            type Value = Bytes;
            fn expecting(&self, f: &mut std::fmt::Formatter) -> std::fmt::Result {
                write!(f, "bytes")
            }
            fn visit_bytes<E>(self, v: &[u8]) -> Result<Bytes, E> { Ok(Bytes(v.to_vec())) }
            fn visit_byte_buf<E>(self, v: Vec<u8>) -> Result<Bytes, E> { Ok(Bytes(v)) }
            fn visit_seq<A: serde::de::SeqAccess<'de>>(self, mut a: A) -> Result<Bytes, A::Error> {
                let mut v = Vec::new();
                while let Some(x) = a.next_element::<u8>()? { v.push(x); }
                Ok(Bytes(v))
            }
        }
        d.deserialize_bytes(V)
    }
}

// ------------------------------------------------------------------------------------------------
// oracle

struct Oracle {
    f: std::io::BufWriter<std::fs::File>,
    per_id: BTreeMap<String, u64>,
    checked: u64,
}
impl Oracle {
    fn new(dir: &str) -> Self {
        let f = std::fs::File::create(format!("{dir}/scalarrt.oracle.jsonl")).unwrap();
        Oracle { f: std::io::BufWriter::new(f), per_id: BTreeMap::new(), checked: 0 }
    }
    fn fail(&mut self, id: &str, what: &str, input: String, observed: String, expected: String) {
        let n = self.per_id.entry(id.to_string()).or_insert(0);
        *n += 1;
        // keep the file small: the first 20 witnesses of every class (all of them for unclassified ids)
        if *n <= 20 || id.starts_with("C12-other") {
            let o = serde_json::json!({"id": id, "what": what, "input": input, "observed": observed, "expected": expected});
            writeln!(self.f, "{}", o).unwrap();
        }
    }
}

fn is_doc_marker(s: &str) -> bool {
    let b: Vec<char> = s.chars().collect();
    b.len() >= 3
        && ((b[0] == '-' && b[1] == '-' && b[2] == '-') || (b[0] == '.' && b[1] == '.' && b[2] == '.'))
        && (b.len() == 3 || matches!(b[3], ' ' | '\t' | '\n' | '\r'))
}

/// first character of the scalar as emitted (after the `%YAML` preamble and the position's opening)
fn scalar_start(pos: usize, doc: &str) -> Option<char> {
    let t = doc.strip_prefix("%YAML 1.2\n---\n").unwrap_or(doc);
    let t = match pos {
        0 | 2 => t,
        1 => t.strip_prefix("k: ")?,
        3 => t.strip_prefix("- ")?,
        4 => t.strip_prefix("[")?,
        5 => t.strip_prefix("{k: ")?,
        6 => t.strip_prefix("{")?,
        7 => t.strip_prefix("V: ")?,
        8 => t.strip_prefix("a:\n")?.trim_start_matches(' ').strip_prefix("k: ")?,
        9 => t.strip_prefix("a:\n")?.trim_start_matches(' ').strip_prefix("- ")?,
        _ => t.strip_prefix("- - ")?,
    };
    t.chars().next()
}

/// Assign a stable class id to a failing string round trip by looking at the INPUT, the options and
/// the emitted form (never at the way it failed).
fn classify_str(pos: usize, s: &str, doc: &str, o: &O) -> String {
    // a `%YAML 1.2` directive that is not followed by `---` is rejected by the crate's own reader,
    // whatever the value is (repaired by 832e31b: the preamble now carries the marker)
    if o.y12 && !doc.starts_with("%YAML 1.2\n---\n") {
        return "C12-yaml12-directive-without-document-start".into();
    }
    let st = scalar_start(pos, doc);
    let plain = !matches!(st, Some('"' | '\'' | '|' | '>') | None);
    let block = matches!(st, Some('|' | '>'));
    let header: String = doc.lines().find(|l| l.contains('|') || l.contains('>')).unwrap_or("").to_string();
    let has_indicator = header.chars().rev().take(2).any(|c| c.is_ascii_digit());
    if plain && doc.starts_with('\u{feff}') && s.starts_with('\u{feff}') {
        return "C12-leading-bom".into();
    }
    if plain && s.ends_with(' ') {
        return "C12-trailing-blank-plain".into();
    }
    if plain && matches!(pos, 0 | 2) && is_doc_marker(s) {
        return "C12-doc-marker-plain".into();
    }
    if plain && matches!(pos, 2 | 6) && s == "<<" {
        return "C12-merge-key-plain".into();
    }
    if plain && matches!(pos, 4 | 5) && (s.ends_with(" -") || s.contains(" -,") ) {
        return "C12-flow-blank-dash-plain".into();
    }
    if block && s.contains('\r') {
        return "C12-block-cr".into();
    }
    if block && s.contains('\0') {
        return "C12-block-nul".into();
    }
    if block && s.len() >= 2 && s.chars().all(|c| c == '\n') {
        return "C12-block-only-newlines".into();
    }
    if block && pos >= 8 && has_indicator {
        return "C12-block-indent-indicator-nested".into();
    }
    if block && pos == 10 && o.step == 1 {
        return "C12-block-in-nested-seq-indent-step-1".into();
    }
    format!("C12-other-{}", POS_NAMES[pos])
}

fn esc(s: &str) -> String {
    s.chars().flat_map(|c| c.escape_default()).collect()
}

fn check_string(or: &mut Oracle, sink: &mut Sink, s: &str, o: &O) {
    let owned = s.to_string();
    for pos in 0..NPOS {
        or.checked += 1;
        let doc = match emit(pos, &owned, o) {
            Ok(d) => d,
            Err(e) => {
                or.fail(&format!("C12-other-{}", POS_NAMES[pos]), "serialization of a string failed", format!("pos={} opts={:?} s={}", POS_NAMES[pos], o, esc(s)), e, "Ok".into());
                continue;
            }
        };
        let back = read_back::<String>(pos, &doc);
        let ok = matches!(&back, Ok(b) if b == s);
        if !ok {
            let id = classify_str(pos, s, &doc, o);
            sink.count(&format!("oracle.fail.{id}"));
            or.fail(&id, "from_str(to_string_with_options(string)) != string",
                format!("pos={} opts=[{}] s=\"{}\" hex={}", POS_NAMES[pos], o.toks(), esc(s), hex(s)),
                format!("emitted=\"{}\" read={}", esc(&doc), match &back { Ok(b) => format!("Ok(\"{}\")", esc(b)), Err(e) => format!("Err({e})") }),
                format!("Ok(\"{}\")", esc(s)));
        } else if matches!(pos, 0 | 1 | 3 | 4 | 5 | 7) {
            // schema-less reading: the same text must still denote the same *string*
            let u = untyped_scalar(pos, &doc);
            if u != Ok(U::S(owned.clone())) {
                // residue: with yaml_12 the YAML 1.1 boolean words are left plain on purpose, but the
                // default (non strict_booleans) reader still takes them for booleans
                let id = if o.y12 && hs::parse_yaml11_bool(s).is_some() { "C12-yaml12-bool-word-plain" } else { "C12-untyped-not-string" };
                sink.count(&format!("oracle.fail.{id}"));
                or.fail(id, "a string is emitted in a form that a schema-less reader (deserialize_any) reads as a number / a boolean / another string",
                    format!("pos={} opts=[{}] s=\"{}\" hex={}", POS_NAMES[pos], o.toks(), esc(s), hex(s)),
                    format!("emitted=\"{}\" untyped={:?}", esc(&doc), u), format!("S(\"{}\")", esc(s)));
            }
        }
    }
}

fn check_value<T>(or: &mut Oracle, sink: &mut Sink, kind: &str, v: &T, o: &O, same: impl Fn(&T, &T) -> bool, positions: &[usize])
where
    T: Serialize + for<'de> Deserialize<'de> + Clone + Ord + std::fmt::Debug,
{
    for &pos in positions {
        or.checked += 1;
        let doc = match emit(pos, v, o) {
            Ok(d) => d,
            Err(e) => {
                // non-scalar keys (bytes) are a documented serialization error, not a round-trip failure
                if e.contains("non-scalar key") { continue; }
                or.fail(&format!("C12-other-{kind}-serialize"), "serialization failed", format!("pos={} {kind} {:?}", POS_NAMES[pos], v), e, "Ok".into());
                continue;
            }
        };
        let back = read_back::<T>(pos, &doc);
        if !matches!(&back, Ok(b) if same(b, v)) {
            // a char is written by `serialize_str`: its failures belong to the string classes
            let as_str: Option<String> = if kind == "char" { serde_json::to_value(v).ok().and_then(|j| j.as_str().map(|x| x.to_string())) } else { None };
            let id = if o.y12 && !doc.starts_with("%YAML 1.2\n---\n") { "C12-yaml12-directive-without-document-start".to_string() }
                else if let Some(cs) = &as_str { classify_str(pos, cs, &doc, o) }
                else { format!("C12-other-{kind}") };
            sink.count(&format!("oracle.fail.{id}"));
            or.fail(&id, "from_str(to_string_with_options(v)) != v",
                format!("pos={} opts=[{}] {kind} {:?}", POS_NAMES[pos], o.toks(), v),
                format!("emitted=\"{}\" read={:?}", esc(&doc), back), format!("{:?}", v));
        }
    }
}

// floats are not Ord: wrap them by bits for the map-key positions (the derive is only needed for the shape types)
#[derive(Clone, Debug)]
struct F64(f64);
impl PartialEq for F64 { fn eq(&self, o: &Self) -> bool { self.0.to_bits() == o.0.to_bits() } }
impl Eq for F64 {}
impl PartialOrd for F64 { fn partial_cmp(&self, o: &Self) -> Option<std::cmp::Ordering> { Some(self.cmp(o)) } }
impl Ord for F64 { fn cmp(&self, o: &Self) -> std::cmp::Ordering { self.0.to_bits().cmp(&o.0.to_bits()) } }
impl Serialize for F64 { fn serialize<S: serde::Serializer>(&self, s: S) -> Result<S::Ok, S::Error> { s.serialize_f64(self.0) } }
impl<'de> Deserialize<'de> for F64 { fn deserialize<D: serde::Deserializer<'de>>(d: D) -> Result<Self, D::Error> { f64::deserialize(d).map(F64) } }
#[derive(Clone, Debug)]
struct F32(f32);
impl PartialEq for F32 { fn eq(&self, o: &Self) -> bool { self.0.to_bits() == o.0.to_bits() } }
impl Eq for F32 {}
impl PartialOrd for F32 { fn partial_cmp(&self, o: &Self) -> Option<std::cmp::Ordering> { Some(self.cmp(o)) } }
impl Ord for F32 { fn cmp(&self, o: &Self) -> std::cmp::Ordering { self.0.to_bits().cmp(&o.0.to_bits()) } }
impl Serialize for F32 { fn serialize<S: serde::Serializer>(&self, s: S) -> Result<S::Ok, S::Error> { s.serialize_f32(self.0) } }
impl<'de> Deserialize<'de> for F32 { fn deserialize<D: serde::Deserializer<'de>>(d: D) -> Result<Self, D::Error> { f32::deserialize(d).map(F32) } }

// ------------------------------------------------------------------------------------------------
// generators

fn all_strings(alpha: &[char], maxlen: usize) -> Vec<String> {
    let mut out = vec![String::new()];
    let mut cur = vec![String::new()];
    for _ in 0..maxlen {
        let mut next = Vec::with_capacity(cur.len() * alpha.len());
        for c in &cur {
            for ch in alpha {
                let mut s = c.clone();
                s.push(*ch);
                next.push(s);
            }
        }
        out.extend(next.iter().cloned());
        cur = next;
    }
    out
}

fn random_string(rng: &mut Rng) -> String {
    let words = ["a", "ab", "yes", "null", "1", "1e3", "-", "x:", "#", "key: v", "é", "~", "<<", "---", "...", "\u{feff}", "\u{2028}", "\u{85}", "'", "\"", "\\", "\t", "0x1F", "aaaaaaaaaaaaaaaaaaaaaaaaaaaaaaaaaaaaaaaa"];
    let mut s = String::new();
    let kind = rng.below(6);
    let n = match kind { 0 => rng.below(6), 1 => 20 + rng.below(40), _ => 3 + rng.below(30) };
    if rng.chance(1, 5) { for _ in 0..rng.below(3) { s.push(*rng.pick(&[' ', '\n', '\t'])); } }
    for i in 0..n {
        match kind {
            // long words separated by runs of spaces (folded wrapping)
            1 | 2 => {
                let w = 1 + rng.below(12);
                for _ in 0..w { s.push(*rng.pick(&['a', 'b', 'é', 'z', '.', ',', '-'])); }
                if i + 1 < n { for _ in 0..(1 + rng.below(3)) { s.push(' '); } }
                if kind == 2 && rng.chance(1, 6) { s.push('\n'); if rng.chance(1, 3) { s.push('\n'); } if rng.chance(1, 4) { s.push(' '); } }
            }
            // many lines
            3 => {
                s.push_str(*rng.pick(&words));
                s.push(*rng.pick(&[' ', '\n', '\n', ' ', '\n']));
            }
            // adversarial alphabet soup
            4 => s.push(*rng.pick(&ALPHA)),
            _ => { s.push_str(*rng.pick(&words)); if rng.chance(1, 2) { s.push(' '); } }
        }
    }
    if rng.chance(1, 4) { for _ in 0..rng.below(4) { s.push(*rng.pick(&[' ', '\n', '\n'])); } }
    s
}

fn random_opts(rng: &mut Rng) -> O {
    O {
        step: *rng.pick(&[1usize, 2, 2, 2, 3, 4, 5, 8]),
        wrap: *rng.pick(&[0usize, 1, 2, 5, 10, 20, 40, 80, 80, 80, 200]),
        prefer: !rng.chance(1, 5),
        qa: rng.chance(1, 6),
        y12: rng.chance(1, 3),
        compact: rng.chance(1, 3),
    }
}

fn docs_case(sink: &mut Sink, s: &str, o: &O) {
    let owned = s.to_string();
    let mut toks = Vec::with_capacity(NPOS);
    for pos in 0..NPOS {
        match emit(pos, &owned, o) {
            Ok(doc) => {
                let rd = read_tok(pos, &doc);
                sink.count(match rd.as_bytes()[0] { b'0' => "docs.style.plain", b'1' => "docs.style.single", b'2' => "docs.style.double", b'3' => "docs.style.literal", b'4' => "docs.style.folded", _ => "docs.style.unreadable" });
                toks.push(format!("{}:{}", hex(&doc), rd));
            }
            Err(_) => toks.push("err".to_string()),
        }
    }
    sink.case(&format!("scalarrt docs {} {}", o.toks(), hex(s)), &toks.join(" "));
}

/// adversarial one-line texts outside the reader's stated dialect: an explicit key indicator `? `
fn outside_dialect(t: &str) -> bool {
    let u = t.trim_start_matches([' ', '\t']);
    u.starts_with("? ") || u.starts_with("?\t") || u == "?"
}

fn pos_frame(pos: usize) -> (&'static str, &'static str) {
    match pos {
        0 => ("", "\n"),
        1 => ("k: ", "\n"),
        2 => ("", ": 1\n"),
        3 => ("- ", "\n"),
        4 => ("[", "]\n"),
        5 => ("{k: ", "}\n"),
        6 => ("{", ": 1}\n"),
        7 => ("V: ", "\n"),
        8 => ("a:\n  k: ", "\n"),
        9 => ("a:\n  - ", "\n"),
        _ => ("- - ", "\n"),
    }
}

fn float_tok_f64(v: f64) -> String { if v.is_nan() { "nan".into() } else { v.to_bits().to_string() } }
fn float_tok_f32(v: f32) -> String { if v.is_nan() { "nan".into() } else { v.to_bits().to_string() } }

fn f64_case(sink: &mut Sink, or: &mut Oracle, bits: u64) {
    let v = f64::from_bits(bits);
    let text = h::push_float_string_f64(v).unwrap_or_default();
    let raw = h::zmij_raw_f64(v);
    if h::write_float_string_f64(v).as_deref() != Some(text.as_str()) {
        or.fail("C12-other-float-twins", "write_float_string and push_float_string differ", format!("f64 bits {bits}"), format!("{:?}", h::write_float_string_f64(v)), text.clone());
    }
    let doc = to_string_with_options(&v, O::DEFAULT.so()).unwrap_or_default();
    let back = from_str::<f64>(&doc).map(float_tok_f64).unwrap_or_else(|_| "err".into());
    sink.count(if !v.is_finite() { "f64.nonfinite" } else if raw.as_deref().map(|r| r.contains('e')).unwrap_or(false) { "f64.exp" } else { "f64.fixed" });
    or.checked += 1;
    if back != float_tok_f64(v) || doc != format!("{text}\n") {
        or.fail("C12-other-f64", "f64 does not round-trip bit for bit", format!("bits {bits} ({v:e})"), format!("emitted={doc:?} read={back}"), float_tok_f64(v));
    }
    sink.case(&format!("scalarrt f64 {bits} {}", raw.map(|r| hex(&r)).unwrap_or("-".into())), &format!("{} {}", hex(&text), back));
}

fn f32_case(sink: &mut Sink, or: &mut Oracle, bits: u32) {
    let v = f32::from_bits(bits);
    let text = h::push_float_string_f32(v).unwrap_or_default();
    let raw = h::zmij_raw_f32(v);
    if h::write_float_string_f32(v).as_deref() != Some(text.as_str()) {
        or.fail("C12-other-float-twins", "write_float_string and push_float_string differ", format!("f32 bits {bits}"), format!("{:?}", h::write_float_string_f32(v)), text.clone());
    }
    let doc = to_string_with_options(&v, O::DEFAULT.so()).unwrap_or_default();
    let back = from_str::<f32>(&doc).map(float_tok_f32).unwrap_or_else(|_| "err".into());
    sink.count(if !v.is_finite() { "f32.nonfinite" } else if raw.as_deref().map(|r| r.contains('e')).unwrap_or(false) { "f32.exp" } else { "f32.fixed" });
    or.checked += 1;
    if back != float_tok_f32(v) || doc != format!("{text}\n") {
        or.fail("C12-other-f32", "f32 does not round-trip bit for bit", format!("bits {bits} ({v:e})"), format!("emitted={doc:?} read={back}"), float_tok_f32(v));
    }
    sink.case(&format!("scalarrt f32 {bits} {}", raw.map(|r| hex(&r)).unwrap_or("-".into())), &format!("{} {}", hex(&text), back));
}

pub fn run(mode: &str, a: &Args) -> i32 {
    match mode {
        "gen" => generate(a),
        _ => { eprintln!("scalarrt: unknown mode {mode}"); 2 }
    }
}

fn generate(a: &Args) -> i32 {
    let mut rng = Rng::new(a.seed);
    let mut sink = Sink::new(&a.out, "scalarrt");
    let mut or = Oracle::new(&a.out);
    let thorough = a.thorough;

    // ---- (i-a) predicates and escapers, function by function, exhaustively
    let frag_strings = all_strings(&ALPHA, if thorough { 4 } else { 3 });
    let mut distinct_plain = 0u64;
    for s in &frag_strings {
        let hx = hex(s);
        let ps = h::is_plain_safe(s);
        let pv = [h::is_plain_value_safe(s, false, false), h::is_plain_value_safe(s, false, true), h::is_plain_value_safe(s, true, false), h::is_plain_value_safe(s, true, true)];
        if pv[0] { distinct_plain += 1; sink.count("pred.value_plain"); } else { sink.count("pred.value_quoted"); }
        let res = if hs::scalar_is_nullish(s, 0) { 1 } else if hs::parse_yaml11_bool(s).is_some() { 2 }
            else if hs::parse_int_signed(128, s, false).is_some() || hs::parse_int_unsigned(128, s, false).is_some() { 3 }
            else if hs::parse_f64(s).is_some() { 4 } else { 0 };
        debug_assert_eq!(res != 0, hs::maybe_not_string(s, 0));
        sink.case(&format!("scalarrt pred {hx}"), &format!("{} {} {} {} {} {} {} {} {} {} {} {}",
            b(ps), b(pv[0]), b(pv[1]), b(pv[2]), b(pv[3]), b(h::needs_double_quotes(s)), b(h::is_numeric_looking(s)),
            b(h::is_ambiguous(s)), b(h::is_ambiguous_value(s, false)), b(h::is_ambiguous_value(s, true)), res, b(hs::parse_f64(s).is_some())));
        sink.case(&format!("scalarrt esc {hx}"), &format!("{} {} {} {} {} {}",
            hex(&h::write_quoted(s).unwrap()), hex(&h::write_single_quoted(s).unwrap()),
            hex(&h::key_sink_str(s, false).unwrap()), hex(&h::key_sink_str(s, true).unwrap()),
            hex(&h::write_plain_or_quoted(s, false, false).unwrap()), hex(&h::write_plain_or_quoted(s, true, false).unwrap())));
    }
    // numeric alphabet: the regex recogniser, the int / float recognisers of `resolve`
    for s in all_strings(&NUM, if thorough { 6 } else { 5 }) {
        let res = if hs::scalar_is_nullish(&s, 0) { 1 } else if hs::parse_yaml11_bool(&s).is_some() { 2 }
            else if hs::parse_int_signed(128, &s, false).is_some() || hs::parse_int_unsigned(128, &s, false).is_some() { 3 }
            else if hs::parse_f64(&s).is_some() { 4 } else { 0 };
        let pv = [h::is_plain_value_safe(&s, false, false), h::is_plain_value_safe(&s, false, true), h::is_plain_value_safe(&s, true, false), h::is_plain_value_safe(&s, true, true)];
        sink.count(if h::is_numeric_looking(&s) { "num.looking" } else { "num.not_looking" });
        sink.case(&format!("scalarrt pred {}", hex(&s)), &format!("{} {} {} {} {} {} {} {} {} {} {} {}",
            b(h::is_plain_safe(&s)), b(pv[0]), b(pv[1]), b(pv[2]), b(pv[3]), b(h::needs_double_quotes(&s)), b(h::is_numeric_looking(&s)),
            b(h::is_ambiguous(&s)), b(h::is_ambiguous_value(&s, false)), b(h::is_ambiguous_value(&s, true)), res, b(hs::parse_f64(&s).is_some())));
    }
    // word table: bool / null / inf / nan spellings in every case, with unicode blanks
    for w in ["null", "true", "false", "yes", "no", "on", "off", "y", "n", "nan", "inf", "+inf", "-inf", ".nan", ".inf", "-.inf", "+.nan", "infinity", "-infinity", "+nan", "-nan", "~", "0x1f", "0X1F", "0o7", "0O7", "0b1", "0B1", "_1", "1_", "-_1", "<<"] {
        let cs: Vec<char> = w.chars().collect();
        for mask in 0..(1u32 << cs.len().min(8)) {
            let v: String = cs.iter().enumerate().map(|(i, c)| if mask >> i & 1 == 1 { c.to_ascii_uppercase() } else { *c }).collect();
            for (pre, post) in [("", ""), ("", " "), ("", "\u{a0}"), ("\u{a0}", ""), ("", "\u{2028}"), ("\u{3000}", ""), ("", "\u{feff}")] {
                let s = format!("{pre}{v}{post}");
                let res = if hs::scalar_is_nullish(&s, 0) { 1 } else if hs::parse_yaml11_bool(&s).is_some() { 2 }
                    else if hs::parse_int_signed(128, &s, false).is_some() || hs::parse_int_unsigned(128, &s, false).is_some() { 3 }
                    else if hs::parse_f64(&s).is_some() { 4 } else { 0 };
                let pv = [h::is_plain_value_safe(&s, false, false), h::is_plain_value_safe(&s, false, true), h::is_plain_value_safe(&s, true, false), h::is_plain_value_safe(&s, true, true)];
                sink.case(&format!("scalarrt pred {}", hex(&s)), &format!("{} {} {} {} {} {} {} {} {} {} {} {}",
                    b(h::is_plain_safe(&s)), b(pv[0]), b(pv[1]), b(pv[2]), b(pv[3]), b(h::needs_double_quotes(&s)), b(h::is_numeric_looking(&s)),
                    b(h::is_ambiguous(&s)), b(h::is_ambiguous_value(&s, false)), b(h::is_ambiguous_value(&s, true)), res, b(hs::parse_f64(&s).is_some())));
                if mask == 0 || mask == 1 { check_string(&mut or, &mut sink, &s, &O::DEFAULT); }
            }
        }
    }
    // every scalar value of the escape tables' ranges through the escapers
    for cp in (0u32..0x180).chain([0x2027, 0x2028, 0x2029, 0x202a, 0xd7ff, 0xe000, 0xfefe, 0xfeff, 0xff00, 0xfffd, 0xfffe, 0xffff, 0x10000, 0x10ffff]) {
        if let Some(c) = char::from_u32(cp) {
            let s = format!("a{c}b");
            sink.case(&format!("scalarrt esc {}", hex(&s)), &format!("{} {} {} {} {} {}",
                hex(&h::write_quoted(&s).unwrap()), hex(&h::write_single_quoted(&s).unwrap()),
                hex(&h::key_sink_str(&s, false).unwrap()), hex(&h::key_sink_str(&s, true).unwrap()),
                hex(&h::write_plain_or_quoted(&s, false, false).unwrap()), hex(&h::write_plain_or_quoted(&s, true, false).unwrap())));
            if cp != 0 {
                for o in [O::DEFAULT, O { qa: true, ..O::DEFAULT }] {
                    docs_case(&mut sink, &s, &o);
                    check_string(&mut or, &mut sink, &s, &o);
                    check_string(&mut or, &mut sink, &c.to_string(), &o);
                }
                check_value(&mut or, &mut sink, "char", &c, &O::DEFAULT, |x, y| x == y, &[0, 1, 2, 3, 4, 5, 6, 7]);
            }
        }
    }

    // ---- (i-b) + (ii) whole documents in every position x option vectors, and the reader on the emitted text
    let opt_vectors: Vec<O> = vec![
        O::DEFAULT,
        O { y12: true, ..O::DEFAULT },
        O { qa: true, ..O::DEFAULT },
        O { prefer: false, ..O::DEFAULT },
        O { wrap: 0, ..O::DEFAULT },
        O { wrap: 1, ..O::DEFAULT },
        O { wrap: 2, ..O::DEFAULT },
        O { step: 1, wrap: 1, ..O::DEFAULT },
        O { step: 4, wrap: 1, ..O::DEFAULT },
        O { step: 5, wrap: 1, ..O::DEFAULT },
        O { step: 3, wrap: 2, y12: true, compact: true, ..O::DEFAULT },
        O { wrap: 1, qa: true, y12: true, ..O::DEFAULT },
    ];
    let short = all_strings(&ALPHA, 2);
    for s in &short {
        for o in &opt_vectors {
            docs_case(&mut sink, s, o);
            check_string(&mut or, &mut sink, s, o);
        }
    }
    let mid = all_strings(&SUB, if thorough { 4 } else { 3 });
    for s in mid.iter().filter(|s| s.chars().count() >= 3) {
        for o in [&opt_vectors[0], &opt_vectors[1], &opt_vectors[5], &opt_vectors[7]] {
            docs_case(&mut sink, s, o);
            check_string(&mut or, &mut sink, s, o);
        }
    }
    if thorough {
        for s in frag_strings.iter().filter(|s| s.chars().count() == 3) {
            for o in [&opt_vectors[0], &opt_vectors[5]] {
                docs_case(&mut sink, s, o);
                check_string(&mut or, &mut sink, s, o);
            }
        }
    }
    for _ in 0..(if thorough { 60000 } else { 5000 }) {
        let n = 3 + rng.below(2);
        let s: String = (0..n).map(|_| *rng.pick(&ALPHA)).collect();
        let o = *rng.pick(&opt_vectors);
        docs_case(&mut sink, &s, &o);
        check_string(&mut or, &mut sink, &s, &o);
    }
    let mut long_cases = 0u64;
    for _ in 0..(if thorough { 40000 } else { 3000 }) {
        let mut s = random_string(&mut rng);
        let o = random_opts(&mut rng);
        if rng.chance(1, 40) { let k = rng.below(s.chars().count() + 1); let b: usize = s.char_indices().nth(k).map(|(i, _)| i).unwrap_or(s.len()); s.insert(b, '\0'); }
        long_cases += 1;
        sink.count(if s.contains('\n') { "long.multiline" } else { "long.singleline" });
        docs_case(&mut sink, &s, &o);
        check_string(&mut or, &mut sink, &s, &o);
    }
    // hand-written boundary strings (known classes and their neighbours)
    for s in ["abc ", "abc  ", "a b ", "---", "...", "--- a", "... a", "---a", "....", "-- -", "<<", "<< ", "<<a", "\u{feff}a", "a\u{feff}", "\u{feff}", "\u{feff} ",
              "\n", "\n\n", "a\n", "a\n\n", "a\n\n\n", " a\nb", "a\n b", "\n a", "a\r\nb", "a:\nb", "a #b\nc", "x\n", "- a\nb", "a\n---\nb", "a\n...\nb", "a\0b", "a\0\nb", "\0",
              "infinity", "+nan", "_1", "0X1F", "1\u{2028}", "\u{a0}1", "a\tb\nc"] {
        for o in &opt_vectors {
            docs_case(&mut sink, s, o);
            check_string(&mut or, &mut sink, s, o);
        }
    }
    for k in [79usize, 80, 81, 82, 200] {
        for s in ["\n".repeat(k), format!("{}\n", "a".repeat(k)), format!("{}\r\nb", "a".repeat(k)), format!("{} ", "a".repeat(k)), format!(" {}\nb", "a".repeat(k)),
                  format!("{} {}", "a".repeat(k / 2), "b".repeat(k / 2 + 1)), format!("{}   {}  ", "a".repeat(k / 2), "b".repeat(k / 2 + 1)), format!("{}\n\n{}\n\n", "a b".repeat(k / 3), "c".repeat(k))] {
            for o in [O::DEFAULT, O { step: 4, ..O::DEFAULT }, O { step: 5, compact: true, ..O::DEFAULT }] {
                docs_case(&mut sink, &s, &o);
                check_string(&mut or, &mut sink, &s, &o);
            }
        }
    }

    // ---- write_folded_block and first_line_leading_spaces
    let fold_alpha = ['a', 'b', ' ', '\n', 'é'];
    for s in all_strings(&fold_alpha, if thorough { 7 } else { 6 }) {
        if s.chars().count() < 2 { continue; }
        let wrap = (s.len() * 7 + s.chars().count()) % 5;
        let r = std::panic::catch_unwind(|| h::write_folded_block(&s, 1, 2, wrap));
        let ans = match r { Ok(Some(t)) => format!("ok {}", hex(&t)), Ok(None) => "err".into(), Err(_) => "panic".into() };
        sink.case(&format!("scalarrt fold 1 2 {wrap} {}", hex(&s)), &ans);
        sink.case(&format!("scalarrt fls {}", hex(&s)), &h::first_line_leading_spaces(&s).to_string());
    }
    for _ in 0..(if thorough { 20000 } else { 3000 }) {
        let s = random_string(&mut rng);
        let (indent, step, wrap) = (rng.below(4), 1 + rng.below(4), *rng.pick(&[0usize, 1, 3, 8, 16, 40, 80]));
        let r = std::panic::catch_unwind(|| h::write_folded_block(&s, indent, step, wrap));
        let ans = match r { Ok(Some(t)) => format!("ok {}", hex(&t)), Ok(None) => "err".into(), Err(_) => "panic".into() };
        sink.count("fold.random");
        sink.case(&format!("scalarrt fold {indent} {step} {wrap} {}", hex(&s)), &ans);
    }

    // ---- (ii-b) the reader on adversarial texts (one line; block scalars separately)
    let line_alpha: Vec<char> = ALPHA.iter().copied().filter(|c| *c != '\n' && *c != '\r').collect();
    let mut rd_some = 0u64;
    for t in all_strings(&line_alpha, 2) {
        if outside_dialect(&t) { continue; }
        for pos in 0..NPOS {
            let (pre, post) = pos_frame(pos);
            let doc = format!("{pre}{t}{post}");
            let ans = read_tok(pos, &doc);
            if ans != "none" { rd_some += 1; sink.count("rd.line.some"); } else { sink.count("rd.line.none"); }
            sink.case(&format!("scalarrt rd {pos} {}", hex(&doc)), &ans);
        }
    }
    for _ in 0..(if thorough { 300000 } else { 20000 }) {
        let n = 3 + rng.below(4);
        let t: String = (0..n).map(|_| if rng.chance(1, 2) { *rng.pick(&['a', 'b', ' ', ' ', ':', '#', '\'', '"', '\\', '-']) } else { *rng.pick(&line_alpha) }).collect();
        if outside_dialect(&t) { continue; }
        let pos = rng.below(NPOS);
        let (pre, post) = pos_frame(pos);
        let doc = format!("{pre}{t}{post}");
        let ans = read_tok(pos, &doc);
        if ans != "none" { rd_some += 1; sink.count("rd.line.some"); } else { sink.count("rd.line.none"); }
        sink.case(&format!("scalarrt rd {pos} {}", hex(&doc)), &ans);
    }
    // quoted adversarial: escapes
    for _ in 0..(if thorough { 100000 } else { 10000 }) {
        let n = rng.below(6);
        let mut t = String::from("\"");
        for _ in 0..n {
            match rng.below(5) {
                0 => { t.push('\\'); t.push(*rng.pick(&['0', 'a', 'b', 't', 'n', 'v', 'f', 'r', 'e', ' ', '"', '/', '\\', 'N', '_', 'L', 'P', 'q', '\t', 'x', 'u', 'U'])); }
                1 => { t.push_str(&format!("\\x{:02X}", rng.below(256))); }
                2 => { t.push_str(&format!("\\u{:04x}", rng.below(0x10000))); }
                3 => { t.push_str(&format!("\\U{:08X}", rng.below(0x120000))); }
                _ => t.push(*rng.pick(&line_alpha)),
            }
        }
        if !rng.chance(1, 10) { t.push('"'); }
        let pos = *rng.pick(&[0usize, 1, 2, 3, 4, 5, 6]);
        let (pre, post) = pos_frame(pos);
        let doc = format!("{pre}{t}{post}");
        let ans = read_tok(pos, &doc);
        if ans != "none" { rd_some += 1; sink.count("rd.dq.some"); } else { sink.count("rd.dq.none"); }
        sink.case(&format!("scalarrt rd {pos} {}", hex(&doc)), &ans);
    }
    // block scalars: header variants x body lines
    let headers = ["|", ">", "|-", "|+", ">-", ">+", "|1", "|2", "|2-", "|-2", ">2+", "|3", "|0", "|10", "| ", "| #c", "|#c", "|x", ">1-"];
    let body_lines = ["", " ", "  ", "   ", "a", " a", "  a", "   a", "    a", "  a ", "  \ta", "\ta", "  #c", "#c", "  - a", "  ...", "...", "   b", "  é"];
    for _ in 0..(if thorough { 200000 } else { 15000 }) {
        let hd = *rng.pick(&headers);
        let n = rng.below(5);
        let mut body = String::new();
        for _ in 0..n { body.push_str(*rng.pick(&body_lines)); body.push('\n'); }
        let pos = *rng.pick(&[0usize, 1, 3, 7, 1, 3]);
        let (pre, _) = pos_frame(pos);
        let doc = format!("{pre}{hd}\n{body}");
        let ans = read_tok(pos, &doc);
        if ans != "none" { rd_some += 1; sink.count("rd.block.some"); } else { sink.count("rd.block.none"); }
        sink.case(&format!("scalarrt rd {pos} {}", hex(&doc)), &ans);
    }

    // ---- (iii) floats
    let mut fbits: Vec<u64> = vec![0, 1u64 << 63, 1, 2, 0x000f_ffff_ffff_ffff, 0x0010_0000_0000_0000, 0x0010_0000_0000_0001, 0x7fef_ffff_ffff_ffff, 0x7ff0_0000_0000_0000,
        0xfff0_0000_0000_0000, 0x7ff8_0000_0000_0000, 0xfff8_0000_0000_0001, 0x7ff0_0000_0000_0001, 0x3ff0_0000_0000_0000, 0xbff0_0000_0000_0000, 0x4340_0000_0000_0000, 0x4330_0000_0000_0000, 0x433f_ffff_ffff_ffff];
    for v in [0.1f64, 0.5, 1.5, 1e15, 1e16, 1e17, 1e21, 1e22, 1e23, 1e-5, 1e-4, 1e-7, 123456789.0, 4e-6, 1e6, 1e300, 5e-324, 2.2250738585072014e-308, 1.7976931348623157e308, 9007199254740993.0, 0.3, 2.5e-8, 100.0, 1e100] {
        fbits.push(v.to_bits());
        fbits.push((-v).to_bits());
    }
    for e in 0..2047u64 { fbits.push(e << 52); fbits.push((e << 52) | 1); fbits.push((e << 52) | 0x000f_ffff_ffff_ffff); }
    for k in 0..64 { fbits.push(1u64 << k); }
    for i in 0..400i32 { let v = 10f64.powi(i - 200); fbits.push(v.to_bits()); fbits.push(f64::from_bits(v.to_bits() + 1).to_bits()); fbits.push(f64::from_bits(v.to_bits() - 1).to_bits()); }
    for _ in 0..(if thorough { 1_000_000 } else { 10_000 }) { fbits.push(rng.next()); }
    for _ in 0..(if thorough { 100_000 } else { 2_000 }) { fbits.push(((rng.below(2000) as i64 - 1000) as f64 / *rng.pick(&[1.0, 2.0, 8.0, 10.0, 100.0, 1e9])).to_bits()); }
    for bts in &fbits { f64_case(&mut sink, &mut or, *bts); }
    let mut f32bits: Vec<u32> = vec![0, 1 << 31, 1, 0x007f_ffff, 0x0080_0000, 0x7f7f_ffff, 0x7f80_0000, 0xff80_0000, 0x7fc0_0000, 0x7f80_0001, 0x3f80_0000, 0x4b80_0000, 0x4b00_0000];
    for e in 0..256u32 { f32bits.push(e << 23); f32bits.push((e << 23) | 1); f32bits.push((e << 23) | 0x007f_ffff); }
    for v in [0.1f32, 1e-5, 1e7, 1e8, 16777216.0, 3.4028235e38, 1e-45, 1.1754944e-38, 0.3, 1e21] { f32bits.push(v.to_bits()); f32bits.push((-v).to_bits()); }
    // the only f32 whose shortest decimal text rounds differently through f64 (found by an exhaustive scan of all patterns)
    for b in [0x15AE43FDu32, 0x95AE43FD, 0x15AE43FC, 0x15AE43FE] { f32bits.push(b); }
    for _ in 0..(if thorough { 1_000_000 } else { 10_000 }) { f32bits.push(rng.next() as u32); }
    for bts in &f32bits { f32_case(&mut sink, &mut or, *bts); }

    // ---- integers: text and parse-back at every width boundary
    let mut ints: Vec<(u32, i128)> = Vec::new();
    for w in [8u32, 16, 32, 64, 128] {
        let max: i128 = if w == 128 { i128::MAX } else { (1i128 << (w - 1)) - 1 };
        let min: i128 = if w == 128 { i128::MIN } else { -(1i128 << (w - 1)) };
        for v in [0, 1, -1, 9, 10, -10, 99, 100, max, max - 1, min, min + 1, max / 10, min / 10, 1000000007 % (max.max(1)), 7] { ints.push((w, v)); }
        // the boundaries of every NARROWER width and every power of ten, +-1, inside this width (a reader or writer that
        // takes a fast path through a narrower type shows up exactly there)
        let mut cross: Vec<i128> = Vec::new();
        for nw in [8u32, 16, 32, 64, 128] { if nw < w { for d in [-1i128, 0, 1] { cross.push((1i128 << (nw - 1)) + d); cross.push(-(1i128 << (nw - 1)) + d); cross.push((1i128 << nw) + d); } } }
        let mut p10: i128 = 1;
        for _ in 0..38 { p10 = p10.saturating_mul(10); for d in [-1i128, 0, 1] { cross.push(p10 + d); cross.push(-p10 + d); } }
        for v in cross { if v >= min && v <= max { ints.push((w, v)); } }
    }
    for (w, v) in &ints {
        macro_rules! go { ($t:ty) => {{
            let x = *v as $t;
            let doc = to_string_with_options(&x, O::DEFAULT.so()).unwrap_or_default();
            let text = doc.trim_end_matches('\n').to_string();
            let back = from_str::<$t>(&doc).ok().map(|b| b as i128);
            sink.case(&format!("scalarrt int {w} {}", x), &format!("{} {}", hex(&text), opt(&back, |b| b.to_string())));
            check_value(&mut or, &mut sink, "int", &x, &O::DEFAULT, |p, q| p == q, &[0, 1, 2, 3, 4, 5, 6, 7, 8, 9, 10]);
            check_value(&mut or, &mut sink, "int", &x, &O { qa: true, y12: true, ..O::DEFAULT }, |p, q| p == q, &[0, 1, 2, 3]);
        }}; }
        match w { 8 => go!(i8), 16 => go!(i16), 32 => go!(i32), 64 => go!(i64), _ => go!(i128) }
    }
    for w in [8u32, 16, 32, 64, 128] {
        let max: u128 = if w == 128 { u128::MAX } else { (1u128 << w) - 1 };
        let mut uvals: Vec<u128> = vec![0u128, 1, 9, 10, 255, max, max - 1, max / 2, max / 2 + 1, max / 10];
        for nw in [8u32, 16, 32, 64] { if nw < w { for d in [0u128, 1, 2] { uvals.push((1u128 << nw) - 1 + d); uvals.push((1u128 << (nw - 1)) - 1 + d); } } }
        let mut p10: u128 = 1;
        for _ in 0..38 { p10 = p10.saturating_mul(10); for d in [0u128, 1, 2] { let v = p10 - 1 + d; if v <= max { uvals.push(v); } } }
        for v in uvals {
            macro_rules! go { ($t:ty) => {{
                let x = v as $t;
                let doc = to_string_with_options(&x, O::DEFAULT.so()).unwrap_or_default();
                let text = doc.trim_end_matches('\n').to_string();
                let back = from_str::<$t>(&doc).ok().map(|b| b as u128);
                sink.case(&format!("scalarrt uint {w} {}", x), &format!("{} {}", hex(&text), opt(&back, |b| b.to_string())));
                check_value(&mut or, &mut sink, "uint", &x, &O::DEFAULT, |p, q| p == q, &[0, 1, 2, 3, 4, 5, 6, 7, 8, 9, 10]);
            }}; }
            match w { 8 => go!(u8), 16 => go!(u16), 32 => go!(u32), 64 => go!(u64), _ => go!(u128) }
        }
    }

    // ---- (iv) oracle-only: floats in positions, bool, unit / None, bytes
    for bts in fbits.iter().take(if thorough { 20000 } else { 3000 }) {
        let v = F64(f64::from_bits(*bts));
        let same = |p: &F64, q: &F64| (p.0.is_nan() && q.0.is_nan()) || p.0.to_bits() == q.0.to_bits();
        check_value(&mut or, &mut sink, "f64", &v, &O::DEFAULT, same, &[0, 1, 3, 4, 5, 7, 8]);
        check_value(&mut or, &mut sink, "f64-key", &v, &O::DEFAULT, same, &[2, 6]);
    }
    for bts in f32bits.iter().take(if thorough { 20000 } else { 3000 }) {
        let v = F32(f32::from_bits(*bts));
        let same = |p: &F32, q: &F32| (p.0.is_nan() && q.0.is_nan()) || p.0.to_bits() == q.0.to_bits();
        check_value(&mut or, &mut sink, "f32", &v, &O::DEFAULT, same, &[0, 1, 3, 4, 5, 7]);
        check_value(&mut or, &mut sink, "f32-key", &v, &O::DEFAULT, same, &[2, 6]);
    }
    for o in &opt_vectors {
        for v in [true, false] {
            check_value(&mut or, &mut sink, "bool", &v, o, |p, q| p == q, &[0, 1, 2, 3, 4, 5, 6, 7, 8, 9, 10]);
        }
        check_value(&mut or, &mut sink, "unit", &(), o, |p, q| p == q, &[0, 1, 3, 4, 5, 7, 8, 9, 10]);
        check_value(&mut or, &mut sink, "none", &None::<String>, o, |p, q| p == q, &[0, 1, 3, 4, 5, 7, 8, 9, 10]);
        check_value(&mut or, &mut sink, "some-string", &Some("null".to_string()), o, |p, q| p == q, &[0, 1, 3, 4, 5, 7, 8, 9, 10]);
        check_value(&mut or, &mut sink, "some-string", &Some("~".to_string()), o, |p, q| p == q, &[0, 1, 3, 4, 5, 7]);
        check_value(&mut or, &mut sink, "some-string", &Some(String::new()), o, |p, q| p == q, &[0, 1, 3, 4, 5, 7]);
    }
    let mut byte_cases: Vec<Vec<u8>> = vec![vec![]];
    for x in 0..=255u8 { byte_cases.push(vec![x]); }
    for _ in 0..(if thorough { 20000 } else { 1500 }) { let big = rng.chance(1, 10); let n = rng.below(if big { 200 } else { 12 }); byte_cases.push((0..n).map(|_| rng.next() as u8).collect()); }
    if thorough { for x in 0..=255u8 { for y in 0..=255u8 { byte_cases.push(vec![x, y]); } } }
    for bs in &byte_cases {
        sink.count("bytes");
        check_value(&mut or, &mut sink, "bytes", &Bytes(bs.clone()), &O::DEFAULT, |p, q| p == q, &[0, 1, 3, 4, 5, 7, 8, 9, 10]);
    }

    or.f.flush().unwrap();
    let per_id = or.per_id.clone();
    let distinct_nontrivial = distinct_plain + rd_some + long_cases;
    sink.finish(&a.out, "scalarrt", serde_json::json!({
        "oracle_checked": or.checked,
        "oracle_failures_by_id": per_id,
        "distinct_nontrivial": distinct_nontrivial,
        "rule": "pred/esc: EVERY string up to length 3 (quick) / 4 (thorough) over the 40-character adversarial alphabet (blanks, breaks, all indicators, quotes, backslash, BOM, NEL, LS, C0, DEL, e-acute, digits, `e`, `.`, `<`, `~`, `_`) through is_plain_safe, is_plain_value_safe x {yaml_12} x {flow}, needs_double_quotes, is_numeric_looking, is_ambiguous[_value], the resolve recognisers, write_quoted, write_single_quoted, the key sink, write_plain_or_quoted; all strings up to length 5/6 over the numeric alphabet; bool/null/inf/nan/radix words in all case variants with Unicode blanks; every code point 0..0x180 + BOM/LS/PS/noncharacters through the escapers. docs: every string up to length 2 x 11 positions (root, map value, map key, seq item, FlowSeq item, FlowMap value, FlowMap key, enum newtype payload, nested map value, seq in map, seq in seq) x 12 option vectors (indent 1..5, folded_wrap 0/1/2/80, prefer_block_scalars, quote_all, yaml_12, compact_list_indent), length 3 (4) over a 14-character sub-alphabet x 4 vectors, random length 3-4 over the full alphabet, random long strings (long words with space runs, many lines, leading/trailing blanks and newlines) x random options: the emitted document byte for byte AND the reader's (style, value) against the real parser on exactly that text. rd: the reader against the real parser on adversarial one-line texts (all strings up to length 2 over the alphabet without breaks x 11 positions, random longer, random escape sequences in double quotes) and random block scalars (header variants x body lines). fold: write_folded_block on all strings up to length 6/7 over {a,b,space,newline,e-acute} with wrap 0..4 and random long strings. floats: boundary corpus (all exponents x {0,1,max mantissa}, powers of ten +-1ulp, subnormals, non-finite) + random bit patterns: zmij digits -> push_float_string text, parse-back bits predicted by correctly rounded conversion. Non-trivial = strings the implementation emits plain + adversarial texts the real parser reads as a single scalar + long random strings.",
    }));
    0
}
