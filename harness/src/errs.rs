//! Canonical text for `serde_saphyr::Error` values (kind + numbers + packed location).
use crate::yamlgen::loc_code;
use serde_saphyr::Error;

pub fn unwrap_snippet(e: &Error) -> &Error {
    match e {
        Error::WithSnippet { error, .. } => unwrap_snippet(error),
        other => other,
    }
}

/// Short kind name of an error (no location).
pub fn kind(e: &Error) -> String {
    let e = unwrap_snippet(e);
    let d = format!("{:?}", e);
    let name: String = d.chars().take_while(|c| c.is_alphanumeric()).collect();
    name
}

/// Location code of the error (0 = none/unknown).
pub fn loc(e: &Error) -> u64 {
    match unwrap_snippet(e).location() {
        Some(l) => loc_code(&l),
        None => 0,
    }
}

/// Pump-level canonical form, matching `Driver.PumpDrv.errTok`.
pub fn pump_tok(e: &Error) -> String {
    let e = unwrap_snippet(e);
    match e {
        Error::ExternalMessage { location, .. } => format!("scan {}", loc_code(location)),
        Error::UnknownAnchor { location } => format!("unknown_anchor {}", loc_code(location)),
        Error::Budget { breach, location } => format!("budget {} @{}", crate::c07::breach_tok(breach), loc_code(location)),
        Error::FoldedBlockScalarMustIndentContent { location } => format!("folded_indent {}", loc_code(location)),
        Error::AliasExpansionLimitExceeded { anchor_id, expansions, max_expansions_per_anchor, location } =>
            format!("alias_expansion {} {} {} {}", anchor_id, expansions, max_expansions_per_anchor, loc_code(location)),
        Error::AliasReplayStackDepthExceeded { depth, max_depth, location } =>
            format!("replay_depth {} {} {}", depth, max_depth, loc_code(location)),
        Error::RecursiveReferencesRequireWeakTypes { location } => format!("recursive {}", loc_code(location)),
        Error::AliasReplayLimitExceeded { total_replayed_events, max_total_replayed_events, location } =>
            format!("replay_limit {} {} {}", total_replayed_events, max_total_replayed_events, loc_code(location)),
        Error::InternalDepthUnderflow { location } => format!("depth_underflow {}", loc_code(location)),
        Error::MultipleDocuments { location, .. } => format!("multi_doc {}", loc_code(location)),
        Error::IOError { .. } => "io".to_string(),
        other => format!("other:{} {}", kind(other), loc(other)),
    }
}
